#!/usr/bin/env python3
"""Run the Kani harnesses of /verif/kani/crate against a scratch copy of the repo's current working tree.

  python3 /verif/kani/run_kani.py --props C12[,C13] [--tier quick|thorough] [--harness NAME ...]
                                  [--jobs N] --out <json path>

Repo: $VERIF_REPO (default /repo), overridable with --repo.  Never written to.

Selection: harnesses whose `props` intersect --props (all if --props is omitted), restricted to tier=quick
for `--tier quick` (default) and to quick+thorough for `--tier thorough`; `--harness` restricts further to
the named harnesses (and then ignores the tier, so a thorough harness can be run by name).

Build area: $VERIF_KANI_BUILD (default /verif/build/kani; nothing under /tmp or /var/tmp is used):
  ws-<hash of the repo path>/   the scratch workspace: rsync of the repo's working tree (without target/, .git/),
                                 shim/frost_core_verif_shim.rs appended to the COPY's frost-core/src/lib.rs, root
                                 Cargo.toml rewritten to members = ["frost-core", "verif-kani"], crate/ installed as
                                 verif-kani, .cargo/config.toml with [net] offline = true.  Refreshed (rsync) at the
                                 start of every invocation under an flock, kept between invocations as a cache.
  target/                        cargo target dir shared by all invocations (registry dependencies compile once).
`--fresh` uses a private temporary workspace + target dir under the build area instead and deletes both at the
end (also on failure / SIGINT / SIGTERM); `--clean` deletes the whole build area and exits.

Every selected harness runs as its own `cargo kani` process (process group) under a wall-clock cap
(quick 120 s, thorough 1800 s per harness), up to --jobs in parallel (default 12 quick / 4 thorough).

JSON (--out): {"harnesses": [ {name, status: "pass"|"fail"|"timeout"|"error", expect: "pass"|"fail",
        checks_total, checks_failed, failed_checks: [{description, location}], counterexample?,
        bounded: bool, bound: str, kind: "complete"|"bounded", wall_s, max_rss_mb, props, backs, tier, module,
        file, unwinding_failure: bool, only_negctl_failed: bool|null, cmd, detail?} ],
       "cmd": <this command line>, "error": null | <build / script-level error text>, "meta": {...}}
status: "pass" = VERIFICATION:- SUCCESSFUL; "fail" = VERIFICATION:- FAILED with at least one failed check that
is not an unwinding assertion (a definite verdict; `unwinding_failure` says whether unwinding assertions failed
as well); "timeout" = wall-clock cap hit; "error" = anything else (build error, reachable unsupported construct,
CBMC crash, out of memory, ONLY unwinding assertions failed = bound too small).
A harness whose status != expect is what the caller treats as a finding (expect=fail marks the negative
controls, which MUST fail).  For a "fail" of an expect=pass harness the harness is re-run with
`-Z concrete-playback --concrete-playback=print` and the generated unit test is stored in `counterexample`.
Exit code is 0 unless the script itself crashed.
"""
import argparse
import fcntl
import hashlib
import json
import os
import re
import resource
import shlex
import shutil
import signal
import subprocess
import sys
import tempfile
import threading
import time
from concurrent.futures import ThreadPoolExecutor

HERE = os.path.dirname(os.path.abspath(__file__))
CRATE = os.path.join(HERE, "crate")
SHIM = os.path.join(HERE, "shim", "frost_core_verif_shim.rs")
KANI_FLAGS = ["-Z", "stubbing"]
TIER_TIMEOUT = {"quick": 600, "thorough": 2400}  # wall-clock safety nets only: generous, so a loaded machine does not turn a pass into "did not finish"
TIMEOUT_OVERRIDE = None
PLAYBACK_CONTROLS = False
TARGET_DIR_ARGS = []
BUILD_BASE = os.environ.get("VERIF_KANI_BUILD", "/verif/build/kani")
DEFAULT_REPO = os.environ.get("VERIF_REPO", "/repo")
META_RE = re.compile(r"^\s*//\s*@harness\s+(.*)$")

_scratch_to_delete = []
_children = set()


def parse_meta_line(text):
    d = {}
    for tok in shlex.split(text):
        if "=" in tok:
            k, v = tok.split("=", 1)
            d[k] = v
    return d


def discover():
    """Parse the `// @harness` lines of crate/src/*.rs.  Returns list of dicts (in file order)."""
    out = []
    src = os.path.join(CRATE, "src")
    for fn in sorted(os.listdir(src)):
        if not fn.endswith(".rs"):
            continue
        module = fn[:-3]
        with open(os.path.join(src, fn), encoding="utf-8") as f:
            lines = f.readlines()
        for i, line in enumerate(lines):
            m = META_RE.match(line)
            if not m:
                continue
            d = parse_meta_line(m.group(1))
            # the fn name must follow within a few lines -- check it matches
            fname = None
            for nxt in lines[i + 1 : i + 12]:
                mm = re.match(r"^\s*(?:pub\s+)?fn\s+([A-Za-z0-9_]+)\s*\(", nxt)
                if mm:
                    fname = mm.group(1)
                    break
            if fname is None or fname != d.get("name"):
                raise SystemExit(f"{fn}:{i+1}: @harness name={d.get('name')} does not match fn {fname}")
            h = {
                "name": d["name"],
                "module": module,
                "props": [p for p in d.get("props", "").split(",") if p],
                "kind": d.get("kind", "bounded"),
                "bound": d.get("bound", "-"),
                "tier": d.get("tier", "quick"),
                "backs": d.get("backs", ""),
                "expect": d.get("expect", "pass"),
                "timeout": int(d["timeout"]) if "timeout" in d else None,
                # text that every failed check of an expect=fail control must contain (default: "negctl")
                "failmsg": d.get("failmsg", "negctl"),
                "file": f"crate/src/{fn}:{i+1}",
            }
            if h["kind"] not in ("complete", "bounded") or h["tier"] not in ("quick", "thorough") or h[
                "expect"
            ] not in ("pass", "fail"):
                raise SystemExit(f"{fn}:{i+1}: bad @harness metadata {d}")
            out.append(h)
    names = [h["name"] for h in out]
    dup = {n for n in names if names.count(n) > 1}
    if dup:
        raise SystemExit(f"duplicate harness names: {dup}")
    return out


def select(all_h, props, tier, names):
    sel = all_h
    if props:
        ps = set(props)
        sel = [h for h in sel if ps & set(h["props"])]
    if names:
        unknown = set(names) - {h["name"] for h in all_h}
        if unknown:
            raise SystemExit(f"unknown harness name(s): {sorted(unknown)}")
        sel = sorted((h for h in sel if h["name"] in names), key=lambda h: names.index(h["name"]))
    elif tier == "quick":
        sel = [h for h in sel if h["tier"] == "quick"]
    return sel


def cleanup(*_a):
    for p in list(_children):
        try:
            os.killpg(p.pid, signal.SIGKILL)
        except Exception:
            pass
    while _scratch_to_delete:
        d = _scratch_to_delete.pop()
        shutil.rmtree(d, ignore_errors=True)


def _sig(signum, _frame):
    cleanup()
    sys.exit(128 + signum)


def _check_location(path, what, repo=None):
    real = os.path.realpath(path)
    repo_real = os.path.realpath(repo or DEFAULT_REPO)
    if real == repo_real or real.startswith(repo_real + "/") or real == "/repo" or real.startswith("/repo/"):
        raise SystemExit(f"{what} {real} must not be inside the repo")
    if (real == "/verif" or real.startswith("/verif/")) and not real.startswith("/verif/build/"):
        raise SystemExit(f"{what} {real}: inside /verif only /verif/build/ is allowed")


def make_scratch(repo, reuse=None, fresh=False):
    """Create (or refresh the sources of) the scratch workspace.  Returns its path."""
    if reuse:
        root = reuse
        os.makedirs(root, exist_ok=True)
    elif fresh:
        os.makedirs(BUILD_BASE, exist_ok=True)
        root = tempfile.mkdtemp(prefix="fresh-", dir=BUILD_BASE)
        _scratch_to_delete.append(root)
    else:
        os.makedirs(BUILD_BASE, exist_ok=True)
        key = hashlib.sha1(os.path.realpath(repo).encode()).hexdigest()[:10]
        root = os.path.join(BUILD_BASE, "ws-" + key)
        os.makedirs(root, exist_ok=True)
        # housekeeping (we hold the setup lock): drop cached workspaces whose source tree no longer exists
        # (temporary mutant / seeded-defect trees).  Their artifacts in the shared target dir stay until --clean;
        # use --fresh for throw-away trees if that matters.
        for d in os.listdir(BUILD_BASE):
            marker = os.path.join(BUILD_BASE, d, ".verif_repo_path")
            if d.startswith("ws-") and os.path.isfile(marker):
                try:
                    with open(marker) as f:
                        src = f.read().strip()
                    if src and not os.path.isdir(src):
                        shutil.rmtree(os.path.join(BUILD_BASE, d), ignore_errors=True)
                        shutil.rmtree(os.path.join(BUILD_BASE, "target-" + d[3:]), ignore_errors=True)
                except Exception:
                    pass
    _check_location(root, "scratch dir", repo)
    # 1. working-tree copy (no target/, no .git/)
    subprocess.run(
        ["rsync", "-a", "--delete", "--exclude", "/target", "--exclude", "/.git", "--exclude", "/verif-kani",
         "--exclude", "/.cargo", "--exclude", "/.verif_repo_path", "--exclude", "/Cargo.toml", "--exclude", "/frost-core/src/lib.rs",
         repo.rstrip("/") + "/", root + "/"],
        check=True,
    )

    def write_if_changed(path, text):
        try:
            with open(path, encoding="utf-8") as f:
                if f.read() == text:
                    return
        except FileNotFoundError:
            pass
        with open(path, "w", encoding="utf-8") as f:
            f.write(text)

    # 2. root manifest: same [workspace.*] tables, only the member list changes
    with open(os.path.join(repo, "Cargo.toml"), encoding="utf-8") as f:
        manifest = f.read()
    new, n = re.subn(r"(?ms)^members\s*=\s*\[.*?\]", 'members = ["frost-core", "verif-kani"]', manifest, count=1)
    if n != 1:
        raise SystemExit("could not rewrite workspace members in the scratch Cargo.toml")
    write_if_changed(os.path.join(root, "Cargo.toml"), new)
    # 3. shim appended to the COPY of frost-core/src/lib.rs
    with open(SHIM, encoding="utf-8") as f:
        shim = f.read()
    with open(os.path.join(repo, "frost-core", "src", "lib.rs"), encoding="utf-8") as f:
        lib_rs = f.read()
    write_if_changed(os.path.join(root, "frost-core", "src", "lib.rs"), lib_rs + "\n" + shim)
    # 4. harness crate
    dst = os.path.join(root, "verif-kani")
    subprocess.run(["rsync", "-a", "--delete", "--exclude", "/target", CRATE + "/", dst + "/"], check=True)
    with open(os.path.join(root, ".verif_repo_path"), "w", encoding="utf-8") as f:
        f.write(os.path.realpath(repo) + "\n")
    # 5. offline cargo config
    os.makedirs(os.path.join(root, ".cargo"), exist_ok=True)
    with open(os.path.join(root, ".cargo", "config.toml"), "w", encoding="utf-8") as f:
        f.write("[net]\noffline = true\n")
    return root


def kani_env():
    env = dict(os.environ)
    env["CARGO_NET_OFFLINE"] = "true"
    env.setdefault("CARGO_TERM_COLOR", "never")
    env["NO_COLOR"] = "1"
    return env


def _limits(mem_gb):
    def f():
        os.setsid()
        if mem_gb:
            b = int(mem_gb * (1 << 30))
            try:
                resource.setrlimit(resource.RLIMIT_AS, (b, b))
            except Exception:
                pass
    return f


def _session_rss_kb(sid):
    """Sum of the resident set sizes (kB) of all processes in session `sid` (read from /proc)."""
    total = 0
    page_kb = os.sysconf("SC_PAGE_SIZE") // 1024
    for d in os.listdir("/proc"):
        if not d.isdigit():
            continue
        try:
            with open(f"/proc/{d}/stat") as f:
                st = f.read()
            rest = st[st.rindex(")") + 2:].split()
            if int(rest[3]) == sid:  # field 6 of stat = session id
                total += int(rest[21]) * page_kb  # field 24 = rss in pages
        except Exception:
            continue
    return total


def run_cmd(cmd, cwd, timeout, mem_gb=None, rss_out=None):
    """Run cmd in its own session with a wall-clock cap.  Returns (rc|None on timeout, output, secs).
    If rss_out is a list, the peak summed RSS (MB) of the process tree, sampled once a second, is appended."""
    t0 = time.time()
    p = subprocess.Popen(cmd, cwd=cwd, env=kani_env(), stdout=subprocess.PIPE, stderr=subprocess.STDOUT,
                         text=True, errors="replace", preexec_fn=_limits(mem_gb))
    _children.add(p)
    peak = [0]
    stop = threading.Event()

    def sampler():
        while not stop.wait(1.0):
            peak[0] = max(peak[0], _session_rss_kb(p.pid))

    if rss_out is not None:
        threading.Thread(target=sampler, daemon=True).start()
    try:
        out, _ = p.communicate(timeout=timeout)
        rc = p.returncode
    except subprocess.TimeoutExpired:
        try:
            os.killpg(p.pid, signal.SIGKILL)
        except Exception:
            pass
        out, _ = p.communicate()
        rc = None
    finally:
        stop.set()
        if rss_out is not None:
            rss_out.append(peak[0] // 1024)
        _children.discard(p)
        try:
            os.killpg(p.pid, signal.SIGKILL)  # stray cbmc / solver children
        except Exception:
            pass
    return rc, out, time.time() - t0


ANSI = re.compile(r"\x1b\[[0-9;]*m")


def parse_kani_output(out):
    out = ANSI.sub("", out)
    r = {"verdict": None, "checks_total": None, "checks_failed": None, "failed_checks": [],
         "unwinding_failure": False, "unsupported": [], "verification_time_s": None}
    m = re.search(r"VERIFICATION:-\s*(SUCCESSFUL|FAILED)", out)
    if m:
        r["verdict"] = m.group(1)
    m = re.search(r"\*\*\s*(\d+) of (\d+) failed", out)
    if m:
        r["checks_failed"] = int(m.group(1))
        r["checks_total"] = int(m.group(2))
    for m in re.finditer(r"^Failed Checks:\s*(.*)\n(?:\s*File:\s*\"([^\"]*)\", line (\d+), in (.*)\n)?", out, re.M):
        desc = m.group(1).strip()
        loc = f"{m.group(2)}:{m.group(3)} in {m.group(4).strip()}" if m.group(2) else None
        r["failed_checks"].append({"description": desc, "location": loc})
    if re.search(r"unwinding assertion", out) and any(
        "unwinding assertion" in c["description"] for c in r["failed_checks"]
    ):
        r["unwinding_failure"] = True
    if "one or more unwinding failures" in out:
        r["unwinding_failure"] = True
    # a REACHABLE unsupported construct shows up as a failed check with this wording (the compile-time
    # warning "Found the following unsupported constructs" alone is harmless and ignored)
    for c in r["failed_checks"]:
        if re.search(r"not currently supported by Kani|unsupported_construct|Unsupported", c["description"]):
            r["unsupported"].append(c["description"][:300])
    m = re.search(r"Verification Time:\s*([0-9.]+)s", out)
    if m:
        r["verification_time_s"] = float(m.group(1))
    return r


def extract_playback(out):
    """Pull the generated unit test(s) out of `--concrete-playback=print` output."""
    out = ANSI.sub("", out)
    m = re.search(r"Concrete playback unit test for .*?```\n?(.*?)```", out, re.S)
    if m:
        return m.group(1).strip()
    m = re.search(r"(#\[test\]\s*fn kani_concrete_playback.*?\n\})", out, re.S)
    return m.group(1).strip() if m else None


def harness_cmd(h, timeout, extra=()):
    # --exact + fully qualified name: harness names that are substrings of each other do not collide
    return ["cargo", "kani", "-p", "verif-kani"] + KANI_FLAGS + TARGET_DIR_ARGS + list(extra) + [
        "--output-format", "terse", "--exact", "--harness", f"{h['module']}::{h['name']}"]


def run_harness(h, root, tier, mem_gb, playback, log_dir):
    timeout = (TIMEOUT_OVERRIDE or h["timeout"]
               or TIER_TIMEOUT["thorough" if (tier == "thorough" or h["tier"] == "thorough") else "quick"])
    cmd = harness_cmd(h, timeout)
    rss = []
    rc, out, secs = run_cmd(cmd, root, timeout, mem_gb, rss_out=rss)
    res = {k: h[k] for k in ("name", "module", "props", "kind", "bound", "backs", "tier", "expect", "file")}
    res["cmd"] = "CARGO_NET_OFFLINE=true timeout %d %s" % (timeout, " ".join(shlex.quote(c) for c in cmd))
    res["time_s"] = round(secs, 1)
    res["wall_s"] = res["time_s"]
    res["timeout_s"] = timeout
    res["bounded"] = h["kind"] != "complete"
    res["max_rss_mb"] = rss[0] if rss else None  # peak summed RSS of the process tree, 1 s sampling
    p = parse_kani_output(out)
    res["checks_total"] = p["checks_total"]
    res["checks_failed"] = p["checks_failed"]
    res["failed_checks"] = p["failed_checks"]
    res["unwinding_failure"] = p["unwinding_failure"]
    res["only_negctl_failed"] = None
    if rc is None:
        res["status"] = "timeout"
        res["detail"] = f"killed after {timeout} s wall clock"
    elif p["verdict"] == "SUCCESSFUL" and rc == 0:
        res["status"] = "pass"
    elif (p["verdict"] == "FAILED" and p["failed_checks"]
          and all("unwinding assertion" in c["description"] for c in p["failed_checks"])):
        # only unwinding assertions failed: the harness's unwind bound is too small -> inconclusive, not a
        # verdict about the code
        res["status"] = "error"
        res["detail"] = "unwinding bound too small (only unwinding assertions failed)"
    elif p["verdict"] == "FAILED" and not p["unsupported"] and p["failed_checks"]:
        res["status"] = "fail"
        res["only_negctl_failed"] = all(h["failmsg"] in c["description"] for c in p["failed_checks"])
    elif p["verdict"] == "FAILED" and p["unsupported"]:
        # reachable unsupported construct: Kani reports FAILED but it is not a verdict about the property
        res["status"] = "error"
        res["detail"] = "unsupported construct reachable: " + "; ".join(p["unsupported"][:3])
    else:
        res["status"] = "error"
        tail = ANSI.sub("", out)[-1500:]
        oom = bool(re.search(r"bad_alloc|out of memory|Out of memory|run out of memory|memory exhausted|SIGKILL|signal: 9", out))
        res["detail"] = ("out of memory? " if oom else "") + f"rc={rc}; output tail: {tail}"
    if log_dir:
        os.makedirs(log_dir, exist_ok=True)
        with open(os.path.join(log_dir, h["name"] + ".log"), "w", encoding="utf-8") as f:
            f.write(out)
    # counterexample for an unexpected failure (cheap: the harness just failed within `secs`)
    if (playback and res["status"] == "fail" and h["expect"] == "pass") or (PLAYBACK_CONTROLS and res["status"] == "fail"):
        cmd2 = harness_cmd(h, timeout, extra=["-Z", "concrete-playback", "--concrete-playback=print"])
        rc2, out2, _ = run_cmd(cmd2, root, max(60, min(timeout, int(3 * secs) + 60)), mem_gb)
        pb = extract_playback(out2) if rc2 is not None else None
        res["counterexample"] = pb if pb else "(concrete playback produced nothing)"
        res["counterexample_cmd"] = " ".join(shlex.quote(c) for c in cmd2)
    return res


def main():
    ap = argparse.ArgumentParser(description=__doc__, formatter_class=argparse.RawDescriptionHelpFormatter)
    ap.add_argument("--props", default="", help="comma-separated property ids (C02,C12,...); default: all")
    ap.add_argument("--tier", choices=["quick", "thorough"], default="quick")
    ap.add_argument("--harness", action="append", default=[], help="run only this harness (repeatable)")
    ap.add_argument("--jobs", type=int, default=0, help="parallel harness runs (default: 12 for quick, 4 for thorough)")
    ap.add_argument("--out", help="JSON result path")
    ap.add_argument("--repo", default=DEFAULT_REPO, help="repo working tree to copy (default: $VERIF_REPO or /repo)")
    ap.add_argument("--fresh", action="store_true", help="private temporary workspace + target dir, deleted at the end")
    ap.add_argument("--clean", action="store_true", help="delete the build area ($VERIF_KANI_BUILD) and exit")
    ap.add_argument("--list", action="store_true", help="print the selected harnesses as JSON and exit")
    ap.add_argument("--mem-gb", type=float, default=0.0,
                    help="address-space cap per harness process tree in GiB (0 = none; the wall-clock cap always applies)")
    ap.add_argument("--no-playback", action="store_true", help="do not re-run failed expect=pass harnesses for a counterexample")
    ap.add_argument("--target-dir", help="cargo target dir (default: $VERIF_KANI_BUILD/target, shared between invocations; "
                    "with --fresh or --scratch: inside the workspace)")
    ap.add_argument("--playback-controls", action="store_true",
                    help="also fetch a counterexample for failing expect=fail controls (debugging aid)")
    ap.add_argument("--scratch", help="(development) use/keep this scratch directory instead of a fresh temporary one")
    ap.add_argument("--log-dir", help="keep raw Kani output per harness in this directory")
    ap.add_argument("--timeout", type=int, default=0, help="(development) override the per-harness wall-clock cap, seconds")
    ap.add_argument("--build-only", action="store_true", help="make the scratch copy and pre-build, run nothing (for `check --setup`)")
    args = ap.parse_args()

    global TIMEOUT_OVERRIDE, PLAYBACK_CONTROLS, TARGET_DIR_ARGS
    if args.clean:
        _check_location(BUILD_BASE, "build area")
        shutil.rmtree(BUILD_BASE, ignore_errors=True)
        return 0
    if not args.jobs:
        args.jobs = 12 if (args.tier == "quick" and not args.harness) else 4
    # one target dir PER source tree: Kani's goto artifacts are keyed by crate and harness name only, so a target dir shared between
    # different trees (the driver checks many mutated copies) hands a stale binary of another tree to an up-to-date build
    _tkey = hashlib.sha1(os.path.realpath(args.repo).encode()).hexdigest()[:10]
    td = args.target_dir or (None if (args.fresh or args.scratch) else os.path.join(BUILD_BASE, "target-" + _tkey))
    if td:
        _check_location(td, "target dir")
        TARGET_DIR_ARGS = ["--target-dir", os.path.realpath(td)]
    PLAYBACK_CONTROLS = args.playback_controls
    TIMEOUT_OVERRIDE = args.timeout or None
    props = [p.strip() for p in args.props.split(",") if p.strip()]
    all_h = discover()
    sel = select(all_h, props, args.tier, args.harness)
    if args.list:
        json.dump(sel, sys.stdout, indent=1)
        print()
        return 0
    if not args.out and not args.build_only:
        ap.error("--out is required")

    signal.signal(signal.SIGTERM, _sig)
    signal.signal(signal.SIGINT, _sig)
    t_start = time.time()
    meta = {"tool": "kani", "tier": args.tier, "props": props, "jobs": args.jobs, "repo": args.repo,
            "selected": [h["name"] for h in sel]}
    results = []
    top_error = None
    try:
        try:
            meta["kani_version"] = subprocess.run(["cargo", "kani", "--version"], capture_output=True, text=True,
                                                  env=kani_env()).stdout.strip().replace("\n", "; ")
        except Exception as e:  # noqa
            meta["kani_version"] = f"unknown ({e})"
        if sel or args.build_only:
            lock_f = None
            if not args.fresh and not args.scratch:
                os.makedirs(BUILD_BASE, exist_ok=True)
                lock_f = open(os.path.join(BUILD_BASE, "setup.lock"), "w")
                fcntl.flock(lock_f, fcntl.LOCK_EX)  # workspace refresh + pre-build are serialised
            root = make_scratch(args.repo, args.scratch, args.fresh)
            meta["scratch"] = root
            # pre-build once so that the parallel runs do not each pay (and serialise on) the compilation
            # (dependencies + frost-core are compiled here; each harness run then only re-generates the small
            # harness crate for its own harness, ~1-3 s).  With a selection, only the first selected harness is
            # code-generated in the pre-build; `--build-only` code-generates all of them.
            cmd = ["cargo", "kani", "-p", "verif-kani"] + KANI_FLAGS + TARGET_DIR_ARGS + ["--only-codegen"]
            if sel and not args.build_only:
                cmd += ["--exact", "--harness", f"{sel[0]['module']}::{sel[0]['name']}"]
            rc, out, secs = run_cmd(cmd, root, 1800)
            meta["build"] = {"cmd": " ".join(cmd), "rc": rc, "time_s": round(secs, 1)}
            if lock_f:
                fcntl.flock(lock_f, fcntl.LOCK_UN)
                lock_f.close()
            if rc != 0:
                meta["build"]["output_tail"] = ANSI.sub("", out)[-6000:]
                top_error = "harness crate failed to build: " + ANSI.sub("", out)[-3000:]
                for h in sel:
                    r = {k: h[k] for k in ("name", "module", "props", "kind", "bound", "backs", "tier", "expect", "file")}
                    r.update(status="error", detail="harness crate failed to build (see meta.build)", checks_total=None,
                             checks_failed=None, failed_checks=[], unwinding_failure=False, only_negctl_failed=None,
                             time_s=0.0, wall_s=0.0, max_rss_mb=None, bounded=h["kind"] != "complete", cmd=" ".join(cmd))
                    results.append(r)
                sel = []
            if not args.build_only:
                with ThreadPoolExecutor(max_workers=max(1, args.jobs)) as ex:
                    futs = [ex.submit(run_harness, h, root, args.tier, args.mem_gb or None, not args.no_playback,
                                      args.log_dir) for h in sel]
                    for f in futs:
                        results.append(f.result())
    finally:
        cleanup()
    meta["wall_s"] = round(time.time() - t_start, 1)
    meta["summary"] = {
        "total": len(results),
        "as_expected": sum(1 for r in results if r["status"] == r["expect"]),
        "unexpected": [r["name"] for r in results if r["status"] != r["expect"]],
    }
    if args.out:
        os.makedirs(os.path.dirname(os.path.abspath(args.out)) or ".", exist_ok=True)
        with open(args.out, "w", encoding="utf-8") as f:
            json.dump({"harnesses": results, "cmd": " ".join(shlex.quote(a) for a in [sys.executable] + sys.argv),
                       "error": top_error, "meta": meta}, f, indent=1)
    for r in results:
        flag = "ok " if r["status"] == r["expect"] else "!! "
        print(f"{flag}{r['name']:<44} {r['status']:<8} expect={r['expect']:<5} {r['time_s']:>7.1f}s "
              f"checks={r['checks_failed']}/{r['checks_total']}")
    return 0


if __name__ == "__main__":
    sys.exit(main())
