
// ---- appended by /verif/kani/run_kani.py to the SCRATCH COPY of frost-core/src/lib.rs (never to /repo) ----
// Re-exports of crate-private items that the Kani harness crate needs.  Exists only under cfg(kani).
// Contains no logic of its own beyond field projections and direct calls.
#[cfg(kani)]
#[allow(missing_docs)]
#[allow(clippy::all)]
pub mod __verif {
    use crate::scalar_mul::{NonAdjacentForm, VartimeMultiscalarMul};
    use crate::serialization::{SerializableElement, SerializableScalar};
    use crate::{Ciphersuite, Element, Error, Scalar};
    use alloc::vec::Vec;

    /// `scalar_mul::NonAdjacentForm::non_adjacent_form` (module `scalar_mul` is private), called the way
    /// `optional_multiscalar_mul` calls it.
    pub fn non_adjacent_form<C: Ciphersuite>(s: &Scalar<C>, w: usize) -> Vec<i8> {
        NonAdjacentForm::<C>::non_adjacent_form(s, w)
    }

    /// `scalar_mul::VartimeMultiscalarMul::vartime_multiscalar_mul`, called the way
    /// `compute_group_commitment` (lib.rs:533) calls it: two owned `Vec`s.
    pub fn vartime_multiscalar_mul<C: Ciphersuite>(
        scalars: Vec<Scalar<C>>,
        elements: Vec<Element<C>>,
    ) -> Element<C> {
        VartimeMultiscalarMul::<C>::vartime_multiscalar_mul(scalars, elements)
    }

    /// `scalar_mul::VartimeMultiscalarMul::optional_multiscalar_mul`.
    pub fn optional_multiscalar_mul<C: Ciphersuite>(
        scalars: Vec<Scalar<C>>,
        elements: Vec<Option<Element<C>>>,
    ) -> Option<Element<C>> {
        <Element<C> as VartimeMultiscalarMul<C>>::optional_multiscalar_mul(scalars, elements)
    }

    /// `keys::generate_coefficients` (pub(crate) even with feature "internals").
    pub fn generate_coefficients<C: Ciphersuite, R: rand_core::CryptoRng>(
        size: usize,
        rng: &mut R,
    ) -> Vec<Scalar<C>> {
        crate::keys::generate_coefficients::<C, R>(size, rng)
    }

    /// `SerializableElement::deserialize` (type is pub(crate)).
    pub fn element_deserialize<C: Ciphersuite>(bytes: &[u8]) -> Result<Element<C>, Error<C>> {
        SerializableElement::<C>::deserialize(bytes).map(|e| e.0)
    }

    /// `SerializableElement::serialize`.
    pub fn element_serialize<C: Ciphersuite>(e: &Element<C>) -> Result<Vec<u8>, Error<C>> {
        SerializableElement::<C>(*e).serialize()
    }

    /// `round2::SignatureShare::new` (pub(crate)).
    pub fn signature_share_new<C: Ciphersuite>(s: Scalar<C>) -> crate::round2::SignatureShare<C> {
        crate::round2::SignatureShare::<C>::new(s)
    }

    /// `round2::SignatureShare::to_scalar` (pub(crate)).
    pub fn signature_share_scalar<C: Ciphersuite>(s: &crate::round2::SignatureShare<C>) -> Scalar<C> {
        s.to_scalar()
    }

    /// Raw parts (ptr, len, capacity) of the private coefficient vector of `dkg::round1::SecretPackage`.
    pub fn dkg_r1_secret_coeffs_raw<C: Ciphersuite>(
        p: &crate::keys::dkg::round1::SecretPackage<C>,
    ) -> (*const SerializableScalar<C>, usize, usize) {
        (
            p.coefficients.as_ptr(),
            p.coefficients.len(),
            p.coefficients.capacity(),
        )
    }

    /// Field projection: `SigningKey.scalar` by reference (the public `to_scalar` consumes the key).
    pub fn signing_key_scalar<C: Ciphersuite>(k: &crate::SigningKey<C>) -> Scalar<C> {
        k.scalar
    }

    /// `Nonce::nonce_generate_from_random_bytes` (pub(crate)).
    pub fn nonce_from_random_bytes<C: Ciphersuite>(
        secret: &crate::keys::SigningShare<C>,
        random_bytes: [u8; 32],
    ) -> crate::round1::Nonce<C> {
        crate::round1::Nonce::<C>::nonce_generate_from_random_bytes(secret, random_bytes)
    }
}
