"""Verus unit `frost_rerandomized` (property C17): frost-rerandomized/src/lib.rs on top of the frost-core unit.

The generated file = everything the `frost_core` unit contains (same header, prelude, traits prelude + E10 hook declarations,
the same frost-core modules with the same sidecar contracts) PLUS one module `rerandomized` extracted mechanically from
$VERIF_REPO/frost-rerandomized/src/lib.rs.  frost-rerandomized depends on frost-core as an external crate; here both live in
ONE Verus crate (Verus is single-file), so

  * every frost-core function whose sidecar block says `mode verified` is emitted `assumed` in THIS unit (`assume_prefixes`,
    rule E9): the rerandomized code sees the frost-core CONTRACTS (character-identical text, verified in unit `frost_core`),
    never the bodies;
  * the frost-core property theorems (lemmas/vprops_*.rs) are not part of this unit; its postlude is lemmas/vprops_rerand.rs.

What the extraction of frost-rerandomized/src/lib.rs rewrites (`path_rewrites`, rule E0.path_rewrite, counted in the evidence):
  * `pub use frost_core;`              -> removed (re-export of the dependency crate; there is no such crate inside the unit)
  * `frost_core::`                     -> `crate::`   (use declarations and the qualified paths `frost_core::Signature<C>`,
                                                       `frost_core::VerifyingKey<C>`; the alias `self as frost` then names the unit root)
  * `alloc::`                          -> `std::`     (`alloc::vec![0; ns]`; `extern crate alloc` is dropped with the other external items)
What it drops (rules E0/E1/E2, as for the frost-core modules):
  * `#![no_std]`, `extern crate alloc`, external `use` lines (alloc, derive_getters, rand_core -> the prelude's `CryptoRng` model)
  * `#[cfg(any(test, feature = "test-impl"))] pub mod tests`
  * items under `#[cfg(feature = "serialization")]` / `#[cfg(feature = "serde")]`: `use frost_core::SigningPackage`, `use frost_core::serde`,
    the deprecated `Randomizer::new`, `Randomizer::from_randomizer_and_signing_package`, `RandomizedParams::new`
    (the SigningPackage-based randomizer derivation that needs the serde codec; NOT covered by C17's proof)
  * `#[deprecated]`, `#[allow]`, `cfg_attr(feature = "serde", ..)` attributes; derives other than Copy/Clone/PartialEq/Eq/Getters
  * the two manual `Debug` impls (replaced by opaque stubs outside `verus!`, E2)
The two trait definitions of the file (`Randomize<C>`, `RandomizedCiphersuite`) have no default bodies and are emitted as they
stand (rule E14); `RandomizedCiphersuite::hash_randomizer` gets its hook contract from contracts/rerandomized.vc.
"""
import os
import importlib.util

VERIF = os.path.dirname(os.path.dirname(os.path.abspath(__file__)))
REPO = os.environ.get('VERIF_REPO', '/repo')

_spec = importlib.util.spec_from_file_location('unitcfg_frost_core_base', os.path.join(VERIF, 'units', 'frost_core.py'))
_base = importlib.util.module_from_spec(_spec)
_spec.loader.exec_module(_base)

CFG = dict(_base.CFG)
CFG.update(
    name='frost_rerandomized',
    prelude_files=list(_base.CFG['prelude_files']) + ['lemmas/vspec_rerand.rs'],
    postlude_files=['lemmas/vprops_rerand.rs'],
    prelude_modules=dict(_base.CFG['prelude_modules'], vspec_rerand=None),
    modules=list(_base.CFG['modules']) + [
        ('rerandomized', 'lib.rs', dict(
            root=os.path.join(REPO, 'frost-rerandomized/src'),
            repo_prefix='frost-rerandomized/src',
            path_rewrites=[(r'\bpub\s+use\s+frost_core\s*;', ''), (r'\bfrost_core::', 'crate::'), (r'\balloc::', 'std::')],
        )),
    ],
    # E9: frost-core is verified in unit `frost_core`; here its contracts are assumed
    assume_prefixes=('frost-core/src',),
    # names the rerandomized contracts and lemmas use (glob-imported into every module through `crate::vprel`)
    vprel_extra='    pub use crate::vspec_rerand::*; pub use crate::rerandomized::{Randomizer, RandomizedParams, RandomizedCiphersuite, Randomize};',
)
