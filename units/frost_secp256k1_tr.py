"""Unit `frost_secp256k1_tr`: everything of the frost_core unit (same prelude, same frost-core modules and contracts) WITHOUT the
default-world axiom, plus the module `secp256k1_tr` extracted from frost-secp256k1-tr/src/lib.rs."""
import copy
import importlib.util
import os

VERIF = os.path.dirname(os.path.dirname(os.path.abspath(__file__)))
REPO = os.environ.get('VERIF_REPO', '/repo')

_spec = importlib.util.spec_from_file_location('unitcfg_frost_core_base', os.path.join(VERIF, 'units', 'frost_core.py'))
_mod = importlib.util.module_from_spec(_spec)
_spec.loader.exec_module(_mod)

CFG = copy.deepcopy(_mod.CFG)
CFG.update(
    name='frost_secp256k1_tr',
    postlude_files=[],
    # The Taproot suite overrides eleven hooks, so `default_world::<C>()` is FALSE for it: in this unit nothing may assume it.
    # `use_id_order` (injected at the entry of every verified function) keeps only the identifier-order facts, and the axiom is not emitted.
    prelude_rewrites=[
        ('lemmas/vspec.rs', '        default_world::<C>(),\n', ''),
        ('lemmas/vspec.rs', '    ax_default_world::<C>();\n', ''),
        ('lemmas/vworld.rs', 'pub axiom fn ax_default_world<C: Ciphersuite>()\n    ensures default_world::<C>();', ''),
        # Verus crashes (rustc ICE "escaping bound vars") on ANY impl whose associated type has to satisfy a higher-ranked bound, so the
        # concrete suite cannot be declared with it; the only users of the bound are the two byte-slice -> Serialization conversions of
        # serialization.rs (verified in the frost_core unit, assumed here: `force_assumed`)
        ('prelude/traits.rs', "type Serialization: Clone + Bytes + for<'a> TryFrom<&'a [u8]> + Debug;", 'type Serialization: Clone + Bytes + Debug;', 2),
    ],
)

TR_FILE = 'frost-secp256k1-tr/src/lib.rs'
TR_TYPE = 'crate::secp256k1_tr::Secp256K1Sha256TR'
# names the dropped external `use` lines of the Taproot crate provided (k256 / sha2 / alloc / rand_core), taken from the model; NO glob
# import of the contract vocabulary (the crate defines its own `Identifier`, `Error`, `Signature`, ... aliases)
TR_USE = ('#[allow(unused_imports)] use vstd::prelude::*; #[allow(unused_imports)] use std::borrow::Cow; '
          '#[allow(unused_imports)] use std::collections::BTreeMap; #[allow(unused_imports)] use std::vec::Vec; '
          '#[allow(unused_imports)] use crate::k256_model::{AffinePoint, ProjectivePoint, Scalar, Sha256, U256, FieldBytes}; '
          '#[allow(unused_imports)] use crate::traits::CryptoRng; #[allow(unused_imports)] use crate::vstdx::cow_ref; #[allow(unused_imports)] use vstd::string::StringSliceAdditionalSpecFns; #[allow(unused_imports)] use vstd::std_specs::iter::IteratorSpec; '
          '#[allow(unused_imports)] use vstd::std_specs::cmp::*; #[allow(unused_imports)] use vstd::std_specs::ops::*; #[allow(unused_imports)] use vstd::std_specs::convert::*;')
TR_HINTS = ('broadcast use crate::vstdx::group_cow;\nbroadcast use crate::k256_model::ax_choice_not;\n'
            'proof { crate::vspec::use_algebra::<%s>(); crate::vspec::use_id_order::<%s>(); }\n' % (TR_TYPE, TR_TYPE))

# the module from the OTHER crate root (module entry with options, see extract.py `module_entry`): paths re-rooted into the one Verus crate
CFG['modules'] = list(CFG['modules']) + [
    ('secp256k1_tr', 'lib.rs', dict(
        root=os.path.join(REPO, 'frost-secp256k1-tr/src'),
        repo_prefix='frost-secp256k1-tr/src',
        path_rewrites=[(r'\bcrate::', 'crate::secp256k1_tr::'), (r'\bfrost_core::', 'crate::'),
                       (r'\bconst (\w+): &str\b', r"const \1: &'static str")],     # verus! needs the lifetime of a const reference spelled out
        use=TR_USE, entry_hints=TR_HINTS,
    )),
]
CFG['drop_trait_impls'] = [r'^RandomizedCiphersuite$']       # frost-rerandomized is a different unit (C17)
# bodies that use k256 / sha2 / hash2curve APIs outside prelude/k256_model.rs: emitted as signature + assumed contract only
CFG['elide_body'] = [r' :: Field for Secp256K1ScalarField :: ', r' :: Group for Secp256K1Group :: ', r' :: hash_to_array$', r' :: hash_to_scalar$',
                     r' :: Ciphersuite for Secp256K1Sha256TR :: (H1|H3|H4|H5|HDKG|HID)$']
CFG['contract_dirs'] = CFG['contract_dirs'] + [os.path.join(VERIF, 'contracts_tr')]
CFG['prelude_files'] = CFG['prelude_files'] + ['prelude/k256_model.rs', 'lemmas/vspec_w.rs', 'lemmas/vspec_tr.rs', 'lemmas/vworld_tr.rs']
CFG['prelude_modules'] = dict(CFG['prelude_modules'], k256_model=None, vspec_w=None, vspec_tr=None, vworld_tr=None)
CFG['postlude_files'] = ['lemmas/vprops_tr.rs']
# the Taproot file is EXTRACTED AND VERIFIED in this unit (its assumed functions are locked one by one, contracts/trusted_text.lock.json)
CFG['trusted_files'] = {k: [p for p in v if p != 'C18'] for k, v in CFG.get('trusted_files', {}).items()}
# frost-secp256k1-tr depends on frost-rerandomized, which enables frost-core's `internals` feature (cargo unifies features): the
# `#[cfg(feature = "internals")]` constructors (Signature::new, GroupCommitment::from_element, BindingFactorList::new) exist in this build
CFG['features'] = ['internals']
CFG['force_assumed'] = [r'serialization\.rs :: Serializable(Scalar|Element)<C> :: deserialize$']
CFG['elide_body'] += CFG['force_assumed']

# ---- world-dependent frost-core contracts -----------------------------------------------------------------------------------
# Found by verifying the frost-core modules in THIS unit, i.e. without `default_world`: exactly the clauses below fail (their proofs go
# through a hook call whose result only the default world pins down).  They are FALSE for the Taproot suite and are not emitted here;
# the functions C18 needs get world-generic replacement blocks in contracts_tr/*.vc (phrased over the hook spec functions), the others
# keep their remaining clauses.  `dev/world_check.py` re-derives the list.
K = 'frost-core/src/'
CFG['strip_clauses'] = {
    K + 'batch.rs :: Item<C> :: new': ['exact'],
    K + 'keys.rs :: split': ['value', 'p_dealer_output'],
    K + 'lib.rs :: aggregate_custom': ['exact', 'released_signatures_verify'],
    K + 'lib.rs :: aggregate': ['as_first_cheater'],
    K + 'lib.rs :: detect_cheater': ['challenge_error', 'none', 'first', 'all'],
    K + 'lib.rs :: verify_signature_share': '*',      # no world-generic block yet (one-entry BTreeMaps built inside): emitted WITHOUT contract, callers learn nothing
    K + 'lib.rs :: verify_signature_share_precomputed': ['valid', 'invalid'],
    K + 'round2.rs :: sign': ['value'],
    K + 'traits.rs :: Ciphersuite :: verify_signature': ['rfc'],
    K + 'verifying_key.rs :: VerifyingKey<C> :: verify': ['exact'],
    # transitively (they rely on a stripped clause of a callee, or on the default encoding of the signature codec hooks):
    K + 'keys.rs :: generate_with_dealer': ['value', 'p_dealer_output'],
    K + 'signature.rs :: Signature<C> :: serialize': ['identity', 'value', 'length', 'p_identity_has_no_encoding', 'p_encoding'],
    K + 'signature.rs :: Signature<C> :: deserialize': ['wrong_length', 'bad_R', 'bad_z', 'value', 'p_rejects_everything_but_canonical_encodings', 'p_decodes_the_canonical_encoding'],
}
