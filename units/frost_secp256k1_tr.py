"""Unit `frost_secp256k1_tr`: everything of the frost_core unit (same prelude, same frost-core modules and contracts) WITHOUT the
default-world axiom, plus the module `secp256k1_tr` extracted from frost-secp256k1-tr/src/lib.rs."""
import copy
import importlib.util
import os

VERIF = os.path.dirname(os.path.dirname(os.path.abspath(__file__)))
REPO = os.environ.get('VERIF_REPO', '/repo')

_spec = importlib.util.spec_from_file_location('unitcfg_frost_core_base', os.path.join(VERIF, 'units', 'frost_core.py'))
_mod = importlib.util.module_from_spec(_spec)
_spec.loader.exec_module(_mod)

CFG = copy.deepcopy(_mod.CFG)
CFG.update(
    name='frost_secp256k1_tr',
    postlude_files=[],
    # The Taproot suite overrides eleven hooks, so `default_world::<C>()` is FALSE for it: in this unit nothing may assume it.
    # `use_id_order` (injected at the entry of every verified function) keeps only the identifier-order facts, and the axiom is not emitted.
    prelude_rewrites=[
        ('lemmas/vspec.rs', '        default_world::<C>(),\n', ''),
        ('lemmas/vspec.rs', '    ax_default_world::<C>();\n', ''),
        ('lemmas/vworld.rs', 'pub axiom fn ax_default_world<C: Ciphersuite>()\n    ensures default_world::<C>();', ''),
    ],
)
