// lemmas/vspec_w.rs -- WORLD-GENERIC specification of the frost-core functions whose behaviour depends on the optional `Ciphersuite`
// hooks (round2::sign, share verification, cheater detection, aggregation, verification, batch items).  Each function below threads the
// abstract trait-level hook spec functions (`C::spec_pre_sign`, `C::spec_hook_challenge`, `C::spec_hook_sig_share`,
// `C::spec_hook_verify_share`, `C::spec_pre_aggregate`, `C::spec_hook_verify_signature`, ...) through the computation exactly as the
// code calls the hooks, so the contracts phrased with them (contracts_tr/core_generic.vc) hold for EVERY suite -- default or Taproot -- and
// are verified WITHOUT any world axiom.  Written from RFC 9591 sections 5.2 / 5.3 plus the order of the implementation's refusals.
pub mod vspec_w {
#[allow(unused_imports)] use vstd::prelude::*;
#[allow(unused_imports)] use std::collections::BTreeMap;
#[allow(unused_imports)] use crate::traits::*;
#[allow(unused_imports)] use crate::*;
#[allow(unused_imports)] use crate::vspec::*;
#[allow(unused_imports)] use crate::keys::*;
#[allow(unused_imports)] use crate::batch::Item;
verus! {
//@module_serves C18 C19

// The two `pre_commitment_*` hooks receive the binding factor list (a BTreeMap, which has no spec-level constructor); no suite in the
// workspace overrides them.  The signing contracts are stated for suites that leave them alone:
pub open spec fn commitment_hooks_unused<C: Ciphersuite>() -> bool {
    &&& forall|a: SigningPackage<C>, b: crate::round1::SigningNonces<C>, l: BindingFactorList<C>| #[trigger] C::spec_pre_commitment_sign(a, b, l) == Ok::<(SigningPackage<C>, crate::round1::SigningNonces<C>), Error<C>>((a, b))
    &&& forall|a: SigningPackage<C>, l: BindingFactorList<C>| #[trigger] C::spec_pre_commitment_aggregate(a, l) == Ok::<SigningPackage<C>, Error<C>>(a)
}
// ... and for inputs on which the `pre_aggregate` hook keeps the signing package, the share map and the identifier set of the verifying
// shares (it may replace the group key and the verifying shares themselves: Taproot negates them)
pub open spec fn pre_aggregate_keeps_ids_at<C: Ciphersuite>(a: SigningPackage<C>, b: BTreeMap<Identifier<C>, crate::round2::SignatureShare<C>>, p: PublicKeyPackage<C>) -> bool {
    C::spec_pre_aggregate(a, b, p) is Ok ==> (C::spec_pre_aggregate(a, b, p)->Ok_0).0 == a && (C::spec_pre_aggregate(a, b, p)->Ok_0).1 == b
        && (C::spec_pre_aggregate(a, b, p)->Ok_0).2.verifying_shares@.dom() == p.verifying_shares@.dom()
}

// ---- RFC 9591 5.2 round two, with the hooks ----
pub open spec fn spec_sign_w<C: Ciphersuite>(sp0: SigningPackage<C>, sn0: crate::round1::SigningNonces<C>, kp0: KeyPackage<C>) -> Result<crate::round2::SignatureShare<C>, Error<C>> {
    if sp0.signing_commitments@.dom().len() < kp0.min_signers { Err(Error::IncorrectNumberOfCommitments) }
    else if !sp0.signing_commitments@.contains_key(kp0.identifier) { Err(Error::MissingCommitment) }
    else if sn0.commitments != sp0.signing_commitments@[kp0.identifier] { Err(Error::IncorrectCommitment) }
    else { match C::spec_pre_sign(sp0, sn0, kp0) {
        Err(e) => Err(e),
        Ok(t) => {
            let sp = t.0; let sn = t.1; let kp = t.2; let vk = kp.verifying_key.element.0;
            if vk == e0::<C>() || items_have_identity::<C>(sp_items::<C>(sp)) { Err(Error::GroupError(GroupError::InvalidIdentityElement)) }
            else if !sp.signing_commitments@.contains_key(kp.identifier) { Err(Error::UnknownIdentifier) }
            else { match C::spec_hook_challenge(sp_R::<C>(sp, vk), kp.verifying_key, sp.message@) {
                Err(e) => Err(e),
                Ok(c) => Ok(C::spec_hook_sig_share(GroupCommitment(sp_R::<C>(sp, vk)), sn, BindingFactor(sp_rho::<C>(sp, vk, kp.identifier)), sp_lambda::<C>(sp, kp.identifier), kp, Challenge(c))),
            } }
        },
    } }
}

// ---- RFC 9591 5.3 share verification, with the `verify_share` hook (gc = the group commitment the hook may look at) ----
pub open spec fn sp_commitment_share<C: Ciphersuite>(sp: SigningPackage<C>, bf: Map<Identifier<C>, BindingFactor<C>>, id: Identifier<C>) -> crate::round1::GroupCommitmentShare<C>
{ crate::round1::GroupCommitmentShare::<C>(eadd::<C>(sp.signing_commitments@[id].hiding.0.0, emul::<C>(sp.signing_commitments@[id].binding.0.0, bf[id].0))) }
pub open spec fn sp_share_ok_w<C: Ciphersuite>(sp: SigningPackage<C>, bf: Map<Identifier<C>, BindingFactor<C>>, gc: GroupCommitment<C>, id: Identifier<C>,
        share: crate::round2::SignatureShare<C>, y: VerifyingShare<C>, c: Challenge<C>) -> bool
{ C::spec_hook_verify_share(gc, share, id, sp_commitment_share::<C>(sp, bf, id), y, sp_lambda::<C>(sp, id), c) }

pub open spec fn spec_culprits_w<C: Ciphersuite>(keys: Seq<Identifier<C>>, sp: SigningPackage<C>, bf: Map<Identifier<C>, BindingFactor<C>>, gc: GroupCommitment<C>,
        shares: Map<Identifier<C>, crate::round2::SignatureShare<C>>, ys: Map<Identifier<C>, VerifyingShare<C>>, c: Challenge<C>, n: int) -> Seq<Identifier<C>> decreases n
{
    if n <= 0 { Seq::empty() } else {
        let r = spec_culprits_w::<C>(keys, sp, bf, gc, shares, ys, c, n - 1);
        if sp_share_ok_w::<C>(sp, bf, gc, keys[n - 1], shares[keys[n - 1]], ys[keys[n - 1]], c) { r } else { r.push(keys[n - 1]) }
    }
}
pub proof fn lemma_culprits_prefix_w<C: Ciphersuite>(keys: Seq<Identifier<C>>, sp: SigningPackage<C>, bf: Map<Identifier<C>, BindingFactor<C>>, gc: GroupCommitment<C>,
        shares: Map<Identifier<C>, crate::round2::SignatureShare<C>>, ys: Map<Identifier<C>, VerifyingShare<C>>, c: Challenge<C>, m: int, n: int)
    requires 0 <= m <= n
    ensures spec_culprits_w::<C>(keys, sp, bf, gc, shares, ys, c, m).is_prefix_of(spec_culprits_w::<C>(keys, sp, bf, gc, shares, ys, c, n))
    decreases n - m
{
    if m < n {
        lemma_culprits_prefix_w::<C>(keys, sp, bf, gc, shares, ys, c, m, n - 1);
        let a = spec_culprits_w::<C>(keys, sp, bf, gc, shares, ys, c, m); let b = spec_culprits_w::<C>(keys, sp, bf, gc, shares, ys, c, n - 1); let d = spec_culprits_w::<C>(keys, sp, bf, gc, shares, ys, c, n);
        assert(b.is_prefix_of(d)) by { assert(d =~= b || d =~= b.push(keys[n - 1])); }
        assert(a.is_prefix_of(d)) by { assert(a.len() <= b.len() <= d.len()); assert forall|i: int| 0 <= i < a.len() implies a[i] == d[i] by { assert(a[i] == b[i]); assert(b[i] == d[i]); } }
    }
}
pub proof fn lemma_culprits_empty_w<C: Ciphersuite>(keys: Seq<Identifier<C>>, sp: SigningPackage<C>, bf: Map<Identifier<C>, BindingFactor<C>>, gc: GroupCommitment<C>,
        shares: Map<Identifier<C>, crate::round2::SignatureShare<C>>, ys: Map<Identifier<C>, VerifyingShare<C>>, c: Challenge<C>, n: int)
    requires 0 <= n <= keys.len(), forall|k: int| 0 <= k < n ==> sp_share_ok_w::<C>(sp, bf, gc, #[trigger] keys[k], shares[keys[k]], ys[keys[k]], c)
    ensures spec_culprits_w::<C>(keys, sp, bf, gc, shares, ys, c, n).len() == 0
    decreases n
{ if n > 0 { lemma_culprits_empty_w::<C>(keys, sp, bf, gc, shares, ys, c, n - 1); } }

// every submitted share belongs to a participant with a verifying share, a commitment and a binding factor (what the coordinator's guards establish)
pub open spec fn detect_known<C: Ciphersuite>(pk: PublicKeyPackage<C>, sp: SigningPackage<C>, shares: Map<Identifier<C>, crate::round2::SignatureShare<C>>, bf: Map<Identifier<C>, BindingFactor<C>>) -> bool {
    forall|id: Identifier<C>| #[trigger] shares.contains_key(id) ==> pk.verifying_shares@.contains_key(id) && sp.signing_commitments@.contains_key(id) && bf.contains_key(id)
}
// what detect_cheater returns (it is only reached after the aggregate failed to verify, and never returns Ok)
pub open spec fn detect_cheater_is_w<C: Ciphersuite>(res: Result<(), Error<C>>, gc: GroupCommitment<C>, pk: PublicKeyPackage<C>, sp: SigningPackage<C>,
        shares: Map<Identifier<C>, crate::round2::SignatureShare<C>>, bf: Map<Identifier<C>, BindingFactor<C>>, first: bool) -> bool {
    res is Err && match C::spec_hook_challenge(gc.0, pk.verifying_key, sp.message@) {
        Err(e) => res->Err_0 == e,
        Ok(c) => {
            let cu = spec_culprits_w::<C>(sorted_seq(shares.dom()), sp, bf, gc, shares, pk.verifying_shares@, Challenge(c), shares.dom().len() as int);
            if cu.len() == 0 { res->Err_0 == Error::<C>::InvalidSignature }
            else if first { res->Err_0 is InvalidSignatureShare && (res->Err_0->culprits)@ == seq![cu[0]] }
            else { res->Err_0 is InvalidSignatureShare && (res->Err_0->culprits)@ == cu }
        },
    }
}

// ---- RFC 9591 5.3 aggregation, with the hooks ----
pub open spec fn agg_pre_guard_err<C: Ciphersuite>(sp: SigningPackage<C>, shares: Map<Identifier<C>, crate::round2::SignatureShare<C>>, pk: PublicKeyPackage<C>, detect: bool) -> Option<Error<C>> {
    if sp.signing_commitments@.dom().len() != shares.dom().len() { Some(Error::UnknownIdentifier) }
    else if pk.min_signers is Some && shares.dom().len() < pk.min_signers->Some_0 { Some(Error::IncorrectNumberOfShares) }
    else if exists|id: Identifier<C>| #[trigger] sp.signing_commitments@.contains_key(id) && !(shares.contains_key(id) && (detect ==> pk.verifying_shares@.contains_key(id)))
        { Some(Error::UnknownIdentifier) }
    else { None }
}
pub open spec fn agg_result_is_w<C: Ciphersuite>(res: Result<Signature<C>, Error<C>>, sp0: SigningPackage<C>, shares0: BTreeMap<Identifier<C>, crate::round2::SignatureShare<C>>,
        pk0: PublicKeyPackage<C>, detect: bool, first: bool) -> bool {
    if agg_pre_guard_err::<C>(sp0, shares0@, pk0, detect) is Some { res is Err && res->Err_0 == agg_pre_guard_err::<C>(sp0, shares0@, pk0, detect)->Some_0 }
    else { match C::spec_pre_aggregate(sp0, shares0, pk0) {
        Err(e) => res is Err && res->Err_0 == e,
        Ok(t) => {
            let sp = t.0; let shares = t.1@; let pk = t.2; let vk = pk.verifying_key.element.0;
            if vk == e0::<C>() || items_have_identity::<C>(sp_items::<C>(sp)) { res is Err && res->Err_0 == Error::<C>::GroupError(GroupError::InvalidIdentityElement) }
            else {
                let sig = agg_sig::<C>(sp, shares, vk);
                let ver = C::spec_hook_verify_signature(sp.message@, sig, pk.verifying_key);
                if ver is Ok { res == Ok::<Signature<C>, Error<C>>(sig) }
                else if !detect { res is Err && res->Err_0 == ver->Err_0 }
                else { detect_cheater_is_w::<C>(match res { Ok(_) => Ok(()), Err(e) => Err(e) }, GroupCommitment(sig.R), pk, sp, shares, sp_rho_map::<C>(sp, vk), first) }
            }
        },
    } }
}

// ---- verification and batch items, with the hooks ----
// VerifyingKey::verify forwards to the `verify_signature` hook
pub open spec fn spec_verify_w<C: Ciphersuite>(vk: VerifyingKey<C>, msg: Seq<u8>, sig: Signature<C>) -> Result<(), Error<C>> { C::spec_hook_verify_signature(msg, sig, vk) }
// batch::Item::new stores the OUTPUT of pre_verify (normalised signature and key) with the challenge computed from it
pub open spec fn spec_item_new_w<C: Ciphersuite>(vk: VerifyingKey<C>, sig: Signature<C>, msg: Seq<u8>) -> Result<Item<C>, Error<C>> {
    match C::spec_pre_verify(msg, sig, vk) {
        Err(e) => Err(e),
        Ok(t) => match C::spec_challenge(t.1.R, t.2, t.0) {
            Err(e) => Err(e),
            Ok(c) => Ok(Item::<C> { vk: t.2, sig: t.1, c: c }),
        },
    }
}

} // verus!
}
