// lemmas/vprops_codec.rs -- C12: round trip, canonicity and rejection of the fixed-size wire encodings.
//
// Part 1: theorems about the spec functions of lemmas/vspec_codec.rs (enc_X / dec_X), for ALL values and ALL byte strings of an
//         abstract ciphersuite.  They follow from the T4 axioms of prelude/traits.rs (ax_ser_len, ax_ser_deser,
//         ax_deser_canonical, ax_eser_len, ax_eser_deser, ax_edeser_canonical): canonicity of the *primitive* codecs is assumed
//         there (trusted base T4), what is proved here is that frost-core's framing preserves it and adds no second encoding.
// Part 2: `thm_*_clauses_exhaustive`: the antecedents of the named Err/Ok clauses of each deserialiser contract in
//         contracts/codec.vc partition the set of byte strings, i.e. the contract fixes `res is Ok <==> dec_X(bytes) is Some`.
// Part 3: executable compositions (`rt_*`, `canon_*`): Verus verifies, from the *contracts* of the repo functions alone, that
//         `deserialize(&serialize(x)) == Ok(x)` and `deserialize(b) == Ok(x) ==> serialize(x) == b` -- the property statement itself,
//         with the real function signatures.
pub mod vprops_codec {
#[allow(unused_imports)] use vstd::prelude::*;
#[allow(unused_imports)] use crate::traits::*;
#[allow(unused_imports)] use crate::vspec::*;
#[allow(unused_imports)] use crate::keys::*;
#[allow(unused_imports)] use crate::keys::repairable::{Delta, Sigma};
#[allow(unused_imports)] use crate::round1::{Nonce, NonceCommitment};
#[allow(unused_imports)] use crate::round2::SignatureShare;
#[allow(unused_imports)] use crate::serialization::*;
#[allow(unused_imports)] use crate::*;
verus! {
//@module_serves C12

// =====================================================================================================================
// Part 1 (a): round trip   dec(enc(x)) == Some(x)

pub proof fn thm_scalar_round_trip<C: Ciphersuite>(s: Scalar<C>)
    ensures dec_scalar::<C>(enc_scalar::<C>(s)) == Some(s), enc_scalar::<C>(s).len() == codec_ns::<C>()
{ FF::<C>::ax_ser_len(s); FF::<C>::ax_ser_deser(s); }

pub proof fn thm_element_round_trip<C: Ciphersuite>(e: Element<C>)
    requires e != e0::<C>()
    ensures enc_element::<C>(e) is Some, dec_element::<C>(enc_element::<C>(e)->Some_0) == Some(e),
        (enc_element::<C>(e)->Some_0).len() == codec_ne::<C>()
{ GG::<C>::ax_eser_len(e); GG::<C>::ax_eser_deser(e); }

// every valid identifier (non-zero scalar; `Identifier::new` admits no other) survives the round trip
pub proof fn thm_identifier_round_trip<C: Ciphersuite>(i: Identifier<C>)
    requires i.0.0 != s0::<C>()
    ensures dec_identifier::<C>(enc_identifier::<C>(i)) == Some(i)
{ thm_scalar_round_trip::<C>(i.0.0); }

pub proof fn thm_signing_key_round_trip<C: Ciphersuite>(k: SigningKey<C>)
    requires k.scalar != s0::<C>()
    ensures dec_signing_key::<C>(enc_signing_key::<C>(k)) == Some(k)
{ thm_scalar_round_trip::<C>(k.scalar); }

pub proof fn thm_verifying_key_round_trip<C: Ciphersuite>(k: VerifyingKey<C>)
    requires k.element.0 != e0::<C>()
    ensures enc_verifying_key::<C>(k) is Some, dec_verifying_key::<C>(enc_verifying_key::<C>(k)->Some_0) == Some(k)
{ thm_element_round_trip::<C>(k.element.0); }

pub proof fn thm_signature_round_trip<C: Ciphersuite>(sig: Signature<C>)
    requires sig.R != e0::<C>()
    ensures enc_signature::<C>(sig) is Some, dec_signature::<C>(enc_signature::<C>(sig)->Some_0) == Some(sig),
        (enc_signature::<C>(sig)->Some_0).len() == codec_ne::<C>() + codec_ns::<C>()
{
    let r = GG::<C>::spec_eser(sig.R); let z = FF::<C>::spec_ser(sig.z); let b = r + z;
    GG::<C>::ax_eser_len(sig.R); GG::<C>::ax_eser_deser(sig.R);
    FF::<C>::ax_ser_len(sig.z); FF::<C>::ax_ser_deser(sig.z);
    assert(sig_r_bytes::<C>(b) =~= r);
    assert(sig_z_bytes::<C>(b) =~= z);
}

// the scalar newtypes (SigningShare, Nonce, SignatureShare, Delta, Sigma: contracts `serialize == enc_scalar(inner)`,
// `deserialize == wrap(dec_scalar(bytes))`) and element newtypes (VerifyingShare, CoefficientCommitment, NonceCommitment)
pub proof fn thm_scalar_newtypes_round_trip<C: Ciphersuite>(s: Scalar<C>)
    ensures
        SigningShare::<C>(SerializableScalar(dec_scalar::<C>(enc_scalar::<C>(s))->Some_0)) == SigningShare::<C>(SerializableScalar(s)),
        Nonce::<C>(SerializableScalar(dec_scalar::<C>(enc_scalar::<C>(s))->Some_0)) == Nonce::<C>(SerializableScalar(s)),
        (SignatureShare::<C> { header: default_header::<C>(), share: SerializableScalar(dec_scalar::<C>(enc_scalar::<C>(s))->Some_0) })
            == (SignatureShare::<C> { header: default_header::<C>(), share: SerializableScalar(s) }),
        Delta::<C>(SerializableScalar(dec_scalar::<C>(enc_scalar::<C>(s))->Some_0)) == Delta::<C>(SerializableScalar(s)),
        Sigma::<C>(SerializableScalar(dec_scalar::<C>(enc_scalar::<C>(s))->Some_0)) == Sigma::<C>(SerializableScalar(s)),
{ thm_scalar_round_trip::<C>(s); }

pub proof fn thm_element_newtypes_round_trip<C: Ciphersuite>(e: Element<C>)
    requires e != e0::<C>()
    ensures
        VerifyingShare::<C>(SerializableElement(dec_element::<C>(enc_element::<C>(e)->Some_0)->Some_0)) == VerifyingShare::<C>(SerializableElement(e)),
        CoefficientCommitment::<C>(SerializableElement(dec_element::<C>(enc_element::<C>(e)->Some_0)->Some_0)) == CoefficientCommitment::<C>(SerializableElement(e)),
        NonceCommitment::<C>(SerializableElement(dec_element::<C>(enc_element::<C>(e)->Some_0)->Some_0)) == NonceCommitment::<C>(SerializableElement(e)),
{ thm_element_round_trip::<C>(e); }

// =====================================================================================================================
// Part 1 (b): canonicity   dec(b) == Some(x)  ==>  enc(x) == b      (hence no two byte strings denote the same value)

pub proof fn thm_scalar_canonical<C: Ciphersuite>(b: Seq<u8>)
    ensures dec_scalar::<C>(b) is Some ==> enc_scalar::<C>(dec_scalar::<C>(b)->Some_0) == b
{ FF::<C>::ax_deser_canonical(b); }

pub proof fn thm_element_canonical<C: Ciphersuite>(b: Seq<u8>)
    ensures dec_element::<C>(b) is Some ==> enc_element::<C>(dec_element::<C>(b)->Some_0) == Some(b)
{ GG::<C>::ax_edeser_canonical(b); }

pub proof fn thm_identifier_canonical<C: Ciphersuite>(b: Seq<u8>)
    ensures dec_identifier::<C>(b) is Some ==> enc_identifier::<C>(dec_identifier::<C>(b)->Some_0) == b
{ thm_scalar_canonical::<C>(b); }

pub proof fn thm_signing_key_canonical<C: Ciphersuite>(b: Seq<u8>)
    ensures dec_signing_key::<C>(b) is Some ==> enc_signing_key::<C>(dec_signing_key::<C>(b)->Some_0) == b
{ thm_scalar_canonical::<C>(b); }

pub proof fn thm_verifying_key_canonical<C: Ciphersuite>(b: Seq<u8>)
    ensures dec_verifying_key::<C>(b) is Some ==> enc_verifying_key::<C>(dec_verifying_key::<C>(b)->Some_0) == Some(b)
{ thm_element_canonical::<C>(b); }

pub proof fn thm_signature_canonical<C: Ciphersuite>(b: Seq<u8>)
    ensures dec_signature::<C>(b) is Some ==> enc_signature::<C>(dec_signature::<C>(b)->Some_0) == Some(b)
{
    if dec_signature::<C>(b) is Some {
        let rb = sig_r_bytes::<C>(b); let zb = sig_z_bytes::<C>(b);
        GG::<C>::ax_edeser_canonical(rb);
        FF::<C>::ax_deser_canonical(zb);
        assert(rb + zb =~= b);
    }
}

// injectivity of decoding on accepted strings, the form the property statement uses ("no two byte strings denote the same value")
pub proof fn thm_no_two_encodings<C: Ciphersuite>(b1: Seq<u8>, b2: Seq<u8>)
    ensures
        dec_scalar::<C>(b1) is Some && dec_scalar::<C>(b1) == dec_scalar::<C>(b2) ==> b1 == b2,
        dec_element::<C>(b1) is Some && dec_element::<C>(b1) == dec_element::<C>(b2) ==> b1 == b2,
        dec_identifier::<C>(b1) is Some && dec_identifier::<C>(b1) == dec_identifier::<C>(b2) ==> b1 == b2,
        dec_signing_key::<C>(b1) is Some && dec_signing_key::<C>(b1) == dec_signing_key::<C>(b2) ==> b1 == b2,
        dec_verifying_key::<C>(b1) is Some && dec_verifying_key::<C>(b1) == dec_verifying_key::<C>(b2) ==> b1 == b2,
        dec_signature::<C>(b1) is Some && dec_signature::<C>(b1) == dec_signature::<C>(b2) ==> b1 == b2,
{
    thm_scalar_canonical::<C>(b1); thm_scalar_canonical::<C>(b2);
    thm_element_canonical::<C>(b1); thm_element_canonical::<C>(b2);
    thm_identifier_canonical::<C>(b1); thm_identifier_canonical::<C>(b2);
    thm_signing_key_canonical::<C>(b1); thm_signing_key_canonical::<C>(b2);
    thm_verifying_key_canonical::<C>(b1); thm_verifying_key_canonical::<C>(b2);
    thm_signature_canonical::<C>(b1); thm_signature_canonical::<C>(b2);
}

// =====================================================================================================================
// Part 1 (c): rejection

// a wrong length is rejected by every decoder
pub proof fn thm_wrong_length_rejected<C: Ciphersuite>(b: Seq<u8>)
    ensures
        b.len() != codec_ns::<C>() ==> dec_scalar::<C>(b) is None && dec_identifier::<C>(b) is None && dec_signing_key::<C>(b) is None,
        b.len() != codec_ne::<C>() ==> dec_element::<C>(b) is None && dec_verifying_key::<C>(b) is None,
        b.len() != codec_ne::<C>() + codec_ns::<C>() ==> dec_signature::<C>(b) is None,
        codec_ne::<C>() > 0 && b.len() % codec_ne::<C>() != 0 ==> dec_commitment_whole::<C>(b) is None,
{}

// anything the suite's primitive decoder rejects (out-of-range scalar, point not on the curve / outside the prime-order group,
// non-canonical form, identity) is rejected by the framing, wherever it occurs
pub proof fn thm_primitive_rejection_propagates<C: Ciphersuite>(b: Seq<u8>)
    ensures
        FF::<C>::spec_deser(b) is None ==> dec_scalar::<C>(b) is None && dec_identifier::<C>(b) is None && dec_signing_key::<C>(b) is None,
        GG::<C>::spec_edeser(b) is None ==> dec_element::<C>(b) is None && dec_verifying_key::<C>(b) is None,
        GG::<C>::spec_edeser(sig_r_bytes::<C>(b)) is None || FF::<C>::spec_deser(sig_z_bytes::<C>(b)) is None ==> dec_signature::<C>(b) is None,
{}

// the zero identifier and the zero signing key have no accepted encoding: no byte string decodes to them, in particular not the
// (well-formed) encoding of the zero scalar
pub proof fn thm_zero_rejected<C: Ciphersuite>(b: Seq<u8>)
    ensures
        dec_identifier::<C>(b) is Some ==> (dec_identifier::<C>(b)->Some_0).0.0 != s0::<C>(),
        dec_signing_key::<C>(b) is Some ==> (dec_signing_key::<C>(b)->Some_0).scalar != s0::<C>(),
        dec_identifier::<C>(enc_scalar::<C>(s0::<C>())) is None,
        dec_signing_key::<C>(enc_scalar::<C>(s0::<C>())) is None,
{ thm_scalar_round_trip::<C>(s0::<C>()); }

// the identity element has no encoding and no byte string decodes to it (elements, verifying keys, the R of a signature, every
// entry of a commitment vector)
pub proof fn thm_identity_rejected<C: Ciphersuite>(b: Seq<u8>)
    ensures
        enc_element::<C>(e0::<C>()) is None,
        dec_element::<C>(b) is Some ==> dec_element::<C>(b)->Some_0 != e0::<C>(),
        dec_verifying_key::<C>(b) is Some ==> (dec_verifying_key::<C>(b)->Some_0).element.0 != e0::<C>(),
        dec_signature::<C>(b) is Some ==> (dec_signature::<C>(b)->Some_0).R != e0::<C>(),
        forall|z: Scalar<C>| enc_signature::<C>(Signature::<C> { R: e0::<C>(), z: z }) is None,
{
    GG::<C>::ax_edeser_canonical(b);
    GG::<C>::ax_edeser_canonical(sig_r_bytes::<C>(b));
}

// commitment vectors: an identity entry makes the vector unencodable; a decoded vector has no identity entry, one entry per
// Ne-byte chunk
pub proof fn thm_commitment_rejection<C: Ciphersuite>(c: Seq<CoefficientCommitment<C>>, b: Seq<u8>)
    requires codec_ne::<C>() > 0
    ensures
        commitment_has_identity::<C>(c) ==> enc_commitment::<C>(c) is None && enc_commitment_whole::<C>(c) is None,
        dec_commitment_whole::<C>(b) is Some ==> !commitment_has_identity::<C>(dec_commitment_whole::<C>(b)->Some_0)
            && (dec_commitment_whole::<C>(b)->Some_0).len() * codec_ne::<C>() == b.len(),
{
    if dec_commitment_whole::<C>(b) is Some {
        let ch = spec_chunks(b, codec_ne::<C>());
        let d = dec_commitment_whole::<C>(b)->Some_0;
        lemma_chunks_facts::<C>(b);
        assert forall|k: int| 0 <= k < d.len() implies (#[trigger] d[k]).0.0 != e0::<C>() by {
            assert(dec_element::<C>(ch[k]) is Some);
            GG::<C>::ax_edeser_canonical(ch[k]);
        }
        let n = codec_ne::<C>() as int; let l = b.len() as int;
        vstd::arithmetic::div_mod::lemma_fundamental_div_mod(l, n);
        assert((l / n) * n == n * (l / n)) by (nonlinear_arith);
    }
}


// commitment vectors (serialize_whole / deserialize_whole): round trip and canonicity of the whole-vector encoding
pub proof fn thm_commitment_round_trip<C: Ciphersuite>(c: Seq<CoefficientCommitment<C>>)
    requires !commitment_has_identity::<C>(c), codec_ne::<C>() > 0
    ensures enc_commitment_whole::<C>(c) is Some, dec_commitment_whole::<C>(enc_commitment_whole::<C>(c)->Some_0) == Some(c)
{
    let n = codec_ne::<C>();
    let l = enc_commitment::<C>(c)->Some_0;
    assert forall|k: int| 0 <= k < l.len() implies (#[trigger] l[k]).len() == n && dec_element::<C>(l[k]) == Some(c[k].0.0) by {
        assert(c[k].0.0 != e0::<C>());
        thm_element_round_trip::<C>(c[k].0.0);
    }
    lemma_flatten_uniform::<u8>(l, n);
    let b = l.flatten();
    assert(b.len() % n == 0) by {
        let li = l.len() as int; let ni = n as int;
        vstd::arithmetic::div_mod::lemma_mod_multiples_basic(li, ni);
    }
    assert(spec_chunks(b, n) == l);
    assert(chunks_all_accepted::<C>(l));
    assert(dec_commitment_list::<C>(l)->Some_0 =~= c);
}

pub proof fn thm_commitment_canonical<C: Ciphersuite>(b: Seq<u8>)
    requires codec_ne::<C>() > 0
    ensures dec_commitment_whole::<C>(b) is Some ==> enc_commitment_whole::<C>(dec_commitment_whole::<C>(b)->Some_0) == Some(b)
{
    if dec_commitment_whole::<C>(b) is Some {
        let n = codec_ne::<C>();
        let ch = spec_chunks(b, n);
        let c = dec_commitment_whole::<C>(b)->Some_0;
        thm_commitment_rejection::<C>(c, b);
        let l = enc_commitment::<C>(c)->Some_0;
        assert forall|k: int| 0 <= k < ch.len() implies l[k] == #[trigger] ch[k] by {
            assert(dec_element::<C>(ch[k]) is Some);
            thm_element_canonical::<C>(ch[k]);
        }
        assert(l =~= ch);
        lemma_chunks_flatten::<u8>(b, n);
    }
}

// =====================================================================================================================
// Part 2: the clause antecedents of each deserialiser contract are exhaustive and mutually exclusive with `value`

pub proof fn thm_scalar_clauses_exhaustive<C: Ciphersuite>(b: Seq<u8>)
    ensures dec_scalar::<C>(b) is None <==> (b.len() != codec_ns::<C>() || (b.len() == codec_ns::<C>() && FF::<C>::spec_deser(b) is None))
{}

pub proof fn thm_element_clauses_exhaustive<C: Ciphersuite>(b: Seq<u8>)
    ensures dec_element::<C>(b) is None <==> (b.len() != codec_ne::<C>() || (b.len() == codec_ne::<C>() && GG::<C>::spec_edeser(b) is None))
{}

pub proof fn thm_identifier_clauses_exhaustive<C: Ciphersuite>(b: Seq<u8>)
    ensures
        dec_identifier::<C>(b) is None <==> (b.len() != codec_ns::<C>() || (b.len() == codec_ns::<C>() && FF::<C>::spec_deser(b) is None)
            || dec_scalar::<C>(b) == Some(s0::<C>())),
        dec_signing_key::<C>(b) is None <==> (b.len() != codec_ns::<C>() || (b.len() == codec_ns::<C>() && FF::<C>::spec_deser(b) is None)
            || dec_scalar::<C>(b) == Some(s0::<C>())),
{}

pub proof fn thm_signature_clauses_exhaustive<C: Ciphersuite>(b: Seq<u8>)
    ensures
        dec_signature::<C>(b) is None <==> (b.len() != codec_ne::<C>() + codec_ns::<C>()
            || (b.len() == codec_ne::<C>() + codec_ns::<C>() && GG::<C>::spec_edeser(sig_r_bytes::<C>(b)) is None)
            || (b.len() == codec_ne::<C>() + codec_ns::<C>() && GG::<C>::spec_edeser(sig_r_bytes::<C>(b)) is Some && FF::<C>::spec_deser(sig_z_bytes::<C>(b)) is None)),
        // hook contracts (written over the group) and the C-level vocabulary are the same functions
        dec_signature::<C>(b) is Some <==> gdec_sig::<GG<C>>(b) is Some,
        dec_signature::<C>(b) is Some ==> dec_signature::<C>(b)->Some_0 == (Signature::<C> { R: gdec_sig::<GG<C>>(b)->Some_0.0, z: gdec_sig::<GG<C>>(b)->Some_0.1 }),
{}

pub proof fn thm_commitment_clauses_exhaustive<C: Ciphersuite>(b: Seq<u8>)
    requires codec_ne::<C>() > 0
    ensures dec_commitment_whole::<C>(b) is None <==> (b.len() % codec_ne::<C>() != 0
        || (b.len() % codec_ne::<C>() == 0 && !chunks_all_accepted::<C>(spec_chunks(b, codec_ne::<C>()))))
{}

// the primitive decoders already fix the length (so `dec_scalar`/`dec_element` are exactly the suite's decoders)
pub proof fn thm_dec_is_primitive<C: Ciphersuite>(b: Seq<u8>)
    ensures dec_scalar::<C>(b) == FF::<C>::spec_deser(b), dec_element::<C>(b) == GG::<C>::spec_edeser(b)
{ lemma_deser_len::<C>(b); lemma_edeser_len::<C>(b); }

// =====================================================================================================================
// Part 3: the property statement on the executable functions, proved from their contracts alone

pub fn rt_scalar<C: Ciphersuite>(x: &SerializableScalar<C>) -> (r: Result<SerializableScalar<C>, Error<C>>)
    ensures r == Ok::<SerializableScalar<C>, Error<C>>(*x)
{
    let b = x.serialize();
    proof { thm_scalar_round_trip::<C>(x.0); }
    SerializableScalar::<C>::deserialize(b.as_slice())
}

pub fn rt_element<C: Ciphersuite>(x: &SerializableElement<C>) -> (r: Result<SerializableElement<C>, Error<C>>)
    ensures x.0 != e0::<C>() ==> r == Ok::<SerializableElement<C>, Error<C>>(*x),
            x.0 == e0::<C>() ==> r is Err
{
    let b = x.serialize()?;
    proof { thm_element_round_trip::<C>(x.0); }
    SerializableElement::<C>::deserialize(b.as_slice())
}

pub fn rt_identifier<C: Ciphersuite>(x: &Identifier<C>) -> (r: Result<Identifier<C>, Error<C>>)
    requires x.0.0 != s0::<C>()
    ensures r == Ok::<Identifier<C>, Error<C>>(*x)
{
    let b = x.serialize();
    proof { thm_identifier_round_trip::<C>(*x); }
    Identifier::<C>::deserialize(b.as_slice())
}

pub fn rt_signing_key<C: Ciphersuite>(x: &SigningKey<C>) -> (r: Result<SigningKey<C>, Error<C>>)
    requires x.scalar != s0::<C>()
    ensures r == Ok::<SigningKey<C>, Error<C>>(*x)
{
    let b = x.serialize();
    proof { thm_signing_key_round_trip::<C>(*x); }
    SigningKey::<C>::deserialize(b.as_slice())
}

pub fn rt_verifying_key<C: Ciphersuite>(x: &VerifyingKey<C>) -> (r: Result<VerifyingKey<C>, Error<C>>)
    ensures x.element.0 != e0::<C>() ==> r == Ok::<VerifyingKey<C>, Error<C>>(*x),
            x.element.0 == e0::<C>() ==> r is Err
{
    let b = x.serialize()?;
    proof { thm_verifying_key_round_trip::<C>(*x); }
    VerifyingKey::<C>::deserialize(b.as_slice())
}

pub fn rt_signature<C: Ciphersuite>(x: &Signature<C>) -> (r: Result<Signature<C>, Error<C>>)
    ensures x.R != e0::<C>() ==> r == Ok::<Signature<C>, Error<C>>(*x),
            x.R == e0::<C>() ==> r is Err
{
    let b = x.serialize()?;
    proof { if x.R != e0::<C>() { thm_signature_round_trip::<C>(*x); } }
    Signature::<C>::deserialize(b.as_slice())
}

pub fn rt_signing_share<C: Ciphersuite>(x: &SigningShare<C>) -> (r: Result<SigningShare<C>, Error<C>>)
    ensures r == Ok::<SigningShare<C>, Error<C>>(*x)
{
    let b = x.serialize();
    proof { thm_scalar_round_trip::<C>(x.0.0); }
    SigningShare::<C>::deserialize(b.as_slice())
}

pub fn rt_signature_share<C: Ciphersuite>(x: &SignatureShare<C>) -> (r: Result<SignatureShare<C>, Error<C>>)
    requires x.header == default_header::<C>()
    ensures r == Ok::<SignatureShare<C>, Error<C>>(*x)
{
    let b = x.serialize();
    proof { thm_scalar_round_trip::<C>(x.share.0); }
    SignatureShare::<C>::deserialize(b.as_slice())
}

pub fn rt_verifying_share<C: Ciphersuite>(x: &VerifyingShare<C>) -> (r: Result<VerifyingShare<C>, Error<C>>)
    ensures x.0.0 != e0::<C>() ==> r == Ok::<VerifyingShare<C>, Error<C>>(*x),
            x.0.0 == e0::<C>() ==> r is Err
{
    let b = x.serialize()?;
    proof { thm_element_round_trip::<C>(x.0.0); }
    VerifyingShare::<C>::deserialize(b.as_slice())
}

pub fn rt_commitment_whole<C: Ciphersuite>(x: &VerifiableSecretSharingCommitment<C>) -> (r: Result<VerifiableSecretSharingCommitment<C>, Error<C>>)
    ensures !commitment_has_identity::<C>(x.0@) ==> r is Ok && (r->Ok_0).0@ == x.0@,
            commitment_has_identity::<C>(x.0@) ==> r is Err
{
    let b = x.serialize_whole()?;
    proof { GG::<C>::ax_ne_positive(); thm_commitment_round_trip::<C>(x.0@); }
    VerifiableSecretSharingCommitment::<C>::deserialize_whole(b.as_slice())
}

pub fn canon_commitment_whole<C: Ciphersuite>(bytes: &[u8]) -> (r: Option<Vec<u8>>)
    ensures r is Some ==> r->Some_0@ == bytes@,
            r is None <==> dec_commitment_whole::<C>(bytes@) is None
{
    proof {
        GG::<C>::ax_ne_positive();
        thm_commitment_canonical::<C>(bytes@); thm_commitment_clauses_exhaustive::<C>(bytes@);
        if dec_commitment_whole::<C>(bytes@) is Some { thm_commitment_rejection::<C>(dec_commitment_whole::<C>(bytes@)->Some_0, bytes@); }
    }
    match VerifiableSecretSharingCommitment::<C>::deserialize_whole(bytes) {
        Ok(c) => match c.serialize_whole() { Ok(v) => Some(v), Err(_) => None },
        Err(_) => None,
    }
}

// canonicity on the executable functions: whatever `deserialize` accepts re-encodes to exactly the input
pub fn canon_identifier<C: Ciphersuite>(bytes: &[u8]) -> (r: Option<Vec<u8>>)
    ensures r is Some ==> r->Some_0@ == bytes@,
            r is None <==> dec_identifier::<C>(bytes@) is None
{
    proof { thm_identifier_canonical::<C>(bytes@); thm_identifier_clauses_exhaustive::<C>(bytes@); }
    match Identifier::<C>::deserialize(bytes) {
        Ok(i) => Some(i.serialize()),
        Err(_) => None,
    }
}

pub fn canon_signing_key<C: Ciphersuite>(bytes: &[u8]) -> (r: Option<Vec<u8>>)
    ensures r is Some ==> r->Some_0@ == bytes@,
            r is None <==> dec_signing_key::<C>(bytes@) is None
{
    proof { thm_signing_key_canonical::<C>(bytes@); thm_identifier_clauses_exhaustive::<C>(bytes@); }
    match SigningKey::<C>::deserialize(bytes) {
        Ok(k) => Some(k.serialize()),
        Err(_) => None,
    }
}

pub fn canon_verifying_key<C: Ciphersuite>(bytes: &[u8]) -> (r: Option<Vec<u8>>)
    ensures r is Some ==> r->Some_0@ == bytes@,
            r is None <==> dec_verifying_key::<C>(bytes@) is None
{
    proof { thm_verifying_key_canonical::<C>(bytes@); thm_identity_rejected::<C>(bytes@); thm_element_clauses_exhaustive::<C>(bytes@); }
    match VerifyingKey::<C>::deserialize(bytes) {
        Ok(k) => match k.serialize() { Ok(v) => Some(v), Err(_) => None },
        Err(_) => None,
    }
}

pub fn canon_signature<C: Ciphersuite>(bytes: &[u8]) -> (r: Option<Vec<u8>>)
    ensures r is Some ==> r->Some_0@ == bytes@,
            r is None <==> dec_signature::<C>(bytes@) is None
{
    proof { thm_signature_canonical::<C>(bytes@); thm_identity_rejected::<C>(bytes@); thm_signature_clauses_exhaustive::<C>(bytes@); }
    match Signature::<C>::deserialize(bytes) {
        Ok(s) => match s.serialize() { Ok(v) => Some(v), Err(_) => None },
        Err(_) => None,
    }
}

} // verus!
}
