// lemmas/vinterp.rs -- sums over identifier sequences, permutation invariance, and the interpolation theorems
// in the shape the contracts need (built on the native Lagrange proof in vfield.rs).
pub mod vinterp {
#[allow(unused_imports)] use vstd::prelude::*;
#[allow(unused_imports)] use crate::traits::*;
#[allow(unused_imports)] use crate::vspec::*;
#[allow(unused_imports)] use crate::vfield::*;
#[allow(unused_imports)] use crate::*;
#[allow(unused_imports)] use vstd::std_specs::cmp::*;
verus! {
//@module_serves ALL

// sum_k g(ids[k])
pub open spec fn id_sum<C: Ciphersuite>(ids: Seq<Identifier<C>>, g: spec_fn(Identifier<C>) -> Scalar<C>) -> Scalar<C> decreases ids.len()
{ if ids.len() == 0 { s0::<C>() } else { sadd::<C>(id_sum::<C>(ids.drop_last(), g), g(ids.last())) } }

pub proof fn lemma_id_sum_remove<C: Ciphersuite>(ids: Seq<Identifier<C>>, g: spec_fn(Identifier<C>) -> Scalar<C>, j: int)
    requires 0 <= j < ids.len()
    ensures id_sum::<C>(ids, g) == sadd::<C>(id_sum::<C>(ids.remove(j), g), g(ids[j]))
    decreases ids.len()
{
    if j == ids.len() - 1 {
        assert(ids.remove(j) =~= ids.drop_last());
    } else {
        let r = ids.drop_last();
        lemma_id_sum_remove::<C>(r, g, j);
        assert(ids.remove(j).drop_last() =~= r.remove(j));
        assert(ids.remove(j).last() == ids.last());
        // (S + g_j) + g_last == (S + g_last) + g_j
        let s = id_sum::<C>(r.remove(j), g);
        FF::<C>::ax_add_assoc(s, g(ids[j]), g(ids.last()));
        FF::<C>::ax_add_comm(g(ids[j]), g(ids.last()));
        FF::<C>::ax_add_assoc(s, g(ids.last()), g(ids[j]));
    }
}

// permutation invariance: two duplicate-free sequences with the same elements have the same sum
pub proof fn lemma_id_sum_perm<C: Ciphersuite>(p: Seq<Identifier<C>>, q: Seq<Identifier<C>>, g: spec_fn(Identifier<C>) -> Scalar<C>)
    requires p.no_duplicates(), q.no_duplicates(), p.to_set() == q.to_set()
    ensures id_sum::<C>(p, g) == id_sum::<C>(q, g)
    decreases p.len()
{
    p.unique_seq_to_set(); q.unique_seq_to_set();
    if p.len() == 0 {
        assert(q.len() == 0);
    } else {
        let x = p.last();
        assert(p.contains(x));
        assert(q.to_set().contains(x));
        let j = choose|j: int| 0 <= j < q.len() && q[j] == x;
        let p1 = p.drop_last(); let q1 = q.remove(j);
        assert(q1.no_duplicates()) by {
            assert forall|a: int, b: int| 0 <= a < q1.len() && 0 <= b < q1.len() && a != b implies q1[a] != q1[b] by {
                let a2 = if a < j { a } else { a + 1 }; let b2 = if b < j { b } else { b + 1 };
                assert(q1[a] == q[a2] && q1[b] == q[b2]);
            }
        }
        assert(p1.to_set() =~= q1.to_set()) by {
            assert forall|y: Identifier<C>| p1.to_set().contains(y) <==> q1.to_set().contains(y) by {
                if p1.contains(y) {
                    let w = choose|w: int| 0 <= w < p1.len() && p1[w] == y;
                    assert(p[w] == y); assert(p.contains(y)); assert(q.to_set().contains(y));
                    let v = choose|v: int| 0 <= v < q.len() && q[v] == y;
                    if v == j { assert(p[w] == p[p.len() - 1]); assert(false); }
                    if v < j { assert(q1[v] == y); } else { assert(q1[v - 1] == y); }
                }
                if q1.contains(y) {
                    let w = choose|w: int| 0 <= w < q1.len() && q1[w] == y;
                    let w2 = if w < j { w } else { w + 1 };
                    assert(q[w2] == y); assert(q.contains(y)); assert(p.to_set().contains(y));
                    let v = choose|v: int| 0 <= v < p.len() && p[v] == y;
                    if v == p.len() - 1 { assert(q[w2] == q[j]); assert(false); }
                    assert(p1[v] == y);
                }
            }
        }
        lemma_id_sum_perm::<C>(p1, q1, g);
        lemma_id_sum_remove::<C>(q, g, j);
    }
}

pub proof fn lemma_id_sum_ext<C: Ciphersuite>(ids: Seq<Identifier<C>>, g: spec_fn(Identifier<C>) -> Scalar<C>, h: spec_fn(Identifier<C>) -> Scalar<C>)
    requires forall|k: int| 0 <= k < ids.len() ==> g(#[trigger] ids[k]) == h(ids[k])
    ensures id_sum::<C>(ids, g) == id_sum::<C>(ids, h)
    decreases ids.len()
{
    if ids.len() > 0 {
        let r = ids.drop_last();
        assert forall|k: int| 0 <= k < r.len() implies g(#[trigger] r[k]) == h(r[k]) by { assert(r[k] == ids[k]); }
        lemma_id_sum_ext::<C>(r, g, h);
        assert(ids.last() == ids[ids.len() - 1]);
    }
}

// identifiers are distinct  ==>  their scalars are distinct
pub proof fn lemma_scalars_distinct<C: Ciphersuite>(ids: Seq<Identifier<C>>)
    requires ids.no_duplicates()
    ensures distinct::<AL<C>>(scalars::<C>(ids)), scalars::<C>(ids).len() == ids.len()
{
    let xs = scalars::<C>(ids);
    assert forall|i: int, j: int| 0 <= i < xs.len() && 0 <= j < xs.len() && i != j implies xs[i] != xs[j] by {
        if xs[i] == xs[j] { assert(ids[i].0.0 == ids[j].0.0); assert(ids[i] == ids[j]); }
    }
}

// the Lagrange sum of P22 over the scalars of `ids`, as an identifier sum
pub open spec fn lag_term<C: Ciphersuite>(ids: Seq<Identifier<C>>, a: Seq<Scalar<C>>, x: Scalar<C>) -> spec_fn(Identifier<C>) -> Scalar<C>
{ |i: Identifier<C>| smul::<C>(poly::<AL<C>>(a, i.0.0), basis::<AL<C>>(scalars::<C>(ids), x, i.0.0)) }

pub proof fn lemma_lsum_as_id_sum<C: Ciphersuite>(ids: Seq<Identifier<C>>, a: Seq<Scalar<C>>, x: Scalar<C>, k: nat)
    requires k <= ids.len()
    ensures lsum::<AL<C>>(scalars::<C>(ids), a, x, k) == id_sum::<C>(ids.take(k as int), lag_term::<C>(ids, a, x))
    decreases k
{
    if k > 0 {
        lemma_lsum_as_id_sum::<C>(ids, a, x, (k - 1) as nat);
        assert(ids.take(k as int).drop_last() =~= ids.take(k - 1));
        assert(ids.take(k as int).last() == ids[k - 1]);
        assert(scalars::<C>(ids)[k - 1] == ids[k - 1].0.0);
    }
}

// THEOREM (general point): for duplicate-free `ids` and a polynomial with at most |ids| coefficients,
//   sum_{i in ids} a(i) * L_i(x) == a(x)
pub proof fn lemma_interpolate_at<C: Ciphersuite>(ids: Seq<Identifier<C>>, a: Seq<Scalar<C>>, x: Scalar<C>)
    requires ids.no_duplicates(), a.len() <= ids.len()
    ensures id_sum::<C>(ids, lag_term::<C>(ids, a, x)) == poly::<AL<C>>(a, x)
{
    lemma_scalars_distinct::<C>(ids);
    lemma_lagrange::<AL<C>>(scalars::<C>(ids), a, x);
    lemma_lsum_as_id_sum::<C>(ids, a, x, ids.len());
    assert(ids.take(ids.len() as int) =~= ids);
}

// value of a polynomial at zero is its constant term
pub proof fn lemma_poly_at_zero<C: Ciphersuite>(a: Seq<Scalar<C>>)
    requires a.len() >= 1
    ensures poly::<AL<C>>(a, s0::<C>()) == a[0]
{
    lemma_mul_zero::<AL<C>>(poly::<AL<C>>(a.drop_first(), s0::<C>()));
    FF::<C>::ax_add_zero(a[0]);
}

// a finite set of identifiers has an ascending duplicate-free enumeration (so `sorted_seq` is well defined)
pub proof fn lemma_sorted_exists<C: Ciphersuite>(s: Set<Identifier<C>>)
    requires s.finite()
    ensures sorted_seq(s).no_duplicates(), sorted_seq(s).to_set() == s, vstd::std_specs::btree::increasing_seq(sorted_seq(s))
{
    use_id_order::<C>();
    lemma_sorted_exists_aux::<C>(s);
}

pub proof fn lemma_sorted_exists_aux<C: Ciphersuite>(s: Set<Identifier<C>>)
    requires s.finite()
    ensures exists|q: Seq<Identifier<C>>| q.no_duplicates() && q.to_set() == s && vstd::std_specs::btree::increasing_seq(q)
    decreases s.len()
{
    use_id_order::<C>();
    broadcast use vstd::std_specs::btree::axiom_increasing_seq_meaning;
    if s.len() == 0 {
        let q = Seq::<Identifier<C>>::empty();
        assert(q.to_set() =~= s);
        assert(vstd::std_specs::btree::increasing_seq(q));
    } else {
        // pick the maximum m of s, sort s \ {m}, append m
        let m = lemma_set_max::<C>(s);
        let s1 = s.remove(m);
        lemma_sorted_exists_aux::<C>(s1);
        let q1 = choose|q: Seq<Identifier<C>>| q.no_duplicates() && q.to_set() == s1 && vstd::std_specs::btree::increasing_seq(q);
        let q = q1.push(m);
        assert(q.no_duplicates()) by {
            assert forall|i: int, j: int| 0 <= i < q.len() && 0 <= j < q.len() && i != j implies q[i] != q[j] by {
                if i == q1.len() { assert(q1.contains(q[j])); assert(s1.contains(q1[j])); }
                if j == q1.len() { assert(q1.contains(q[i])); assert(s1.contains(q1[i])); }
            }
        }
        assert(q.to_set() =~= s) by {
            assert forall|x: Identifier<C>| q.to_set().contains(x) <==> s.contains(x) by {
                if q.contains(x) { let w = choose|w: int| 0 <= w < q.len() && q[w] == x; if w < q1.len() { assert(q1.contains(q1[w])); assert(s1.contains(x)); } }
                if s.contains(x) { if x == m { assert(q[q1.len() as int] == x); } else { assert(s1.contains(x)); assert(q1.to_set().contains(x));
                    let w = choose|w: int| 0 <= w < q1.len() && q1[w] == x; assert(q[w] == x); } }
            }
        }
        assert(vstd::std_specs::btree::increasing_seq(q)) by {
            assert forall|i: int, j: int| #![trigger q[i], q[j]] 0 <= i < j < q.len() implies lt(q[i], q[j]) by {
                if j < q1.len() { assert(lt(q1[i], q1[j])); }
                else { assert(q1.contains(q1[i])); assert(s1.contains(q[i])); }
            }
        }
    }
}

// a non-empty finite set of identifiers has a maximum w.r.t. the identifier order
pub proof fn lemma_set_max<C: Ciphersuite>(s: Set<Identifier<C>>) -> (m: Identifier<C>)
    requires s.finite(), s.len() > 0
    ensures s.contains(m), forall|x: Identifier<C>| s.contains(x) && x != m ==> lt(x, m)
    decreases s.len()
{
    use_id_order::<C>();
    let x0 = s.choose();
    let s1 = s.remove(x0);
    if s1.len() == 0 {
        assert forall|x: Identifier<C>| s.contains(x) && x != x0 implies lt(x, x0) by { assert(s1.contains(x)); }
        x0
    } else {
        let m1 = lemma_set_max::<C>(s1);
        ax_identifier_total::<C>(x0, m1);
        if lt(x0, m1) {
            assert forall|x: Identifier<C>| s.contains(x) && x != m1 implies lt(x, m1) by { if x != x0 { assert(s1.contains(x)); } }
            m1
        } else {
            assert forall|x: Identifier<C>| s.contains(x) && x != x0 implies lt(x, x0) by { assert(s1.contains(x)); if x != m1 { assert(lt(x, m1)); } }
            x0
        }
    }
}

} // verus!
}
