// lemmas/vprops_rerand.rs -- property-level theorems for C17 (re-randomized FROST), over the spec functions the contracts of
// contracts/rerandomized.vc are written with (lemmas/vspec_rerand.rs) and the frost-core signing vocabulary (vspec.rs, vspec_agg.rs,
// vspec_batch.rs).  No assume/admit/external_body; the only algebra used is the field/group axioms of prelude/traits.rs (T3, T4).
pub mod vprops_rerand {
#[allow(unused_imports)] use vstd::prelude::*;
#[allow(unused_imports)] use std::vec::Vec;
#[allow(unused_imports)] use crate::traits::*;
#[allow(unused_imports)] use crate::vspec::*;
#[allow(unused_imports)] use crate::vfield::*;
#[allow(unused_imports)] use crate::vgroup::*;
#[allow(unused_imports)] use crate::vspec_rerand::*;
#[allow(unused_imports)] use crate::*;
#[allow(unused_imports)] use crate::keys::{KeyPackage, PublicKeyPackage, SigningShare, VerifyingShare};
#[allow(unused_imports)] use crate::serialization::{SerializableElement, SerializableScalar};
#[allow(unused_imports)] use crate::round1::{SigningCommitments, SigningNonces};
#[allow(unused_imports)] use crate::rerandomized::{Randomizer, RandomizedParams, RandomizedCiphersuite};
verus! {

// =====================================================================================================================================
// (1) the participants' regenerated parameters equal the coordinator's, for every seed / rng stream and every commitment set
// =====================================================================================================================================

// `coord` is ANY value satisfying the contract of RandomizedParams::new_from_commitments(vk, commitments, rng) for an rng at (stream, pos)
//@serves C17
pub proof fn thm_regenerated_params_equal_coordinators<C: RandomizedCiphersuite>(vk: VerifyingKey<C>, commitments: Map<Identifier<C>, SigningCommitments<C>>,
        stream: spec_fn(nat) -> u8, pos: nat, coord: Result<(RandomizedParams<C>, Vec<u8>), Error<C>>)
    requires
        coord is Ok ==> (coord->Ok_0).1@ == rng_bytes(stream, pos, FF::<C>::spec_ns()),
        match spec_regenerate_params::<C>(vk, rng_bytes(stream, pos, FF::<C>::spec_ns()), commitments) {
            Err(e) => coord is Err && coord->Err_0 == e,
            Ok(p) => coord is Ok && (coord->Ok_0).0 == p,
        },
    ensures
        // a participant who regenerates from the seed it was sent and the same commitment set obtains the coordinator's parameters
        coord is Ok ==> spec_regenerate_params::<C>(vk, (coord->Ok_0).1@, commitments) == Ok::<RandomizedParams<C>, Error<C>>((coord->Ok_0).0),
        // ... and sign_with_randomizer_seed is RFC 9591 sign with the key package shifted by exactly these parameters
        coord is Ok ==> forall|sp: SigningPackage<C>, sn: SigningNonces<C>, kp: KeyPackage<C>| sp.signing_commitments@ == commitments && kp.verifying_key == vk
            ==> #[trigger] spec_sign_with_randomizer_seed::<C>(sp, sn, kp, (coord->Ok_0).1@) == spec_sign::<C>(sp, sn, spec_randomize_key_package::<C>(kp, (coord->Ok_0).0)),
        // the coordinator fails exactly when regeneration from the same inputs fails, with the same error
        coord is Err ==> spec_regenerate_params::<C>(vk, rng_bytes(stream, pos, FF::<C>::spec_ns()), commitments) == Err::<RandomizedParams<C>, Error<C>>(coord->Err_0),
{}

// the parameters are a FUNCTION of (group key, seed bytes, commitment map): equal inputs (byte-wise / entry-wise), equal parameters
//@serves C17
pub proof fn thm_params_function_of_seed_and_commitments<C: RandomizedCiphersuite>(vk: VerifyingKey<C>, seed1: Seq<u8>, seed2: Seq<u8>,
        c1: Map<Identifier<C>, SigningCommitments<C>>, c2: Map<Identifier<C>, SigningCommitments<C>>)
    requires
        seed1.len() == seed2.len(), forall|i: int| 0 <= i < seed1.len() ==> seed1[i] == seed2[i],
        forall|id: Identifier<C>| c1.contains_key(id) <==> c2.contains_key(id),
        forall|id: Identifier<C>| c1.contains_key(id) ==> c1[id] == c2[id],
    ensures
        spec_regenerate_randomizer::<C>(seed1, c1) == spec_regenerate_randomizer::<C>(seed2, c2),
        spec_regenerate_params::<C>(vk, seed1, c1) == spec_regenerate_params::<C>(vk, seed2, c2),
{
    assert(seed1 =~= seed2);
    assert(c1 =~= c2);
}

// the randomizer IS the hash hook applied to seed || encoded commitment list (nothing else enters it)
//@serves C17
pub proof fn thm_randomizer_is_hash_of_seed_and_commitments<C: RandomizedCiphersuite>(seed: Seq<u8>, commitments: Map<Identifier<C>, SigningCommitments<C>>)
    requires spec_regenerate_randomizer::<C>(seed, commitments) is Ok
    ensures
        !items_have_identity::<C>(commit_items::<C>(commitments)),
        C::spec_hash_randomizer(seed + spec_encode_list::<C>(commit_items::<C>(commitments), commit_items::<C>(commitments).len() as int))
            == Some((spec_regenerate_randomizer::<C>(seed, commitments)->Ok_0).0.0),
{}

// =====================================================================================================================================
// injectivity of the preimage layout  seed || enc(id_1) || enc(D_1) || enc(E_1) || ...   (T4: fixed-length canonical codecs)
// =====================================================================================================================================

pub open spec fn item_bytes<C: Ciphersuite>(it: (Identifier<C>, SigningCommitments<C>)) -> Seq<u8>
{ enc_id::<C>(it.0) + enc_el::<C>(it.1.hiding.0.0) + enc_el::<C>(it.1.binding.0.0) }

pub proof fn lemma_item_bytes<C: Ciphersuite>(it: (Identifier<C>, SigningCommitments<C>))
    requires !sc_has_identity::<C>(it.1)
    ensures item_bytes::<C>(it).len() == FF::<C>::spec_ns() + GG::<C>::spec_ne() + GG::<C>::spec_ne(), item_bytes::<C>(it).len() > 0,
        item_bytes::<C>(it).subrange(0, FF::<C>::spec_ns() as int) == enc_id::<C>(it.0),
        item_bytes::<C>(it).subrange(FF::<C>::spec_ns() as int, (FF::<C>::spec_ns() + GG::<C>::spec_ne()) as int) == enc_el::<C>(it.1.hiding.0.0),
        item_bytes::<C>(it).subrange((FF::<C>::spec_ns() + GG::<C>::spec_ne()) as int, (FF::<C>::spec_ns() + GG::<C>::spec_ne() + GG::<C>::spec_ne()) as int) == enc_el::<C>(it.1.binding.0.0),
{
    FF::<C>::ax_ser_len(it.0.0.0);
    GG::<C>::ax_eser_len(it.1.hiding.0.0); GG::<C>::ax_eser_len(it.1.binding.0.0);
    GG::<C>::ax_ne_positive();
    let ns = FF::<C>::spec_ns() as int; let ne = GG::<C>::spec_ne() as int;
    let b = item_bytes::<C>(it);
    assert(b.subrange(0, ns) =~= enc_id::<C>(it.0));
    assert(b.subrange(ns, ns + ne) =~= enc_el::<C>(it.1.hiding.0.0));
    assert(b.subrange(ns + ne, ns + ne + ne) =~= enc_el::<C>(it.1.binding.0.0));
}

pub proof fn lemma_item_bytes_injective<C: Ciphersuite>(a: (Identifier<C>, SigningCommitments<C>), b: (Identifier<C>, SigningCommitments<C>))
    requires !sc_has_identity::<C>(a.1), !sc_has_identity::<C>(b.1), item_bytes::<C>(a) == item_bytes::<C>(b)
    ensures a.0 == b.0, a.1.hiding == b.1.hiding, a.1.binding == b.1.binding
{
    lemma_item_bytes::<C>(a); lemma_item_bytes::<C>(b);
    FF::<C>::ax_ser_deser(a.0.0.0); FF::<C>::ax_ser_deser(b.0.0.0);
    GG::<C>::ax_eser_deser(a.1.hiding.0.0); GG::<C>::ax_eser_deser(b.1.hiding.0.0);
    GG::<C>::ax_eser_deser(a.1.binding.0.0); GG::<C>::ax_eser_deser(b.1.binding.0.0);
    assert(a.0.0.0 == b.0.0.0);
    assert(a.1.hiding.0.0 == b.1.hiding.0.0);
    assert(a.1.binding.0.0 == b.1.binding.0.0);
}

pub proof fn lemma_encode_list_step<C: Ciphersuite>(items: Seq<(Identifier<C>, SigningCommitments<C>)>, n: int)
    requires n > 0
    ensures spec_encode_list::<C>(items, n) == spec_encode_list::<C>(items, n - 1) + item_bytes::<C>(items[n - 1])
{
    assert(spec_encode_list::<C>(items, n) =~= spec_encode_list::<C>(items, n - 1) + item_bytes::<C>(items[n - 1]));
}

// equal encodings of two identity-free commitment lists: same number of items, same identifiers and commitments item by item
//@serves C17
pub proof fn lemma_encode_list_injective<C: Ciphersuite>(i1: Seq<(Identifier<C>, SigningCommitments<C>)>, n1: int, i2: Seq<(Identifier<C>, SigningCommitments<C>)>, n2: int)
    requires 0 <= n1 <= i1.len(), 0 <= n2 <= i2.len(),
        forall|k: int| 0 <= k < n1 ==> !sc_has_identity::<C>((#[trigger] i1[k]).1),
        forall|k: int| 0 <= k < n2 ==> !sc_has_identity::<C>((#[trigger] i2[k]).1),
        spec_encode_list::<C>(i1, n1) == spec_encode_list::<C>(i2, n2),
    ensures n1 == n2,
        forall|k: int| 0 <= k < n1 ==> (#[trigger] i1[k]).0 == i2[k].0 && i1[k].1.hiding == i2[k].1.hiding && i1[k].1.binding == i2[k].1.binding,
    decreases n1
{
    if n1 == 0 {
        if n2 > 0 { lemma_encode_list_step::<C>(i2, n2); lemma_item_bytes::<C>(i2[n2 - 1]); }
    } else {
        lemma_encode_list_step::<C>(i1, n1); lemma_item_bytes::<C>(i1[n1 - 1]);
        if n2 == 0 { assert(false); } else {
            lemma_encode_list_step::<C>(i2, n2); lemma_item_bytes::<C>(i2[n2 - 1]);
            let a = spec_encode_list::<C>(i1, n1 - 1); let b = spec_encode_list::<C>(i2, n2 - 1);
            let t1 = item_bytes::<C>(i1[n1 - 1]); let t2 = item_bytes::<C>(i2[n2 - 1]);
            assert((a + t1).len() == a.len() + t1.len() && (b + t2).len() == b.len() + t2.len());
            assert(a + t1 == b + t2);
            assert(a.len() == b.len());
            assert(a =~= (a + t1).subrange(0, a.len() as int));
            assert(b =~= (b + t2).subrange(0, b.len() as int));
            assert(t1 =~= (a + t1).subrange(a.len() as int, (a + t1).len() as int));
            assert(t2 =~= (b + t2).subrange(b.len() as int, (b + t2).len() as int));
            lemma_item_bytes_injective::<C>(i1[n1 - 1], i2[n2 - 1]);
            lemma_encode_list_injective::<C>(i1, n1 - 1, i2, n2 - 1);
        }
    }
}

// C17 "the randomizer is a function of the seed and of the exact commitment set": for seeds of one length (new_from_commitments always
// draws Ns bytes) the preimage determines the seed, the signer set and every signer's two commitments.  So two runs that differ in the seed,
// in the signer set or in any commitment hash DIFFERENT byte strings; whether the randomizers then differ is a statement about the hash
// (collision freeness), which is not assumed and not decided here.  For seeds of DIFFERENT lengths the layout is not injective in general
// (a longer seed may absorb whole encoded items), which is why the length premise is needed.
//@serves C17
pub proof fn thm_randomizer_preimage_injective<C: Ciphersuite>(seed1: Seq<u8>, c1: Map<Identifier<C>, SigningCommitments<C>>, seed2: Seq<u8>, c2: Map<Identifier<C>, SigningCommitments<C>>)
    requires seed1.len() == seed2.len(), c1.dom().finite(), c2.dom().finite(),
        !items_have_identity::<C>(commit_items::<C>(c1)), !items_have_identity::<C>(commit_items::<C>(c2)),
        spec_randomizer_preimage::<C>(seed1, c1) == spec_randomizer_preimage::<C>(seed2, c2),
    ensures seed1 == seed2, c1.dom() == c2.dom(),
        forall|id: Identifier<C>| c1.contains_key(id) ==> (#[trigger] c1[id]).hiding == c2[id].hiding && c1[id].binding == c2[id].binding,
{
    let i1 = commit_items::<C>(c1); let i2 = commit_items::<C>(c2);
    let e1 = spec_encode_list::<C>(i1, i1.len() as int); let e2 = spec_encode_list::<C>(i2, i2.len() as int);
    assert(seed1 =~= (seed1 + e1).subrange(0, seed1.len() as int));
    assert(seed2 =~= (seed2 + e2).subrange(0, seed2.len() as int));
    assert(e1 =~= (seed1 + e1).subrange(seed1.len() as int, (seed1 + e1).len() as int));
    assert(e2 =~= (seed2 + e2).subrange(seed2.len() as int, (seed2 + e2).len() as int));
    lemma_encode_list_injective::<C>(i1, i1.len() as int, i2, i2.len() as int);
    lemma_sorted_exists::<C>(c1.dom()); lemma_sorted_exists::<C>(c2.dom());
    let s1 = sorted_seq(c1.dom()); let s2 = sorted_seq(c2.dom());
    assert(s1 =~= s2) by {
        assert forall|k: int| 0 <= k < s1.len() implies s1[k] == s2[k] by { assert(i1[k].0 == i2[k].0); }
    }
    assert(c1.dom() =~= c2.dom());
    assert forall|id: Identifier<C>| c1.contains_key(id) implies (#[trigger] c1[id]).hiding == c2[id].hiding && c1[id].binding == c2[id].binding by {
        assert(s1.to_set().contains(id));
        let k = choose|k: int| 0 <= k < s1.len() && s1[k] == id;
        assert(i1[k] == (id, c1[id])); assert(i2[k] == (id, c2[id]));
    }
}

// reduction: equal randomizers from inputs that differ (equal-length seeds) exhibit a collision of the hash hook
//@serves C17
pub proof fn thm_equal_randomizers_from_different_inputs_is_a_hash_collision<C: RandomizedCiphersuite>(seed1: Seq<u8>, c1: Map<Identifier<C>, SigningCommitments<C>>,
        seed2: Seq<u8>, c2: Map<Identifier<C>, SigningCommitments<C>>)
    requires seed1.len() == seed2.len(), c1.dom().finite(), c2.dom().finite(),
        spec_regenerate_randomizer::<C>(seed1, c1) is Ok, spec_regenerate_randomizer::<C>(seed1, c1) == spec_regenerate_randomizer::<C>(seed2, c2),
        seed1 != seed2 || c1.dom() != c2.dom() || (exists|id: Identifier<C>| c1.contains_key(id) && (c1[id].hiding != c2[id].hiding || c1[id].binding != c2[id].binding)),
    ensures
        spec_randomizer_preimage::<C>(seed1, c1) != spec_randomizer_preimage::<C>(seed2, c2),
        C::spec_hash_randomizer(spec_randomizer_preimage::<C>(seed1, c1)) == C::spec_hash_randomizer(spec_randomizer_preimage::<C>(seed2, c2)),
{
    if spec_randomizer_preimage::<C>(seed1, c1) == spec_randomizer_preimage::<C>(seed2, c2) {
        thm_randomizer_preimage_injective::<C>(seed1, c1, seed2, c2);
    }
}

// =====================================================================================================================================
// (2) the randomized key material is a consistent FROST key set for the polynomial f + r
// =====================================================================================================================================

//@serves C17
pub proof fn thm_randomized_key_package_consistent<C: Ciphersuite>(kp: KeyPackage<C>, r: Randomizer<C>, s: Scalar<C>)
    requires kp.verifying_share.0.0 == gmul::<C>(kp.signing_share.0.0)
    ensures ({
        let p = spec_randomized_params::<C>(kp.verifying_key, r);
        let kp2 = spec_randomize_key_package::<C>(kp, p);
        &&& p.randomizer_element == gmul::<C>(r.0.0)
        &&& kp2.signing_share.0.0 == sadd::<C>(kp.signing_share.0.0, r.0.0)
        &&& kp2.verifying_share.0.0 == gmul::<C>(kp2.signing_share.0.0)
        &&& kp2.identifier == kp.identifier && kp2.min_signers == kp.min_signers
        &&& kp2.verifying_key == p.randomized_verifying_key
        &&& kp2.verifying_key.element.0 == eadd::<C>(kp.verifying_key.element.0, gmul::<C>(r.0.0))
        &&& (kp.verifying_key.element.0 == gmul::<C>(s) ==> kp2.verifying_key.element.0 == gmul::<C>(sadd::<C>(s, r.0.0)))
    })
{
    GG::<C>::ax_smul_add(eg::<C>(), kp.signing_share.0.0, r.0.0);
    GG::<C>::ax_smul_add(eg::<C>(), s, r.0.0);
}

//@serves C17
pub proof fn thm_randomized_public_key_package_consistent<C: Ciphersuite>(pk: PublicKeyPackage<C>, rpk: PublicKeyPackage<C>, r: Randomizer<C>, s: Scalar<C>)
    requires spec_is_randomized_public_key_package::<C>(rpk, pk, spec_randomized_params::<C>(pk.verifying_key, r))
    ensures
        rpk.verifying_shares@.dom() == pk.verifying_shares@.dom(), rpk.min_signers == pk.min_signers,
        rpk.verifying_key.element.0 == eadd::<C>(pk.verifying_key.element.0, gmul::<C>(r.0.0)),
        pk.verifying_key.element.0 == gmul::<C>(s) ==> rpk.verifying_key.element.0 == gmul::<C>(sadd::<C>(s, r.0.0)),
        // every verifying share is shifted: Y_i = s_i G  ==>  Y_i' = (s_i + r) G
        forall|id: Identifier<C>, si: Scalar<C>| pk.verifying_shares@.contains_key(id) && (#[trigger] pk.verifying_shares@[id]).0.0 == gmul::<C>(si)
            ==> rpk.verifying_shares@[id].0.0 == #[trigger] gmul::<C>(sadd::<C>(si, r.0.0)),
{
    GG::<C>::ax_smul_add(eg::<C>(), s, r.0.0);
    assert forall|id: Identifier<C>, si: Scalar<C>| pk.verifying_shares@.contains_key(id) && (#[trigger] pk.verifying_shares@[id]).0.0 == gmul::<C>(si)
            implies rpk.verifying_shares@[id].0.0 == #[trigger] gmul::<C>(sadd::<C>(si, r.0.0)) by {
        GG::<C>::ax_smul_add(eg::<C>(), si, r.0.0);
    }
}

// the coordinator's randomized package and a participant's randomized key package agree on that participant's verifying share and on the group key
//@serves C17
pub proof fn thm_participant_and_coordinator_agree<C: Ciphersuite>(kp: KeyPackage<C>, pk: PublicKeyPackage<C>, rpk: PublicKeyPackage<C>, r: Randomizer<C>)
    requires pk.verifying_key == kp.verifying_key, pk.verifying_shares@.contains_key(kp.identifier), pk.verifying_shares@[kp.identifier] == kp.verifying_share,
        spec_is_randomized_public_key_package::<C>(rpk, pk, spec_randomized_params::<C>(pk.verifying_key, r)),
    ensures ({
        let kp2 = spec_randomize_key_package::<C>(kp, spec_randomized_params::<C>(kp.verifying_key, r));
        rpk.verifying_shares@.contains_key(kp.identifier) && rpk.verifying_shares@[kp.identifier] == kp2.verifying_share && rpk.verifying_key == kp2.verifying_key
            && rpk.min_signers == pk.min_signers && kp2.min_signers == kp.min_signers })
{}

// f + r: the polynomial with the constant term shifted by r
pub open spec fn spec_shift_constant<C: Ciphersuite>(a: Seq<Scalar<C>>, r: Scalar<C>) -> Seq<Scalar<C>> { a.update(0, sadd::<C>(a[0], r)) }

pub proof fn lemma_poly_shift_constant<C: Ciphersuite>(a: Seq<Scalar<C>>, r: Scalar<C>, x: Scalar<C>)
    requires a.len() >= 1
    ensures poly::<AL<C>>(spec_shift_constant::<C>(a, r), x) == sadd::<C>(poly::<AL<C>>(a, x), r)
{
    let b = spec_shift_constant::<C>(a, r);
    assert(b.drop_first() =~= a.drop_first());
    let t = smul::<C>(poly::<AL<C>>(a.drop_first(), x), x);
    // (a0 + r) + t == (a0 + t) + r
    FF::<C>::ax_add_assoc(a[0], r, t); FF::<C>::ax_add_comm(r, t); FF::<C>::ax_add_assoc(a[0], t, r);
}

// shares of f with group key f(0)*G become shares of f + r with group key (f + r)(0)*G, same identifiers, same degree (threshold):
// every frost-core statement about "a key set dealt from a polynomial" (C01 correctness, C03 threshold) applies to the randomized set
//@serves C17
pub proof fn thm_randomized_shares_lie_on_shifted_polynomial<C: Ciphersuite>(kp: KeyPackage<C>, r: Randomizer<C>, a: Seq<Scalar<C>>)
    requires a.len() >= 1, kp.signing_share.0.0 == poly::<AL<C>>(a, kp.identifier.0.0), kp.verifying_share.0.0 == gmul::<C>(kp.signing_share.0.0),
        kp.verifying_key.element.0 == gmul::<C>(a[0]),
    ensures ({
        let kp2 = spec_randomize_key_package::<C>(kp, spec_randomized_params::<C>(kp.verifying_key, r));
        let a2 = spec_shift_constant::<C>(a, r.0.0);
        a2.len() == a.len() && a2[0] == sadd::<C>(a[0], r.0.0) && (forall|k: int| 1 <= k < a.len() ==> a2[k] == a[k])
        && kp2.signing_share.0.0 == poly::<AL<C>>(a2, kp2.identifier.0.0)
        && kp2.verifying_share.0.0 == gmul::<C>(kp2.signing_share.0.0)
        && kp2.verifying_key.element.0 == gmul::<C>(a2[0]) })
{
    lemma_poly_shift_constant::<C>(a, r.0.0, kp.identifier.0.0);
    thm_randomized_key_package_consistent::<C>(kp, r, a[0]);
}

// =====================================================================================================================================
// (3) the randomized key differs from the group key for a non-zero randomizer; validity under both keys
// =====================================================================================================================================

//@serves C17
pub proof fn thm_randomized_key_differs_iff_randomizer_nonzero<C: Ciphersuite>(vk: VerifyingKey<C>, r: Randomizer<C>)
    ensures (spec_randomized_params::<C>(vk, r).randomized_verifying_key == vk) == (r.0.0 == s0::<C>()),
        (spec_randomized_params::<C>(vk, r).randomizer_element == e0::<C>()) == (r.0.0 == s0::<C>()),
{
    let y = vk.element.0; let d = gmul::<C>(r.0.0);
    GG::<C>::ax_eadd_id(y);
    GG::<C>::ax_smul_cancel(eg::<C>(), r.0.0);
    GG::<C>::ax_gen_ne_id();
    lemma_smul_zero::<C>(eg::<C>());
    if eadd::<C>(y, d) == y { lemma_eadd_cancel::<C>(y, d, e0::<C>()); }
}

// ((A - P) - R) + P == A - R
proof fn lemma_delta_plus_term<C: Ciphersuite>(a: Element<C>, p: Element<C>, r: Element<C>)
    ensures eadd::<C>(esub::<C>(esub::<C>(a, p), r), p) == esub::<C>(a, r)
{
    let np = GG::<C>::e_neg(p); let nr = GG::<C>::e_neg(r);
    GG::<C>::ax_eadd_assoc(eadd::<C>(a, np), nr, p);
    GG::<C>::ax_eadd_comm(nr, p);
    GG::<C>::ax_eadd_assoc(eadd::<C>(a, np), p, nr);
    GG::<C>::ax_eadd_assoc(a, np, p);
    GG::<C>::ax_eadd_comm(np, p);
    GG::<C>::ax_eadd_neg(p);
    GG::<C>::ax_eadd_id(a);
}

// a signature (R, z) that satisfies the (cofactored) verification equation under key A with challenge c_A and under key B with challenge c_B
// forces  h*(c_A*A) == h*(c_B*B)
//@serves C17
pub proof fn lemma_valid_under_two_keys<C: Ciphersuite>(ka: VerifyingKey<C>, ca: Challenge<C>, kb: VerifyingKey<C>, cb: Challenge<C>, sig: Signature<C>)
    requires spec_sig_valid::<C>(ka, ca, sig), spec_sig_valid::<C>(kb, cb, sig)
    ensures emul::<C>(emul::<C>(ka.element.0, ca.0), GG::<C>::s_cofactor()) == emul::<C>(emul::<C>(kb.element.0, cb.0), GG::<C>::s_cofactor())
{
    let h = GG::<C>::s_cofactor();
    let a = gmul::<C>(sig.z);
    let pa = emul::<C>(ka.element.0, ca.0); let pb = emul::<C>(kb.element.0, cb.0);
    let da = spec_delta::<C>(ka, ca, sig); let db = spec_delta::<C>(kb, cb, sig);
    lemma_delta_plus_term::<C>(a, pa, sig.R); lemma_delta_plus_term::<C>(a, pb, sig.R);
    // h*(da + pa) == h*(db + pb), h*da == 0 == h*db
    GG::<C>::ax_smul_eadd(da, pa, h); GG::<C>::ax_smul_eadd(db, pb, h);
    lemma_eid_add::<C>(emul::<C>(pa, h)); lemma_eid_add::<C>(emul::<C>(pb, h));
}

// the algebraic core of "does not verify under the original key": with ONE challenge c, a signature cannot satisfy the verification
// equation under both Y and Y + rG unless c == 0 or r == 0
//@serves C17
pub proof fn thm_not_valid_under_original_key_same_challenge<C: Ciphersuite>(vk: VerifyingKey<C>, r: Randomizer<C>, c: Challenge<C>, sig: Signature<C>)
    requires r.0.0 != s0::<C>(), c.0 != s0::<C>(),
        spec_sig_valid::<C>(spec_randomized_params::<C>(vk, r).randomized_verifying_key, c, sig),
    ensures !spec_sig_valid::<C>(vk, c, sig)
{
    let h = GG::<C>::s_cofactor();
    let y = vk.element.0; let d = gmul::<C>(r.0.0);
    let vk2 = spec_randomized_params::<C>(vk, r).randomized_verifying_key;
    if spec_sig_valid::<C>(vk, c, sig) {
        lemma_valid_under_two_keys::<C>(vk2, c, vk, c, sig);
        // h*(c*(Y + D)) == h*(c*Y) + h*(c*D)
        GG::<C>::ax_smul_eadd(y, d, c.0);
        GG::<C>::ax_smul_eadd(emul::<C>(y, c.0), emul::<C>(d, c.0), h);
        GG::<C>::ax_eadd_id(emul::<C>(emul::<C>(y, c.0), h));
        lemma_eadd_cancel::<C>(emul::<C>(emul::<C>(y, c.0), h), emul::<C>(emul::<C>(d, c.0), h), e0::<C>());
        // h*(c*(r*G)) == 0 with h, c, r non-zero and G not the identity: impossible in a prime-order group
        GG::<C>::ax_smul_cancel(emul::<C>(d, c.0), h); GG::<C>::ax_cofactor_nonzero();
        GG::<C>::ax_smul_cancel(d, c.0);
        GG::<C>::ax_smul_cancel(eg::<C>(), r.0.0); GG::<C>::ax_gen_ne_id();
        assert(false);
    }
}

// full RFC 9591 verification (each key enters its own challenge  c_K = H2(enc(R) || enc(K) || msg)):  a signature accepted under the
// randomized key AND under the original key forces the relation  h*(c_Y' * Y') == h*(c_Y * Y)  between two hash outputs and the keys.
// That this relation fails (for Y = sG: (c_Y' - c_Y)*s + c_Y'*r != 0) is a statement about H2 and is NOT decided here.
//@serves C17
pub proof fn thm_verifies_under_both_keys_only_if<C: Ciphersuite>(vk: VerifyingKey<C>, r: Randomizer<C>, msg: Seq<u8>, sig: Signature<C>)
    requires spec_verify::<C>(spec_randomized_params::<C>(vk, r).randomized_verifying_key, msg, sig) is Ok, spec_verify::<C>(vk, msg, sig) is Ok
    ensures ({
        let vk2 = spec_randomized_params::<C>(vk, r).randomized_verifying_key;
        let c2 = C::spec_H2(enc_el::<C>(sig.R) + enc_el::<C>(vk2.element.0) + msg);
        let c1 = C::spec_H2(enc_el::<C>(sig.R) + enc_el::<C>(vk.element.0) + msg);
        emul::<C>(emul::<C>(vk2.element.0, c2), GG::<C>::s_cofactor()) == emul::<C>(emul::<C>(vk.element.0, c1), GG::<C>::s_cofactor()) })
{
    let vk2 = spec_randomized_params::<C>(vk, r).randomized_verifying_key;
    let c2 = spec_rfc_challenge::<C>(sig.R, vk2, msg)->Ok_0;
    let c1 = spec_rfc_challenge::<C>(sig.R, vk, msg)->Ok_0;
    lemma_valid_under_two_keys::<C>(vk2, c2, vk, c1, sig);
}

// =====================================================================================================================================
// (4) signing and aggregation are the frost-core functions on the shifted inputs: thresholds and cheater identification carry over
// =====================================================================================================================================

// `agg_result_is` reads a public key package only through its group key, its threshold and the VIEW of its share map
//@serves C17
pub proof fn lemma_agg_result_package_ext<C: Ciphersuite>(res: Result<Signature<C>, Error<C>>, sp: SigningPackage<C>, shares: ShareMap<C>,
        pk1: PublicKeyPackage<C>, pk2: PublicKeyPackage<C>, detect: bool, first: bool)
    requires pk1.verifying_key == pk2.verifying_key, pk1.min_signers == pk2.min_signers, pk1.verifying_shares@ == pk2.verifying_shares@
    ensures agg_result_is::<C>(res, sp, shares, pk1, detect, first) == agg_result_is::<C>(res, sp, shares, pk2, detect, first)
{
    assert(agg_guard_err::<C>(sp, shares, pk1, detect) == agg_guard_err::<C>(sp, shares, pk2, detect));
    assert(agg_culprits::<C>(sp, shares, pk1) == agg_culprits::<C>(sp, shares, pk2));
}

// the result of rerandomized aggregate / aggregate_custom IS the frost-core result for ANY package with the shifted entries
//@serves C17
pub proof fn thm_aggregate_is_core_aggregate_on_randomized_package<C: Ciphersuite>(res: Result<Signature<C>, Error<C>>, sp: SigningPackage<C>, shares: ShareMap<C>,
        pk: PublicKeyPackage<C>, p: RandomizedParams<C>, rpk: PublicKeyPackage<C>, detect: bool, first: bool)
    requires spec_randomized_agg_result_is::<C>(res, sp, shares, pk, p, detect, first), spec_is_randomized_public_key_package::<C>(rpk, pk, p)
    ensures agg_result_is::<C>(res, sp, shares, rpk, detect, first)
{
    let w = choose|w: PublicKeyPackage<C>| #[trigger] spec_is_randomized_public_key_package::<C>(w, pk, p) && agg_result_is::<C>(res, sp, shares, w, detect, first);
    lemma_agg_result_package_ext::<C>(res, sp, shares, w, rpk, detect, first);
}

// threshold enforcement is unchanged by randomization: a participant refuses to sign over fewer commitments than its threshold, whatever
// the randomizer; the coordinator refuses fewer shares than the threshold recorded in the (unrandomized) public key package
//@serves C17
pub proof fn thm_threshold_enforced_under_randomization<C: Ciphersuite>(sp: SigningPackage<C>, sn: SigningNonces<C>, kp: KeyPackage<C>, p: RandomizedParams<C>,
        res: Result<Signature<C>, Error<C>>, shares: ShareMap<C>, pk: PublicKeyPackage<C>, detect: bool, first: bool)
    ensures
        sp.signing_commitments@.dom().len() < kp.min_signers
            ==> spec_sign::<C>(sp, sn, spec_randomize_key_package::<C>(kp, p)) == Err::<crate::round2::SignatureShare<C>, Error<C>>(Error::IncorrectNumberOfCommitments),
        spec_randomized_agg_result_is::<C>(res, sp, shares, pk, p, detect, first) && sp.signing_commitments@.dom().len() == shares.dom().len()
            && pk.min_signers is Some && shares.dom().len() < pk.min_signers->Some_0
            ==> res is Err && res->Err_0 == Error::<C>::IncorrectNumberOfShares,
{
    if spec_randomized_agg_result_is::<C>(res, sp, shares, pk, p, detect, first) {
        let w = choose|w: PublicKeyPackage<C>| #[trigger] spec_is_randomized_public_key_package::<C>(w, pk, p) && agg_result_is::<C>(res, sp, shares, w, detect, first);
        assert(w.min_signers == pk.min_signers);
    }
}

// RFC 9591 5.2/5.3: an honestly computed share  z = d + e*rho + lambda*s*c  passes the share check against  (dG + (eG)*rho,  sG)
//@serves C17
pub proof fn lemma_honest_share_passes<C: Ciphersuite>(d: Scalar<C>, e: Scalar<C>, rho: Scalar<C>, lambda: Scalar<C>, s: Scalar<C>, c: Scalar<C>)
    ensures spec_sigshare_ok::<C>(spec_sig_share::<C>(d, e, rho, lambda, s, c), eadd::<C>(gmul::<C>(d), emul::<C>(gmul::<C>(e), rho)), gmul::<C>(s), lambda, c)
{
    let g = eg::<C>();
    GG::<C>::ax_smul_add(g, sadd::<C>(d, smul::<C>(e, rho)), smul::<C>(smul::<C>(lambda, s), c));
    GG::<C>::ax_smul_add(g, d, smul::<C>(e, rho));
    GG::<C>::ax_smul_mul(g, e, rho);
    // ((sG)*c)*lambda == G*(s*(c*lambda)) and (lambda*s)*c == s*(c*lambda)
    GG::<C>::ax_smul_mul(gmul::<C>(s), c, lambda);
    GG::<C>::ax_smul_mul(g, s, smul::<C>(c, lambda));
    FF::<C>::ax_mul_comm(lambda, s); FF::<C>::ax_mul_assoc(s, lambda, c); FF::<C>::ax_mul_comm(lambda, c);
}

// cheater identification under randomization: the share an honest participant computes with its RANDOMIZED key package passes the
// coordinator's check against that participant's RANDOMIZED verifying share (so it is never among the culprits `agg_culprits` names);
// which shares fail is, by thm_aggregate_is_core_aggregate_on_randomized_package, exactly the frost-core relation on the shifted keys
//@serves C17
pub proof fn thm_honest_randomized_share_is_not_blamed<C: Ciphersuite>(sp: SigningPackage<C>, sn: SigningNonces<C>, kp: KeyPackage<C>, r: Randomizer<C>,
        pk: PublicKeyPackage<C>, rpk: PublicKeyPackage<C>)
    requires
        kp.verifying_share.0.0 == gmul::<C>(kp.signing_share.0.0),
        pk.verifying_key == kp.verifying_key, pk.verifying_shares@.contains_key(kp.identifier), pk.verifying_shares@[kp.identifier] == kp.verifying_share,
        spec_is_randomized_public_key_package::<C>(rpk, pk, spec_randomized_params::<C>(pk.verifying_key, r)),
        // the participant's nonces match its published commitments
        sn.commitments.hiding.0.0 == gmul::<C>(sn.hiding.0.0), sn.commitments.binding.0.0 == gmul::<C>(sn.binding.0.0),
        spec_sign::<C>(sp, sn, spec_randomize_key_package::<C>(kp, spec_randomized_params::<C>(kp.verifying_key, r))) is Ok,
    ensures ({
        let z = spec_sign::<C>(sp, sn, spec_randomize_key_package::<C>(kp, spec_randomized_params::<C>(kp.verifying_key, r)))->Ok_0;
        let vk2 = rpk.verifying_key.element.0;
        sp_share_ok::<C>(sp, sp_rho_map::<C>(sp, vk2), kp.identifier, z.share.0, rpk.verifying_shares@[kp.identifier].0.0, sp_c::<C>(sp, vk2)) })
{
    let p = spec_randomized_params::<C>(kp.verifying_key, r);
    let kp2 = spec_randomize_key_package::<C>(kp, p);
    let vk2 = rpk.verifying_key.element.0;
    let id = kp.identifier;
    thm_randomized_key_package_consistent::<C>(kp, r, s0::<C>());
    thm_participant_and_coordinator_agree::<C>(kp, pk, rpk, r);
    assert(sp.signing_commitments@.contains_key(id));
    assert(sp_rho_map::<C>(sp, vk2)[id].0 == sp_rho::<C>(sp, vk2, id));
    lemma_honest_share_passes::<C>(sn.hiding.0.0, sn.binding.0.0, sp_rho::<C>(sp, vk2, id), sp_lambda::<C>(sp, id), kp2.signing_share.0.0, sp_c::<C>(sp, vk2));
}

} // verus!
}
