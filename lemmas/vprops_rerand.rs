// lemmas/vprops_rerand.rs -- property-level theorems for C17
pub mod vprops_rerand {
#[allow(unused_imports)] use vstd::prelude::*;
#[allow(unused_imports)] use crate::traits::*;
#[allow(unused_imports)] use crate::vspec::*;
#[allow(unused_imports)] use crate::vspec_rerand::*;
#[allow(unused_imports)] use crate::*;
verus! {

} // verus!
}
