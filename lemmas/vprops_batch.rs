// lemmas/vprops_batch.rs -- C19: property-level theorems about batch verification, proved from the group/field axioms only
// (no assume/admit/external_body).  They speak about the spec functions the contracts of contracts/batch.vc pin the code to:
//   Verifier::verify(items, rng)  ==  spec_batch_verify(items, blinders),  blinders = spec_draws(rng.stream(), rng.pos(), n)
//
//   (a)  thm_check_is_blinded_delta_sum :  check == - sum_i b_i * Delta_i,   Delta_i = z_i G - c_i VK_i - R_i
//        thm_hcheck                     :  h * check == - sum_i b_i * (h * Delta_i)      (every item enters with ITS OWN blinder)
//        thm_accept_iff                 :  accepted  <==>  n > 0  and  sum_i b_i * (h * Delta_i) == 0
//   (b)  thm_all_valid_accepted         :  every item valid (h * Delta_i == 0), n > 0  ==>  accepted for EVERY blinder vector
//        thm_all_valid_accepted_any_rng :  ... hence for every rng stream and position
//   (c)  thm_empty_rejected             :  the empty batch is rejected
//   (d)  thm_single_agrees              :  verify_single(Item::new(vk, sig, msg)) == ordinary verification of (vk, msg, sig)
//   (e)  thm_one_invalid_rejected       :  exactly one invalid item, at ANY position k: accepted iff its blinder b_k is zero
//                                          (deterministic special case of soundness; uses the prime-order axiom)
// NOT proved (and not provable as a deterministic statement): rejection of an arbitrary invalid batch.  With two or more invalid
// items the check h * sum_i b_i Delta_i can vanish for particular blinders (e.g. crafted Delta_1 == -Delta_0 and b_0 == b_1); that
// it does so only with probability about 1/q over independent uniform blinders is Schwartz-Zippel, a probabilistic statement
// outside this logic.  What IS pinned are its premises: one fresh draw per item (`fresh_blinders`, `r_coeffs`, `vk_coeffs`,
// `p_coeff_acc` invariants), taken after the items are fixed, and (a): each item's error term is scaled by its own blinder.
pub mod vprops_batch {
#[allow(unused_imports)] use vstd::prelude::*;
#[allow(unused_imports)] use crate::traits::*;
#[allow(unused_imports)] use crate::vspec::*;
#[allow(unused_imports)] use crate::vfield::*;
#[allow(unused_imports)] use crate::vgroup::*;
#[allow(unused_imports)] use crate::batch::*;
#[allow(unused_imports)] use crate::*;
verus! {
//@module_serves C19

// ---------------------------------------------------------------------------------------------------
// vocabulary of the theorems
pub open spec fn eneg<C: Ciphersuite>(a: Element<C>) -> Element<C> { GG::<C>::e_neg(a) }
pub open spec fn cof<C: Ciphersuite>() -> Scalar<C> { GG::<C>::s_cofactor() }

// Delta_i = z_i G - c_i VK_i - R_i   and   h * Delta_i   (item i verifies individually  <==>  h * Delta_i == 0)
pub open spec fn item_delta<C: Ciphersuite>(it: Item<C>) -> Element<C> { spec_delta::<C>(it.vk, it.c, it.sig) }
pub open spec fn item_hdelta<C: Ciphersuite>(it: Item<C>) -> Element<C> { emul::<C>(item_delta::<C>(it), cof::<C>()) }
pub open spec fn item_valid<C: Ciphersuite>(it: Item<C>) -> bool { spec_verify_prehashed::<C>(it.vk, it.c, it.sig) == Ok::<(), Error<C>>(()) }

// sum_{i<j} b_i * Delta_i   and   sum_{i<j} b_i * (h * Delta_i)
pub open spec fn delta_sum<C: Ciphersuite>(items: Seq<Item<C>>, b: Seq<Scalar<C>>, j: nat) -> Element<C> decreases j
{ if j == 0 { e0::<C>() } else { eadd::<C>(delta_sum::<C>(items, b, (j - 1) as nat), emul::<C>(item_delta::<C>(items[j - 1]), b[j - 1])) } }
pub open spec fn hdelta_sum<C: Ciphersuite>(items: Seq<Item<C>>, b: Seq<Scalar<C>>, j: nat) -> Element<C> decreases j
{ if j == 0 { e0::<C>() } else { eadd::<C>(hdelta_sum::<C>(items, b, (j - 1) as nat), emul::<C>(item_hdelta::<C>(items[j - 1]), b[j - 1])) } }

// ---------------------------------------------------------------------------------------------------
// abelian-group bookkeeping
pub proof fn lemma_eneg_id<C: Ciphersuite>()
    ensures eneg::<C>(e0::<C>()) == e0::<C>()
{ GG::<C>::ax_eadd_neg(e0::<C>()); lemma_eid_add::<C>(eneg::<C>(e0::<C>())); }

pub proof fn lemma_eneg_neg<C: Ciphersuite>(a: Element<C>)
    ensures eneg::<C>(eneg::<C>(a)) == a
{
    // (-a) + a == 0, so a is the inverse of -a
    GG::<C>::ax_eadd_neg(a); GG::<C>::ax_eadd_comm(a, eneg::<C>(a));
    lemma_eneg_unique::<C>(eneg::<C>(a), a);
}

// (A + a) + (B + b) == (A + B) + (a + b)
pub proof fn lemma_eadd_swap22<C: Ciphersuite>(A: Element<C>, a: Element<C>, B: Element<C>, b: Element<C>)
    ensures eadd::<C>(eadd::<C>(A, a), eadd::<C>(B, b)) == eadd::<C>(eadd::<C>(A, B), eadd::<C>(a, b))
{
    GG::<C>::ax_eadd_assoc(A, a, eadd::<C>(B, b));      // (A+a)+(B+b) = A+(a+(B+b))
    GG::<C>::ax_eadd_assoc(a, B, b);                    // (a+B)+b = a+(B+b)
    GG::<C>::ax_eadd_comm(a, B);
    GG::<C>::ax_eadd_assoc(B, a, b);                    // (B+a)+b = B+(a+b)
    GG::<C>::ax_eadd_assoc(A, B, eadd::<C>(a, b));      // (A+B)+(a+b) = A+(B+(a+b))
}

// -(a + b) == (-a) + (-b)
pub proof fn lemma_eneg_add<C: Ciphersuite>(a: Element<C>, b: Element<C>)
    ensures eneg::<C>(eadd::<C>(a, b)) == eadd::<C>(eneg::<C>(a), eneg::<C>(b))
{
    lemma_eadd_swap22::<C>(a, b, eneg::<C>(a), eneg::<C>(b));   // (a+b)+(-a+-b) = (a+-a)+(b+-b)
    GG::<C>::ax_eadd_neg(a); GG::<C>::ax_eadd_neg(b); GG::<C>::ax_eadd_id(e0::<C>());
    lemma_eneg_unique::<C>(eadd::<C>(a, b), eadd::<C>(eneg::<C>(a), eneg::<C>(b)));
}

// (-P) * k == -(P * k)
pub proof fn lemma_smul_eneg<C: Ciphersuite>(p: Element<C>, k: Scalar<C>)
    ensures emul::<C>(eneg::<C>(p), k) == eneg::<C>(emul::<C>(p, k))
{
    GG::<C>::ax_smul_eadd(p, eneg::<C>(p), k);      // (P + -P) k = P k + (-P) k
    GG::<C>::ax_eadd_neg(p);
    lemma_smul_id::<C>(k);
    lemma_eneg_unique::<C>(emul::<C>(p, k), emul::<C>(eneg::<C>(p), k));
}

// (P * j) * k == (P * k) * j
pub proof fn lemma_smul_swap<C: Ciphersuite>(p: Element<C>, j: Scalar<C>, k: Scalar<C>)
    ensures emul::<C>(emul::<C>(p, j), k) == emul::<C>(emul::<C>(p, k), j)
{ GG::<C>::ax_smul_mul(p, j, k); GG::<C>::ax_smul_mul(p, k, j); FF::<C>::ax_mul_comm(j, k); }

// ---------------------------------------------------------------------------------------------------
// multiscalar product: singleton, concatenation, one more term
pub proof fn lemma_msm_single<C: Ciphersuite>(s: Scalar<C>, e: Element<C>)
    ensures spec_msm::<C>(seq![s], seq![e]) == emul::<C>(e, s)
{
    assert(seq![s].drop_last().len() == 0);
    assert(spec_msm::<C>(seq![s].drop_last(), seq![e].drop_last()) == e0::<C>());
    assert(seq![s].last() == s && seq![e].last() == e);
    lemma_eid_add::<C>(emul::<C>(e, s));
}

pub proof fn lemma_msm_push<C: Ciphersuite>(s: Seq<Scalar<C>>, e: Seq<Element<C>>, sk: Scalar<C>, ek: Element<C>)
    ensures spec_msm::<C>(s.push(sk), e.push(ek)) == eadd::<C>(spec_msm::<C>(s, e), emul::<C>(ek, sk))
{
    assert(s.push(sk).drop_last() =~= s);
    assert(e.push(ek).drop_last() =~= e);
    assert(s.push(sk).last() == sk && e.push(ek).last() == ek);
}

pub proof fn lemma_msm_concat<C: Ciphersuite>(s1: Seq<Scalar<C>>, e1: Seq<Element<C>>, s2: Seq<Scalar<C>>, e2: Seq<Element<C>>)
    requires s1.len() == e1.len(), s2.len() == e2.len()
    ensures spec_msm::<C>(s1 + s2, e1 + e2) == eadd::<C>(spec_msm::<C>(s1, e1), spec_msm::<C>(s2, e2))
    decreases s2.len()
{
    if s2.len() == 0 {
        assert(s1 + s2 =~= s1);
        assert(e1 + e2 =~= e1);
        GG::<C>::ax_eadd_id(spec_msm::<C>(s1, e1));
    } else {
        lemma_msm_concat::<C>(s1, e1, s2.drop_last(), e2.drop_last());
        assert((s1 + s2).drop_last() =~= s1 + s2.drop_last());
        assert((e1 + e2).drop_last() =~= e1 + e2.drop_last());
        assert((s1 + s2).last() == s2.last() && (e1 + e2).last() == e2.last());
        GG::<C>::ax_eadd_assoc(spec_msm::<C>(s1, e1), spec_msm::<C>(s2.drop_last(), e2.drop_last()), emul::<C>(e2.last(), s2.last()));
    }
}

// ---------------------------------------------------------------------------------------------------
// (a) the check value is minus the blinded sum of the items' error terms

// the three terms item i adds to the multiscalar product are  -(b * Delta_i):
//   (-(b z)) G + (b c) VK + b R  ==  -( b * (z G - c VK - R) )
pub proof fn lemma_item_terms<C: Ciphersuite>(it: Item<C>, b: Scalar<C>)
    ensures
        eadd::<C>(eadd::<C>(emul::<C>(eg::<C>(), FF::<C>::s_neg(smul::<C>(b, it.sig.z))), emul::<C>(it.vk.element.0, smul::<C>(b, it.c.0))), emul::<C>(it.sig.R, b))
            == eneg::<C>(emul::<C>(item_delta::<C>(it), b))
{
    let z = it.sig.z; let c = it.c.0; let vk = it.vk.element.0; let r = it.sig.R;
    let gz = gmul::<C>(z); let ca = emul::<C>(vk, c);
    // Delta * b = ((gz + -ca) + -r) * b = (gz b + (-ca) b) + (-r) b
    GG::<C>::ax_smul_eadd(eadd::<C>(gz, eneg::<C>(ca)), eneg::<C>(r), b);
    GG::<C>::ax_smul_eadd(gz, eneg::<C>(ca), b);
    lemma_smul_eneg::<C>(ca, b);
    lemma_smul_eneg::<C>(r, b);
    let t1 = emul::<C>(gz, b); let t2 = emul::<C>(ca, b); let t3 = emul::<C>(r, b);
    assert(emul::<C>(item_delta::<C>(it), b) == eadd::<C>(eadd::<C>(t1, eneg::<C>(t2)), eneg::<C>(t3)));
    // -(that) = (-t1 + t2) + t3
    lemma_eneg_add::<C>(eadd::<C>(t1, eneg::<C>(t2)), eneg::<C>(t3));
    lemma_eneg_add::<C>(t1, eneg::<C>(t2));
    lemma_eneg_neg::<C>(t2);
    lemma_eneg_neg::<C>(t3);
    // -t1 = -(G z b) = G (-(b z))
    GG::<C>::ax_smul_mul(eg::<C>(), z, b);
    FF::<C>::ax_mul_comm(z, b);
    lemma_smul_neg::<C>(eg::<C>(), smul::<C>(b, z));
    // t2 = (VK c) b = VK (b c)
    GG::<C>::ax_smul_mul(vk, c, b);
    FF::<C>::ax_mul_comm(c, b);
}

// the running form of the batch equation after j items
pub open spec fn batch_prefix<C: Ciphersuite>(items: Seq<Item<C>>, b: Seq<Scalar<C>>, j: nat) -> Element<C> {
    eadd::<C>(eadd::<C>(emul::<C>(eg::<C>(), FF::<C>::s_neg(spec_bz_sum::<C>(items, b, j))),
                        spec_msm::<C>(spec_vk_coeffs::<C>(items, b, j), spec_vks::<C>(items, j))),
              spec_msm::<C>(b.take(j as int), spec_rs::<C>(items, j)))
}

pub proof fn lemma_batch_prefix<C: Ciphersuite>(items: Seq<Item<C>>, b: Seq<Scalar<C>>, j: nat)
    requires j <= items.len(), b.len() == items.len()
    ensures batch_prefix::<C>(items, b, j) == eneg::<C>(delta_sum::<C>(items, b, j))
    decreases j
{
    if j == 0 {
        lemma_sneg_zero::<C>();
        lemma_smul_zero::<C>(eg::<C>());
        GG::<C>::ax_eadd_id(e0::<C>());
        lemma_eneg_id::<C>();
        assert(spec_vk_coeffs::<C>(items, b, 0).len() == 0);
        assert(b.take(0).len() == 0);
    } else {
        let i = (j - 1) as nat;
        lemma_batch_prefix::<C>(items, b, i);
        let it = items[i as int]; let bi = b[i as int];
        // the three running parts, one more term each
        let s_old = spec_bz_sum::<C>(items, b, i); let t = smul::<C>(bi, it.sig.z);
        lemma_sneg_add::<C>(s_old, t);
        GG::<C>::ax_smul_add(eg::<C>(), FF::<C>::s_neg(s_old), FF::<C>::s_neg(t));
        assert(spec_vk_coeffs::<C>(items, b, j) =~= spec_vk_coeffs::<C>(items, b, i).push(smul::<C>(bi, it.c.0)));
        assert(spec_vks::<C>(items, j) =~= spec_vks::<C>(items, i).push(it.vk.element.0));
        assert(spec_rs::<C>(items, j) =~= spec_rs::<C>(items, i).push(it.sig.R));
        assert(b.take(j as int) =~= b.take(i as int).push(bi));
        lemma_msm_push::<C>(spec_vk_coeffs::<C>(items, b, i), spec_vks::<C>(items, i), smul::<C>(bi, it.c.0), it.vk.element.0);
        lemma_msm_push::<C>(b.take(i as int), spec_rs::<C>(items, i), bi, it.sig.R);
        let A = emul::<C>(eg::<C>(), FF::<C>::s_neg(s_old)); let a = emul::<C>(eg::<C>(), FF::<C>::s_neg(t));
        let B = spec_msm::<C>(spec_vk_coeffs::<C>(items, b, i), spec_vks::<C>(items, i)); let bb = emul::<C>(it.vk.element.0, smul::<C>(bi, it.c.0));
        let Cc = spec_msm::<C>(b.take(i as int), spec_rs::<C>(items, i)); let cc = emul::<C>(it.sig.R, bi);
        assert(batch_prefix::<C>(items, b, j) == eadd::<C>(eadd::<C>(eadd::<C>(A, a), eadd::<C>(B, bb)), eadd::<C>(Cc, cc)));
        // ((A+a)+(B+b))+(C+c) == ((A+B)+C) + ((a+b)+c)
        lemma_eadd_swap22::<C>(A, a, B, bb);
        lemma_eadd_swap22::<C>(eadd::<C>(A, B), eadd::<C>(a, bb), Cc, cc);
        lemma_item_terms::<C>(it, bi);
        lemma_eneg_add::<C>(delta_sum::<C>(items, b, i), emul::<C>(item_delta::<C>(it), bi));
    }
}

// (a)  check == - sum_i b_i * Delta_i
pub proof fn thm_check_is_blinded_delta_sum<C: Ciphersuite>(items: Seq<Item<C>>, b: Seq<Scalar<C>>)
    requires b.len() == items.len()
    ensures spec_batch_check::<C>(items, b) == eneg::<C>(delta_sum::<C>(items, b, items.len()))
{
    let n = items.len();
    let p = FF::<C>::s_neg(spec_bz_sum::<C>(items, b, n));
    let vkc = spec_vk_coeffs::<C>(items, b, n); let vks = spec_vks::<C>(items, n); let rs = spec_rs::<C>(items, n);
    lemma_msm_concat::<C>(seq![p] + vkc, seq![eg::<C>()] + vks, b, rs);
    lemma_msm_concat::<C>(seq![p], seq![eg::<C>()], vkc, vks);
    lemma_msm_single::<C>(p, eg::<C>());
    assert(b.take(n as int) =~= b);
    lemma_batch_prefix::<C>(items, b, n);
}

// h * (sum_{i<j} b_i Delta_i) == sum_{i<j} b_i (h Delta_i)
pub proof fn lemma_hdelta_sum<C: Ciphersuite>(items: Seq<Item<C>>, b: Seq<Scalar<C>>, j: nat)
    ensures emul::<C>(delta_sum::<C>(items, b, j), cof::<C>()) == hdelta_sum::<C>(items, b, j)
    decreases j
{
    if j == 0 { lemma_smul_id::<C>(cof::<C>()); }
    else {
        lemma_hdelta_sum::<C>(items, b, (j - 1) as nat);
        GG::<C>::ax_smul_eadd(delta_sum::<C>(items, b, (j - 1) as nat), emul::<C>(item_delta::<C>(items[j - 1]), b[j - 1]), cof::<C>());
        lemma_smul_swap::<C>(item_delta::<C>(items[j - 1]), b[j - 1], cof::<C>());
    }
}

// the cofactor-cleared check: every item's error term h * Delta_i enters scaled by its own blinder b_i
pub proof fn thm_hcheck<C: Ciphersuite>(items: Seq<Item<C>>, b: Seq<Scalar<C>>)
    requires b.len() == items.len()
    ensures emul::<C>(spec_batch_check::<C>(items, b), cof::<C>()) == eneg::<C>(hdelta_sum::<C>(items, b, items.len()))
{
    thm_check_is_blinded_delta_sum::<C>(items, b);
    lemma_smul_eneg::<C>(delta_sum::<C>(items, b, items.len()), cof::<C>());
    lemma_hdelta_sum::<C>(items, b, items.len());
}

// property form of the acceptance condition:  accepted  <==>  non-empty  and  sum_i b_i * (h * Delta_i) == 0
pub proof fn thm_accept_iff<C: Ciphersuite>(items: Seq<Item<C>>, b: Seq<Scalar<C>>)
    requires b.len() == items.len()
    ensures (spec_batch_verify::<C>(items, b) == Ok::<(), Error<C>>(())) == (items.len() > 0 && hdelta_sum::<C>(items, b, items.len()) == e0::<C>())
{
    thm_hcheck::<C>(items, b);
    lemma_eneg_id::<C>();
    let x = hdelta_sum::<C>(items, b, items.len());
    if eneg::<C>(x) == e0::<C>() { lemma_eneg_neg::<C>(x); }
}

// ---------------------------------------------------------------------------------------------------
// (b) completeness: a non-empty batch of individually valid items is accepted, whatever the blinders
pub proof fn lemma_item_valid<C: Ciphersuite>(it: Item<C>)
    ensures item_valid::<C>(it) == (item_hdelta::<C>(it) == e0::<C>())
{}

pub proof fn lemma_hdelta_sum_valid<C: Ciphersuite>(items: Seq<Item<C>>, b: Seq<Scalar<C>>, j: nat)
    requires j <= items.len(), forall|i: int| 0 <= i < j ==> item_valid::<C>(#[trigger] items[i])
    ensures hdelta_sum::<C>(items, b, j) == e0::<C>()
    decreases j
{
    if j > 0 {
        lemma_hdelta_sum_valid::<C>(items, b, (j - 1) as nat);
        lemma_item_valid::<C>(items[j - 1]);
        lemma_smul_id::<C>(b[j - 1]);
        GG::<C>::ax_eadd_id(e0::<C>());
    }
}

pub proof fn thm_all_valid_accepted<C: Ciphersuite>(items: Seq<Item<C>>, b: Seq<Scalar<C>>)
    requires items.len() > 0, b.len() == items.len(), forall|i: int| 0 <= i < items.len() ==> item_valid::<C>(#[trigger] items[i])
    ensures spec_batch_verify::<C>(items, b) == Ok::<(), Error<C>>(())
{
    thm_hcheck::<C>(items, b);
    lemma_hdelta_sum_valid::<C>(items, b, items.len());
    lemma_eneg_id::<C>();
}

// ... in particular for the blinders `Verifier::verify` draws, for every rng stream and every stream position
pub proof fn thm_all_valid_accepted_any_rng<C: Ciphersuite>(items: Seq<Item<C>>, stream: spec_fn(nat) -> u8, pos: nat)
    requires items.len() > 0, forall|i: int| 0 <= i < items.len() ==> item_valid::<C>(#[trigger] items[i])
    ensures spec_batch_verify::<C>(items, spec_draws::<C>(stream, pos, items.len())) == Ok::<(), Error<C>>(())
{
    lemma_draws_len::<C>(stream, pos, items.len());
    thm_all_valid_accepted::<C>(items, spec_draws::<C>(stream, pos, items.len()));
}

// ---------------------------------------------------------------------------------------------------
// (c) the empty batch is rejected
pub proof fn thm_empty_rejected<C: Ciphersuite>(items: Seq<Item<C>>, b: Seq<Scalar<C>>)
    requires items.len() == 0
    ensures spec_batch_verify::<C>(items, b) == Err::<(), Error<C>>(Error::InvalidSignature)
{}

// ---------------------------------------------------------------------------------------------------
// (d) single-item verification agrees with ordinary verification of the same key, message and signature
// (`Item::verify_single` ensures `res == spec_verify_prehashed(item.vk, item.c, item.sig)`, `Item::new` ensures
//  `res == spec_item_new(..)`, `VerifyingKey::verify` ensures `res == spec_verify(..)` -- contracts/batch.vc)
pub proof fn thm_single_agrees<C: Ciphersuite>(vk: VerifyingKey<C>, sig: Signature<C>, msg: Seq<u8>)
    ensures
        match spec_item_new::<C>(vk, sig, msg) {
            Ok(item) => item.vk == vk && item.sig == sig
                && spec_verify_prehashed::<C>(item.vk, item.c, item.sig) == spec_verify::<C>(vk, msg, sig),
            Err(e) => spec_verify::<C>(vk, msg, sig) == Err::<(), Error<C>>(e),      // no item <==> ordinary verification fails the same way
        },
{}

// a batch of ONE item is accepted iff  b_0 * (h * Delta_0) == 0; with a non-zero blinder: iff the item verifies individually
pub proof fn thm_batch_of_one<C: Ciphersuite>(it: Item<C>, b0: Scalar<C>)
    requires b0 != s0::<C>()
    ensures spec_batch_verify::<C>(seq![it], seq![b0]) == spec_verify_prehashed::<C>(it.vk, it.c, it.sig)
{
    let items = seq![it]; let b = seq![b0];
    thm_hcheck::<C>(items, b);
    assert(hdelta_sum::<C>(items, b, 0) == e0::<C>());
    assert(hdelta_sum::<C>(items, b, 1) == eadd::<C>(hdelta_sum::<C>(items, b, 0), emul::<C>(item_hdelta::<C>(items[0]), b[0])));
    lemma_eid_add::<C>(emul::<C>(item_hdelta::<C>(it), b0));
    let x = emul::<C>(item_hdelta::<C>(it), b0);
    lemma_item_valid::<C>(it);
    GG::<C>::ax_smul_cancel(item_hdelta::<C>(it), b0);
    lemma_smul_id::<C>(b0);
    lemma_eneg_id::<C>();
    if eneg::<C>(x) == e0::<C>() { lemma_eneg_neg::<C>(x); }
}

// ---------------------------------------------------------------------------------------------------
// (e) exactly one invalid item, at any position k: the batch is accepted iff that item's blinder is zero
pub proof fn lemma_hdelta_sum_one_invalid<C: Ciphersuite>(items: Seq<Item<C>>, b: Seq<Scalar<C>>, k: int, j: nat)
    requires 0 <= k < items.len(), j <= items.len(), forall|i: int| 0 <= i < items.len() && i != k ==> item_valid::<C>(#[trigger] items[i])
    ensures hdelta_sum::<C>(items, b, j) == if k < j { emul::<C>(item_hdelta::<C>(items[k]), b[k]) } else { e0::<C>() }
    decreases j
{
    if j > 0 {
        lemma_hdelta_sum_one_invalid::<C>(items, b, k, (j - 1) as nat);
        if j - 1 == k {
            lemma_eid_add::<C>(emul::<C>(item_hdelta::<C>(items[k]), b[k]));
        } else {
            lemma_item_valid::<C>(items[j - 1]);
            lemma_smul_id::<C>(b[j - 1]);
            GG::<C>::ax_eadd_id(hdelta_sum::<C>(items, b, (j - 1) as nat));
        }
    }
}

pub proof fn thm_one_invalid_rejected<C: Ciphersuite>(items: Seq<Item<C>>, b: Seq<Scalar<C>>, k: int)
    requires
        b.len() == items.len(), 0 <= k < items.len(),
        !item_valid::<C>(items[k]),
        forall|i: int| 0 <= i < items.len() && i != k ==> item_valid::<C>(#[trigger] items[i]),
    ensures
        (spec_batch_verify::<C>(items, b) == Ok::<(), Error<C>>(())) == (b[k] == s0::<C>()),
        b[k] != s0::<C>() ==> spec_batch_verify::<C>(items, b) == Err::<(), Error<C>>(Error::InvalidSignature),
{
    thm_hcheck::<C>(items, b);
    lemma_hdelta_sum_one_invalid::<C>(items, b, k, items.len());
    let x = emul::<C>(item_hdelta::<C>(items[k]), b[k]);
    lemma_item_valid::<C>(items[k]);
    GG::<C>::ax_smul_cancel(item_hdelta::<C>(items[k]), b[k]);      // prime order: b_k * X == 0 ==> b_k == 0 or X == 0
    lemma_smul_zero::<C>(item_hdelta::<C>(items[k]));
    lemma_eneg_id::<C>();
    if eneg::<C>(x) == e0::<C>() { lemma_eneg_neg::<C>(x); }
}

// ---------------------------------------------------------------------------------------------------
// Client checks: verified exec code that USES the contracts of contracts/batch.vc the way a caller does.  They show that the
// contracts compose (new -> queue -> queue -> verify speaks about exactly the queued items, in order, with the first n draws of
// the caller's rng) and are never executed.

// a batch of two: what is verified is exactly [a, b]; if both verify individually the batch is accepted whatever the rng yields
pub fn client_batch_of_two<C: Ciphersuite, R: CryptoRng>(a: Item<C>, b: Item<C>, rng: R) -> (r: Result<(), Error<C>>)
    ensures
        r == spec_batch_verify::<C>(seq![a, b], spec_draws::<C>(rng.stream(), rng.pos(), 2)),
        item_valid::<C>(a) && item_valid::<C>(b) ==> r == Ok::<(), Error<C>>(()),
{
    let ghost ga = a; let ghost gb = b;
    let ghost st = rng.stream(); let ghost p = rng.pos();
    proof { crate::vstdx::ax_from_reflexive::<Item<C>>(ga); crate::vstdx::ax_from_reflexive::<Item<C>>(gb); }
    let mut v = Verifier::<C>::new();
    v.queue(a);
    v.queue(b);
    assert(v.signatures@ =~= seq![ga, gb]);
    let r = v.verify(rng);
    proof { if item_valid::<C>(ga) && item_valid::<C>(gb) { thm_all_valid_accepted_any_rng::<C>(seq![ga, gb], st, p); } }
    r
}

// (c) a freshly constructed verifier rejects
pub fn client_empty_batch<C: Ciphersuite, R: CryptoRng>(rng: R) -> (r: Result<(), Error<C>>)
    ensures r == Err::<(), Error<C>>(Error::InvalidSignature)
{
    let v = Verifier::<C>::new();
    v.verify(rng)
}

// (d) `Item::new(..)?.verify_single()` and `VerifyingKey::verify` on the same key, signature and message bytes return the same
// result, error cases included (`same_bytes` are the bytes `msg.as_ref()` exposes)
pub fn client_single_agrees<C: Ciphersuite, M: AsRef<[u8]>>(vk: VerifyingKey<C>, sig: Signature<C>, msg: M, same_bytes: &[u8]) -> (r: (Result<(), Error<C>>, Result<(), Error<C>>))
    requires same_bytes@ == spec_as_ref_bytes::<M>(msg)
    ensures r.0 == r.1
{
    let direct = vk.verify(same_bytes, &sig);
    let single = match Item::<C>::new(vk, sig, msg) {
        Ok(item) => item.verify_single(),
        Err(e) => Err(e),
    };
    (single, direct)
}

} // verus!
}
