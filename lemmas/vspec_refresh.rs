// lemmas/vspec_refresh.rs -- specification vocabulary for the DISTRIBUTED share-refresh procedure (property C10):
// refresh_dkg_part1 / refresh_dkg_part2 / refresh_dkg_shares of frost-core/src/keys/refresh.rs.  Written from the property text and
// the protocol (FROST book, "Refreshing shares"; FROST KeyGen rounds 1 and 2 run on a polynomial with ZERO constant term), not from
// the code:
//   * every refreshing participant draws t-1 coefficients r_1..r_{t-1}; its refreshing polynomial is r = [0, r_1, .., r_{t-1}];
//   * the published commitment is [G*r_1, .., G*r_{t-1}]: the constant-term entry G*0 (the identity, which cannot be serialised) is
//     stripped, and every recipient RE-INSERTS the identity in front before it uses the commitment (length check, VSS check, sum);
//   * round-2 share for participant l is r(l);
//   * new signing share = old share + sum of the received refreshing shares + own refreshing share;
//   * new verifying share of participant i = old verifying share + evaluate_vss(sum of all re-completed commitments, i);
//   * group verifying key, identifier and threshold are unchanged; a different threshold and an identifier that the old public key
//     package does not know are refused.
// The vocabulary of the trusted-dealer variant (compute_refreshing_shares / refresh_share) is in lemmas/vspec.rs ("share refresh").
pub mod vspec_refresh {
#[allow(unused_imports)] use vstd::prelude::*;
#[allow(unused_imports)] use crate::traits::*;
#[allow(unused_imports)] use crate::vspec::*;
#[allow(unused_imports)] use crate::{Header, Identifier, Error, Signature, VerifyingKey};
#[allow(unused_imports)] use crate::serialization::{SerializableElement, SerializableScalar};
#[allow(unused_imports)] use crate::keys::{SigningShare, VerifyingShare, CoefficientCommitment, KeyPackage, PublicKeyPackage, SecretShare};
#[allow(unused_imports)] use crate::keys::dkg::{round1, round2};
verus! {
//@module_serves C10

// ---------------------------------------------------------------------------------------------------
// refresh_dkg_part1
//
// the refreshing polynomial of one participant: constant term ZERO, then t-1 consecutive draws of Field::random starting at `pos`
pub open spec fn spec_refresh_poly<C: Ciphersuite>(stream: spec_fn(nat) -> u8, pos: nat, min_signers: u16) -> Seq<Scalar<C>>
{ seq![s0::<C>()] + spec_draws::<C>(stream, pos, (min_signers - 1) as nat) }

// what a participant publishes for the polynomial r: the commitment WITHOUT its first (identity) entry
pub open spec fn spec_stripped_commitment<C: Ciphersuite>(r: Seq<Scalar<C>>) -> Seq<CoefficientCommitment<C>>
{ spec_commitment::<C>(r).drop_first() }

// layout of the randomness:  [t-1 coefficient draws] [nonce of the proof of knowledge]   (no key draw: the constant term is 0)
pub open spec fn spec_refresh_part1<C: Ciphersuite>(res: Result<(round1::SecretPackage<C>, round1::Package<C>), Error<C>>,
        id: Identifier<C>, max_signers: u16, min_signers: u16, stream: spec_fn(nat) -> u8, pos: nat) -> bool {
    let r = spec_refresh_poly::<C>(stream, pos, min_signers);
    let p1 = spec_draws_end::<C>(stream, pos, (min_signers - 1) as nat);
    let k = C::spec_generate_nonce(stream, p1).0;
    let c = spec_stripped_commitment::<C>(r);
    match spec_compute_pok::<C>(id, r, c, k) {
        Err(e) => res is Err && res->Err_0 == e,
        Ok(sig) => res is Ok
            && (res->Ok_0).0.identifier == id && (res->Ok_0).0.coefficients@ == r.map_values(|s: Scalar<C>| SerializableScalar::<C>(s))
            && (res->Ok_0).0.commitment.0@ == c && (res->Ok_0).0.min_signers == min_signers && (res->Ok_0).0.max_signers == max_signers
            && (res->Ok_0).1.header == default_header::<C>() && (res->Ok_0).1.commitment.0@ == c && (res->Ok_0).1.proof_of_knowledge == sig,
    }
}

// ---------------------------------------------------------------------------------------------------
// `Seq::no_duplicates` is a two-variable quantifier over all pairs of index terms; with three loops over three key sequences in one
// function (refresh_dkg_shares, loop isolation off) its instantiations dominate the proof (measured: 59% of all instantiations, half of the
// resource limit).  The loop contracts therefore carry the fact as an OPAQUE predicate, revealed only inside the step lemmas.
#[verifier::opaque]
pub open spec fn nodup<T>(s: Seq<T>) -> bool { s.no_duplicates() }

// what `BTreeMap::iter()` yields (vstd specification of the iterator, lemmas/vorder.rs), with the duplicate-freeness kept opaque
pub proof fn lemma_btree_iter_keys<K: Ord, V>(m: Map<K, V>, rem: Seq<(&K, &V)>)
    requires vstd::laws_cmp::obeys_cmp::<K>(), lt_laws::<K>(),
        rem.len() == m.dom().len(), m.dom().finite(),
        forall|i: int| 0 <= i < rem.len() ==> m.contains_key(*(#[trigger] rem[i]).0) && m[*rem[i].0] == *rem[i].1,
        vstd::std_specs::btree::increasing_seq(rem.map_values(|p: (&K, &V)| *p.0)),
    ensures rem.map_values(|p: (&K, &V)| *p.0) == sorted_seq(m.dom()), nodup(rem.map_values(|p: (&K, &V)| *p.0)),
        rem.map_values(|p: (&K, &V)| *p.0).to_set() == m.dom(),
{
    reveal(nodup);
    lemma_btree_iter_sorted::<K, V>(m, rem);
    let ks = rem.map_values(|p: (&K, &V)| *p.0);
    ks.unique_seq_to_set();
    assert(ks.to_set().subset_of(m.dom())) by {
        assert forall|x: K| ks.to_set().contains(x) implies m.dom().contains(x) by {
            let w = choose|w: int| 0 <= w < ks.len() && ks[w] == x; assert(m.contains_key(*rem[w].0));
        }
    }
    vstd::set_lib::lemma_subset_equality(ks.to_set(), m.dom());
}

// implication form of lemma_refresh_acc_step (lemmas/vspec.rs) for the loop of compute_refreshing_shares: no premise, so the call cannot be
// the place where a mutant fails
pub proof fn lemma_refresh_acc_step_imp<C: Ciphersuite>(out: Seq<SecretShare<C>>, vs: Map<Identifier<C>, VerifyingShare<C>>,
        pk: PublicKeyPackage<C>, ids: Seq<Identifier<C>>, r: Seq<Scalar<C>>, j: int, sh: SecretShare<C>)
    ensures 0 <= j < ids.len() && ids.no_duplicates() && spec_refresh_acc::<C>(out, vs, pk, ids, r, j) && spec_is_refreshing_share::<C>(sh, ids[j], r)
        ==> spec_refresh_acc::<C>(out.push(sh), vs.insert(ids[j], VerifyingShare::<C>(SerializableElement(
            eadd::<C>(gmul::<C>(poly::<AL<C>>(r, ids[j].0.0)), pk.verifying_shares@[ids[j]].0.0)))), pk, ids, r, j + 1)
{
    if 0 <= j < ids.len() && ids.no_duplicates() && spec_refresh_acc::<C>(out, vs, pk, ids, r, j) && spec_is_refreshing_share::<C>(sh, ids[j], r) {
        lemma_refresh_acc_step::<C>(out, vs, pk, ids, r, j, sh);
    }
}

// ---------------------------------------------------------------------------------------------------
// refresh_dkg_part2
//
// the error refresh_dkg_part2 returns, guard by guard in source order (None = success).  The length check is made on the
// RE-COMPLETED commitment (identity in front): it must have exactly t entries.
pub open spec fn spec_refresh_part2_err<C: Ciphersuite>(sp: round1::SecretPackage<C>, r1: Map<Identifier<C>, round1::Package<C>>) -> Option<Error<C>> {
    if r1.dom().len() != sp.max_signers - 1 { Some(Error::IncorrectNumberOfPackages) }
    else if exists|id: Identifier<C>| r1.contains_key(id) && spec_with_identity::<C>((#[trigger] r1[id]).commitment.0@).len() != sp.min_signers { Some(Error::IncorrectNumberOfCommitments) }
    else { None }
}

pub open spec fn spec_r2_package<C: Ciphersuite>(coeffs: Seq<Scalar<C>>, to: Identifier<C>) -> round2::Package<C>
{ round2::Package::<C> { header: default_header::<C>(), signing_share: SigningShare(SerializableScalar(poly::<AL<C>>(coeffs, to.0.0))) } }

// loop accumulator of refresh_dkg_part2 after the j smallest senders
pub open spec fn spec_refresh_part2_acc<C: Ciphersuite>(r2: Map<Identifier<C>, round2::Package<C>>, keys: Seq<Identifier<C>>, coeffs: Seq<Scalar<C>>,
        r1: Map<Identifier<C>, round1::Package<C>>, min_signers: u16, j: int) -> bool {
    r2.dom() == keys.take(j).to_set()
    && (forall|k: int| 0 <= k < j ==> r2[#[trigger] keys[k]] == spec_r2_package::<C>(coeffs, keys[k]))
    && (forall|k: int| 0 <= k < j ==> spec_with_identity::<C>(r1[#[trigger] keys[k]].commitment.0@).len() == min_signers)
}

// success: the round-2 secret package keeps (identifier, STRIPPED commitment, threshold, size) and holds r(own id); every sender l in the
// round-1 map gets the package (default header, r(l))
pub open spec fn spec_refresh_part2_ok<C: Ciphersuite>(s2: round2::SecretPackage<C>, r2: Map<Identifier<C>, round2::Package<C>>,
        sp: round1::SecretPackage<C>, r1: Map<Identifier<C>, round1::Package<C>>) -> bool {
    s2.identifier == sp.identifier && s2.commitment.0@ == sp.commitment.0@ && s2.min_signers == sp.min_signers && s2.max_signers == sp.max_signers
    && s2.secret_share.0 == poly::<AL<C>>(sp_coeffs::<C>(sp), sp.identifier.0.0)
    && r2.dom() == r1.dom()
    && forall|id: Identifier<C>| r1.contains_key(id) ==> #[trigger] r2[id] == spec_r2_package::<C>(sp_coeffs::<C>(sp), id)
}

pub proof fn lemma_refresh_part2_acc_step<C: Ciphersuite>(r2: Map<Identifier<C>, round2::Package<C>>, keys: Seq<Identifier<C>>, coeffs: Seq<Scalar<C>>,
        r1: Map<Identifier<C>, round1::Package<C>>, min_signers: u16, j: int)
    // implication form (no `requires`): the iteration sequence of a loop is prophetic and a proof block may not branch on it, so the
    // caller cannot guard the call by the premise; a mutant then fails at the named invariant, not at this call
    ensures 0 <= j < keys.len() && nodup(keys) && spec_refresh_part2_acc::<C>(r2, keys, coeffs, r1, min_signers, j)
            && spec_with_identity::<C>(r1[keys[j]].commitment.0@).len() == min_signers
        ==> spec_refresh_part2_acc::<C>(r2.insert(keys[j], spec_r2_package::<C>(coeffs, keys[j])), keys, coeffs, r1, min_signers, j + 1)
{
  if 0 <= j < keys.len() && nodup(keys) && spec_refresh_part2_acc::<C>(r2, keys, coeffs, r1, min_signers, j)
            && spec_with_identity::<C>(r1[keys[j]].commitment.0@).len() == min_signers {
    reveal(nodup);
    let r22 = r2.insert(keys[j], spec_r2_package::<C>(coeffs, keys[j]));
    assert(keys.take(j + 1) =~= keys.take(j).push(keys[j]));
    assert(r22.dom() =~= keys.take(j + 1).to_set()) by {
        assert forall|x: Identifier<C>| r22.dom().contains(x) <==> keys.take(j + 1).to_set().contains(x) by {
            if r2.dom().contains(x) { let w = choose|w: int| 0 <= w < keys.take(j).len() && keys.take(j)[w] == x; assert(keys.take(j + 1)[w] == x); }
            if x == keys[j] { assert(keys.take(j + 1)[j] == x); }
            if keys.take(j + 1).contains(x) { let w = choose|w: int| 0 <= w < j + 1 && #[trigger] keys.take(j + 1)[w] == x; if w < j { assert(keys.take(j)[w] == x); assert(keys.take(j).contains(x)); } }
        }
    }
    assert forall|k: int| 0 <= k < j + 1 implies r22[#[trigger] keys[k]] == spec_r2_package::<C>(coeffs, keys[k]) by { if k < j { assert(keys[k] != keys[j]); } }
  }
}

// the accumulator over ALL senders is the success case
pub proof fn lemma_refresh_part2_done<C: Ciphersuite>(r2: Map<Identifier<C>, round2::Package<C>>, keys: Seq<Identifier<C>>, coeffs: Seq<Scalar<C>>,
        r1: Map<Identifier<C>, round1::Package<C>>, min_signers: u16)
    ensures spec_refresh_part2_acc::<C>(r2, keys, coeffs, r1, min_signers, keys.len() as int) && keys.to_set() == r1.dom() ==>
        r2.dom() == r1.dom()
        && (forall|id: Identifier<C>| r1.contains_key(id) ==> #[trigger] r2[id] == spec_r2_package::<C>(coeffs, id))
        && (forall|id: Identifier<C>| r1.contains_key(id) ==> spec_with_identity::<C>((#[trigger] r1[id]).commitment.0@).len() == min_signers),
{
  if spec_refresh_part2_acc::<C>(r2, keys, coeffs, r1, min_signers, keys.len() as int) && keys.to_set() == r1.dom() {
    assert(keys.take(keys.len() as int) =~= keys);
    assert forall|id: Identifier<C>| r1.contains_key(id) implies #[trigger] r2[id] == spec_r2_package::<C>(coeffs, id)
            && spec_with_identity::<C>((#[trigger] r1[id]).commitment.0@).len() == min_signers by {
        assert(keys.to_set().contains(id));
        let w = choose|w: int| 0 <= w < keys.len() && keys[w] == id;
        assert(r2[keys[w]] == spec_r2_package::<C>(coeffs, keys[w]));
    }
  }
}

// ---------------------------------------------------------------------------------------------------
// refresh_dkg_shares
//
// the re-completed commitments of the run as the owner of s2 sees them: every sender's commitment and its own, each with the identity
// re-inserted in front (the own entry is chained last, so it wins if the own identifier also occurs among the senders)
pub open spec fn spec_refresh_commitments<C: Ciphersuite>(s2: round2::SecretPackage<C>, r1: Map<Identifier<C>, round1::Package<C>>)
        -> Map<Identifier<C>, Seq<CoefficientCommitment<C>>>
{ Map::new(r1.dom().insert(s2.identifier), |id: Identifier<C>| if id == s2.identifier { spec_with_identity::<C>(s2.commitment.0@) } else { spec_with_identity::<C>(r1[id].commitment.0@) }) }

// the five guards in source order: the threshold must be the old one (C10: "a refresh that would change the threshold is rejected"),
// then the package counts and the sender sets of the two rounds must agree
pub open spec fn spec_refresh_shares_guard_err<C: Ciphersuite>(s2: round2::SecretPackage<C>, r1: Map<Identifier<C>, round1::Package<C>>,
        r2: Map<Identifier<C>, round2::Package<C>>, old_kp: KeyPackage<C>) -> Option<Error<C>> {
    if s2.min_signers != old_kp.min_signers { Some(Error::InvalidMinSigners) }
    else if r1.dom().len() != s2.max_signers - 1 { Some(Error::IncorrectNumberOfPackages) }
    else if r1.dom().len() != r2.dom().len() { Some(Error::IncorrectNumberOfPackages) }
    else if exists|id: Identifier<C>| #[trigger] r1.contains_key(id) && !r2.contains_key(id) { Some(Error::IncorrectPackage) }
    else { None }
}

// VSS verification of the refreshing share f received from a sender against that sender's RE-COMPLETED commitment at the own identifier.
// Because the first entry is the identity, a share of a polynomial whose constant term is not zero fails (thm_nonzero_constant_rejected).
pub open spec fn spec_refresh_share_ok<C: Ciphersuite>(own: Identifier<C>, f: Scalar<C>, stripped: Seq<CoefficientCommitment<C>>) -> Result<(), Error<C>>
{ spec_share_ok_c::<C>(f, own, spec_with_identity::<C>(stripped)) }

// first failing share among the senders keys[from..] (ascending); unlike dkg::part3 no culprit is attributed
pub open spec fn spec_refresh_first_share_err<C: Ciphersuite>(keys: Seq<Identifier<C>>, r1: Map<Identifier<C>, round1::Package<C>>,
        r2: Map<Identifier<C>, round2::Package<C>>, own: Identifier<C>, from: int) -> Option<Error<C>>
    decreases keys.len() - from
{
    if from < 0 || from >= keys.len() { None } else {
        match spec_refresh_share_ok::<C>(own, r2[keys[from]].signing_share.0.0, r1[keys[from]].commitment.0@) {
            Err(e) => Some(e),
            Ok(_) => spec_refresh_first_share_err::<C>(keys, r1, r2, own, from + 1),
        }
    }
}

pub open spec fn spec_refresh_unknown<C: Ciphersuite>(s2: round2::SecretPackage<C>, r1: Map<Identifier<C>, round1::Package<C>>, old_pk: PublicKeyPackage<C>) -> bool
{ exists|id: Identifier<C>| r1.dom().insert(s2.identifier).contains(id) && !#[trigger] old_pk.verifying_shares@.contains_key(id) }

// the error of refresh_dkg_shares, step by step in source order (None = success)
pub open spec fn spec_refresh_dkg_err<C: Ciphersuite>(s2: round2::SecretPackage<C>, r1: Map<Identifier<C>, round1::Package<C>>,
        r2: Map<Identifier<C>, round2::Package<C>>, old_pk: PublicKeyPackage<C>, old_kp: KeyPackage<C>) -> Option<Error<C>> {
    if spec_refresh_shares_guard_err::<C>(s2, r1, r2, old_kp) is Some { spec_refresh_shares_guard_err::<C>(s2, r1, r2, old_kp) }
    else if spec_refresh_first_share_err::<C>(sorted_seq(r2.dom()), r1, r2, s2.identifier, 0) is Some { spec_refresh_first_share_err::<C>(sorted_seq(r2.dom()), r1, r2, s2.identifier, 0) }
    else if spec_dkg_group_commitment::<C>(spec_refresh_commitments::<C>(s2, r1)) is Err { Some(spec_dkg_group_commitment::<C>(spec_refresh_commitments::<C>(s2, r1))->Err_0) }
    else if spec_refresh_unknown::<C>(s2, r1, old_pk) { Some(Error::UnknownIdentifier) }
    else { None }
}

// the new signing share: old share + all received refreshing shares (ascending senders) + own refreshing share, in the order the
// protocol text adds them:  ((sum_l f_l(i)) + f_i(i)) + s_i
pub open spec fn spec_refresh_new_share<C: Ciphersuite>(s2: round2::SecretPackage<C>, r2: Map<Identifier<C>, round2::Package<C>>, old_kp: KeyPackage<C>) -> Scalar<C>
{ sadd::<C>(sadd::<C>(spec_r2_sum::<C>(sorted_seq(r2.dom()), r2, sorted_seq(r2.dom()).len() as int), s2.secret_share.0), old_kp.signing_share.0.0) }

// success: the refreshed key package and public key package
pub open spec fn spec_refresh_dkg_output<C: Ciphersuite>(kp: KeyPackage<C>, pk: PublicKeyPackage<C>, s2: round2::SecretPackage<C>,
        r1: Map<Identifier<C>, round1::Package<C>>, r2: Map<Identifier<C>, round2::Package<C>>, old_pk: PublicKeyPackage<C>, old_kp: KeyPackage<C>) -> bool {
    let s = spec_refresh_new_share::<C>(s2, r2, old_kp);
    let m = spec_refresh_commitments::<C>(s2, r1);
    let gc = spec_dkg_group_commitment::<C>(m)->Ok_0;
    kp == (KeyPackage::<C> { header: default_header::<C>(), identifier: s2.identifier,
            signing_share: SigningShare(SerializableScalar(s)), verifying_share: VerifyingShare(SerializableElement(gmul::<C>(s))),
            verifying_key: old_pk.verifying_key, min_signers: s2.min_signers })
    && pk.header == old_pk.header && pk.verifying_key == old_pk.verifying_key && pk.min_signers == Some(s2.min_signers)
    && pk.verifying_shares@.dom() == m.dom()
    && forall|id: Identifier<C>| m.dom().contains(id) ==> #[trigger] pk.verifying_shares@[id] == VerifyingShare::<C>(SerializableElement(
            eadd::<C>(spec_vss::<C>(comm_vals::<C>(gc), id.0.0, s1::<C>()), old_pk.verifying_shares@[id].0.0)))
}

// loop 0 of refresh_dkg_shares: the round-1 packages with the identity re-inserted, for the j smallest senders
pub open spec fn spec_recompleted_acc<C: Ciphersuite>(nr1: Map<Identifier<C>, round1::Package<C>>, keys: Seq<Identifier<C>>,
        r1: Map<Identifier<C>, round1::Package<C>>, j: int) -> bool {
    nr1.dom() == keys.take(j).to_set()
    && forall|k: int| 0 <= k < j ==> nr1[#[trigger] keys[k]].commitment.0@ == spec_with_identity::<C>(r1[keys[k]].commitment.0@)
}
pub open spec fn spec_recompleted<C: Ciphersuite>(nr1: Map<Identifier<C>, round1::Package<C>>, r1: Map<Identifier<C>, round1::Package<C>>) -> bool {
    nr1.dom() == r1.dom()
    && forall|id: Identifier<C>| r1.contains_key(id) ==> (#[trigger] nr1[id]).commitment.0@ == spec_with_identity::<C>(r1[id].commitment.0@)
}

// `full` is `stripped` with the identity commitment in front, stated element by element (so that the solver can establish it for a freshly
// built vector without an extensionality hint that would have to restate the code)
pub open spec fn spec_is_recompleted<C: Ciphersuite>(full: Seq<CoefficientCommitment<C>>, stripped: Seq<CoefficientCommitment<C>>) -> bool {
    full.len() == stripped.len() + 1 && full[0] == identity_cc::<C>()
    && forall|i: int| 0 <= i < stripped.len() ==> full[i + 1] == #[trigger] stripped[i]
}
pub proof fn lemma_is_recompleted<C: Ciphersuite>(full: Seq<CoefficientCommitment<C>>, stripped: Seq<CoefficientCommitment<C>>)
    ensures spec_is_recompleted::<C>(full, stripped) == (full == spec_with_identity::<C>(stripped))
{
    if spec_is_recompleted::<C>(full, stripped) {
        assert forall|k: int| 0 <= k < full.len() implies full[k] == spec_with_identity::<C>(stripped)[k] by { if k > 0 { assert(full[(k - 1) + 1] == stripped[k - 1]); } }
        assert(full =~= spec_with_identity::<C>(stripped));
    }
    if full == spec_with_identity::<C>(stripped) {
        assert forall|i: int| 0 <= i < stripped.len() implies full[i + 1] == #[trigger] stripped[i] by {}
    }
}

pub proof fn lemma_recompleted_acc_step<C: Ciphersuite>(nr1: Map<Identifier<C>, round1::Package<C>>, keys: Seq<Identifier<C>>,
        r1: Map<Identifier<C>, round1::Package<C>>, j: int, p: round1::Package<C>)
    ensures 0 <= j < keys.len() && nodup(keys) && spec_recompleted_acc::<C>(nr1, keys, r1, j)
            && spec_is_recompleted::<C>(p.commitment.0@, r1[keys[j]].commitment.0@)
        ==> spec_recompleted_acc::<C>(nr1.insert(keys[j], p), keys, r1, j + 1)
{
  if 0 <= j < keys.len() && nodup(keys) && spec_recompleted_acc::<C>(nr1, keys, r1, j) && spec_is_recompleted::<C>(p.commitment.0@, r1[keys[j]].commitment.0@) {
    reveal(nodup);
    lemma_is_recompleted::<C>(p.commitment.0@, r1[keys[j]].commitment.0@);
    let n2 = nr1.insert(keys[j], p);
    assert(keys.take(j + 1) =~= keys.take(j).push(keys[j]));
    assert(n2.dom() =~= keys.take(j + 1).to_set()) by {
        assert forall|x: Identifier<C>| n2.dom().contains(x) <==> keys.take(j + 1).to_set().contains(x) by {
            if nr1.dom().contains(x) { let w = choose|w: int| 0 <= w < keys.take(j).len() && keys.take(j)[w] == x; assert(keys.take(j + 1)[w] == x); }
            if x == keys[j] { assert(keys.take(j + 1)[j] == x); }
            if keys.take(j + 1).contains(x) { let w = choose|w: int| 0 <= w < j + 1 && #[trigger] keys.take(j + 1)[w] == x; if w < j { assert(keys.take(j)[w] == x); assert(keys.take(j).contains(x)); } }
        }
    }
    assert forall|k: int| 0 <= k < j + 1 implies n2[#[trigger] keys[k]].commitment.0@ == spec_with_identity::<C>(r1[keys[k]].commitment.0@) by { if k < j { assert(keys[k] != keys[j]); } }
  }
}

pub proof fn lemma_recompleted_done<C: Ciphersuite>(nr1: Map<Identifier<C>, round1::Package<C>>, keys: Seq<Identifier<C>>, r1: Map<Identifier<C>, round1::Package<C>>)
    ensures spec_recompleted_acc::<C>(nr1, keys, r1, keys.len() as int) && keys.to_set() == r1.dom() ==> spec_recompleted::<C>(nr1, r1)
{
  if spec_recompleted_acc::<C>(nr1, keys, r1, keys.len() as int) && keys.to_set() == r1.dom() {
    assert(keys.take(keys.len() as int) =~= keys);
    assert forall|id: Identifier<C>| r1.contains_key(id) implies (#[trigger] nr1[id]).commitment.0@ == spec_with_identity::<C>(r1[id].commitment.0@) by {
        assert(keys.to_set().contains(id));
        let w = choose|w: int| 0 <= w < keys.len() && keys[w] == id;
        assert(nr1[keys[w]].commitment.0@ == spec_with_identity::<C>(r1[keys[w]].commitment.0@));
    }
  }
}

// loop 1: as long as the first j shares verify, the first failing share overall is the first failing share from j on
pub proof fn lemma_refresh_first_share_err_step<C: Ciphersuite>(keys: Seq<Identifier<C>>, r1: Map<Identifier<C>, round1::Package<C>>,
        r2: Map<Identifier<C>, round2::Package<C>>, own: Identifier<C>, j: int)
    ensures 0 <= j <= keys.len() && (forall|k: int| 0 <= k < j ==> spec_refresh_share_ok::<C>(own, r2[#[trigger] keys[k]].signing_share.0.0, r1[keys[k]].commitment.0@) is Ok)
        ==> spec_refresh_first_share_err::<C>(keys, r1, r2, own, 0) == spec_refresh_first_share_err::<C>(keys, r1, r2, own, j)
    decreases j
{
    if 0 < j <= keys.len() && (forall|k: int| 0 <= k < j ==> spec_refresh_share_ok::<C>(own, r2[#[trigger] keys[k]].signing_share.0.0, r1[keys[k]].commitment.0@) is Ok) {
        lemma_refresh_first_share_err_step::<C>(keys, r1, r2, own, j - 1);
        assert(spec_refresh_share_ok::<C>(own, r2[keys[j - 1]].signing_share.0.0, r1[keys[j - 1]].commitment.0@) is Ok);
    }
}

// loop 2: the refreshed verifying shares for the j smallest participants of the run
pub open spec fn spec_new_vs_acc<C: Ciphersuite>(nvs: Map<Identifier<C>, VerifyingShare<C>>, keys: Seq<Identifier<C>>, zvs: Map<Identifier<C>, VerifyingShare<C>>,
        old_vs: Map<Identifier<C>, VerifyingShare<C>>, j: int) -> bool {
    nvs.dom() == keys.take(j).to_set()
    && (forall|k: int| 0 <= k < j ==> old_vs.contains_key(#[trigger] keys[k]))
    && (forall|k: int| 0 <= k < j ==> nvs[#[trigger] keys[k]] == VerifyingShare::<C>(SerializableElement(eadd::<C>(zvs[keys[k]].0.0, old_vs[keys[k]].0.0))))
}

pub proof fn lemma_new_vs_acc_step<C: Ciphersuite>(nvs: Map<Identifier<C>, VerifyingShare<C>>, keys: Seq<Identifier<C>>, zvs: Map<Identifier<C>, VerifyingShare<C>>,
        old_vs: Map<Identifier<C>, VerifyingShare<C>>, j: int)
    ensures 0 <= j < keys.len() && nodup(keys) && spec_new_vs_acc::<C>(nvs, keys, zvs, old_vs, j) && old_vs.contains_key(keys[j])
        ==> spec_new_vs_acc::<C>(nvs.insert(keys[j], VerifyingShare::<C>(SerializableElement(eadd::<C>(zvs[keys[j]].0.0, old_vs[keys[j]].0.0)))), keys, zvs, old_vs, j + 1)
{
  if 0 <= j < keys.len() && nodup(keys) && spec_new_vs_acc::<C>(nvs, keys, zvs, old_vs, j) && old_vs.contains_key(keys[j]) {
    reveal(nodup);
    let n2 = nvs.insert(keys[j], VerifyingShare::<C>(SerializableElement(eadd::<C>(zvs[keys[j]].0.0, old_vs[keys[j]].0.0))));
    assert(keys.take(j + 1) =~= keys.take(j).push(keys[j]));
    assert(n2.dom() =~= keys.take(j + 1).to_set()) by {
        assert forall|x: Identifier<C>| n2.dom().contains(x) <==> keys.take(j + 1).to_set().contains(x) by {
            if nvs.dom().contains(x) { let w = choose|w: int| 0 <= w < keys.take(j).len() && keys.take(j)[w] == x; assert(keys.take(j + 1)[w] == x); }
            if x == keys[j] { assert(keys.take(j + 1)[j] == x); }
            if keys.take(j + 1).contains(x) { let w = choose|w: int| 0 <= w < j + 1 && #[trigger] keys.take(j + 1)[w] == x; if w < j { assert(keys.take(j)[w] == x); assert(keys.take(j).contains(x)); } }
        }
    }
    assert forall|k: int| 0 <= k < j + 1 implies n2[#[trigger] keys[k]] == VerifyingShare::<C>(SerializableElement(eadd::<C>(zvs[keys[k]].0.0, old_vs[keys[k]].0.0))) by { if k < j { assert(keys[k] != keys[j]); } }
  }
}

pub proof fn lemma_new_vs_done<C: Ciphersuite>(nvs: Map<Identifier<C>, VerifyingShare<C>>, keys: Seq<Identifier<C>>, zvs: Map<Identifier<C>, VerifyingShare<C>>,
        old_vs: Map<Identifier<C>, VerifyingShare<C>>, dom: Set<Identifier<C>>)
    ensures spec_new_vs_acc::<C>(nvs, keys, zvs, old_vs, keys.len() as int) && keys.to_set() == dom ==>
        nvs.dom() == dom
        && (forall|id: Identifier<C>| dom.contains(id) ==> #[trigger] old_vs.contains_key(id))
        && (forall|id: Identifier<C>| dom.contains(id) ==> #[trigger] nvs[id] == VerifyingShare::<C>(SerializableElement(eadd::<C>(zvs[id].0.0, old_vs[id].0.0))))
{
  if spec_new_vs_acc::<C>(nvs, keys, zvs, old_vs, keys.len() as int) && keys.to_set() == dom {
    assert(keys.take(keys.len() as int) =~= keys);
    assert forall|id: Identifier<C>| dom.contains(id) implies #[trigger] old_vs.contains_key(id)
            && #[trigger] nvs[id] == VerifyingShare::<C>(SerializableElement(eadd::<C>(zvs[id].0.0, old_vs[id].0.0))) by {
        assert(keys.to_set().contains(id));
        let w = choose|w: int| 0 <= w < keys.len() && keys[w] == id;
        assert(old_vs.contains_key(keys[w]));
        assert(nvs[keys[w]] == VerifyingShare::<C>(SerializableElement(eadd::<C>(zvs[keys[w]].0.0, old_vs[keys[w]].0.0))));
    }
  }
}

// what iterating a BTreeMap BY VALUE yields (the outlined `for (k, v) in map` of refresh_dkg_shares): the (key, value) pairs in ascending
// key order = sorted_seq of the domain.  Owned-pair twin of lemma_btree_iter_sorted (lemmas/vorder.rs).
pub proof fn lemma_btree_pairs_sorted<K: Ord, V>(m: Map<K, V>, pairs: Seq<(K, V)>)
    requires vstd::laws_cmp::obeys_cmp::<K>(), lt_laws::<K>(),
        pairs.len() == m.dom().len(), m.dom().finite(),
        forall|i: int| 0 <= i < pairs.len() ==> m.contains_key((#[trigger] pairs[i]).0) && m[pairs[i].0] == pairs[i].1,
        vstd::std_specs::btree::increasing_seq(pairs.map_values(|p: (K, V)| p.0)),
    ensures pairs.map_values(|p: (K, V)| p.0) == sorted_seq(m.dom()), nodup(pairs.map_values(|p: (K, V)| p.0)),
        pairs.map_values(|p: (K, V)| p.0).to_set() == m.dom(),
        forall|i: int| 0 <= i < pairs.len() ==> (#[trigger] pairs[i]).1 == m[sorted_seq(m.dom())[i]],
{
    reveal(nodup);
    let ks = pairs.map_values(|p: (K, V)| p.0);
    assert(ks.no_duplicates()) by {
        broadcast use vstd::std_specs::btree::axiom_increasing_seq_meaning;
        assert forall|i: int, j: int| 0 <= i < ks.len() && 0 <= j < ks.len() && i != j implies ks[i] != ks[j] by {
            if i < j { assert(lt(ks[i], ks[j])); } else { assert(lt(ks[j], ks[i])); }
        }
    }
    ks.unique_seq_to_set();
    assert(ks.to_set().subset_of(m.dom())) by {
        assert forall|x: K| ks.to_set().contains(x) implies m.dom().contains(x) by {
            let w = choose|w: int| 0 <= w < ks.len() && ks[w] == x; assert(m.contains_key(pairs[w].0));
        }
    }
    vstd::set_lib::lemma_subset_equality(ks.to_set(), m.dom());
    lemma_sorted_seq::<K>(ks, m.dom());
    assert forall|i: int| 0 <= i < pairs.len() implies (#[trigger] pairs[i]).1 == m[sorted_seq(m.dom())[i]] by { assert(ks[i] == pairs[i].0); }
}

} // verus!
}
