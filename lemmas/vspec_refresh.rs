// lemmas/vspec_refresh.rs -- specification vocabulary for the DISTRIBUTED share-refresh procedure (property C10):
// refresh_dkg_part1 / refresh_dkg_part2 / refresh_dkg_shares of frost-core/src/keys/refresh.rs.  Written from the property text and
// the protocol (FROST book, "Refreshing shares"; FROST KeyGen rounds 1 and 2 run on a polynomial with ZERO constant term), not from
// the code:
//   * every refreshing participant draws t-1 coefficients r_1..r_{t-1}; its refreshing polynomial is r = [0, r_1, .., r_{t-1}];
//   * the published commitment is [G*r_1, .., G*r_{t-1}]: the constant-term entry G*0 (the identity, which cannot be serialised) is
//     stripped, and every recipient RE-INSERTS the identity in front before it uses the commitment (length check, VSS check, sum);
//   * round-2 share for participant l is r(l);
//   * new signing share = old share + sum of the received refreshing shares + own refreshing share;
//   * new verifying share of participant i = old verifying share + evaluate_vss(sum of all re-completed commitments, i);
//   * group verifying key, identifier and threshold are unchanged; a different threshold and an identifier that the old public key
//     package does not know are refused.
// The vocabulary of the trusted-dealer variant (compute_refreshing_shares / refresh_share) is in lemmas/vspec.rs ("share refresh").
pub mod vspec_refresh {
#[allow(unused_imports)] use vstd::prelude::*;
#[allow(unused_imports)] use crate::traits::*;
#[allow(unused_imports)] use crate::vspec::*;
#[allow(unused_imports)] use crate::{Header, Identifier, Error, Signature, VerifyingKey};
#[allow(unused_imports)] use crate::serialization::{SerializableElement, SerializableScalar};
#[allow(unused_imports)] use crate::keys::{SigningShare, VerifyingShare, CoefficientCommitment, KeyPackage, PublicKeyPackage, SecretShare};
#[allow(unused_imports)] use crate::keys::dkg::{round1, round2};
verus! {
//@module_serves C10

// ---------------------------------------------------------------------------------------------------
// refresh_dkg_part1
//
// the refreshing polynomial of one participant: constant term ZERO, then t-1 consecutive draws of Field::random starting at `pos`
pub open spec fn spec_refresh_poly<C: Ciphersuite>(stream: spec_fn(nat) -> u8, pos: nat, min_signers: u16) -> Seq<Scalar<C>>
{ seq![s0::<C>()] + spec_draws::<C>(stream, pos, (min_signers - 1) as nat) }

// what a participant publishes for the polynomial r: the commitment WITHOUT its first (identity) entry
pub open spec fn spec_stripped_commitment<C: Ciphersuite>(r: Seq<Scalar<C>>) -> Seq<CoefficientCommitment<C>>
{ spec_commitment::<C>(r).drop_first() }

// layout of the randomness:  [t-1 coefficient draws] [nonce of the proof of knowledge]   (no key draw: the constant term is 0)
pub open spec fn spec_refresh_part1<C: Ciphersuite>(res: Result<(round1::SecretPackage<C>, round1::Package<C>), Error<C>>,
        id: Identifier<C>, max_signers: u16, min_signers: u16, stream: spec_fn(nat) -> u8, pos: nat) -> bool {
    let r = spec_refresh_poly::<C>(stream, pos, min_signers);
    let p1 = spec_draws_end::<C>(stream, pos, (min_signers - 1) as nat);
    let k = C::spec_generate_nonce(stream, p1).0;
    let c = spec_stripped_commitment::<C>(r);
    match spec_compute_pok::<C>(id, r, c, k) {
        Err(e) => res is Err && res->Err_0 == e,
        Ok(sig) => res is Ok
            && (res->Ok_0).0.identifier == id && (res->Ok_0).0.coefficients@ == r.map_values(|s: Scalar<C>| SerializableScalar::<C>(s))
            && (res->Ok_0).0.commitment.0@ == c && (res->Ok_0).0.min_signers == min_signers && (res->Ok_0).0.max_signers == max_signers
            && (res->Ok_0).1.header == default_header::<C>() && (res->Ok_0).1.commitment.0@ == c && (res->Ok_0).1.proof_of_knowledge == sig,
    }
}

// ---------------------------------------------------------------------------------------------------
// refresh_dkg_part2
//
// the error refresh_dkg_part2 returns, guard by guard in source order (None = success).  The length check is made on the
// RE-COMPLETED commitment (identity in front): it must have exactly t entries.
pub open spec fn spec_refresh_part2_err<C: Ciphersuite>(sp: round1::SecretPackage<C>, r1: Map<Identifier<C>, round1::Package<C>>) -> Option<Error<C>> {
    if r1.dom().len() != sp.max_signers - 1 { Some(Error::IncorrectNumberOfPackages) }
    else if exists|id: Identifier<C>| r1.contains_key(id) && spec_with_identity::<C>((#[trigger] r1[id]).commitment.0@).len() != sp.min_signers { Some(Error::IncorrectNumberOfCommitments) }
    else { None }
}

pub open spec fn spec_r2_package<C: Ciphersuite>(coeffs: Seq<Scalar<C>>, to: Identifier<C>) -> round2::Package<C>
{ round2::Package::<C> { header: default_header::<C>(), signing_share: SigningShare(SerializableScalar(poly::<AL<C>>(coeffs, to.0.0))) } }

// loop accumulator of refresh_dkg_part2 after the j smallest senders
pub open spec fn spec_refresh_part2_acc<C: Ciphersuite>(r2: Map<Identifier<C>, round2::Package<C>>, keys: Seq<Identifier<C>>, coeffs: Seq<Scalar<C>>,
        r1: Map<Identifier<C>, round1::Package<C>>, min_signers: u16, j: int) -> bool {
    r2.dom() == keys.take(j).to_set()
    && (forall|k: int| 0 <= k < j ==> r2[#[trigger] keys[k]] == spec_r2_package::<C>(coeffs, keys[k]))
    && (forall|k: int| 0 <= k < j ==> spec_with_identity::<C>(r1[#[trigger] keys[k]].commitment.0@).len() == min_signers)
}

// success: the round-2 secret package keeps (identifier, STRIPPED commitment, threshold, size) and holds r(own id); every sender l in the
// round-1 map gets the package (default header, r(l))
pub open spec fn spec_refresh_part2_ok<C: Ciphersuite>(s2: round2::SecretPackage<C>, r2: Map<Identifier<C>, round2::Package<C>>,
        sp: round1::SecretPackage<C>, r1: Map<Identifier<C>, round1::Package<C>>) -> bool {
    s2.identifier == sp.identifier && s2.commitment.0@ == sp.commitment.0@ && s2.min_signers == sp.min_signers && s2.max_signers == sp.max_signers
    && s2.secret_share.0 == poly::<AL<C>>(sp_coeffs::<C>(sp), sp.identifier.0.0)
    && r2.dom() == r1.dom()
    && forall|id: Identifier<C>| r1.contains_key(id) ==> #[trigger] r2[id] == spec_r2_package::<C>(sp_coeffs::<C>(sp), id)
}

pub proof fn lemma_refresh_part2_acc_step<C: Ciphersuite>(r2: Map<Identifier<C>, round2::Package<C>>, keys: Seq<Identifier<C>>, coeffs: Seq<Scalar<C>>,
        r1: Map<Identifier<C>, round1::Package<C>>, min_signers: u16, j: int)
    // implication form (no `requires`): the iteration sequence of a loop is prophetic and a proof block may not branch on it, so the
    // caller cannot guard the call by the premise; a mutant then fails at the named invariant, not at this call
    ensures 0 <= j < keys.len() && keys.no_duplicates() && spec_refresh_part2_acc::<C>(r2, keys, coeffs, r1, min_signers, j)
            && spec_with_identity::<C>(r1[keys[j]].commitment.0@).len() == min_signers
        ==> spec_refresh_part2_acc::<C>(r2.insert(keys[j], spec_r2_package::<C>(coeffs, keys[j])), keys, coeffs, r1, min_signers, j + 1)
{
  if 0 <= j < keys.len() && keys.no_duplicates() && spec_refresh_part2_acc::<C>(r2, keys, coeffs, r1, min_signers, j)
            && spec_with_identity::<C>(r1[keys[j]].commitment.0@).len() == min_signers {
    let r22 = r2.insert(keys[j], spec_r2_package::<C>(coeffs, keys[j]));
    assert(keys.take(j + 1) =~= keys.take(j).push(keys[j]));
    assert(r22.dom() =~= keys.take(j + 1).to_set()) by {
        assert forall|x: Identifier<C>| r22.dom().contains(x) <==> keys.take(j + 1).to_set().contains(x) by {
            if r2.dom().contains(x) { let w = choose|w: int| 0 <= w < keys.take(j).len() && keys.take(j)[w] == x; assert(keys.take(j + 1)[w] == x); }
            if x == keys[j] { assert(keys.take(j + 1)[j] == x); }
            if keys.take(j + 1).contains(x) { let w = choose|w: int| 0 <= w < j + 1 && #[trigger] keys.take(j + 1)[w] == x; if w < j { assert(keys.take(j)[w] == x); assert(keys.take(j).contains(x)); } }
        }
    }
    assert forall|k: int| 0 <= k < j + 1 implies r22[#[trigger] keys[k]] == spec_r2_package::<C>(coeffs, keys[k]) by { if k < j { assert(keys[k] != keys[j]); } }
  }
}

// the accumulator over ALL senders is the success case
pub proof fn lemma_refresh_part2_done<C: Ciphersuite>(r2: Map<Identifier<C>, round2::Package<C>>, keys: Seq<Identifier<C>>, coeffs: Seq<Scalar<C>>,
        r1: Map<Identifier<C>, round1::Package<C>>, min_signers: u16)
    ensures spec_refresh_part2_acc::<C>(r2, keys, coeffs, r1, min_signers, keys.len() as int) && keys.to_set() == r1.dom() ==>
        r2.dom() == r1.dom()
        && (forall|id: Identifier<C>| r1.contains_key(id) ==> #[trigger] r2[id] == spec_r2_package::<C>(coeffs, id))
        && (forall|id: Identifier<C>| r1.contains_key(id) ==> spec_with_identity::<C>((#[trigger] r1[id]).commitment.0@).len() == min_signers),
{
  if spec_refresh_part2_acc::<C>(r2, keys, coeffs, r1, min_signers, keys.len() as int) && keys.to_set() == r1.dom() {
    assert(keys.take(keys.len() as int) =~= keys);
    assert forall|id: Identifier<C>| r1.contains_key(id) implies #[trigger] r2[id] == spec_r2_package::<C>(coeffs, id)
            && spec_with_identity::<C>((#[trigger] r1[id]).commitment.0@).len() == min_signers by {
        assert(keys.to_set().contains(id));
        let w = choose|w: int| 0 <= w < keys.len() && keys[w] == id;
        assert(r2[keys[w]] == spec_r2_package::<C>(coeffs, keys[w]));
    }
  }
}

} // verus!
}
