// lemmas/vspec_batch.rs -- specification vocabulary for plain Schnorr verification, the challenge and batch
// verification (C19; also used by C01/C04 through `spec_verify_prehashed`/`spec_rfc_challenge`).  Written from RFC 9591
// (section 3 "prime-order group" verification with the cofactor, section 4.6 compute_challenge) and from the batch
// equation of the Zcash protocol specification B.1 (reddsabatchverify) as quoted in the property text -- not from the code.
// Re-exported through `crate::vspec` (so contracts see the names unqualified).
pub mod vspec_batch {
#[allow(unused_imports)] use vstd::prelude::*;
#[allow(unused_imports)] use crate::traits::*;
#[allow(unused_imports)] use crate::*;
#[allow(unused_imports)] use crate::vspec::*;
#[allow(unused_imports)] use crate::vfield::*;
#[allow(unused_imports)] use crate::vgroup::*;
#[allow(unused_imports)] use crate::batch::Item;
verus! {
//@module_serves C19

// ---------------------------------------------------------------------------------------------------
// single verification
// Delta = z*B - c*A - R   (the comment in verifying_key.rs: "h * (z*B - c*A - R) == 0")
pub open spec fn spec_delta<C: Ciphersuite>(vk: VerifyingKey<C>, c: Challenge<C>, sig: Signature<C>) -> Element<C> {
    esub::<C>(esub::<C>(gmul::<C>(sig.z), emul::<C>(vk.element.0, c.0)), sig.R)
}

// the verification predicate: h * Delta == 0
pub open spec fn spec_sig_valid<C: Ciphersuite>(vk: VerifyingKey<C>, c: Challenge<C>, sig: Signature<C>) -> bool {
    emul::<C>(spec_delta::<C>(vk, c, sig), GG::<C>::s_cofactor()) == e0::<C>()
}

// RFC 9591 section 3 / appendix B: verification of (R, z) under key A with challenge c, cofactor-cleared
pub open spec fn spec_verify_prehashed<C: Ciphersuite>(vk: VerifyingKey<C>, c: Challenge<C>, sig: Signature<C>) -> Result<(), Error<C>> {
    if spec_sig_valid::<C>(vk, c, sig) { Ok(()) } else { Err(Error::InvalidSignature) }
}

// RFC 9591 section 4.6 compute_challenge:  c = H2( SerializeElement(R) || SerializeElement(PK) || msg );
// SerializeElement fails on the identity element (section 3.1); R is encoded (and checked) first, both give the same error.
// (The trait-level `C::spec_challenge` is the abstract *hook*; in the default world it is this function, see lemmas/vworld.rs.)
pub open spec fn spec_rfc_challenge<C: Ciphersuite>(R: Element<C>, vk: VerifyingKey<C>, msg: Seq<u8>) -> Result<Challenge<C>, Error<C>> {
    if R == e0::<C>() || vk.element.0 == e0::<C>() { Err(Error::GroupError(GroupError::InvalidIdentityElement)) }
    else { Ok(Challenge(C::spec_H2(GG::<C>::spec_eser(R) + GG::<C>::spec_eser(vk.element.0) + msg))) }
}

// ordinary verification of (key, message, signature) with the default hooks (RFC 9591): challenge, then the prehashed check
pub open spec fn spec_verify<C: Ciphersuite>(vk: VerifyingKey<C>, msg: Seq<u8>, sig: Signature<C>) -> Result<(), Error<C>> {
    match spec_rfc_challenge::<C>(sig.R, vk, msg) {
        Err(e) => Err(e),
        Ok(c) => spec_verify_prehashed::<C>(vk, c, sig),
    }
}

// a batch item for (key, signature, message): the triple with its challenge precomputed
pub open spec fn spec_item_new<C: Ciphersuite>(vk: VerifyingKey<C>, sig: Signature<C>, msg: Seq<u8>) -> Result<Item<C>, Error<C>> {
    match spec_rfc_challenge::<C>(sig.R, vk, msg) {
        Err(e) => Err(e),
        Ok(c) => Ok(Item::<C> { vk: vk, sig: sig, c: c }),
    }
}

// the byte string a generic `M: AsRef<[u8]>` message exposes (uninterpreted: a function of the value only)
pub uninterp spec fn spec_as_ref_bytes<M>(m: M) -> Seq<u8>;

// ---------------------------------------------------------------------------------------------------
// multiscalar multiplication  sum_i e_i * s_i  (recursive on the last term)
pub open spec fn spec_msm<C: Ciphersuite>(s: Seq<Scalar<C>>, e: Seq<Element<C>>) -> Element<C> decreases s.len()
{
    if s.len() == 0 || e.len() == 0 { e0::<C>() }
    else { eadd::<C>(spec_msm::<C>(s.drop_last(), e.drop_last()), emul::<C>(e.last(), s.last())) }
}

// ---------------------------------------------------------------------------------------------------
// batch verification: item i = (VK_i, (R_i, z_i), c_i), blinder b_i (one per item)
// sum_{i<j} b_i * z_i
pub open spec fn spec_bz_sum<C: Ciphersuite>(items: Seq<Item<C>>, b: Seq<Scalar<C>>, j: nat) -> Scalar<C> decreases j
{ if j == 0 { s0::<C>() } else { sadd::<C>(spec_bz_sum::<C>(items, b, (j - 1) as nat), smul::<C>(b[j - 1], items[j - 1].sig.z)) } }

// [ b_i * c_i ]_{i<j},  [ VK_i ]_{i<j},  [ R_i ]_{i<j}
pub open spec fn spec_vk_coeffs<C: Ciphersuite>(items: Seq<Item<C>>, b: Seq<Scalar<C>>, j: nat) -> Seq<Scalar<C>>
{ Seq::new(j, |i: int| smul::<C>(b[i], items[i].c.0)) }
pub open spec fn spec_vks<C: Ciphersuite>(items: Seq<Item<C>>, j: nat) -> Seq<Element<C>>
{ Seq::new(j, |i: int| items[i].vk.element.0) }
pub open spec fn spec_rs<C: Ciphersuite>(items: Seq<Item<C>>, j: nat) -> Seq<Element<C>>
{ Seq::new(j, |i: int| items[i].sig.R) }

// the batch check value (protocol spec B.1):  -[sum b_i z_i] P_G + sum [b_i c_i] VK_i + sum [b_i] R_i, as ONE multiscalar product
pub open spec fn spec_batch_check<C: Ciphersuite>(items: Seq<Item<C>>, b: Seq<Scalar<C>>) -> Element<C> {
    let n = items.len();
    spec_msm::<C>(seq![FF::<C>::s_neg(spec_bz_sum::<C>(items, b, n))] + spec_vk_coeffs::<C>(items, b, n) + b,
                  seq![eg::<C>()] + spec_vks::<C>(items, n) + spec_rs::<C>(items, n))
}

// batch verification with blinder vector b (|b| == |items|): the empty batch is rejected; otherwise accepted iff h * check == 0
pub open spec fn spec_batch_verify<C: Ciphersuite>(items: Seq<Item<C>>, b: Seq<Scalar<C>>) -> Result<(), Error<C>> {
    if items.len() == 0 { Err(Error::InvalidSignature) }
    else if emul::<C>(spec_batch_check::<C>(items, b), GG::<C>::s_cofactor()) == e0::<C>() { Ok(()) }
    else { Err(Error::InvalidSignature) }
}

// ---------------------------------------------------------------------------------------------------
// helper lemmas used inside the verified bodies

// the j-th of n consecutive draws is the draw at the position reached after j draws (spec_draws recurses on the head)
pub proof fn lemma_draws_index_b<C: Ciphersuite>(stream: spec_fn(nat) -> u8, pos: nat, n: nat, j: nat)
    requires j < n
    ensures
        spec_draws::<C>(stream, pos, n).len() == n,
        spec_draws::<C>(stream, pos, n)[j as int] == FF::<C>::rand_val(stream, spec_draws_end::<C>(stream, pos, j)),
        spec_draws_end::<C>(stream, pos, j + 1) == spec_draws_end::<C>(stream, pos, j) + FF::<C>::rand_used(stream, spec_draws_end::<C>(stream, pos, j)),
    decreases j
{
    lemma_draws_len::<C>(stream, pos, n);
    let p1 = pos + FF::<C>::rand_used(stream, pos);
    if j == 0 {
        assert(spec_draws_end::<C>(stream, p1, 0) == p1);
        assert(spec_draws_end::<C>(stream, pos, 0) == pos);
    } else {
        lemma_draws_index_b::<C>(stream, p1, (n - 1) as nat, (j - 1) as nat);
        lemma_draws_len::<C>(stream, p1, (n - 1) as nat);
        assert(spec_draws::<C>(stream, pos, n)[j as int] == spec_draws::<C>(stream, p1, (n - 1) as nat)[j - 1]);
        assert(spec_draws_end::<C>(stream, pos, j) == spec_draws_end::<C>(stream, p1, (j - 1) as nat));
        assert(spec_draws_end::<C>(stream, pos, j + 1) == spec_draws_end::<C>(stream, p1, j));
    }
}

// -(a + b) == (-a) + (-b)
pub proof fn lemma_sneg_add<C: Ciphersuite>(a: Scalar<C>, b: Scalar<C>)
    ensures FF::<C>::s_neg(sadd::<C>(a, b)) == sadd::<C>(FF::<C>::s_neg(a), FF::<C>::s_neg(b))
{
    let na = FF::<C>::s_neg(a); let nb = FF::<C>::s_neg(b);
    // (a + b) + (na + nb) == 0
    FF::<C>::ax_add_assoc(a, b, sadd::<C>(na, nb));
    FF::<C>::ax_add_comm(na, nb);
    FF::<C>::ax_add_assoc(b, nb, na);
    FF::<C>::ax_add_neg(b);
    lemma_zero_add::<AL<C>>(na);
    FF::<C>::ax_add_neg(a);
    FF::<C>::ax_add_neg(sadd::<C>(a, b));
    lemma_add_cancel::<AL<C>>(sadd::<C>(a, b), sadd::<C>(na, nb), FF::<C>::s_neg(sadd::<C>(a, b)));
}

// -0 == 0
pub proof fn lemma_sneg_zero<C: Ciphersuite>()
    ensures FF::<C>::s_neg(s0::<C>()) == s0::<C>()
{
    FF::<C>::ax_add_neg(s0::<C>());
    lemma_zero_add::<AL<C>>(FF::<C>::s_neg(s0::<C>()));
}

// one step of the accumulator in Verifier::verify:  (-S) - t == -(S + t)
pub proof fn lemma_acc_step<C: Ciphersuite>(s: Scalar<C>, t: Scalar<C>)
    ensures ssub::<C>(FF::<C>::s_neg(s), t) == FF::<C>::s_neg(sadd::<C>(s, t))
{ lemma_sneg_add::<C>(s, t); }

} // verus!
}
