// lemmas/vspec.rs -- specification vocabulary shared by all contracts (written from RFC 9591 and the
// property statements, not from the code) and the bridge between the repo-shaped traits and the abstract
// lemma library.
pub mod vspec {
#[allow(unused_imports)] use vstd::prelude::*;
#[allow(unused_imports)] use vstd::std_specs::ops::*;
#[allow(unused_imports)] use vstd::std_specs::cmp::*;
#[allow(unused_imports)] use core::marker::PhantomData;
#[allow(unused_imports)] use std::collections::{BTreeMap, BTreeSet};
#[allow(unused_imports)] use crate::traits::*;
#[allow(unused_imports)] use crate::*;
pub use crate::vfield::*;
pub use crate::vgroup::*;
pub use crate::vorder::*;
pub use crate::vinterp::*;
pub use crate::vworld::*;
pub use crate::vstdx::*;
pub use crate::vspec_nonce::*;
pub use crate::vspec_codec::*;
pub use crate::vspec_batch::*;
pub use crate::vspec_agg::*;
pub use crate::vspec_pclauses::*;
verus! {
//@module_serves ALL

pub type FF<C> = <<C as Ciphersuite>::Group as Group>::Field;
pub type GG<C> = <C as Ciphersuite>::Group;

// adapter: every `Field` is an `Fld` (the algebra the lemma library is written against)
pub struct Sp<F: Field> { pub p: PhantomData<F> }
impl<F: Field> Fld for Sp<F> {
    type S = F::Scalar;
    open spec fn zero() -> F::Scalar { F::s_zero() }
    open spec fn one() -> F::Scalar { F::s_one() }
    open spec fn add(a: F::Scalar, b: F::Scalar) -> F::Scalar { F::s_add(a, b) }
    open spec fn neg(a: F::Scalar) -> F::Scalar { F::s_neg(a) }
    open spec fn mul(a: F::Scalar, b: F::Scalar) -> F::Scalar { F::s_mul(a, b) }
    open spec fn inv(a: F::Scalar) -> F::Scalar { F::s_inv(a) }
    proof fn add_comm(a: F::Scalar, b: F::Scalar) { F::ax_add_comm(a, b); }
    proof fn add_assoc(a: F::Scalar, b: F::Scalar, c: F::Scalar) { F::ax_add_assoc(a, b, c); }
    proof fn add_zero(a: F::Scalar) { F::ax_add_zero(a); }
    proof fn add_neg(a: F::Scalar) { F::ax_add_neg(a); }
    proof fn mul_comm(a: F::Scalar, b: F::Scalar) { F::ax_mul_comm(a, b); }
    proof fn mul_assoc(a: F::Scalar, b: F::Scalar, c: F::Scalar) { F::ax_mul_assoc(a, b, c); }
    proof fn mul_one(a: F::Scalar) { F::ax_mul_one(a); }
    proof fn distrib(a: F::Scalar, b: F::Scalar, c: F::Scalar) { F::ax_distrib(a, b, c); }
    proof fn mul_inv(a: F::Scalar) { F::ax_mul_inv(a); }
    proof fn one_ne_zero() { F::ax_one_ne_zero(); }
}
pub type AL<C> = Sp<FF<C>>;

// short names for the spec operations of a ciphersuite
pub open spec fn s0<C: Ciphersuite>() -> Scalar<C> { FF::<C>::s_zero() }
pub open spec fn s1<C: Ciphersuite>() -> Scalar<C> { FF::<C>::s_one() }
pub open spec fn sadd<C: Ciphersuite>(a: Scalar<C>, b: Scalar<C>) -> Scalar<C> { FF::<C>::s_add(a, b) }
pub open spec fn ssub<C: Ciphersuite>(a: Scalar<C>, b: Scalar<C>) -> Scalar<C> { FF::<C>::s_add(a, FF::<C>::s_neg(b)) }
pub open spec fn smul<C: Ciphersuite>(a: Scalar<C>, b: Scalar<C>) -> Scalar<C> { FF::<C>::s_mul(a, b) }
pub open spec fn sinv<C: Ciphersuite>(a: Scalar<C>) -> Scalar<C> { FF::<C>::s_inv(a) }
pub open spec fn e0<C: Ciphersuite>() -> Element<C> { GG::<C>::e_id() }
pub open spec fn eg<C: Ciphersuite>() -> Element<C> { GG::<C>::e_gen() }
pub open spec fn eadd<C: Ciphersuite>(a: Element<C>, b: Element<C>) -> Element<C> { GG::<C>::e_add(a, b) }
pub open spec fn esub<C: Ciphersuite>(a: Element<C>, b: Element<C>) -> Element<C> { GG::<C>::e_add(a, GG::<C>::e_neg(b)) }
pub open spec fn emul<C: Ciphersuite>(a: Element<C>, k: Scalar<C>) -> Element<C> { GG::<C>::e_smul(a, k) }
pub open spec fn gmul<C: Ciphersuite>(k: Scalar<C>) -> Element<C> { GG::<C>::e_smul(GG::<C>::e_gen(), k) }

// Operator facts for a ciphersuite: exec `+ - * ==` on scalars and elements are the spec operations.
// Injected at the entry of every verified function (rule E8); with loop isolation switched off the facts
// reach every loop body.
pub proof fn use_algebra<C: Ciphersuite>()
    ensures
        <Scalar<C> as AddSpec<Scalar<C>>>::obeys_add_spec(),
        <Scalar<C> as SubSpec<Scalar<C>>>::obeys_sub_spec(),
        <Scalar<C> as MulSpec<Scalar<C>>>::obeys_mul_spec(),
        <Scalar<C> as PartialEqSpec<Scalar<C>>>::obeys_eq_spec(),
        forall|a: Scalar<C>, b: Scalar<C>| #[trigger] a.add_req(b),
        forall|a: Scalar<C>, b: Scalar<C>| #[trigger] a.sub_req(b),
        forall|a: Scalar<C>, b: Scalar<C>| #[trigger] a.mul_req(b),
        forall|a: Scalar<C>, b: Scalar<C>| #[trigger] a.add_spec(b) == sadd::<C>(a, b),
        forall|a: Scalar<C>, b: Scalar<C>| #[trigger] a.sub_spec(b) == ssub::<C>(a, b),
        forall|a: Scalar<C>, b: Scalar<C>| #[trigger] a.mul_spec(b) == smul::<C>(a, b),
        forall|a: Scalar<C>, b: Scalar<C>| #[trigger] a.eq_spec(&b) == (a == b),
        <Element<C> as AddSpec<Element<C>>>::obeys_add_spec(),
        <Element<C> as SubSpec<Element<C>>>::obeys_sub_spec(),
        <Element<C> as MulSpec<Scalar<C>>>::obeys_mul_spec(),
        <Element<C> as PartialEqSpec<Element<C>>>::obeys_eq_spec(),
        forall|a: Element<C>, b: Element<C>| #[trigger] a.add_req(b),
        forall|a: Element<C>, b: Element<C>| #[trigger] a.sub_req(b),
        forall|a: Element<C>, k: Scalar<C>| #[trigger] a.mul_req(k),
        forall|a: Element<C>, b: Element<C>| #[trigger] a.add_spec(b) == eadd::<C>(a, b),
        forall|a: Element<C>, b: Element<C>| #[trigger] a.sub_spec(b) == esub::<C>(a, b),
        forall|a: Element<C>, k: Scalar<C>| #[trigger] a.mul_spec(k) == emul::<C>(a, k),
        forall|a: Element<C>, b: Element<C>| #[trigger] a.eq_spec(&b) == (a == b),
        forall|e: FieldError, r: Error<C>| #[trigger] vstd::std_specs::control_flow::spec_from::<Error<C>, FieldError>(e, r) ==> r == Error::<C>::FieldError(e),
        forall|e: GroupError, r: Error<C>| #[trigger] vstd::std_specs::control_flow::spec_from::<Error<C>, GroupError>(e, r) ==> r == Error::<C>::GroupError(e),
        forall|v: Seq<u8>| #[trigger] v.subrange(0, v.len() as int) == v,
{
    assert forall|v: Seq<u8>| #[trigger] v.subrange(0, v.len() as int) == v by { assert(v.subrange(0, v.len() as int) =~= v); }
    FF::<C>::ax_ops();
    GG::<C>::ax_eops();
    assert forall|e: FieldError, r: Error<C>| #[trigger] vstd::std_specs::control_flow::spec_from::<Error<C>, FieldError>(e, r) implies r == Error::<C>::FieldError(e) by { ax_question_mark_field::<C>(e, r); }
    assert forall|e: GroupError, r: Error<C>| #[trigger] vstd::std_specs::control_flow::spec_from::<Error<C>, GroupError>(e, r) implies r == Error::<C>::GroupError(e) by { ax_question_mark_group::<C>(e, r); }
}

// "Second opinion" facts (driver: only used to RE-CHECK an obligation that failed): the ring/module laws of T3 as quantified facts, so that a
// body that computes the same value in another order of operands (a + b vs b + a, (a*b)*c vs a*(b*c), distributed products) is not
// reported as a violation merely because the first proof attempt has no AC reasoning.  Every conjunct is an axiom of prelude/traits.rs or a
// lemma of lemmas/vgroup.rs instantiated for all arguments: adding them cannot make a false obligation pass.
pub proof fn use_ac<C: Ciphersuite>()
    ensures ac_level3::<C>()
{ use_ac1::<C>(); use_ac2::<C>(); use_ac3::<C>(); }

// level 1: commutativity, units, inverses, cancellation (a comparison moved to the other side) -- cheap
pub open spec fn ac_level1<C: Ciphersuite>() -> bool {
    &&& forall|a: Scalar<C>, b: Scalar<C>| #[trigger] FF::<C>::s_add(a, b) == FF::<C>::s_add(b, a)
    &&& forall|a: Scalar<C>, b: Scalar<C>| #[trigger] FF::<C>::s_mul(a, b) == FF::<C>::s_mul(b, a)
    &&& forall|a: Scalar<C>| #[trigger] FF::<C>::s_add(a, FF::<C>::s_zero()) == a
    &&& forall|a: Scalar<C>| #[trigger] FF::<C>::s_mul(a, FF::<C>::s_one()) == a
    &&& forall|a: Scalar<C>| #[trigger] FF::<C>::s_add(a, FF::<C>::s_neg(a)) == FF::<C>::s_zero()
    &&& forall|a: Element<C>, b: Element<C>| #[trigger] GG::<C>::e_add(a, b) == GG::<C>::e_add(b, a)
    &&& forall|a: Element<C>| #[trigger] GG::<C>::e_add(a, GG::<C>::e_id()) == a
    &&& forall|a: Element<C>| #[trigger] GG::<C>::e_add(a, GG::<C>::e_neg(a)) == GG::<C>::e_id()
    &&& forall|a: Element<C>| #[trigger] GG::<C>::e_smul(a, FF::<C>::s_one()) == a
    &&& forall|b: Element<C>, c: Element<C>| GG::<C>::e_add(#[trigger] GG::<C>::e_add(b, GG::<C>::e_neg(c)), c) == b
    &&& forall|b: Scalar<C>, c: Scalar<C>| FF::<C>::s_add(#[trigger] FF::<C>::s_add(b, FF::<C>::s_neg(c)), c) == b
    &&& forall|a: Element<C>, b: Element<C>| #[trigger] GG::<C>::e_add(GG::<C>::e_add(a, b), GG::<C>::e_neg(a)) == b
    &&& forall|a: Element<C>, b: Element<C>| #[trigger] GG::<C>::e_add(GG::<C>::e_add(b, a), GG::<C>::e_neg(a)) == b
    &&& forall|a: Scalar<C>, b: Scalar<C>| #[trigger] FF::<C>::s_add(FF::<C>::s_add(a, b), FF::<C>::s_neg(a)) == b
    &&& forall|a: Scalar<C>, b: Scalar<C>| #[trigger] FF::<C>::s_add(FF::<C>::s_add(b, a), FF::<C>::s_neg(a)) == b
}
// level 2: + associativity
pub open spec fn ac_level2<C: Ciphersuite>() -> bool {
    &&& ac_level1::<C>()
    &&& forall|a: Scalar<C>, b: Scalar<C>, c: Scalar<C>| #[trigger] FF::<C>::s_add(FF::<C>::s_add(a, b), c) == FF::<C>::s_add(a, FF::<C>::s_add(b, c))
    &&& forall|a: Scalar<C>, b: Scalar<C>, c: Scalar<C>| #[trigger] FF::<C>::s_mul(FF::<C>::s_mul(a, b), c) == FF::<C>::s_mul(a, FF::<C>::s_mul(b, c))
    &&& forall|a: Element<C>, b: Element<C>, c: Element<C>| #[trigger] GG::<C>::e_add(GG::<C>::e_add(a, b), c) == GG::<C>::e_add(a, GG::<C>::e_add(b, c))
    &&& forall|a: Element<C>, j: Scalar<C>, k: Scalar<C>| #[trigger] GG::<C>::e_smul(GG::<C>::e_smul(a, j), k) == GG::<C>::e_smul(a, FF::<C>::s_mul(j, k))
}
// level 3: + distributivity (ring and module)
pub open spec fn ac_level3<C: Ciphersuite>() -> bool {
    &&& ac_level2::<C>()
    &&& forall|a: Scalar<C>, b: Scalar<C>, c: Scalar<C>| #[trigger] FF::<C>::s_mul(a, FF::<C>::s_add(b, c)) == FF::<C>::s_add(FF::<C>::s_mul(a, b), FF::<C>::s_mul(a, c))
    &&& forall|a: Element<C>, j: Scalar<C>, k: Scalar<C>| #[trigger] GG::<C>::e_smul(a, FF::<C>::s_add(j, k)) == GG::<C>::e_add(GG::<C>::e_smul(a, j), GG::<C>::e_smul(a, k))
    &&& forall|a: Element<C>, b: Element<C>, k: Scalar<C>| #[trigger] GG::<C>::e_smul(GG::<C>::e_add(a, b), k) == GG::<C>::e_add(GG::<C>::e_smul(a, k), GG::<C>::e_smul(b, k))
}

pub proof fn use_ac1<C: Ciphersuite>()
    ensures ac_level1::<C>()
{
    assert forall|a: Scalar<C>, b: Scalar<C>| #[trigger] FF::<C>::s_add(a, b) == FF::<C>::s_add(b, a) by { FF::<C>::ax_add_comm(a, b); }
    assert forall|a: Scalar<C>, b: Scalar<C>| #[trigger] FF::<C>::s_mul(a, b) == FF::<C>::s_mul(b, a) by { FF::<C>::ax_mul_comm(a, b); }
    assert forall|a: Scalar<C>| #[trigger] FF::<C>::s_add(a, FF::<C>::s_zero()) == a by { FF::<C>::ax_add_zero(a); }
    assert forall|a: Scalar<C>| #[trigger] FF::<C>::s_mul(a, FF::<C>::s_one()) == a by { FF::<C>::ax_mul_one(a); }
    assert forall|a: Scalar<C>| #[trigger] FF::<C>::s_add(a, FF::<C>::s_neg(a)) == FF::<C>::s_zero() by { FF::<C>::ax_add_neg(a); }
    assert forall|a: Element<C>, b: Element<C>| #[trigger] GG::<C>::e_add(a, b) == GG::<C>::e_add(b, a) by { GG::<C>::ax_eadd_comm(a, b); }
    assert forall|a: Element<C>| #[trigger] GG::<C>::e_add(a, GG::<C>::e_id()) == a by { GG::<C>::ax_eadd_id(a); }
    assert forall|a: Element<C>| #[trigger] GG::<C>::e_add(a, GG::<C>::e_neg(a)) == GG::<C>::e_id() by { GG::<C>::ax_eadd_neg(a); }
    assert forall|a: Element<C>| #[trigger] GG::<C>::e_smul(a, FF::<C>::s_one()) == a by { GG::<C>::ax_smul_one(a); }
    assert forall|b: Element<C>, c: Element<C>| GG::<C>::e_add(#[trigger] GG::<C>::e_add(b, GG::<C>::e_neg(c)), c) == b by {
        GG::<C>::ax_eadd_assoc(b, GG::<C>::e_neg(c), c); GG::<C>::ax_eadd_comm(GG::<C>::e_neg(c), c); GG::<C>::ax_eadd_neg(c); GG::<C>::ax_eadd_id(b);
    }
    assert forall|b: Scalar<C>, c: Scalar<C>| FF::<C>::s_add(#[trigger] FF::<C>::s_add(b, FF::<C>::s_neg(c)), c) == b by {
        FF::<C>::ax_add_assoc(b, FF::<C>::s_neg(c), c); FF::<C>::ax_add_comm(FF::<C>::s_neg(c), c); FF::<C>::ax_add_neg(c); FF::<C>::ax_add_zero(b);
    }
    assert forall|a: Element<C>, b: Element<C>| #[trigger] GG::<C>::e_add(GG::<C>::e_add(b, a), GG::<C>::e_neg(a)) == b by {
        GG::<C>::ax_eadd_assoc(b, a, GG::<C>::e_neg(a)); GG::<C>::ax_eadd_neg(a); GG::<C>::ax_eadd_id(b);
    }
    assert forall|a: Element<C>, b: Element<C>| #[trigger] GG::<C>::e_add(GG::<C>::e_add(a, b), GG::<C>::e_neg(a)) == b by {
        GG::<C>::ax_eadd_comm(a, b); GG::<C>::ax_eadd_assoc(b, a, GG::<C>::e_neg(a)); GG::<C>::ax_eadd_neg(a); GG::<C>::ax_eadd_id(b);
    }
    assert forall|a: Scalar<C>, b: Scalar<C>| #[trigger] FF::<C>::s_add(FF::<C>::s_add(b, a), FF::<C>::s_neg(a)) == b by {
        FF::<C>::ax_add_assoc(b, a, FF::<C>::s_neg(a)); FF::<C>::ax_add_neg(a); FF::<C>::ax_add_zero(b);
    }
    assert forall|a: Scalar<C>, b: Scalar<C>| #[trigger] FF::<C>::s_add(FF::<C>::s_add(a, b), FF::<C>::s_neg(a)) == b by {
        FF::<C>::ax_add_comm(a, b); FF::<C>::ax_add_assoc(b, a, FF::<C>::s_neg(a)); FF::<C>::ax_add_neg(a); FF::<C>::ax_add_zero(b);
    }
}
pub proof fn use_ac2<C: Ciphersuite>()
    ensures ac_level2::<C>()
{
    use_ac1::<C>();
    assert forall|a: Scalar<C>, b: Scalar<C>, c: Scalar<C>| #[trigger] FF::<C>::s_add(FF::<C>::s_add(a, b), c) == FF::<C>::s_add(a, FF::<C>::s_add(b, c)) by { FF::<C>::ax_add_assoc(a, b, c); }
    assert forall|a: Scalar<C>, b: Scalar<C>, c: Scalar<C>| #[trigger] FF::<C>::s_mul(FF::<C>::s_mul(a, b), c) == FF::<C>::s_mul(a, FF::<C>::s_mul(b, c)) by { FF::<C>::ax_mul_assoc(a, b, c); }
    assert forall|a: Element<C>, b: Element<C>, c: Element<C>| #[trigger] GG::<C>::e_add(GG::<C>::e_add(a, b), c) == GG::<C>::e_add(a, GG::<C>::e_add(b, c)) by { GG::<C>::ax_eadd_assoc(a, b, c); }
    assert forall|a: Element<C>, j: Scalar<C>, k: Scalar<C>| #[trigger] GG::<C>::e_smul(GG::<C>::e_smul(a, j), k) == GG::<C>::e_smul(a, FF::<C>::s_mul(j, k)) by { GG::<C>::ax_smul_mul(a, j, k); }
}
pub proof fn use_ac3<C: Ciphersuite>()
    ensures ac_level3::<C>()
{
    use_ac2::<C>();
    assert forall|a: Scalar<C>, b: Scalar<C>, c: Scalar<C>| #[trigger] FF::<C>::s_mul(a, FF::<C>::s_add(b, c)) == FF::<C>::s_add(FF::<C>::s_mul(a, b), FF::<C>::s_mul(a, c)) by { FF::<C>::ax_distrib(a, b, c); }
    assert forall|a: Element<C>, j: Scalar<C>, k: Scalar<C>| #[trigger] GG::<C>::e_smul(a, FF::<C>::s_add(j, k)) == GG::<C>::e_add(GG::<C>::e_smul(a, j), GG::<C>::e_smul(a, k)) by { GG::<C>::ax_smul_add(a, j, k); }
    assert forall|a: Element<C>, b: Element<C>, k: Scalar<C>| #[trigger] GG::<C>::e_smul(GG::<C>::e_add(a, b), k) == GG::<C>::e_add(GG::<C>::e_smul(a, k), GG::<C>::e_smul(b, k)) by { GG::<C>::ax_smul_eadd(a, b, k); }
}

// T6: the `?` operator converts the error with `From::from` (Rust reference); vstd models the conversion by the uninterpreted
// relation `spec_from`.  For the two `#[from]` conversions of `Error<C>` (expanded by rule E2) it is the generated From impl.
pub axiom fn ax_question_mark_field<C: Ciphersuite>(e: FieldError, r: Error<C>)
    ensures vstd::std_specs::control_flow::spec_from::<Error<C>, FieldError>(e, r) ==> r == Error::<C>::FieldError(e);
pub axiom fn ax_question_mark_group<C: Ciphersuite>(e: GroupError, r: Error<C>)
    ensures vstd::std_specs::control_flow::spec_from::<Error<C>, GroupError>(e, r) ==> r == Error::<C>::GroupError(e);


pub proof fn use_id_order<C: Ciphersuite>()
    ensures
        default_world::<C>(),
        vstd::laws_cmp::obeys_cmp::<Identifier<C>>(),
        vstd::std_specs::btree::key_obeys_cmp_spec::<Identifier<C>>(),
        lt_laws::<Identifier<C>>(),
{
    ax_identifier_ord::<C>();
    ax_default_world::<C>();
}

// T7 (assumed): `Ord for Identifier` is a total order consistent with `==`
pub uninterp spec fn spec_id_cmp<C: Ciphersuite>(a: Identifier<C>, b: Identifier<C>) -> core::cmp::Ordering;
pub axiom fn ax_identifier_ord<C: Ciphersuite>()
    ensures vstd::laws_cmp::obeys_cmp::<Identifier<C>>(), lt_laws::<Identifier<C>>();
// T3 addendum (assumed; true for the six suites, whose group orders exceed 2^250): the field characteristic exceeds 2^16,
// so the default identifiers 1..=65535 are non-zero (otherwise `default_identifiers` would panic) and pairwise distinct
pub axiom fn ax_char_large<C: Ciphersuite>(n: nat)
    requires 0 < n <= 65535
    ensures nat_scalar::<C>(n) != s0::<C>();
pub axiom fn ax_identifier_total<C: Ciphersuite>(a: Identifier<C>, b: Identifier<C>)
    ensures a == b || lt(a, b) || lt(b, a);


// ---------------------------------------------------------------------------------------------------
// identifiers as scalars
pub open spec fn id_scalar<C: Ciphersuite>(i: Identifier<C>) -> Scalar<C> { i.0.0 }
pub open spec fn scalars<C: Ciphersuite>(ids: Seq<Identifier<C>>) -> Seq<Scalar<C>> { ids.map_values(|i: Identifier<C>| i.0.0) }

// RFC 9591 section 4.2 derive_interpolating_value, generalised to an evaluation point `x` (None = 0):
//   L_i(x) = prod_{j != i} (x - x_j) / (x_i - x_j)
pub open spec fn spec_lagrange<C: Ciphersuite>(ids: Seq<Identifier<C>>, x: Option<Identifier<C>>, x_i: Identifier<C>) -> Scalar<C> {
    let xs = scalars::<C>(ids);
    match x {
        Some(x) => basis::<AL<C>>(xs, x.0.0, x_i.0.0),
        None => FF::<C>::s_mul(numn::<AL<C>>(xs, x_i.0.0), FF::<C>::s_inv(denn::<AL<C>>(xs, x_i.0.0))),
    }
}

pub proof fn lemma_take_step<T>(all: Seq<&T>, k: int)
    requires 0 <= k < all.len()
    ensures all.take(k + 1).unref().drop_last() =~= all.take(k).unref(),
            all.take(k + 1).unref().last() == *all[k],
            all.skip(k).len() > 0, all.skip(k)[0] == all[k], all.skip(k).drop_first() =~= all.skip(k + 1),
{
    broadcast use vstd::seq::group_seq_axioms;
    broadcast use vstd::seq_lib::group_seq_properties;
}

pub proof fn lemma_scalars_step<C: Ciphersuite>(s: Seq<Identifier<C>>)
    requires s.len() > 0
    ensures scalars::<C>(s).drop_last() =~= scalars::<C>(s.drop_last()), scalars::<C>(s).last() == s.last().0.0, scalars::<C>(s).len() == s.len()
{}


// ---------------------------------------------------------------------------------------------------
// keys.rs vocabulary
pub open spec fn spec_validate_num_of_signers<C: Ciphersuite>(min_signers: u16, max_signers: u16) -> Result<(), Error<C>> {
    if min_signers < 2 { Err(Error::InvalidMinSigners) }
    else if max_signers < 2 { Err(Error::InvalidMaxSigners) }
    else if min_signers > max_signers { Err(Error::InvalidMinSigners) }
    else { Ok(()) }
}

// VSS right-hand side  sum_k C_k * (x^k * pw), folded left to right (RFC 9591 appendix C.2 vss_verify)
pub open spec fn spec_vss<C: Ciphersuite>(c: Seq<Element<C>>, x: Scalar<C>, pw: Scalar<C>) -> Element<C> decreases c.len()
{ if c.len() == 0 { e0::<C>() } else { eadd::<C>(emul::<C>(c[0], pw), spec_vss::<C>(c.drop_first(), x, smul::<C>(x, pw))) } }

pub open spec fn comm_vals<C: Ciphersuite>(c: Seq<crate::keys::CoefficientCommitment<C>>) -> Seq<Element<C>> { c.map_values(|k: crate::keys::CoefficientCommitment<C>| k.0.0) }


// n * 1 in the scalar field (RFC 9591: identifiers are integers 1..max_participants mapped to scalars)
pub open spec fn nat_scalar<C: Ciphersuite>(n: nat) -> Scalar<C> decreases n
{ if n == 0 { s0::<C>() } else { sadd::<C>(nat_scalar::<C>((n - 1) as nat), s1::<C>()) } }

// commitments to a coefficient vector
pub open spec fn spec_commitment<C: Ciphersuite>(a: Seq<Scalar<C>>) -> Seq<crate::keys::CoefficientCommitment<C>>
{ a.map_values(|s: Scalar<C>| crate::keys::CoefficientCommitment::<C>(crate::serialization::SerializableElement::<C>(gmul::<C>(s)))) }

// T9: k consecutive draws of `Field::random` from the stream, starting at `pos`
pub open spec fn spec_draws<C: Ciphersuite>(stream: spec_fn(nat) -> u8, pos: nat, k: nat) -> Seq<Scalar<C>> decreases k
{ if k == 0 { Seq::empty() } else { seq![FF::<C>::rand_val(stream, pos)] + spec_draws::<C>(stream, pos + FF::<C>::rand_used(stream, pos), (k - 1) as nat) } }
pub open spec fn spec_draws_end<C: Ciphersuite>(stream: spec_fn(nat) -> u8, pos: nat, k: nat) -> nat decreases k
{ if k == 0 { pos } else { spec_draws_end::<C>(stream, pos + FF::<C>::rand_used(stream, pos), (k - 1) as nat) } }

pub proof fn lemma_draws_len<C: Ciphersuite>(stream: spec_fn(nat) -> u8, pos: nat, k: nat)
    ensures spec_draws::<C>(stream, pos, k).len() == k
    decreases k
{ if k > 0 { lemma_draws_len::<C>(stream, pos + FF::<C>::rand_used(stream, pos), (k - 1) as nat); } }

pub open spec fn default_header<C: Ciphersuite>() -> Header<C> { Header { version: 0, ciphersuite: (), phantom: core::marker::PhantomData } }


// a dealer share for identifier `id` of the polynomial with coefficient vector `a` (constant term first)
pub open spec fn spec_is_share<C: Ciphersuite>(sh: crate::keys::SecretShare<C>, id: Identifier<C>, a: Seq<Scalar<C>>) -> bool {
    sh.header == default_header::<C>() && sh.identifier == id
    && sh.signing_share.0.0 == poly::<AL<C>>(a, id.0.0)
    && sh.commitment.0@ == spec_commitment::<C>(a)
}

// RFC 9591 appendix C.2 vss_verify + derive_group_info for one participant, as a total function
pub open spec fn spec_share_ok<C: Ciphersuite>(sh: crate::keys::SecretShare<C>) -> Result<(), Error<C>> {
    if gmul::<C>(sh.signing_share.0.0) != spec_vss::<C>(comm_vals::<C>(sh.commitment.0@), sh.identifier.0.0, s1::<C>()) {
        Err(Error::InvalidSecretShare { culprit: None })
    } else if sh.commitment.0@.len() == 0 { Err(Error::MissingCommitment) } else { Ok(()) }
}


pub open spec fn spec_key_package_try_from<C: Ciphersuite>(sh: crate::keys::SecretShare<C>) -> Result<crate::keys::KeyPackage<C>, Error<C>> {
    match spec_share_ok::<C>(sh) {
        Err(e) => Err(e),
        Ok(_) => Ok(crate::keys::KeyPackage::<C> {
            header: default_header::<C>(), identifier: sh.identifier, signing_share: sh.signing_share,
            verifying_share: crate::keys::VerifyingShare(crate::serialization::SerializableElement(gmul::<C>(sh.signing_share.0.0))),
            verifying_key: VerifyingKey { element: crate::serialization::SerializableElement(sh.commitment.0@[0].0.0) },
            min_signers: sh.commitment.0@.len() as u16 }),
    }
}


pub open spec fn spec_default_ids<C: Ciphersuite>(max_signers: u16) -> Seq<Identifier<C>>
{ Seq::new(max_signers as nat, |k: int| Identifier::<C>(crate::serialization::SerializableScalar(nat_scalar::<C>((k + 1) as nat)))) }

pub open spec fn spec_id_list<C: Ciphersuite>(l: crate::keys::IdentifierList<C>, max_signers: u16) -> Seq<Identifier<C>>
{ match l { crate::keys::IdentifierList::Default => spec_default_ids::<C>(max_signers), crate::keys::IdentifierList::Custom(s) => s@ } }

// the two maps `split` builds, for the identifiers seen so far
pub open spec fn spec_dealer_maps<C: Ciphersuite>(shares: Map<Identifier<C>, crate::keys::SecretShare<C>>,
        vshares: Map<Identifier<C>, crate::keys::VerifyingShare<C>>, ids: Seq<Identifier<C>>, a: Seq<Scalar<C>>) -> bool {
    shares.dom() == ids.to_set() && vshares.dom() == ids.to_set()
    && forall|id: Identifier<C>| #[trigger] ids.contains(id) ==> spec_is_share::<C>(shares[id], id, a)
           && vshares[id] == crate::keys::VerifyingShare::<C>(crate::serialization::SerializableElement(gmul::<C>(poly::<AL<C>>(a, id.0.0))))
}

// C06: what the dealer hands out for identifier list `ids`, polynomial `a` (a[0] = the key), threshold t
pub open spec fn spec_dealer_output<C: Ciphersuite>(shares: Map<Identifier<C>, crate::keys::SecretShare<C>>, pk: crate::keys::PublicKeyPackage<C>,
        ids: Seq<Identifier<C>>, a: Seq<Scalar<C>>, t: u16) -> bool {
    spec_dealer_maps::<C>(shares, pk.verifying_shares@, ids, a)
    && pk.header == default_header::<C>()
    && pk.verifying_key == (VerifyingKey::<C> { element: crate::serialization::SerializableElement(gmul::<C>(a[0])) })
    && pk.min_signers == Some(t)
}

pub proof fn lemma_dealer_maps_step<C: Ciphersuite>(shares: Map<Identifier<C>, crate::keys::SecretShare<C>>,
        vshares: Map<Identifier<C>, crate::keys::VerifyingShare<C>>, ids: Seq<Identifier<C>>, a: Seq<Scalar<C>>, sh: crate::keys::SecretShare<C>)
    requires spec_dealer_maps::<C>(shares, vshares, ids, a), spec_is_share::<C>(sh, sh.identifier, a)
    ensures spec_dealer_maps::<C>(shares.insert(sh.identifier, sh),
                vshares.insert(sh.identifier, crate::keys::VerifyingShare::<C>(crate::serialization::SerializableElement(gmul::<C>(sh.signing_share.0.0)))),
                ids.push(sh.identifier), a)
{
    let ids2 = ids.push(sh.identifier);
    assert(ids2.to_set() =~= ids.to_set().insert(sh.identifier)) by {
        assert forall|x: Identifier<C>| ids2.to_set().contains(x) <==> ids.to_set().insert(sh.identifier).contains(x) by {
            if ids2.contains(x) { let w = choose|w: int| 0 <= w < ids2.len() && ids2[w] == x; if w < ids.len() { assert(ids[w] == x); } }
            if ids.contains(x) { let w = choose|w: int| 0 <= w < ids.len() && ids[w] == x; assert(ids2[w] == x); }
            if x == sh.identifier { assert(ids2[ids.len() as int] == x); }
        }
    }
    assert forall|id: Identifier<C>| #[trigger] ids2.contains(id) implies
        spec_is_share::<C>(shares.insert(sh.identifier, sh)[id], id, a)
        && vshares.insert(sh.identifier, crate::keys::VerifyingShare::<C>(crate::serialization::SerializableElement(gmul::<C>(sh.signing_share.0.0))))[id]
            == crate::keys::VerifyingShare::<C>(crate::serialization::SerializableElement(gmul::<C>(poly::<AL<C>>(a, id.0.0)))) by {
        if id != sh.identifier {
            let w = choose|w: int| 0 <= w < ids2.len() && ids2[w] == id;
            assert(w < ids.len());
            assert(ids[w] == id);
            assert(ids.contains(id));
        }
    }
}


// ---- reconstruct (RFC 9591 appendix C.1 secret_share_combine / polynomial_interpolate_constant) ----
pub open spec fn kp_ids<C: Ciphersuite>(kps: Seq<crate::keys::KeyPackage<C>>) -> Seq<Identifier<C>> { kps.map_values(|k: crate::keys::KeyPackage<C>| k.identifier) }

pub open spec fn spec_min_min_signers<C: Ciphersuite>(kps: Seq<crate::keys::KeyPackage<C>>) -> int decreases kps.len()
{ if kps.len() == 0 { 65536 } else { let r = spec_min_min_signers::<C>(kps.drop_last()); if (kps.last().min_signers as int) < r { kps.last().min_signers as int } else { r } } }

// sum over the first n packages of  L_i(0) * s_i  with the Lagrange basis over the identifier sequence `ids`
pub open spec fn spec_interpolate0<C: Ciphersuite>(kps: Seq<crate::keys::KeyPackage<C>>, ids: Seq<Identifier<C>>, n: nat) -> Scalar<C> decreases n
{ if n == 0 { s0::<C>() } else { sadd::<C>(spec_interpolate0::<C>(kps, ids, (n - 1) as nat),
      smul::<C>(spec_lagrange::<C>(ids, None, kps[n - 1].identifier), kps[n - 1].signing_share.0.0)) } }

pub proof fn lemma_min_min_signers<C: Ciphersuite>(kps: Seq<crate::keys::KeyPackage<C>>, m: u16)
    requires kps.len() > 0,
        exists|k: int| 0 <= k < kps.len() && (#[trigger] kps[k]).min_signers == m,
        forall|k: int| 0 <= k < kps.len() ==> m <= (#[trigger] kps[k]).min_signers,
    ensures spec_min_min_signers::<C>(kps) == m
    decreases kps.len()
{
    let r = kps.drop_last();
    if r.len() == 0 {
        assert(spec_min_min_signers::<C>(r) == 65536);
        assert(kps[0].min_signers == m);
    } else {
        if exists|k: int| 0 <= k < r.len() && (#[trigger] r[k]).min_signers == m {
            assert forall|k: int| 0 <= k < r.len() implies m <= (#[trigger] r[k]).min_signers by { assert(r[k] == kps[k]); }
            lemma_min_min_signers::<C>(r, m);
        } else {
            let k = choose|k: int| 0 <= k < kps.len() && (#[trigger] kps[k]).min_signers == m;
            if k < r.len() { assert(r[k].min_signers == m); }
            assert(kps.last().min_signers == m);
            assert forall|k: int| 0 <= k < r.len() implies m <= (#[trigger] r[k]).min_signers by { assert(r[k] == kps[k]); }
            lemma_min_lower::<C>(r, m);
        }
    }
}
pub proof fn lemma_min_lower<C: Ciphersuite>(kps: Seq<crate::keys::KeyPackage<C>>, m: u16)
    requires forall|k: int| 0 <= k < kps.len() ==> m <= (#[trigger] kps[k]).min_signers
    ensures spec_min_min_signers::<C>(kps) >= m
    decreases kps.len()
{ if kps.len() > 0 { lemma_min_lower::<C>(kps.drop_last(), m); } }

pub proof fn lemma_kp_ids_card<C: Ciphersuite>(kps: Seq<crate::keys::KeyPackage<C>>)
    ensures (kp_ids::<C>(kps).to_set().len() == kps.len()) == kp_ids::<C>(kps).no_duplicates()
{
    let q = kp_ids::<C>(kps);
    if q.no_duplicates() { q.unique_seq_to_set(); }
    else { lemma_dup_card::<Identifier<C>>(q); }
}

// a sequence with a duplicate has strictly fewer distinct elements than its length
pub proof fn lemma_dup_card<T>(q: Seq<T>)
    requires !q.no_duplicates()
    ensures q.to_set().len() < q.len()
    decreases q.len()
{
    broadcast use vstd::seq_lib::group_seq_properties;
    let (i, j) = choose|i: int, j: int| 0 <= i < q.len() && 0 <= j < q.len() && i != j && q[i] == q[j];
    let hi = if i < j { j } else { i };
    let lo = if i < j { i } else { j };
    let r = q.remove(hi);
    assert(r.to_set() =~= q.to_set()) by {
        assert forall|x: T| r.to_set().contains(x) <==> q.to_set().contains(x) by {
            if r.contains(x) { let w = choose|w: int| 0 <= w < r.len() && r[w] == x; if w < hi { assert(q[w] == x); } else { assert(q[w + 1] == x); } }
            if q.contains(x) { let w = choose|w: int| 0 <= w < q.len() && q[w] == x;
                if w < hi { assert(r[w] == x); } else if w > hi { assert(r[w - 1] == x); } else { assert(r[lo] == x); } }
        }
    }
    r.lemma_cardinality_of_set();
}


// ---- repairable threshold scheme (C11) ----
pub open spec fn spec_scalar_sum<C: Ciphersuite>(v: Seq<Scalar<C>>, n: nat) -> Scalar<C> decreases n
{ if n == 0 { s0::<C>() } else { sadd::<C>(spec_scalar_sum::<C>(v, (n - 1) as nat), v[n - 1]) } }
pub open spec fn spec_delta_sum<C: Ciphersuite>(v: Seq<crate::keys::repairable::Delta<C>>, n: nat) -> Scalar<C> decreases n
{ if n == 0 { s0::<C>() } else { sadd::<C>(spec_delta_sum::<C>(v, (n - 1) as nat), v[n - 1].0.0) } }
pub open spec fn spec_sigma_sum<C: Ciphersuite>(v: Seq<crate::keys::repairable::Sigma<C>>, n: nat) -> Scalar<C> decreases n
{ if n == 0 { s0::<C>() } else { sadd::<C>(spec_sigma_sum::<C>(v, (n - 1) as nat), v[n - 1].0.0) } }

// what `helpers.iter().copied().zip(values).collect()` builds: the k-th smallest helper gets the k-th value
pub open spec fn spec_zip_deltas<C: Ciphersuite>(m: Map<Identifier<C>, crate::keys::repairable::Delta<C>>, srt: Seq<Identifier<C>>, vals: Seq<Scalar<C>>) -> bool {
    let n = if srt.len() < vals.len() { srt.len() } else { vals.len() };
    m.dom() == srt.take(n as int).to_set()
    && forall|k: int| 0 <= k < n ==> m[#[trigger] srt[k]] == crate::keys::repairable::Delta::<C>(crate::serialization::SerializableScalar(vals[k]))
}

// one helper's outgoing values: the first |H|-1 helpers (ascending) get the fresh random values, the last one the
// correcting value, so that the row sums to `total` (RTS, https://eprint.iacr.org/2017/1155)
pub open spec fn spec_is_delta_row<C: Ciphersuite>(m: Map<Identifier<C>, crate::keys::repairable::Delta<C>>, srt: Seq<Identifier<C>>, vals: Seq<Scalar<C>>, total: Scalar<C>) -> bool {
    srt.len() == vals.len() + 1
    && m.dom() == srt.to_set()
    && (forall|k: int| 0 <= k < vals.len() ==> m[#[trigger] srt[k]].0.0 == vals[k])
    && m[srt.last()].0.0 == ssub::<C>(total, spec_scalar_sum::<C>(vals, vals.len()))
}

pub proof fn lemma_delta_row<C: Ciphersuite>(m0: Map<Identifier<C>, crate::keys::repairable::Delta<C>>, srt: Seq<Identifier<C>>, vals: Seq<Scalar<C>>, last: Scalar<C>)
    requires spec_zip_deltas::<C>(m0, srt, vals), srt.len() == vals.len() + 1, srt.no_duplicates()
    ensures ({ let m = m0.insert(srt.last(), crate::keys::repairable::Delta::<C>(crate::serialization::SerializableScalar(last)));
        m.dom() == srt.to_set() && (forall|k: int| 0 <= k < vals.len() ==> m[#[trigger] srt[k]].0.0 == vals[k]) && m[srt.last()].0.0 == last })
{
    let m = m0.insert(srt.last(), crate::keys::repairable::Delta::<C>(crate::serialization::SerializableScalar(last)));
    let n = vals.len() as int;
    assert(m.dom() =~= srt.to_set()) by {
        assert forall|x: Identifier<C>| m.dom().contains(x) <==> srt.to_set().contains(x) by {
            if m0.dom().contains(x) { let w = choose|w: int| 0 <= w < srt.take(n).len() && srt.take(n)[w] == x; assert(srt[w] == x); }
            if srt.contains(x) { let w = choose|w: int| 0 <= w < srt.len() && srt[w] == x; if w < n { assert(srt.take(n)[w] == x); assert(srt.take(n).contains(x)); } }
        }
    }
    assert forall|k: int| 0 <= k < vals.len() implies m[#[trigger] srt[k]].0.0 == vals[k] by { assert(srt[k] != srt[n]); }
}

// BTreeSet::last() (greatest element) is the last entry of the ascending enumeration
pub proof fn lemma_last_is_sorted_last<C: Ciphersuite>(s: Set<Identifier<C>>)
    requires s.finite(), s.len() > 0, sorted_seq(s).no_duplicates(), sorted_seq(s).to_set() == s, vstd::std_specs::btree::increasing_seq(sorted_seq(s))
    ensures sorted_seq(s).len() == s.len(),
        forall|m: Identifier<C>| s.contains(m) && (forall|x: Identifier<C>| #[trigger] s.contains(x) ==> x == m || lt(x, m)) ==> m == sorted_seq(s).last()
{
    use_id_order::<C>();
    broadcast use vstd::std_specs::btree::axiom_increasing_seq_meaning;
    let q = sorted_seq(s);
    q.unique_seq_to_set();
    assert forall|m: Identifier<C>| s.contains(m) && (forall|x: Identifier<C>| #[trigger] s.contains(x) ==> x == m || lt(x, m)) implies m == q.last() by {
        assert(q.contains(q.last()));
        assert(s.contains(q.last()));
        if q.last() != m {
            assert(lt(q.last(), m));
            assert(q.to_set().contains(m));
            let w = choose|w: int| 0 <= w < q.len() && q[w] == m;
            assert(lt(q[w], q[q.len() - 1]));
        }
    }
}


// ---- share refresh (C10) ----
pub open spec fn identity_cc<C: Ciphersuite>() -> crate::keys::CoefficientCommitment<C> { crate::keys::CoefficientCommitment::<C>(crate::serialization::SerializableElement(e0::<C>())) }
pub open spec fn spec_with_identity<C: Ciphersuite>(c: Seq<crate::keys::CoefficientCommitment<C>>) -> Seq<crate::keys::CoefficientCommitment<C>> { seq![identity_cc::<C>()] + c }

// a refreshing share for `id` of the zero-constant polynomial r: as a dealer share but with the (identity) constant-term commitment removed
pub open spec fn spec_is_refreshing_share<C: Ciphersuite>(sh: crate::keys::SecretShare<C>, id: Identifier<C>, r: Seq<Scalar<C>>) -> bool {
    sh.header == default_header::<C>() && sh.identifier == id
    && sh.signing_share.0.0 == poly::<AL<C>>(r, id.0.0)
    && sh.commitment.0@ == spec_commitment::<C>(r).drop_first()
}

// loop accumulator of compute_refreshing_shares after j identifiers
pub open spec fn spec_refresh_acc<C: Ciphersuite>(out: Seq<crate::keys::SecretShare<C>>, vs: Map<Identifier<C>, crate::keys::VerifyingShare<C>>,
        pk: crate::keys::PublicKeyPackage<C>, ids: Seq<Identifier<C>>, r: Seq<Scalar<C>>, j: int) -> bool {
    out.len() == j && vs.dom() == ids.take(j).to_set()
    && (forall|k: int| 0 <= k < j ==> spec_is_refreshing_share::<C>(#[trigger] out[k], ids[k], r))
    && (forall|k: int| 0 <= k < j ==> vs[#[trigger] ids[k]] == crate::keys::VerifyingShare::<C>(crate::serialization::SerializableElement(
            eadd::<C>(gmul::<C>(poly::<AL<C>>(r, ids[k].0.0)), pk.verifying_shares@[ids[k]].0.0))))
}

pub open spec fn spec_refresh_output<C: Ciphersuite>(out: Seq<crate::keys::SecretShare<C>>, npk: crate::keys::PublicKeyPackage<C>,
        pk: crate::keys::PublicKeyPackage<C>, ids: Seq<Identifier<C>>, r: Seq<Scalar<C>>) -> bool {
    spec_refresh_acc::<C>(out, npk.verifying_shares@, pk, ids, r, ids.len() as int)
    && npk.header == pk.header && npk.verifying_key == pk.verifying_key && npk.min_signers == pk.min_signers
}

pub proof fn lemma_refresh_acc_step<C: Ciphersuite>(out: Seq<crate::keys::SecretShare<C>>, vs: Map<Identifier<C>, crate::keys::VerifyingShare<C>>,
        pk: crate::keys::PublicKeyPackage<C>, ids: Seq<Identifier<C>>, r: Seq<Scalar<C>>, j: int, sh: crate::keys::SecretShare<C>)
    requires 0 <= j < ids.len(), ids.no_duplicates(), spec_refresh_acc::<C>(out, vs, pk, ids, r, j), spec_is_refreshing_share::<C>(sh, ids[j], r)
    ensures spec_refresh_acc::<C>(out.push(sh), vs.insert(ids[j], crate::keys::VerifyingShare::<C>(crate::serialization::SerializableElement(
            eadd::<C>(gmul::<C>(poly::<AL<C>>(r, ids[j].0.0)), pk.verifying_shares@[ids[j]].0.0)))), pk, ids, r, j + 1)
{
    let vs2 = vs.insert(ids[j], crate::keys::VerifyingShare::<C>(crate::serialization::SerializableElement(
            eadd::<C>(gmul::<C>(poly::<AL<C>>(r, ids[j].0.0)), pk.verifying_shares@[ids[j]].0.0))));
    assert(ids.take(j + 1) =~= ids.take(j).push(ids[j]));
    assert(vs2.dom() =~= ids.take(j + 1).to_set()) by {
        assert forall|x: Identifier<C>| vs2.dom().contains(x) <==> ids.take(j + 1).to_set().contains(x) by {
            if vs.dom().contains(x) { let w = choose|w: int| 0 <= w < ids.take(j).len() && ids.take(j)[w] == x; assert(ids.take(j + 1)[w] == x); }
            if x == ids[j] { assert(ids.take(j + 1)[j] == x); }
            if ids.take(j + 1).contains(x) { let w = choose|w: int| 0 <= w < j + 1 && #[trigger] ids.take(j + 1)[w] == x; if w < j { assert(ids.take(j)[w] == x); assert(ids.take(j).contains(x)); } }
        }
    }
    assert forall|k: int| 0 <= k < j + 1 implies vs2[#[trigger] ids[k]] == crate::keys::VerifyingShare::<C>(crate::serialization::SerializableElement(
            eadd::<C>(gmul::<C>(poly::<AL<C>>(r, ids[k].0.0)), pk.verifying_shares@[ids[k]].0.0))) by { if k < j { assert(ids[k] != ids[j]); } }
}

// refresh_share as a total function of its two arguments (C10: the returned package is re-linked)
pub open spec fn spec_refresh_share<C: Ciphersuite>(rs: crate::keys::SecretShare<C>, cur: crate::keys::KeyPackage<C>) -> Result<crate::keys::KeyPackage<C>, Error<C>> {
    match spec_share_ok_c::<C>(rs.signing_share.0.0, rs.identifier, spec_with_identity::<C>(rs.commitment.0@)) {
        Err(e) => Err(e),
        Ok(_) => if (spec_with_identity::<C>(rs.commitment.0@).len() as u16) != cur.min_signers { Err(Error::InvalidMinSigners) } else {
            let s = sadd::<C>(rs.signing_share.0.0, cur.signing_share.0.0);
            Ok(crate::keys::KeyPackage::<C> { header: cur.header, identifier: cur.identifier,
                signing_share: crate::keys::SigningShare(crate::serialization::SerializableScalar(s)),
                verifying_share: crate::keys::VerifyingShare(crate::serialization::SerializableElement(gmul::<C>(s))),
                verifying_key: cur.verifying_key, min_signers: cur.min_signers })
        },
    }
}
// spec_share_ok over the components (so that it does not depend on which Vec holds the commitment)
pub open spec fn spec_share_ok_c<C: Ciphersuite>(s: Scalar<C>, id: Identifier<C>, c: Seq<crate::keys::CoefficientCommitment<C>>) -> Result<(), Error<C>> {
    if gmul::<C>(s) != spec_vss::<C>(comm_vals::<C>(c), id.0.0, s1::<C>()) { Err(Error::InvalidSecretShare { culprit: None }) }
    else if c.len() == 0 { Err(Error::MissingCommitment) } else { Ok(()) }
}


// ---- distributed key generation (C07, C08, C09) ----
pub open spec fn enc_id<C: Ciphersuite>(i: Identifier<C>) -> Seq<u8> { FF::<C>::spec_ser(i.0.0) }
pub open spec fn enc_el<C: Ciphersuite>(e: Element<C>) -> Seq<u8> { GG::<C>::spec_eser(e) }

// rejection sampling of a non-zero scalar: `spec_rnz_val::<C>(stream, pos)` (the first non-zero draw) and `spec_rnz_end::<C>(stream, pos)`
// (the stream position after it) are DEFINED in lemmas/vspec_nonce.rs (re-exported above); random_nonzero is verified against them
// (contracts/nonce.vc; T11: termination not proved)

// challenge of the proof of knowledge (FROST paper fig. 1, round 1 step 2): c = HDKG(enc(id) || enc(phi_0) || enc(R))
pub open spec fn spec_dkg_challenge<C: Ciphersuite>(id: Identifier<C>, phi0: Element<C>, r: Element<C>) -> Result<Scalar<C>, Error<C>> {
    if phi0 == e0::<C>() || r == e0::<C>() { Err(Error::GroupError(GroupError::InvalidIdentityElement)) }
    else { match C::spec_HDKG(enc_id::<C>(id) + enc_el::<C>(phi0) + enc_el::<C>(r)) { None => Err(Error::DKGNotSupported), Some(c) => Ok(c) } }
}

// verification of a proof of knowledge sigma = (R, mu) for the commitment `c` filed under sender `id`:  R == mu G - c * phi_0
pub open spec fn spec_pok_check<C: Ciphersuite>(id: Identifier<C>, c: Seq<crate::keys::CoefficientCommitment<C>>, sig: Signature<C>) -> Result<(), Error<C>> {
    if c.len() == 0 { Err(Error::MissingCommitment) } else {
        match spec_dkg_challenge::<C>(id, c[0].0.0, sig.R) {
            Err(e) => Err(e),
            Ok(ch) => if sig.R != esub::<C>(gmul::<C>(sig.z), emul::<C>(c[0].0.0, ch)) { Err(Error::InvalidProofOfKnowledge { culprit: id }) } else { Ok(()) },
        }
    }
}


// the proof of knowledge an honest participant computes with nonce k
pub open spec fn spec_compute_pok<C: Ciphersuite>(id: Identifier<C>, coeffs: Seq<Scalar<C>>, c: Seq<crate::keys::CoefficientCommitment<C>>, k: Scalar<C>) -> Result<Signature<C>, Error<C>> {
    if c.len() == 0 { Err(Error::MissingCommitment) } else {
        match spec_dkg_challenge::<C>(id, c[0].0.0, gmul::<C>(k)) {
            Err(e) => Err(e),
            Ok(ch) => if coeffs.len() == 0 { Err(Error::InvalidCoefficients) } else {
                Ok(Signature::<C> { R: gmul::<C>(k), z: sadd::<C>(k, smul::<C>(coeffs[0], ch)) }) },
        }
    }
}


// part1 (FROST KeyGen round 1): layout of the randomness  [key (rejection sampled)] [t-1 coefficients] [PoK nonce]
pub open spec fn spec_part1<C: Ciphersuite>(res: Result<(crate::keys::dkg::round1::SecretPackage<C>, crate::keys::dkg::round1::Package<C>), Error<C>>,
        id: Identifier<C>, max_signers: u16, min_signers: u16, stream: spec_fn(nat) -> u8, pos: nat) -> bool {
    let key = spec_rnz_val::<C>(stream, pos);
    let p1 = spec_rnz_end::<C>(stream, pos);
    let a = seq![key] + spec_draws::<C>(stream, p1, (min_signers - 1) as nat);
    let p2 = spec_draws_end::<C>(stream, p1, (min_signers - 1) as nat);
    let k = C::spec_generate_nonce(stream, p2).0;
    match spec_compute_pok::<C>(id, a, spec_commitment::<C>(a), k) {
        Err(e) => res is Err && res->Err_0 == e,
        Ok(sig) => res is Ok
            && (res->Ok_0).0.identifier == id && (res->Ok_0).0.coefficients@ == a.map_values(|s: Scalar<C>| crate::serialization::SerializableScalar::<C>(s))
            && (res->Ok_0).0.commitment.0@ == spec_commitment::<C>(a) && (res->Ok_0).0.min_signers == min_signers && (res->Ok_0).0.max_signers == max_signers
            && (res->Ok_0).1.header == default_header::<C>() && (res->Ok_0).1.commitment.0@ == spec_commitment::<C>(a) && (res->Ok_0).1.proof_of_knowledge == sig,
    }
}


// ---- part2 (FROST KeyGen round 1 step 5 + round 2 step 1) ----
pub open spec fn sp_coeffs<C: Ciphersuite>(sp: crate::keys::dkg::round1::SecretPackage<C>) -> Seq<Scalar<C>> { sp.coefficients@.map_values(|s: crate::serialization::SerializableScalar<C>| s.0) }

// first failing proof of knowledge among the senders ids[from..], in the given (ascending) order
pub open spec fn spec_first_pok_err<C: Ciphersuite>(ids: Seq<Identifier<C>>, r1: Map<Identifier<C>, crate::keys::dkg::round1::Package<C>>, from: int) -> Option<Error<C>>
    decreases ids.len() - from
{
    if from < 0 || from >= ids.len() { None } else {
        match spec_pok_check::<C>(ids[from], r1[ids[from]].commitment.0@, r1[ids[from]].proof_of_knowledge) {
            Err(e) => Some(e),
            Ok(_) => spec_first_pok_err::<C>(ids, r1, from + 1),
        }
    }
}

// the error part2 returns, guard by guard in source order (None = success)
pub open spec fn spec_part2_err<C: Ciphersuite>(sp: crate::keys::dkg::round1::SecretPackage<C>, r1: Map<Identifier<C>, crate::keys::dkg::round1::Package<C>>) -> Option<Error<C>> {
    if r1.dom().len() != sp.max_signers - 1 { Some(Error::IncorrectNumberOfPackages) }
    else if r1.contains_key(sp.identifier) { Some(Error::UnknownIdentifier) }
    else if exists|id: Identifier<C>| r1.contains_key(id) && ((#[trigger] r1[id]).commitment.0@.len() as u16) != sp.min_signers { Some(Error::IncorrectNumberOfCommitments) }
    else { spec_first_pok_err::<C>(sorted_seq(r1.dom()), r1, 0) }
}

pub open spec fn spec_part2_acc<C: Ciphersuite>(r2: Map<Identifier<C>, crate::keys::dkg::round2::Package<C>>, keys: Seq<Identifier<C>>, coeffs: Seq<Scalar<C>>,
        r1: Map<Identifier<C>, crate::keys::dkg::round1::Package<C>>, j: int) -> bool {
    r2.dom() == keys.take(j).to_set()
    && (forall|k: int| 0 <= k < j ==> r2[#[trigger] keys[k]] == (crate::keys::dkg::round2::Package::<C> { header: default_header::<C>(),
            signing_share: crate::keys::SigningShare(crate::serialization::SerializableScalar(poly::<AL<C>>(coeffs, keys[k].0.0))) }))
    && (forall|k: int| 0 <= k < j ==> spec_pok_check::<C>(#[trigger] keys[k], r1[keys[k]].commitment.0@, r1[keys[k]].proof_of_knowledge) is Ok)
}

pub open spec fn spec_part2_ok<C: Ciphersuite>(s2: crate::keys::dkg::round2::SecretPackage<C>, r2: Map<Identifier<C>, crate::keys::dkg::round2::Package<C>>,
        sp: crate::keys::dkg::round1::SecretPackage<C>, r1: Map<Identifier<C>, crate::keys::dkg::round1::Package<C>>) -> bool {
    s2.identifier == sp.identifier && s2.commitment == sp.commitment && s2.min_signers == sp.min_signers && s2.max_signers == sp.max_signers
    && s2.secret_share.0 == poly::<AL<C>>(sp_coeffs::<C>(sp), sp.identifier.0.0)
    && r2.dom() == r1.dom()
    && forall|id: Identifier<C>| r1.contains_key(id) ==> #[trigger] r2[id] == (crate::keys::dkg::round2::Package::<C> { header: default_header::<C>(),
            signing_share: crate::keys::SigningShare(crate::serialization::SerializableScalar(poly::<AL<C>>(sp_coeffs::<C>(sp), id.0.0))) })
}

pub proof fn lemma_first_pok_err_step<C: Ciphersuite>(ids: Seq<Identifier<C>>, r1: Map<Identifier<C>, crate::keys::dkg::round1::Package<C>>, j: int)
    requires 0 <= j < ids.len(), forall|k: int| 0 <= k < j ==> spec_pok_check::<C>(#[trigger] ids[k], r1[ids[k]].commitment.0@, r1[ids[k]].proof_of_knowledge) is Ok
    ensures spec_first_pok_err::<C>(ids, r1, 0) == spec_first_pok_err::<C>(ids, r1, j)
    decreases j
{ if j > 0 { lemma_first_pok_err_step::<C>(ids, r1, j - 1); } }

pub proof fn lemma_first_pok_err_none<C: Ciphersuite>(ids: Seq<Identifier<C>>, r1: Map<Identifier<C>, crate::keys::dkg::round1::Package<C>>, j: int)
    requires j == ids.len(), forall|k: int| 0 <= k < j ==> spec_pok_check::<C>(#[trigger] ids[k], r1[ids[k]].commitment.0@, r1[ids[k]].proof_of_knowledge) is Ok
    ensures spec_first_pok_err::<C>(ids, r1, 0) is None
{
    assert(spec_first_pok_err::<C>(ids, r1, j) is None);
    if j > 0 {
        lemma_first_pok_err_step::<C>(ids, r1, j - 1);
        assert(spec_first_pok_err::<C>(ids, r1, j - 1) == spec_first_pok_err::<C>(ids, r1, j));
    }
}

pub proof fn lemma_part2_acc_step<C: Ciphersuite>(r2: Map<Identifier<C>, crate::keys::dkg::round2::Package<C>>, keys: Seq<Identifier<C>>, coeffs: Seq<Scalar<C>>,
        r1: Map<Identifier<C>, crate::keys::dkg::round1::Package<C>>, j: int)
    requires 0 <= j < keys.len(), keys.no_duplicates(), spec_part2_acc::<C>(r2, keys, coeffs, r1, j),
        spec_pok_check::<C>(keys[j], r1[keys[j]].commitment.0@, r1[keys[j]].proof_of_knowledge) is Ok
    ensures spec_part2_acc::<C>(r2.insert(keys[j], crate::keys::dkg::round2::Package::<C> { header: default_header::<C>(),
            signing_share: crate::keys::SigningShare(crate::serialization::SerializableScalar(poly::<AL<C>>(coeffs, keys[j].0.0))) }), keys, coeffs, r1, j + 1)
{
    let r22 = r2.insert(keys[j], crate::keys::dkg::round2::Package::<C> { header: default_header::<C>(),
            signing_share: crate::keys::SigningShare(crate::serialization::SerializableScalar(poly::<AL<C>>(coeffs, keys[j].0.0))) });
    assert(keys.take(j + 1) =~= keys.take(j).push(keys[j]));
    assert(r22.dom() =~= keys.take(j + 1).to_set()) by {
        assert forall|x: Identifier<C>| r22.dom().contains(x) <==> keys.take(j + 1).to_set().contains(x) by {
            if r2.dom().contains(x) { let w = choose|w: int| 0 <= w < keys.take(j).len() && keys.take(j)[w] == x; assert(keys.take(j + 1)[w] == x); }
            if x == keys[j] { assert(keys.take(j + 1)[j] == x); }
            if keys.take(j + 1).contains(x) { let w = choose|w: int| 0 <= w < j + 1 && #[trigger] keys.take(j + 1)[w] == x; if w < j { assert(keys.take(j)[w] == x); assert(keys.take(j).contains(x)); } }
        }
    }
    assert forall|k: int| 0 <= k < j + 1 implies r22[#[trigger] keys[k]] == (crate::keys::dkg::round2::Package::<C> { header: default_header::<C>(),
            signing_share: crate::keys::SigningShare(crate::serialization::SerializableScalar(poly::<AL<C>>(coeffs, keys[k].0.0))) }) by { if k < j { assert(keys[k] != keys[j]); } }
}


// ---- part3 / public key package from commitments ----
// column sums of the participants' commitments: sum_j cs[j][i], accumulated from the identity in list order
pub open spec fn spec_col_sum<C: Ciphersuite>(cs: Seq<Seq<crate::keys::CoefficientCommitment<C>>>, i: int, upto: int) -> Element<C> decreases upto
{ if upto <= 0 { e0::<C>() } else { eadd::<C>(spec_col_sum::<C>(cs, i, upto - 1), cs[upto - 1][i].0.0) } }

// sum_commitments: length of the first commitment decides; a shorter later commitment is an error, a longer one is truncated
pub open spec fn spec_sum_commitments<C: Ciphersuite>(cs: Seq<Seq<crate::keys::CoefficientCommitment<C>>>) -> Result<Seq<crate::keys::CoefficientCommitment<C>>, Error<C>> {
    if cs.len() == 0 { Err(Error::IncorrectNumberOfCommitments) }
    else if exists|j: int| 0 <= j < cs.len() && (#[trigger] cs[j]).len() < cs[0].len() { Err(Error::IncorrectNumberOfCommitments) }
    else { Ok(Seq::new(cs[0].len(), |i: int| crate::keys::CoefficientCommitment::<C>(crate::serialization::SerializableElement(spec_col_sum::<C>(cs, i, cs.len() as int))))) }
}

// PublicKeyPackage::from_commitment (FROST KeyGen round 2 step 4: Y_i = prod_k phi_k^(i^k) over the summed commitment)
pub open spec fn spec_is_pk_from_commitment<C: Ciphersuite>(pk: crate::keys::PublicKeyPackage<C>, ids: Set<Identifier<C>>, c: Seq<crate::keys::CoefficientCommitment<C>>) -> bool {
    pk.header == default_header::<C>()
    && pk.verifying_shares@.dom() == ids
    && (forall|id: Identifier<C>| ids.contains(id) ==> #[trigger] pk.verifying_shares@[id] == crate::keys::VerifyingShare::<C>(crate::serialization::SerializableElement(spec_vss::<C>(comm_vals::<C>(c), id.0.0, s1::<C>()))))
    && pk.verifying_key == (VerifyingKey::<C> { element: crate::serialization::SerializableElement(c[0].0.0) })
    && pk.min_signers == Some(c.len() as u16)
}

pub proof fn lemma_collected_map<C: Ciphersuite>(m: Map<Identifier<C>, crate::keys::VerifyingShare<C>>, ids: Seq<Identifier<C>>,
        vals: Seq<(Identifier<C>, crate::keys::VerifyingShare<C>)>, c: Seq<crate::keys::CoefficientCommitment<C>>)
    requires ids.no_duplicates(), vals.len() == ids.len(),
        forall|k: int| 0 <= k < vals.len() ==> #[trigger] vals[k] == (ids[k], crate::keys::VerifyingShare::<C>(crate::serialization::SerializableElement(spec_vss::<C>(comm_vals::<C>(c), ids[k].0.0, s1::<C>())))),
        forall|key: Identifier<C>| #[trigger] m.contains_key(key) <==> exists|k: int| 0 <= k < vals.len() && (#[trigger] vals[k]).0 == key,
        forall|k: int| 0 <= k < vals.len() && (forall|j: int| k < j < vals.len() ==> vals[j].0 != vals[k].0) ==> m[#[trigger] vals[k].0] == vals[k].1,
    ensures m.dom() == ids.to_set(),
        forall|id: Identifier<C>| ids.to_set().contains(id) ==> #[trigger] m[id] == crate::keys::VerifyingShare::<C>(crate::serialization::SerializableElement(spec_vss::<C>(comm_vals::<C>(c), id.0.0, s1::<C>()))),
{
    assert(m.dom() =~= ids.to_set()) by {
        assert forall|x: Identifier<C>| m.dom().contains(x) <==> ids.to_set().contains(x) by {
            if m.contains_key(x) { let k = choose|k: int| 0 <= k < vals.len() && (#[trigger] vals[k]).0 == x; assert(ids[k] == x); }
            if ids.contains(x) { let k = choose|k: int| 0 <= k < ids.len() && ids[k] == x; assert(vals[k].0 == x); }
        }
    }
    assert forall|id: Identifier<C>| ids.to_set().contains(id) implies #[trigger] m[id] == crate::keys::VerifyingShare::<C>(crate::serialization::SerializableElement(spec_vss::<C>(comm_vals::<C>(c), id.0.0, s1::<C>()))) by {
        let k = choose|k: int| 0 <= k < ids.len() && ids[k] == id;
        assert(vals[k].0 == id);
        assert forall|j: int| k < j < vals.len() implies vals[j].0 != vals[k].0 by { assert(vals[j].0 == ids[j]); }
        assert(m[vals[k].0] == vals[k].1);
    }
}


// the participants' commitments in ascending identifier order, and their sum (the group commitment)
pub open spec fn spec_dkg_commitment_list<C: Ciphersuite>(m: Map<Identifier<C>, Seq<crate::keys::CoefficientCommitment<C>>>) -> Seq<Seq<crate::keys::CoefficientCommitment<C>>>
{ sorted_seq(m.dom()).map_values(|id: Identifier<C>| m[id]) }
pub open spec fn cmap_view<C: Ciphersuite>(m: Map<Identifier<C>, &crate::keys::VerifiableSecretSharingCommitment<C>>) -> Map<Identifier<C>, Seq<crate::keys::CoefficientCommitment<C>>>
{ Map::new(m.dom(), |id: Identifier<C>| m[id].0@) }
pub open spec fn spec_dkg_group_commitment<C: Ciphersuite>(m: Map<Identifier<C>, Seq<crate::keys::CoefficientCommitment<C>>>) -> Result<Seq<crate::keys::CoefficientCommitment<C>>, Error<C>> {
    match spec_sum_commitments::<C>(spec_dkg_commitment_list::<C>(m)) {
        Err(e) => Err(e),
        Ok(v) => if v.len() == 0 { Err(Error::IncorrectCommitment) } else { Ok(v) },
    }
}


// ---- part3 (FROST KeyGen round 2 steps 2-4) ----
pub open spec fn spec_part3_guard_err<C: Ciphersuite>(s2: crate::keys::dkg::round2::SecretPackage<C>, r1: Map<Identifier<C>, crate::keys::dkg::round1::Package<C>>,
        r2: Map<Identifier<C>, crate::keys::dkg::round2::Package<C>>) -> Option<Error<C>> {
    if r1.dom().len() != s2.max_signers - 1 { Some(Error::IncorrectNumberOfPackages) }
    else if r1.contains_key(s2.identifier) { Some(Error::UnknownIdentifier) }
    else if r2.contains_key(s2.identifier) { Some(Error::UnknownIdentifier) }
    else if r1.dom().len() != r2.dom().len() { Some(Error::IncorrectNumberOfPackages) }
    else if exists|id: Identifier<C>| #[trigger] r1.contains_key(id) && !r2.contains_key(id) { Some(Error::IncorrectPackage) }
    else { None }
}

// verification of the share f received from `sender` against the commitment filed for that sender (culprit attributed)
pub open spec fn spec_share_err<C: Ciphersuite>(own: Identifier<C>, f: Scalar<C>, c: Seq<crate::keys::CoefficientCommitment<C>>, sender: Identifier<C>) -> Option<Error<C>> {
    match spec_share_ok_c::<C>(f, own, c) {
        Ok(_) => None,
        Err(e) => if e is InvalidSecretShare { Some(Error::InvalidSecretShare { culprit: Some(sender) }) } else { Some(e) },
    }
}

pub open spec fn spec_first_share_err<C: Ciphersuite>(keys: Seq<Identifier<C>>, r1: Map<Identifier<C>, crate::keys::dkg::round1::Package<C>>,
        r2: Map<Identifier<C>, crate::keys::dkg::round2::Package<C>>, own: Identifier<C>, from: int) -> Option<Error<C>>
    decreases keys.len() - from
{
    if from < 0 || from >= keys.len() { None } else {
        match spec_share_err::<C>(own, r2[keys[from]].signing_share.0.0, r1[keys[from]].commitment.0@, keys[from]) {
            Some(e) => Some(e),
            None => spec_first_share_err::<C>(keys, r1, r2, own, from + 1),
        }
    }
}

pub open spec fn spec_r2_sum<C: Ciphersuite>(keys: Seq<Identifier<C>>, r2: Map<Identifier<C>, crate::keys::dkg::round2::Package<C>>, n: int) -> Scalar<C> decreases n
{ if n <= 0 { s0::<C>() } else { sadd::<C>(spec_r2_sum::<C>(keys, r2, n - 1), r2[keys[n - 1]].signing_share.0.0) } }

pub open spec fn spec_part3_commitments<C: Ciphersuite>(s2: crate::keys::dkg::round2::SecretPackage<C>, r1: Map<Identifier<C>, crate::keys::dkg::round1::Package<C>>)
        -> Map<Identifier<C>, Seq<crate::keys::CoefficientCommitment<C>>>
{ Map::new(r1.dom().insert(s2.identifier), |id: Identifier<C>| if id == s2.identifier { s2.commitment.0@ } else { r1[id].commitment.0@ }) }

// what part3 hands to the post_dkg hook
pub open spec fn spec_part3_pre<C: Ciphersuite>(kp: crate::keys::KeyPackage<C>, pk: crate::keys::PublicKeyPackage<C>, s2: crate::keys::dkg::round2::SecretPackage<C>,
        r1: Map<Identifier<C>, crate::keys::dkg::round1::Package<C>>, r2: Map<Identifier<C>, crate::keys::dkg::round2::Package<C>>) -> bool {
    let keys = sorted_seq(r2.dom());
    let s = sadd::<C>(spec_r2_sum::<C>(keys, r2, keys.len() as int), s2.secret_share.0);
    let m = spec_part3_commitments::<C>(s2, r1);
    spec_dkg_group_commitment::<C>(m) is Ok
    && spec_is_pk_from_commitment::<C>(pk, m.dom(), spec_dkg_group_commitment::<C>(m)->Ok_0)
    && kp == (crate::keys::KeyPackage::<C> { header: default_header::<C>(), identifier: s2.identifier,
            signing_share: crate::keys::SigningShare(crate::serialization::SerializableScalar(s)),
            verifying_share: crate::keys::VerifyingShare(crate::serialization::SerializableElement(gmul::<C>(s))),
            verifying_key: pk.verifying_key, min_signers: s2.min_signers })
}

pub proof fn lemma_part3_same_keys<C: Ciphersuite>(r1: Map<Identifier<C>, crate::keys::dkg::round1::Package<C>>, r2: Map<Identifier<C>, crate::keys::dkg::round2::Package<C>>)
    requires r1.dom().finite(), r2.dom().finite(), r1.dom().len() == r2.dom().len(), forall|id: Identifier<C>| #[trigger] r1.contains_key(id) ==> r2.contains_key(id)
    ensures r1.dom() == r2.dom()
{
    assert(r1.dom().subset_of(r2.dom()));
    vstd::set_lib::lemma_subset_equality(r1.dom(), r2.dom());
}

pub proof fn lemma_first_share_err_step<C: Ciphersuite>(keys: Seq<Identifier<C>>, r1: Map<Identifier<C>, crate::keys::dkg::round1::Package<C>>,
        r2: Map<Identifier<C>, crate::keys::dkg::round2::Package<C>>, own: Identifier<C>, j: int)
    requires 0 <= j < keys.len(), forall|k: int| 0 <= k < j ==> spec_share_err::<C>(own, r2[#[trigger] keys[k]].signing_share.0.0, r1[keys[k]].commitment.0@, keys[k]) is None
    ensures spec_first_share_err::<C>(keys, r1, r2, own, 0) == spec_first_share_err::<C>(keys, r1, r2, own, j)
    decreases j
{ if j > 0 { lemma_first_share_err_step::<C>(keys, r1, r2, own, j - 1); } }

pub proof fn lemma_first_share_err_none<C: Ciphersuite>(keys: Seq<Identifier<C>>, r1: Map<Identifier<C>, crate::keys::dkg::round1::Package<C>>,
        r2: Map<Identifier<C>, crate::keys::dkg::round2::Package<C>>, own: Identifier<C>, j: int)
    requires j == keys.len(), forall|k: int| 0 <= k < j ==> spec_share_err::<C>(own, r2[#[trigger] keys[k]].signing_share.0.0, r1[keys[k]].commitment.0@, keys[k]) is None
    ensures spec_first_share_err::<C>(keys, r1, r2, own, 0) is None
{
    assert(spec_first_share_err::<C>(keys, r1, r2, own, j) is None);
    if j > 0 {
        lemma_first_share_err_step::<C>(keys, r1, r2, own, j - 1);
        assert(spec_first_share_err::<C>(keys, r1, r2, own, j - 1) == spec_first_share_err::<C>(keys, r1, r2, own, j));
    }
}


// ================= signing (RFC 9591 sections 4.3 - 4.6, 5.2, 5.3) =================
pub open spec fn sc_has_identity<C: Ciphersuite>(c: crate::round1::SigningCommitments<C>) -> bool { c.hiding.0.0 == e0::<C>() || c.binding.0.0 == e0::<C>() }

// the commitment list of a signing package: (identifier, commitments) in ascending identifier order
pub open spec fn commit_items<C: Ciphersuite>(m: Map<Identifier<C>, crate::round1::SigningCommitments<C>>) -> Seq<(Identifier<C>, crate::round1::SigningCommitments<C>)>
{ sorted_seq(m.dom()).map_values(|id: Identifier<C>| (id, m[id])) }

pub open spec fn items_have_identity<C: Ciphersuite>(items: Seq<(Identifier<C>, crate::round1::SigningCommitments<C>)>) -> bool
{ exists|k: int| 0 <= k < items.len() && sc_has_identity::<C>((#[trigger] items[k]).1) }

// RFC 9591 4.3 encode_group_commitment_list: concatenation of enc(id) || enc(hiding) || enc(binding) over the first n items
pub open spec fn spec_encode_list<C: Ciphersuite>(items: Seq<(Identifier<C>, crate::round1::SigningCommitments<C>)>, n: int) -> Seq<u8> decreases n
{ if n <= 0 { Seq::empty() } else { spec_encode_list::<C>(items, n - 1) + enc_id::<C>(items[n - 1].0) + enc_el::<C>(items[n - 1].1.hiding.0.0) + enc_el::<C>(items[n - 1].1.binding.0.0) } }

// RFC 9591 4.4 compute_binding_factors: rho_input_prefix = enc(group_public_key) || H4(msg) || H5(encoded_commitment_list) (|| additional prefix)
pub open spec fn spec_bf_prefix<C: Ciphersuite>(vk: Element<C>, msg: Seq<u8>, items: Seq<(Identifier<C>, crate::round1::SigningCommitments<C>)>, extra: Seq<u8>) -> Seq<u8>
{ enc_el::<C>(vk) + C::spec_H4(msg) + C::spec_H5(spec_encode_list::<C>(items, items.len() as int)) + extra }
pub open spec fn spec_binding_factor<C: Ciphersuite>(vk: Element<C>, msg: Seq<u8>, items: Seq<(Identifier<C>, crate::round1::SigningCommitments<C>)>, extra: Seq<u8>, id: Identifier<C>) -> Scalar<C>
{ C::spec_H1(spec_bf_prefix::<C>(vk, msg, items, extra) + enc_id::<C>(id)) }


// the (identifier, binding factor) pairs collected into a map: one entry per identifier (the identifiers are duplicate free)
pub proof fn lemma_bf_collected<C: Ciphersuite>(m: Map<Identifier<C>, BindingFactor<C>>, pre: Seq<(Identifier<C>, Vec<u8>)>, srt: Seq<Identifier<C>>, vals: Seq<(Identifier<C>, BindingFactor<C>)>)
    requires srt.no_duplicates(), pre.len() == srt.len(), forall|k: int| 0 <= k < pre.len() ==> (#[trigger] pre[k]).0 == srt[k],
        vals.len() == pre.len(), forall|k: int| 0 <= k < vals.len() ==> #[trigger] vals[k] == (pre[k].0, BindingFactor::<C>(C::spec_H1(pre[k].1@))),
        forall|key: Identifier<C>| #[trigger] m.contains_key(key) <==> exists|k: int| 0 <= k < vals.len() && (#[trigger] vals[k]).0 == key,
        forall|k: int| 0 <= k < vals.len() && (forall|j: int| k < j < vals.len() ==> vals[j].0 != vals[k].0) ==> m[#[trigger] vals[k].0] == vals[k].1,
    ensures m.dom() == srt.to_set(), forall|k: int| 0 <= k < srt.len() ==> (#[trigger] m[srt[k]]).0 == C::spec_H1(pre[k].1@)
{
    assert(m.dom() =~= srt.to_set()) by {
        assert forall|x: Identifier<C>| m.dom().contains(x) <==> srt.to_set().contains(x) by {
            if m.contains_key(x) { let k = choose|k: int| 0 <= k < vals.len() && (#[trigger] vals[k]).0 == x; assert(srt[k] == x); }
            if srt.contains(x) { let k = choose|k: int| 0 <= k < srt.len() && srt[k] == x; assert(vals[k].0 == x); }
        }
    }
    assert forall|k: int| 0 <= k < srt.len() implies (#[trigger] m[srt[k]]).0 == C::spec_H1(pre[k].1@) by {
        assert(vals[k].0 == srt[k]);
        assert forall|j: int| k < j < vals.len() implies vals[j].0 != vals[k].0 by { assert(vals[j].0 == srt[j]); }
        assert(m[vals[k].0] == vals[k].1);
    }
}


// RFC 9591 4.5 compute_group_commitment over the first n items: sum of hiding commitments, sum of binding commitments * rho
pub open spec fn gc_hiding<C: Ciphersuite>(items: Seq<(Identifier<C>, crate::round1::SigningCommitments<C>)>, n: int) -> Element<C> decreases n
{ if n <= 0 { e0::<C>() } else { eadd::<C>(gc_hiding::<C>(items, n - 1), items[n - 1].1.hiding.0.0) } }
pub open spec fn gc_binding<C: Ciphersuite>(items: Seq<(Identifier<C>, crate::round1::SigningCommitments<C>)>, bf: Map<Identifier<C>, BindingFactor<C>>, n: int) -> Element<C> decreases n
{ if n <= 0 { e0::<C>() } else { eadd::<C>(gc_binding::<C>(items, bf, n - 1), emul::<C>(items[n - 1].1.binding.0.0, bf[items[n - 1].0].0)) } }
pub open spec fn spec_group_commitment<C: Ciphersuite>(items: Seq<(Identifier<C>, crate::round1::SigningCommitments<C>)>, bf: Map<Identifier<C>, BindingFactor<C>>) -> Element<C>
{ eadd::<C>(gc_hiding::<C>(items, items.len() as int), gc_binding::<C>(items, bf, items.len() as int)) }


// RFC 9591 5.2 sign:  z_i = d_i + e_i * rho_i + lambda_i * s_i * c
pub open spec fn spec_sig_share<C: Ciphersuite>(d: Scalar<C>, e: Scalar<C>, rho: Scalar<C>, lambda: Scalar<C>, s: Scalar<C>, c: Scalar<C>) -> Scalar<C>
{ sadd::<C>(sadd::<C>(d, smul::<C>(e, rho)), smul::<C>(smul::<C>(lambda, s), c)) }

// RFC 9591 5.3 verify_signature_share (last step):  z_i G == R_i + (Y_i * c) * lambda_i
pub open spec fn spec_sigshare_ok<C: Ciphersuite>(z: Scalar<C>, r_share: Element<C>, y: Element<C>, lambda: Scalar<C>, c: Scalar<C>) -> bool
{ gmul::<C>(z) == eadd::<C>(r_share, emul::<C>(emul::<C>(y, c), lambda)) }

// RFC 9591 4.6 compute_challenge:  c = H2(enc(R) || enc(PK) || msg)
pub open spec fn spec_challenge<C: Ciphersuite>(r: Element<C>, vk: Element<C>, msg: Seq<u8>) -> Result<Scalar<C>, Error<C>>
{ if r == e0::<C>() || vk == e0::<C>() { Err(Error::GroupError(GroupError::InvalidIdentityElement)) } else { Ok(C::spec_H2(enc_el::<C>(r) + enc_el::<C>(vk) + msg)) } }




// ---- the signing session described by a signing package and a group key (RFC 9591 5.2 / 5.3) ----
pub open spec fn sp_items<C: Ciphersuite>(sp: SigningPackage<C>) -> Seq<(Identifier<C>, crate::round1::SigningCommitments<C>)> { commit_items::<C>(sp.signing_commitments@) }
pub open spec fn sp_rho<C: Ciphersuite>(sp: SigningPackage<C>, vk: Element<C>, id: Identifier<C>) -> Scalar<C>
{ spec_binding_factor::<C>(vk, sp.message@, sp_items::<C>(sp), Seq::<u8>::empty(), id) }
pub open spec fn sp_rho_map<C: Ciphersuite>(sp: SigningPackage<C>, vk: Element<C>) -> Map<Identifier<C>, BindingFactor<C>>
{ Map::new(sp.signing_commitments@.dom(), |id: Identifier<C>| BindingFactor::<C>(sp_rho::<C>(sp, vk, id))) }
pub open spec fn sp_R<C: Ciphersuite>(sp: SigningPackage<C>, vk: Element<C>) -> Element<C> { spec_group_commitment::<C>(sp_items::<C>(sp), sp_rho_map::<C>(sp, vk)) }
pub open spec fn sp_lambda<C: Ciphersuite>(sp: SigningPackage<C>, id: Identifier<C>) -> Scalar<C> { spec_lagrange::<C>(sorted_seq(sp.signing_commitments@.dom()), None, id) }
// error of the session itself (identity key or commitment, identity group commitment), if any
pub open spec fn sp_session_err<C: Ciphersuite>(sp: SigningPackage<C>, vk: Element<C>) -> Option<Error<C>> {
    if vk == e0::<C>() || items_have_identity::<C>(sp_items::<C>(sp)) { Some(Error::GroupError(GroupError::InvalidIdentityElement)) }
    else if sp_R::<C>(sp, vk) == e0::<C>() { Some(Error::GroupError(GroupError::InvalidIdentityElement)) }
    else { None }
}
pub open spec fn sp_c<C: Ciphersuite>(sp: SigningPackage<C>, vk: Element<C>) -> Scalar<C> { C::spec_H2(enc_el::<C>(sp_R::<C>(sp, vk)) + enc_el::<C>(vk) + sp.message@) }

// RFC 9591 5.2 sign, with the refusals of the implementation in guard order (default world)
pub open spec fn spec_sign<C: Ciphersuite>(sp: SigningPackage<C>, sn: crate::round1::SigningNonces<C>, kp: crate::keys::KeyPackage<C>) -> Result<crate::round2::SignatureShare<C>, Error<C>> {
    let vk = kp.verifying_key.element.0;
    if sp.signing_commitments@.dom().len() < kp.min_signers { Err(Error::IncorrectNumberOfCommitments) }
    else if !sp.signing_commitments@.contains_key(kp.identifier) { Err(Error::MissingCommitment) }
    else if sn.commitments != sp.signing_commitments@[kp.identifier] { Err(Error::IncorrectCommitment) }
    else if sp_session_err::<C>(sp, vk) is Some { Err(sp_session_err::<C>(sp, vk)->Some_0) }
    else { Ok(crate::round2::SignatureShare::<C> { header: default_header::<C>(), share: crate::serialization::SerializableScalar(
        spec_sig_share::<C>(sn.hiding.0.0, sn.binding.0.0, sp_rho::<C>(sp, vk, kp.identifier), sp_lambda::<C>(sp, kp.identifier), kp.signing_share.0.0, sp_c::<C>(sp, vk))) }) }
}

pub proof fn lemma_rho_map<C: Ciphersuite>(sp: SigningPackage<C>, vk: Element<C>, extra: Seq<u8>, bf: Map<Identifier<C>, BindingFactor<C>>)
    requires extra.len() == 0, bf.dom() == sp.signing_commitments@.dom(),
        forall|id: Identifier<C>| sp.signing_commitments@.contains_key(id) ==> (#[trigger] bf[id]).0 == spec_binding_factor::<C>(vk, sp.message@, sp_items::<C>(sp), extra, id)
    ensures bf == sp_rho_map::<C>(sp, vk)
{
    assert(extra =~= Seq::<u8>::empty());
    assert(bf =~= sp_rho_map::<C>(sp, vk)) by {
        assert forall|id: Identifier<C>| bf.dom().contains(id) implies #[trigger] bf[id] == sp_rho_map::<C>(sp, vk)[id] by { assert(bf[id].0 == sp_rho::<C>(sp, vk, id)); }
    }
}


// ---- share verification and cheater detection (RFC 9591 5.3) ----
// the check of signer `id`'s share z in the session (sp, vk) against its verifying share y (default world)
pub open spec fn sp_share_ok<C: Ciphersuite>(sp: SigningPackage<C>, bf: Map<Identifier<C>, BindingFactor<C>>, id: Identifier<C>, z: Scalar<C>, y: Element<C>, c: Scalar<C>) -> bool {
    spec_sigshare_ok::<C>(z, eadd::<C>(sp.signing_commitments@[id].hiding.0.0, emul::<C>(sp.signing_commitments@[id].binding.0.0, bf[id].0)), y, sp_lambda::<C>(sp, id), c)
}

// identifiers (in the given ascending order, first n) whose share fails the check
pub open spec fn spec_culprits<C: Ciphersuite>(keys: Seq<Identifier<C>>, sp: SigningPackage<C>, bf: Map<Identifier<C>, BindingFactor<C>>,
        shares: Map<Identifier<C>, crate::round2::SignatureShare<C>>, ys: Map<Identifier<C>, crate::keys::VerifyingShare<C>>, c: Scalar<C>, n: int) -> Seq<Identifier<C>> decreases n
{
    if n <= 0 { Seq::empty() } else {
        let r = spec_culprits::<C>(keys, sp, bf, shares, ys, c, n - 1);
        if sp_share_ok::<C>(sp, bf, keys[n - 1], shares[keys[n - 1]].share.0, ys[keys[n - 1]].0.0, c) { r } else { r.push(keys[n - 1]) }
    }
}

pub proof fn lemma_culprits_empty_prefix<C: Ciphersuite>(keys: Seq<Identifier<C>>, sp: SigningPackage<C>, bf: Map<Identifier<C>, BindingFactor<C>>,
        shares: Map<Identifier<C>, crate::round2::SignatureShare<C>>, ys: Map<Identifier<C>, crate::keys::VerifyingShare<C>>, c: Scalar<C>, n: int)
    requires 0 <= n <= keys.len(), forall|k: int| 0 <= k < n ==> sp_share_ok::<C>(sp, bf, #[trigger] keys[k], shares[keys[k]].share.0, ys[keys[k]].0.0, c)
    ensures spec_culprits::<C>(keys, sp, bf, shares, ys, c, n).len() == 0
    decreases n
{ if n > 0 { lemma_culprits_empty_prefix::<C>(keys, sp, bf, shares, ys, c, n - 1); } }


pub proof fn lemma_culprits_prefix<C: Ciphersuite>(keys: Seq<Identifier<C>>, sp: SigningPackage<C>, bf: Map<Identifier<C>, BindingFactor<C>>,
        shares: Map<Identifier<C>, crate::round2::SignatureShare<C>>, ys: Map<Identifier<C>, crate::keys::VerifyingShare<C>>, c: Scalar<C>, m: int, n: int)
    requires 0 <= m <= n
    ensures spec_culprits::<C>(keys, sp, bf, shares, ys, c, m).is_prefix_of(spec_culprits::<C>(keys, sp, bf, shares, ys, c, n))
    decreases n - m
{
    if m < n {
        lemma_culprits_prefix::<C>(keys, sp, bf, shares, ys, c, m, n - 1);
        let a = spec_culprits::<C>(keys, sp, bf, shares, ys, c, m); let b = spec_culprits::<C>(keys, sp, bf, shares, ys, c, n - 1); let d = spec_culprits::<C>(keys, sp, bf, shares, ys, c, n);
        assert(b.is_prefix_of(d)) by { assert(d =~= b || d =~= b.push(keys[n - 1])); }
        assert(a.is_prefix_of(d)) by { assert(a.len() <= b.len() <= d.len()); assert forall|i: int| 0 <= i < a.len() implies a[i] == d[i] by { assert(a[i] == b[i]); assert(b[i] == d[i]); } }
    }
}

} // verus!
}
