// lemmas/vworld.rs -- the "default world": what the abstract hook spec functions of `trait Ciphersuite` are for a suite that
// does not override the optional hooks (frost-ed25519, frost-ed448, frost-p256, frost-ristretto255, frost-secp256k1: read from
// their `impl Ciphersuite` blocks by the extractor, which fails closed on an unexpected override).  The default bodies themselves
// are verified against the same `spec_default_*` functions (traits_defaults module), so this axiom only says "this suite uses the
// default body".  The Taproot suite lives in its own unit with its own world.
pub mod vworld {
#[allow(unused_imports)] use vstd::prelude::*;
#[allow(unused_imports)] use std::collections::BTreeMap;
#[allow(unused_imports)] use crate::traits::*;
#[allow(unused_imports)] use crate::vspec::*;
#[allow(unused_imports)] use crate::keys::*;
#[allow(unused_imports)] use crate::*;
verus! {
//@module_serves ALL

pub open spec fn spec_default_generate_nonce<C: Ciphersuite>(stream: spec_fn(nat) -> u8, pos: nat) -> (Scalar<C>, Element<C>, nat)
{ (spec_rnz_val::<C>(stream, pos), gmul::<C>(spec_rnz_val::<C>(stream, pos)), spec_rnz_end::<C>(stream, pos)) }

// the default verify_signature: pre_verify hook, challenge hook, then the cofactored Schnorr equation (RFC 9591)
pub open spec fn spec_default_verify_signature<C: Ciphersuite>(msg: Seq<u8>, sig: Signature<C>, vk: VerifyingKey<C>) -> Result<(), Error<C>> {
    match C::spec_pre_verify(msg, sig, vk) {
        Err(e) => Err(e),
        Ok(t) => match C::spec_hook_challenge(t.1.R, t.2, t.0) {
            Err(e) => Err(e),
            Ok(c) => spec_verify_prehashed::<C>(t.2, Challenge(c), t.1),
        },
    }
}
// verification hooks (C19, C01): `pre_verify` hands the three inputs back unchanged, `challenge` is the RFC 9591 challenge,
// `verify_signature` is RFC 9591 verification (spec functions in lemmas/vspec_batch.rs)
pub open spec fn spec_default_pre_verify<C: Ciphersuite>(msg: Seq<u8>, signature: Signature<C>, public_key: VerifyingKey<C>) -> Result<(Seq<u8>, Signature<C>, VerifyingKey<C>), Error<C>>
{ Ok((msg, signature, public_key)) }
pub open spec fn spec_default_challenge<C: Ciphersuite>(R: Element<C>, verifying_key: VerifyingKey<C>, message: Seq<u8>) -> Result<Challenge<C>, Error<C>>
{ spec_rfc_challenge::<C>(R, verifying_key, message) }
pub open spec fn spec_default_verify_signature_rfc<C: Ciphersuite>(message: Seq<u8>, signature: Signature<C>, public_key: VerifyingKey<C>) -> Result<(), Error<C>>
{ spec_verify::<C>(public_key, message, signature) }

// the default single_sign (SigningKey::default_sign): plain Schnorr with the nonce from the generate_nonce hook and the challenge hook
pub open spec fn spec_default_single_sign<C: Ciphersuite>(sk: crate::SigningKey<C>, stream: spec_fn(nat) -> u8, pos: nat, msg: Seq<u8>) -> Signature<C> {
    let n = C::spec_generate_nonce(stream, pos);
    let vk = VerifyingKey::<C> { element: crate::serialization::SerializableElement(gmul::<C>(sk.scalar)) };
    Signature::<C> { R: n.1, z: sadd::<C>(n.0, smul::<C>(C::spec_hook_challenge(n.1, vk, msg)->Ok_0, sk.scalar)) }
}

pub open spec fn default_world<C: Ciphersuite>() -> bool {
    &&& forall|k: crate::SigningKey<C>, st: spec_fn(nat) -> u8, p: nat, m: Seq<u8>| #[trigger] C::spec_single_sign(k, st, p, m) == spec_default_single_sign::<C>(k, st, p, m)
    &&& forall|a: SigningPackage<C>, b: crate::round1::SigningNonces<C>, c: KeyPackage<C>| #[trigger] C::spec_pre_sign(a, b, c) == Ok::<(SigningPackage<C>, crate::round1::SigningNonces<C>, KeyPackage<C>), Error<C>>((a, b, c))
    &&& forall|a: SigningPackage<C>, b: BTreeMap<Identifier<C>, crate::round2::SignatureShare<C>>, c: PublicKeyPackage<C>| #[trigger] C::spec_pre_aggregate(a, b, c)
            == Ok::<(SigningPackage<C>, BTreeMap<Identifier<C>, crate::round2::SignatureShare<C>>, PublicKeyPackage<C>), Error<C>>((a, b, c))
    &&& forall|a: Seq<u8>, b: Signature<C>, c: VerifyingKey<C>| #[trigger] C::spec_pre_verify(a, b, c) == Ok::<(Seq<u8>, Signature<C>, VerifyingKey<C>), Error<C>>((a, b, c))
    &&& forall|a: SigningPackage<C>, b: crate::round1::SigningNonces<C>, c: BindingFactorList<C>| #[trigger] C::spec_pre_commitment_sign(a, b, c) == Ok::<(SigningPackage<C>, crate::round1::SigningNonces<C>), Error<C>>((a, b))
    &&& forall|a: SigningPackage<C>, c: BindingFactorList<C>| #[trigger] C::spec_pre_commitment_aggregate(a, c) == Ok::<SigningPackage<C>, Error<C>>(a)
    &&& forall|r: Element<C>, vk: VerifyingKey<C>, m: Seq<u8>| #[trigger] C::spec_hook_challenge(r, vk, m) == spec_challenge::<C>(r, vk.element.0, m)
    &&& forall|g: GroupCommitment<C>, n: crate::round1::SigningNonces<C>, b: BindingFactor<C>, l: Scalar<C>, k: KeyPackage<C>, c: Challenge<C>| #![trigger C::spec_hook_sig_share(g, n, b, l, k, c)]
            C::spec_hook_sig_share(g, n, b, l, k, c).header == default_header::<C>()
            && C::spec_hook_sig_share(g, n, b, l, k, c).share.0 == spec_sig_share::<C>(n.hiding.0.0, n.binding.0.0, b.0, l, k.signing_share.0.0, c.0)
    &&& forall|g: GroupCommitment<C>, z: crate::round2::SignatureShare<C>, i: Identifier<C>, rs: crate::round1::GroupCommitmentShare<C>, y: VerifyingShare<C>, l: Scalar<C>, c: Challenge<C>|
            #[trigger] C::spec_hook_verify_share(g, z, i, rs, y, l, c) == spec_sigshare_ok::<C>(z.share.0, rs.0, y.0.0, l, c.0)
    &&& forall|m: Seq<u8>, s: Signature<C>, vk: VerifyingKey<C>| #[trigger] C::spec_hook_verify_signature(m, s, vk) == spec_default_verify_signature::<C>(m, s, vk)
    &&& forall|stream: spec_fn(nat) -> u8, pos: nat| #[trigger] C::spec_generate_nonce(stream, pos) == spec_default_generate_nonce::<C>(stream, pos)
    &&& forall|s: BTreeMap<Identifier<C>, SecretShare<C>>, p: PublicKeyPackage<C>| #[trigger] C::spec_post_generate(s, p) == Ok::<(BTreeMap<Identifier<C>, SecretShare<C>>, PublicKeyPackage<C>), Error<C>>((s, p))
    &&& forall|k: KeyPackage<C>, p: PublicKeyPackage<C>| #[trigger] C::spec_post_dkg(k, p) == Ok::<(KeyPackage<C>, PublicKeyPackage<C>), Error<C>>((k, p))
    &&& forall|m: Seq<u8>, s: Signature<C>, k: VerifyingKey<C>| #[trigger] C::spec_pre_verify(m, s, k) == spec_default_pre_verify::<C>(m, s, k)
    &&& forall|r: Element<C>, k: VerifyingKey<C>, m: Seq<u8>| #[trigger] C::spec_challenge(r, k, m) == spec_default_challenge::<C>(r, k, m)
    &&& forall|m: Seq<u8>, s: Signature<C>, k: VerifyingKey<C>| #[trigger] C::spec_verify_signature(m, s, k) == spec_default_verify_signature_rfc::<C>(m, s, k)
}

// ASSUMPTION (per unit): the ciphersuite does not override the optional hooks
pub axiom fn ax_default_world<C: Ciphersuite>()
    ensures default_world::<C>();

} // verus!
}
