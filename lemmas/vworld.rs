// lemmas/vworld.rs -- the "default world": what the abstract hook spec functions of `trait Ciphersuite` are for a suite that
// does not override the optional hooks (frost-ed25519, frost-ed448, frost-p256, frost-ristretto255, frost-secp256k1: read from
// their `impl Ciphersuite` blocks by the extractor, which fails closed on an unexpected override).  The default bodies themselves
// are verified against the same `spec_default_*` functions (traits_defaults module), so this axiom only says "this suite uses the
// default body".  The Taproot suite lives in its own unit with its own world.
pub mod vworld {
#[allow(unused_imports)] use vstd::prelude::*;
#[allow(unused_imports)] use std::collections::BTreeMap;
#[allow(unused_imports)] use crate::traits::*;
#[allow(unused_imports)] use crate::vspec::*;
#[allow(unused_imports)] use crate::keys::*;
#[allow(unused_imports)] use crate::*;
verus! {
//@module_serves ALL

pub open spec fn spec_default_generate_nonce<C: Ciphersuite>(stream: spec_fn(nat) -> u8, pos: nat) -> (Scalar<C>, Element<C>, nat)
{ (spec_rnz_val::<C>(stream, pos), gmul::<C>(spec_rnz_val::<C>(stream, pos)), spec_rnz_end::<C>(stream, pos)) }

pub open spec fn default_world<C: Ciphersuite>() -> bool {
    &&& forall|stream: spec_fn(nat) -> u8, pos: nat| #[trigger] C::spec_generate_nonce(stream, pos) == spec_default_generate_nonce::<C>(stream, pos)
    &&& forall|s: BTreeMap<Identifier<C>, SecretShare<C>>, p: PublicKeyPackage<C>| #[trigger] C::spec_post_generate(s, p) == Ok::<(BTreeMap<Identifier<C>, SecretShare<C>>, PublicKeyPackage<C>), Error<C>>((s, p))
    &&& forall|k: KeyPackage<C>, p: PublicKeyPackage<C>| #[trigger] C::spec_post_dkg(k, p) == Ok::<(KeyPackage<C>, PublicKeyPackage<C>), Error<C>>((k, p))
}

// ASSUMPTION (per unit): the ciphersuite does not override the optional hooks
pub axiom fn ax_default_world<C: Ciphersuite>()
    ensures default_world::<C>();

} // verus!
}
