// lemmas/vspec_pclauses.rs -- vocabulary and body-independent lemmas for the PROPERTY-LEVEL (`p_*`) clauses of the contracts
// (DESIGN 8.3: "property-level vs exact clauses").  A p_* clause is written from the property statement: "is refused" = `res is Err`
// for EVERY input that has the fault (whatever else is wrong with it, whichever refusal wins), acceptance and the values the property
// fixes on fault-free input, and the blamed sender only under the premise that it is the only fault.  The exact clauses of the same
// functions speak through "first error in guard order" functions (spec_part2_err, spec_first_share_err, ..); the lemmas here relate the
// two views:  `first-error(..) is None  <==>  no sender has the fault`  and  `exactly one offender ==> the first error is that sender's`.
// They mention spec functions and inputs only, never a local of a body, and are called at `entry`.
// Re-exported through `crate::vspec`.
pub mod vspec_pclauses {
#[allow(unused_imports)] use vstd::prelude::*;
#[allow(unused_imports)] use crate::traits::*;
#[allow(unused_imports)] use crate::*;
#[allow(unused_imports)] use crate::vspec::*;
#[allow(unused_imports)] use crate::keys::*;
#[allow(unused_imports)] use crate::keys::dkg::{round1, round2};
verus! {
//@module_serves C04 C07 C08 C09 C10 C17

// ---------------------------------------------------------------------------------------------------
// whom an error blames (C04, C08: "the error names exactly the offending sender"): what `Error::culprits()` returns
pub open spec fn spec_error_culprits<C: Ciphersuite>(e: Error<C>) -> Seq<Identifier<C>> {
    match e {
        Error::InvalidSignatureShare { culprits } => culprits@,
        Error::InvalidProofOfKnowledge { culprit } => seq![culprit],
        Error::InvalidSecretShare { culprit } => match culprit { Some(i) => seq![i], None => Seq::<Identifier<C>>::empty() },
        _ => Seq::<Identifier<C>>::empty(),
    }
}

// ---------------------------------------------------------------------------------------------------
// dkg::part2 -- the check of the proof of knowledge filed under sender `id`
pub open spec fn r1_pok<C: Ciphersuite>(r1: Map<Identifier<C>, round1::Package<C>>, id: Identifier<C>) -> Result<(), Error<C>>
{ spec_pok_check::<C>(id, r1[id].commitment.0@, r1[id].proof_of_knowledge) }

// first-error view <-> per-sender view
pub proof fn lemma_first_pok_err_none_iff<C: Ciphersuite>(ids: Seq<Identifier<C>>, r1: Map<Identifier<C>, round1::Package<C>>, from: int)
    requires 0 <= from
    ensures spec_first_pok_err::<C>(ids, r1, from) is None <==> (forall|k: int| from <= k < ids.len() ==> r1_pok::<C>(r1, #[trigger] ids[k]) is Ok)
    decreases ids.len() - from
{
    if from < ids.len() {
        lemma_first_pok_err_none_iff::<C>(ids, r1, from + 1);
        if spec_first_pok_err::<C>(ids, r1, from) is None {
            assert forall|k: int| from <= k < ids.len() implies r1_pok::<C>(r1, #[trigger] ids[k]) is Ok by { if k > from { assert(from + 1 <= k); } }
        } else if forall|k: int| from <= k < ids.len() ==> r1_pok::<C>(r1, #[trigger] ids[k]) is Ok {
            assert(r1_pok::<C>(r1, ids[from]) is Ok);
        }
    }
}

// exactly one offender among ids[from..]: the first error is that sender's
pub proof fn lemma_first_pok_err_single<C: Ciphersuite>(ids: Seq<Identifier<C>>, r1: Map<Identifier<C>, round1::Package<C>>, from: int, w: int)
    requires 0 <= from <= w < ids.len(), r1_pok::<C>(r1, ids[w]) is Err,
        forall|k: int| from <= k < ids.len() && k != w ==> r1_pok::<C>(r1, #[trigger] ids[k]) is Ok
    ensures spec_first_pok_err::<C>(ids, r1, from) == Some(r1_pok::<C>(r1, ids[w])->Err_0)
    decreases w - from
{
    if from < w { assert(r1_pok::<C>(r1, ids[from]) is Ok); lemma_first_pok_err_single::<C>(ids, r1, from + 1, w); }
}

// part2, over the senders of the map: a failing proof anywhere makes the exact spec an error; a single offender (and nothing else
// wrong) makes it THAT sender's error
pub proof fn lemma_part2_faults<C: Ciphersuite>(sp: round1::SecretPackage<C>, r1: Map<Identifier<C>, round1::Package<C>>)
    requires r1.dom().finite()
    ensures
        forall|id: Identifier<C>| #[trigger] r1.contains_key(id) && r1_pok::<C>(r1, id) is Err ==> spec_part2_err::<C>(sp, r1) is Some,
        spec_part2_err::<C>(sp, r1) is None ==> forall|id: Identifier<C>| #[trigger] r1.contains_key(id) ==> r1_pok::<C>(r1, id) is Ok,
        forall|id: Identifier<C>| #[trigger] r1.contains_key(id) && r1_pok::<C>(r1, id) is Err
            && r1.dom().len() == sp.max_signers - 1 && !r1.contains_key(sp.identifier)
            && (forall|y: Identifier<C>| r1.contains_key(y) ==> ((#[trigger] r1[y]).commitment.0@.len() as u16) == sp.min_signers)
            && (forall|y: Identifier<C>| #[trigger] r1.contains_key(y) && y != id ==> r1_pok::<C>(r1, y) is Ok)
            ==> spec_part2_err::<C>(sp, r1) == Some(r1_pok::<C>(r1, id)->Err_0),
{
    let ids = sorted_seq(r1.dom());
    lemma_sorted_exists::<C>(r1.dom());
    lemma_first_pok_err_none_iff::<C>(ids, r1, 0);
    assert forall|id: Identifier<C>| #[trigger] r1.contains_key(id) && r1_pok::<C>(r1, id) is Err implies spec_part2_err::<C>(sp, r1) is Some by {
        assert(ids.to_set().contains(id));
        let w = choose|w: int| 0 <= w < ids.len() && ids[w] == id;
        assert(r1_pok::<C>(r1, ids[w]) is Err);
    }
    if spec_part2_err::<C>(sp, r1) is None {
        assert forall|id: Identifier<C>| #[trigger] r1.contains_key(id) implies r1_pok::<C>(r1, id) is Ok by {
            assert(ids.to_set().contains(id));
            let w = choose|w: int| 0 <= w < ids.len() && ids[w] == id;
            assert(r1_pok::<C>(r1, ids[w]) is Ok);
        }
    }
    assert forall|id: Identifier<C>| #[trigger] r1.contains_key(id) && r1_pok::<C>(r1, id) is Err
            && r1.dom().len() == sp.max_signers - 1 && !r1.contains_key(sp.identifier)
            && (forall|y: Identifier<C>| r1.contains_key(y) ==> ((#[trigger] r1[y]).commitment.0@.len() as u16) == sp.min_signers)
            && (forall|y: Identifier<C>| #[trigger] r1.contains_key(y) && y != id ==> r1_pok::<C>(r1, y) is Ok)
            implies spec_part2_err::<C>(sp, r1) == Some(r1_pok::<C>(r1, id)->Err_0) by {
        assert(ids.to_set().contains(id));
        let w = choose|w: int| 0 <= w < ids.len() && ids[w] == id;
        assert forall|k: int| 0 <= k < ids.len() && k != w implies r1_pok::<C>(r1, #[trigger] ids[k]) is Ok by {
            assert(ids.to_set().contains(ids[k]));
            assert(r1.contains_key(ids[k]));
            assert(ids[k] != ids[w]);
        }
        lemma_first_pok_err_single::<C>(ids, r1, 0, w);
    }
}

// ---------------------------------------------------------------------------------------------------
// dkg::part3 -- the check of the round-two share of sender `id` against the round-one commitment filed for the same sender
pub open spec fn r2_share_err<C: Ciphersuite>(own: Identifier<C>, r1: Map<Identifier<C>, round1::Package<C>>, r2: Map<Identifier<C>, round2::Package<C>>,
        id: Identifier<C>) -> Option<Error<C>>
{ spec_share_err::<C>(own, r2[id].signing_share.0.0, r1[id].commitment.0@, id) }

pub proof fn lemma_first_share_err_none_iff<C: Ciphersuite>(keys: Seq<Identifier<C>>, r1: Map<Identifier<C>, round1::Package<C>>,
        r2: Map<Identifier<C>, round2::Package<C>>, own: Identifier<C>, from: int)
    requires 0 <= from
    ensures spec_first_share_err::<C>(keys, r1, r2, own, from) is None <==> (forall|k: int| from <= k < keys.len() ==> r2_share_err::<C>(own, r1, r2, #[trigger] keys[k]) is None)
    decreases keys.len() - from
{
    if from < keys.len() {
        lemma_first_share_err_none_iff::<C>(keys, r1, r2, own, from + 1);
        if spec_first_share_err::<C>(keys, r1, r2, own, from) is None {
            assert forall|k: int| from <= k < keys.len() implies r2_share_err::<C>(own, r1, r2, #[trigger] keys[k]) is None by { if k > from { assert(from + 1 <= k); } }
        } else if forall|k: int| from <= k < keys.len() ==> r2_share_err::<C>(own, r1, r2, #[trigger] keys[k]) is None {
            assert(r2_share_err::<C>(own, r1, r2, keys[from]) is None);
        }
    }
}

pub proof fn lemma_first_share_err_single<C: Ciphersuite>(keys: Seq<Identifier<C>>, r1: Map<Identifier<C>, round1::Package<C>>,
        r2: Map<Identifier<C>, round2::Package<C>>, own: Identifier<C>, from: int, w: int)
    requires 0 <= from <= w < keys.len(), r2_share_err::<C>(own, r1, r2, keys[w]) is Some,
        forall|k: int| from <= k < keys.len() && k != w ==> r2_share_err::<C>(own, r1, r2, #[trigger] keys[k]) is None
    ensures spec_first_share_err::<C>(keys, r1, r2, own, from) == r2_share_err::<C>(own, r1, r2, keys[w])
    decreases w - from
{
    if from < w { assert(r2_share_err::<C>(own, r1, r2, keys[from]) is None); lemma_first_share_err_single::<C>(keys, r1, r2, own, from + 1, w); }
}

pub proof fn lemma_part3_faults<C: Ciphersuite>(own: Identifier<C>, r1: Map<Identifier<C>, round1::Package<C>>, r2: Map<Identifier<C>, round2::Package<C>>)
    requires r2.dom().finite()
    ensures
        forall|id: Identifier<C>| #[trigger] r2.contains_key(id) && r2_share_err::<C>(own, r1, r2, id) is Some
            ==> spec_first_share_err::<C>(sorted_seq(r2.dom()), r1, r2, own, 0) is Some,
        spec_first_share_err::<C>(sorted_seq(r2.dom()), r1, r2, own, 0) is None
            ==> forall|id: Identifier<C>| #[trigger] r2.contains_key(id) ==> r2_share_err::<C>(own, r1, r2, id) is None,
        forall|id: Identifier<C>| #[trigger] r2.contains_key(id) && r2_share_err::<C>(own, r1, r2, id) is Some
            && (forall|y: Identifier<C>| #[trigger] r2.contains_key(y) && y != id ==> r2_share_err::<C>(own, r1, r2, y) is None)
            ==> spec_first_share_err::<C>(sorted_seq(r2.dom()), r1, r2, own, 0) == r2_share_err::<C>(own, r1, r2, id),
{
    let keys = sorted_seq(r2.dom());
    lemma_sorted_exists::<C>(r2.dom());
    lemma_first_share_err_none_iff::<C>(keys, r1, r2, own, 0);
    assert forall|id: Identifier<C>| #[trigger] r2.contains_key(id) && r2_share_err::<C>(own, r1, r2, id) is Some
            implies spec_first_share_err::<C>(keys, r1, r2, own, 0) is Some by {
        assert(keys.to_set().contains(id));
        let w = choose|w: int| 0 <= w < keys.len() && keys[w] == id;
        assert(r2_share_err::<C>(own, r1, r2, keys[w]) is Some);
    }
    if spec_first_share_err::<C>(keys, r1, r2, own, 0) is None {
        assert forall|id: Identifier<C>| #[trigger] r2.contains_key(id) implies r2_share_err::<C>(own, r1, r2, id) is None by {
            assert(keys.to_set().contains(id));
            let w = choose|w: int| 0 <= w < keys.len() && keys[w] == id;
            assert(r2_share_err::<C>(own, r1, r2, keys[w]) is None);
        }
    }
    assert forall|id: Identifier<C>| #[trigger] r2.contains_key(id) && r2_share_err::<C>(own, r1, r2, id) is Some
            && (forall|y: Identifier<C>| #[trigger] r2.contains_key(y) && y != id ==> r2_share_err::<C>(own, r1, r2, y) is None)
            implies spec_first_share_err::<C>(keys, r1, r2, own, 0) == r2_share_err::<C>(own, r1, r2, id) by {
        assert(keys.to_set().contains(id));
        let w = choose|w: int| 0 <= w < keys.len() && keys[w] == id;
        assert forall|k: int| 0 <= k < keys.len() && k != w implies r2_share_err::<C>(own, r1, r2, #[trigger] keys[k]) is None by {
            assert(keys.to_set().contains(keys[k]));
            assert(r2.contains_key(keys[k]));
            assert(keys[k] != keys[w]);
        }
        lemma_first_share_err_single::<C>(keys, r1, r2, own, 0, w);
    }
}

// ---------------------------------------------------------------------------------------------------
// refresh_dkg_shares (C10) -- the check of the refreshing share of sender `id` against that sender's commitment RE-COMPLETED with the
// identity in front: it fails exactly when the contribution is not a share of a polynomial with ZERO constant term committed to by the sender
pub open spec fn refresh_r2_share_ok<C: Ciphersuite>(own: Identifier<C>, r1: Map<Identifier<C>, round1::Package<C>>, r2: Map<Identifier<C>, round2::Package<C>>,
        id: Identifier<C>) -> Result<(), Error<C>>
{ crate::vspec_refresh::spec_refresh_share_ok::<C>(own, r2[id].signing_share.0.0, r1[id].commitment.0@) }

pub proof fn lemma_refresh_first_share_err_none_iff<C: Ciphersuite>(keys: Seq<Identifier<C>>, r1: Map<Identifier<C>, round1::Package<C>>,
        r2: Map<Identifier<C>, round2::Package<C>>, own: Identifier<C>, from: int)
    requires 0 <= from
    ensures crate::vspec_refresh::spec_refresh_first_share_err::<C>(keys, r1, r2, own, from) is None
        <==> (forall|k: int| from <= k < keys.len() ==> refresh_r2_share_ok::<C>(own, r1, r2, #[trigger] keys[k]) is Ok)
    decreases keys.len() - from
{
    if from < keys.len() {
        lemma_refresh_first_share_err_none_iff::<C>(keys, r1, r2, own, from + 1);
        if crate::vspec_refresh::spec_refresh_first_share_err::<C>(keys, r1, r2, own, from) is None {
            assert forall|k: int| from <= k < keys.len() implies refresh_r2_share_ok::<C>(own, r1, r2, #[trigger] keys[k]) is Ok by { if k > from { assert(from + 1 <= k); } }
        } else if forall|k: int| from <= k < keys.len() ==> refresh_r2_share_ok::<C>(own, r1, r2, #[trigger] keys[k]) is Ok {
            assert(refresh_r2_share_ok::<C>(own, r1, r2, keys[from]) is Ok);
        }
    }
}

pub proof fn lemma_refresh_shares_faults<C: Ciphersuite>(own: Identifier<C>, r1: Map<Identifier<C>, round1::Package<C>>, r2: Map<Identifier<C>, round2::Package<C>>)
    requires r2.dom().finite()
    ensures
        forall|id: Identifier<C>| #[trigger] r2.contains_key(id) && refresh_r2_share_ok::<C>(own, r1, r2, id) is Err
            ==> crate::vspec_refresh::spec_refresh_first_share_err::<C>(sorted_seq(r2.dom()), r1, r2, own, 0) is Some,
        crate::vspec_refresh::spec_refresh_first_share_err::<C>(sorted_seq(r2.dom()), r1, r2, own, 0) is None
            ==> forall|id: Identifier<C>| #[trigger] r2.contains_key(id) ==> refresh_r2_share_ok::<C>(own, r1, r2, id) is Ok,
{
    let keys = sorted_seq(r2.dom());
    lemma_sorted_exists::<C>(r2.dom());
    lemma_refresh_first_share_err_none_iff::<C>(keys, r1, r2, own, 0);
    assert forall|id: Identifier<C>| #[trigger] r2.contains_key(id) && refresh_r2_share_ok::<C>(own, r1, r2, id) is Err
            implies crate::vspec_refresh::spec_refresh_first_share_err::<C>(keys, r1, r2, own, 0) is Some by {
        assert(keys.to_set().contains(id));
        let w = choose|w: int| 0 <= w < keys.len() && keys[w] == id;
        assert(refresh_r2_share_ok::<C>(own, r1, r2, keys[w]) is Err);
    }
    if crate::vspec_refresh::spec_refresh_first_share_err::<C>(keys, r1, r2, own, 0) is None {
        assert forall|id: Identifier<C>| #[trigger] r2.contains_key(id) implies refresh_r2_share_ok::<C>(own, r1, r2, id) is Ok by {
            assert(keys.to_set().contains(id));
            let w = choose|w: int| 0 <= w < keys.len() && keys[w] == id;
            assert(refresh_r2_share_ok::<C>(own, r1, r2, keys[w]) is Ok);
        }
    }
}

// ---------------------------------------------------------------------------------------------------
// frost-rerandomized aggregation (C17) -- the coordinator's refusals (lemmas/vspec_agg.rs: agg_guard_err) for the shares and threshold of
// the package `pk` and a group key given SEPARATELY (the randomized key Y + alpha*G; shifting the verifying shares does not change which
// identifiers have one).  Lets the p_ clauses of rerandomized `aggregate` speak about the randomized session without naming a
// randomized PublicKeyPackage (a BTreeMap holder has no spec-level constructor, so "exists a package .." cannot be shown on a path that
// never built one, e.g. an added early refusal).
pub open spec fn agg_guard_err_for_key<C: Ciphersuite>(sp: SigningPackage<C>, shares: ShareMap<C>, pk: PublicKeyPackage<C>, vk: Element<C>, detect: bool) -> Option<Error<C>> {
    if sp.signing_commitments@.dom().len() != shares.dom().len() { Some(Error::UnknownIdentifier) }
    else if pk.min_signers is Some && shares.dom().len() < pk.min_signers->Some_0 { Some(Error::IncorrectNumberOfShares) }
    else if exists|id: Identifier<C>| #[trigger] sp.signing_commitments@.contains_key(id) && !(shares.contains_key(id) && (detect ==> pk.verifying_shares@.contains_key(id)))
        { Some(Error::UnknownIdentifier) }
    else if vk == e0::<C>() || items_have_identity::<C>(sp_items::<C>(sp)) { Some(Error::GroupError(GroupError::InvalidIdentityElement)) }
    else { None }
}

} // verus!
}
