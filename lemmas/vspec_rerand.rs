// lemmas/vspec_rerand.rs -- specification vocabulary of re-randomized FROST (frost-rerandomized/src/lib.rs, property C17).
// Written from the property statement and the crate documentation (randomizer = hash_randomizer(seed || encoded commitment list),
// randomizer element = G * randomizer, every public key + randomizer element, every signing share + randomizer), not from the code.
pub mod vspec_rerand {
#[allow(unused_imports)] use vstd::prelude::*;
#[allow(unused_imports)] use std::collections::BTreeMap;
#[allow(unused_imports)] use crate::traits::*;
#[allow(unused_imports)] use crate::vspec::*;
#[allow(unused_imports)] use crate::*;
#[allow(unused_imports)] use crate::keys::{KeyPackage, PublicKeyPackage, SigningShare, VerifyingShare};
#[allow(unused_imports)] use crate::serialization::{SerializableElement, SerializableScalar};
#[allow(unused_imports)] use crate::round1::SigningCommitments;
#[allow(unused_imports)] use crate::rerandomized::{Randomizer, RandomizedParams, RandomizedCiphersuite};
verus! {
//@module_serves C17

// ---- the randomizer: a function of exactly the seed bytes and the encoded commitment list -------------------------------------
// preimage layout (crate documentation of `regenerate_from_seed_and_commitments`): seed || encode_group_commitment_list(commitments)
pub open spec fn spec_randomizer_preimage<C: Ciphersuite>(seed: Seq<u8>, commitments: Map<Identifier<C>, SigningCommitments<C>>) -> Seq<u8>
{ seed + spec_encode_list::<C>(commit_items::<C>(commitments), commit_items::<C>(commitments).len() as int) }

// Randomizer::regenerate_from_seed_and_commitments as a total function: the commitment list cannot be encoded when a commitment is
// the identity (GroupError, as in frost-core); the hash hook may refuse (None -> SerializationError)
pub open spec fn spec_regenerate_randomizer<C: RandomizedCiphersuite>(seed: Seq<u8>, commitments: Map<Identifier<C>, SigningCommitments<C>>) -> Result<Randomizer<C>, Error<C>> {
    if items_have_identity::<C>(commit_items::<C>(commitments)) { Err(Error::GroupError(GroupError::InvalidIdentityElement)) }
    else { match C::spec_hash_randomizer(spec_randomizer_preimage::<C>(seed, commitments)) {
        None => Err(Error::SerializationError),
        Some(r) => Ok(Randomizer::<C>(SerializableScalar(r))),
    } }
}

// ---- randomized parameters: (alpha, alpha*G, Y + alpha*G) ----------------------------------------------------------------------
pub open spec fn spec_randomized_params<C: Ciphersuite>(vk: VerifyingKey<C>, r: Randomizer<C>) -> RandomizedParams<C> {
    RandomizedParams::<C> {
        randomizer: r,
        randomizer_element: gmul::<C>(r.0.0),
        randomized_verifying_key: VerifyingKey::<C> { element: SerializableElement(eadd::<C>(vk.element.0, gmul::<C>(r.0.0))) },
    }
}

// RandomizedParams::regenerate_from_seed_and_commitments (participant side)
pub open spec fn spec_regenerate_params<C: RandomizedCiphersuite>(vk: VerifyingKey<C>, seed: Seq<u8>, commitments: Map<Identifier<C>, SigningCommitments<C>>) -> Result<RandomizedParams<C>, Error<C>> {
    match spec_regenerate_randomizer::<C>(seed, commitments) { Err(e) => Err(e), Ok(r) => Ok(spec_randomized_params::<C>(vk, r)) }
}

// ---- randomized key material ----------------------------------------------------------------------------------------------------
// participant: share + alpha, public share + alpha*G, group key replaced by the randomized key; identifier and threshold kept
pub open spec fn spec_randomize_key_package<C: Ciphersuite>(kp: KeyPackage<C>, p: RandomizedParams<C>) -> KeyPackage<C> {
    KeyPackage::<C> {
        header: default_header::<C>(),
        identifier: kp.identifier,
        signing_share: SigningShare(SerializableScalar(sadd::<C>(kp.signing_share.0.0, p.randomizer.0.0))),
        verifying_share: VerifyingShare(SerializableElement(eadd::<C>(kp.verifying_share.0.0, p.randomizer_element))),
        verifying_key: p.randomized_verifying_key,
        min_signers: kp.min_signers,
    }
}

// coordinator: every public share + alpha*G, group key replaced, threshold kept
pub open spec fn spec_shift_shares<C: Ciphersuite>(m: Map<Identifier<C>, VerifyingShare<C>>, d: Element<C>) -> Map<Identifier<C>, VerifyingShare<C>>
{ Map::new(m.dom(), |id: Identifier<C>| VerifyingShare::<C>(SerializableElement(eadd::<C>(m[id].0.0, d)))) }

pub open spec fn spec_is_randomized_public_key_package<C: Ciphersuite>(out: PublicKeyPackage<C>, pk: PublicKeyPackage<C>, p: RandomizedParams<C>) -> bool {
    out.header == default_header::<C>()
    && out.verifying_shares@ == spec_shift_shares::<C>(pk.verifying_shares@, p.randomizer_element)
    && out.verifying_key == p.randomized_verifying_key
    && out.min_signers == pk.min_signers
}

// ---- signing with a randomizer seed: regenerate the parameters from (seed, the package's commitments), then RFC 9591 sign with the shifted package
pub open spec fn spec_sign_with_randomizer_seed<C: RandomizedCiphersuite>(sp: SigningPackage<C>, sn: crate::round1::SigningNonces<C>, kp: KeyPackage<C>, seed: Seq<u8>)
        -> Result<crate::round2::SignatureShare<C>, Error<C>> {
    match spec_regenerate_params::<C>(kp.verifying_key, seed, sp.signing_commitments@) {
        Err(e) => Err(e),
        Ok(p) => spec_sign::<C>(sp, sn, spec_randomize_key_package::<C>(kp, p)),
    }
}

// ---- aggregation: frost-core aggregate / aggregate_custom (RFC 9591 5.3 + the implementation's refusals and cheater detection, relation
// `agg_result_is` of lemmas/vspec_agg.rs) applied to the RANDOMIZED public key package.  A PublicKeyPackage holds a BTreeMap, which has no
// spec-level constructor, hence "there is a package with exactly the shifted entries such that ..." (agg_result_is reads a package only
// through its key, threshold and the VIEW of its share map: lemma_agg_result_package_ext in lemmas/vprops_rerand.rs)
pub open spec fn spec_randomized_agg_result_is<C: Ciphersuite>(res: Result<Signature<C>, Error<C>>, sp: SigningPackage<C>, shares: ShareMap<C>, pk: PublicKeyPackage<C>,
        p: RandomizedParams<C>, detect: bool, first: bool) -> bool {
    exists|rpk: PublicKeyPackage<C>| #[trigger] spec_is_randomized_public_key_package::<C>(rpk, pk, p) && agg_result_is::<C>(res, sp, shares, rpk, detect, first)
}

// the pairs `(id, share + d)` produced from an ascending enumeration `rem` of the map `m` and collected into a map are `m` shifted by d
// (statement about the spec functions only; used as a hint by `PublicKeyPackage::randomize`)
pub proof fn lemma_shifted_shares_collected<C: Ciphersuite>(out: Map<Identifier<C>, VerifyingShare<C>>, m: Map<Identifier<C>, VerifyingShare<C>>, d: Element<C>,
        rem: Seq<(&Identifier<C>, &VerifyingShare<C>)>, vals: Seq<(Identifier<C>, VerifyingShare<C>)>)
    requires
        m.dom().finite(), rem.len() == m.dom().len(),
        forall|i: int| 0 <= i < rem.len() ==> m.contains_key(*(#[trigger] rem[i]).0) && m[*rem[i].0] == *rem[i].1,
        vstd::std_specs::btree::increasing_seq(rem.map_values(|p: (&Identifier<C>, &VerifyingShare<C>)| *p.0)),
        vals.len() == rem.len(),
        forall|k: int| 0 <= k < vals.len() ==> #[trigger] vals[k] == (*rem[k].0, VerifyingShare::<C>(SerializableElement(eadd::<C>(rem[k].1.0.0, d)))),
        forall|key: Identifier<C>| #[trigger] out.contains_key(key) <==> exists|k: int| 0 <= k < vals.len() && (#[trigger] vals[k]).0 == key,
        forall|k: int| 0 <= k < vals.len() && (forall|j: int| k < j < vals.len() ==> vals[j].0 != vals[k].0) ==> out[#[trigger] vals[k].0] == vals[k].1,
    ensures out == spec_shift_shares::<C>(m, d)
{
    use_id_order::<C>();
    lemma_btree_iter_sorted::<Identifier<C>, VerifyingShare<C>>(m, rem);
    let ks = rem.map_values(|p: (&Identifier<C>, &VerifyingShare<C>)| *p.0);
    assert(ks.len() == rem.len());
    ks.unique_seq_to_set();
    assert(ks.to_set().subset_of(m.dom())) by {
        assert forall|x: Identifier<C>| ks.to_set().contains(x) implies m.dom().contains(x) by {
            let w = choose|w: int| 0 <= w < ks.len() && ks[w] == x; assert(m.contains_key(*rem[w].0));
        }
    }
    vstd::set_lib::lemma_subset_equality(ks.to_set(), m.dom());
    let want = spec_shift_shares::<C>(m, d);
    assert forall|k: int| 0 <= k < vals.len() implies (#[trigger] vals[k]).0 == ks[k] by {}
    assert(out.dom() =~= want.dom()) by {
        assert forall|x: Identifier<C>| out.dom().contains(x) <==> m.dom().contains(x) by {
            if out.contains_key(x) { let k = choose|k: int| 0 <= k < vals.len() && (#[trigger] vals[k]).0 == x; assert(ks[k] == x); assert(ks.to_set().contains(x)); }
            if m.dom().contains(x) { assert(ks.to_set().contains(x)); let k = choose|k: int| 0 <= k < ks.len() && ks[k] == x; assert(vals[k].0 == x); }
        }
    }
    assert forall|x: Identifier<C>| out.dom().contains(x) implies #[trigger] out[x] == want[x] by {
        assert(ks.to_set().contains(x));
        let k = choose|k: int| 0 <= k < ks.len() && ks[k] == x;
        assert(vals[k].0 == x);
        assert forall|j: int| k < j < vals.len() implies vals[j].0 != vals[k].0 by { assert(vals[j].0 == ks[j]); }
        assert(out[vals[k].0] == vals[k].1);
        assert(m[*rem[k].0] == *rem[k].1);
    }
    assert(out =~= want);
}

} // verus!
}
