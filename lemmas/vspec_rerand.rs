// lemmas/vspec_rerand.rs -- specification vocabulary of the re-randomized FROST wrapper (frost-rerandomized/src/lib.rs, C17)
pub mod vspec_rerand {
#[allow(unused_imports)] use vstd::prelude::*;
#[allow(unused_imports)] use crate::traits::*;
#[allow(unused_imports)] use crate::vspec::*;
#[allow(unused_imports)] use crate::*;
verus! {
//@module_serves C17

} // verus!
}
