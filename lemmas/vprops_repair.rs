// lemmas/vprops_repair.rs -- C11: the three repair parts hand the participant exactly f(participant)
pub mod vprops_repair {
#[allow(unused_imports)] use vstd::prelude::*;
#[allow(unused_imports)] use crate::traits::*;
#[allow(unused_imports)] use crate::vspec::*;
#[allow(unused_imports)] use crate::vfield::*;
#[allow(unused_imports)] use crate::keys::*;
#[allow(unused_imports)] use crate::keys::repairable::*;
#[allow(unused_imports)] use crate::serialization::*;
#[allow(unused_imports)] use crate::*;
verus! {
//@module_serves C11

// sum_{k<n} f(k)
pub open spec fn isum<C: Ciphersuite>(f: spec_fn(int) -> Scalar<C>, n: nat) -> Scalar<C> decreases n
{ if n == 0 { s0::<C>() } else { sadd::<C>(isum::<C>(f, (n - 1) as nat), f(n - 1)) } }

pub proof fn lemma_isum_add<C: Ciphersuite>(f: spec_fn(int) -> Scalar<C>, g: spec_fn(int) -> Scalar<C>, n: nat)
    ensures isum::<C>(|k: int| sadd::<C>(f(k), g(k)), n) == sadd::<C>(isum::<C>(f, n), isum::<C>(g, n))
    decreases n
{
    if n == 0 { FF::<C>::ax_add_zero(s0::<C>()); }
    else {
        lemma_isum_add::<C>(f, g, (n - 1) as nat);
        let a = isum::<C>(f, (n - 1) as nat); let b = isum::<C>(g, (n - 1) as nat); let x = f(n - 1); let y = g(n - 1);
        // (a + b) + (x + y) == (a + x) + (b + y)
        FF::<C>::ax_add_assoc(a, b, sadd::<C>(x, y)); FF::<C>::ax_add_assoc(b, x, y); FF::<C>::ax_add_comm(b, x);
        FF::<C>::ax_add_assoc(x, b, y); FF::<C>::ax_add_assoc(a, x, sadd::<C>(b, y));
    }
}

pub proof fn lemma_isum_ext<C: Ciphersuite>(f: spec_fn(int) -> Scalar<C>, g: spec_fn(int) -> Scalar<C>, n: nat)
    requires forall|k: int| 0 <= k < n ==> #[trigger] f(k) == g(k)
    ensures isum::<C>(f, n) == isum::<C>(g, n)
    decreases n
{ if n > 0 { lemma_isum_ext::<C>(f, g, (n - 1) as nat); } }

pub proof fn lemma_isum_zero<C: Ciphersuite>(n: nat)
    ensures isum::<C>(|k: int| s0::<C>(), n) == s0::<C>()
    decreases n
{ if n > 0 { lemma_isum_zero::<C>((n - 1) as nat); FF::<C>::ax_add_zero(s0::<C>()); } }

// Fubini for finite sums:  sum_{i<m} sum_{j<n} f(i,j)  ==  sum_{j<n} sum_{i<m} f(i,j)
pub proof fn lemma_exchange<C: Ciphersuite>(f: spec_fn(int, int) -> Scalar<C>, m: nat, n: nat)
    ensures isum::<C>(|i: int| isum::<C>(|j: int| f(i, j), n), m) == isum::<C>(|j: int| isum::<C>(|i: int| f(i, j), m), n)
    decreases m
{
    let rows = |i: int| isum::<C>(|j: int| f(i, j), n);
    let cols = |j: int| isum::<C>(|i: int| f(i, j), m);
    if m == 0 {
        lemma_isum_ext::<C>(cols, |j: int| s0::<C>(), n);
        lemma_isum_zero::<C>(n);
    } else {
        let m1 = (m - 1) as nat;
        lemma_exchange::<C>(f, m1, n);
        let cols1 = |j: int| isum::<C>(|i: int| f(i, j), m1);
        let lastrow = |j: int| f(m - 1, j);
        // cols(j) == cols1(j) + f(m-1, j)
        lemma_isum_ext::<C>(cols, |j: int| sadd::<C>(cols1(j), lastrow(j)), n);
        lemma_isum_add::<C>(cols1, lastrow, n);
        lemma_isum_ext::<C>(|i: int| isum::<C>(|j: int| f(i, j), n), rows, m1);
        assert(rows(m - 1) == isum::<C>(lastrow, n)) by { lemma_isum_ext::<C>(|j: int| f(m - 1, j), lastrow, n); }
    }
}

// a delta row sums to its total
pub proof fn lemma_row_sum<C: Ciphersuite>(m: Map<Identifier<C>, Delta<C>>, srt: Seq<Identifier<C>>, vals: Seq<Scalar<C>>, total: Scalar<C>)
    requires spec_is_delta_row::<C>(m, srt, vals, total)
    ensures isum::<C>(|j: int| m[srt[j]].0.0, srt.len()) == total
{
    let n = vals.len();
    let f = |j: int| m[srt[j]].0.0;
    lemma_isum_vals::<C>(f, vals, n);
    let sv = spec_scalar_sum::<C>(vals, n);
    assert(srt.last() == srt[n as int]);
    // sv + (total - sv) == total
    lemma_sub_add_cancel::<AL<C>>(total, sv);
}
pub proof fn lemma_isum_vals<C: Ciphersuite>(f: spec_fn(int) -> Scalar<C>, vals: Seq<Scalar<C>>, k: nat)
    requires k <= vals.len(), forall|j: int| 0 <= j < vals.len() ==> #[trigger] f(j) == vals[j]
    ensures isum::<C>(f, k) == spec_scalar_sum::<C>(vals, k)
    decreases k
{ if k > 0 { lemma_isum_vals::<C>(f, vals, (k - 1) as nat); } }

pub proof fn lemma_delta_sum_isum<C: Ciphersuite>(d: Seq<Delta<C>>, k: nat)
    requires k <= d.len()
    ensures spec_delta_sum::<C>(d, k) == isum::<C>(|i: int| d[i].0.0, k)
    decreases k
{ if k > 0 { lemma_delta_sum_isum::<C>(d, (k - 1) as nat); } }
pub proof fn lemma_sigma_sum_isum<C: Ciphersuite>(d: Seq<Sigma<C>>, k: nat)
    requires k <= d.len()
    ensures spec_sigma_sum::<C>(d, k) == isum::<C>(|i: int| d[i].0.0, k)
    decreases k
{ if k > 0 { lemma_sigma_sum_isum::<C>(d, (k - 1) as nat); } }

pub proof fn lemma_id_sum_isum<C: Ciphersuite>(ids: Seq<Identifier<C>>, g: spec_fn(Identifier<C>) -> Scalar<C>, k: nat)
    requires k <= ids.len()
    ensures id_sum::<C>(ids.take(k as int), g) == isum::<C>(|i: int| g(ids[i]), k)
    decreases k
{
    if k > 0 {
        lemma_id_sum_isum::<C>(ids, g, (k - 1) as nat);
        assert(ids.take(k as int).drop_last() =~= ids.take(k - 1));
        assert(ids.take(k as int).last() == ids[k - 1]);
    }
}

// THEOREM C11.  hs = the helpers in ascending order (no duplicates, at least t = |a| of them); helper hs[i] holds the
// share a(hs[i]) and produced the row rows[i] with part1; helper hs[j] received deltas[j] = [rows[0][hs[j]], ..,
// rows[m-1][hs[j]]] and produced sigmas[j] with part2; part3 sums the sigmas.  Then the repaired signing share is
// a(participant): the lost share if the participant existed, a valid new share otherwise.
pub proof fn thm_repair<C: Ciphersuite>(hs: Seq<Identifier<C>>, a: Seq<Scalar<C>>, p: Identifier<C>,
        rows: Seq<Map<Identifier<C>, Delta<C>>>, rvals: Seq<Seq<Scalar<C>>>, deltas: Seq<Seq<Delta<C>>>, sigmas: Seq<Sigma<C>>)
    requires
        hs.no_duplicates(), 1 <= a.len() <= hs.len(),
        rows.len() == hs.len(), rvals.len() == hs.len(), deltas.len() == hs.len(), sigmas.len() == hs.len(),
        forall|i: int| 0 <= i < hs.len() ==> spec_is_delta_row::<C>(#[trigger] rows[i], hs, rvals[i],
            smul::<C>(spec_lagrange::<C>(hs, Some(p), hs[i]), poly::<AL<C>>(a, hs[i].0.0))),
        forall|j: int| 0 <= j < hs.len() ==> (#[trigger] deltas[j]).len() == hs.len(),
        forall|i: int, j: int| 0 <= i < hs.len() && 0 <= j < hs.len() ==> #[trigger] deltas[j][i] == rows[i][hs[j]],
        forall|j: int| 0 <= j < hs.len() ==> (#[trigger] sigmas[j]).0.0 == spec_delta_sum::<C>(deltas[j], hs.len()),
    ensures spec_sigma_sum::<C>(sigmas, hs.len()) == poly::<AL<C>>(a, p.0.0)
{
    let m = hs.len();
    let f = |i: int, j: int| rows[i][hs[j]].0.0;
    lemma_sigma_sum_isum::<C>(sigmas, m);
    // sigma_j == sum_i f(i, j)
    assert forall|j: int| 0 <= j < m implies sigmas[j].0.0 == isum::<C>(|i: int| f(i, j), m) by {
        lemma_delta_sum_isum::<C>(deltas[j], m);
        lemma_isum_ext::<C>(|i: int| deltas[j][i].0.0, |i: int| f(i, j), m);
    }
    lemma_isum_ext::<C>(|j: int| sigmas[j].0.0, |j: int| isum::<C>(|i: int| f(i, j), m), m);
    lemma_exchange::<C>(f, m, m);
    // row sums
    let g = lag_term::<C>(hs, a, p.0.0);
    assert forall|i: int| 0 <= i < m implies isum::<C>(|j: int| f(i, j), m) == g(hs[i]) by {
        lemma_row_sum::<C>(rows[i], hs, rvals[i], smul::<C>(spec_lagrange::<C>(hs, Some(p), hs[i]), poly::<AL<C>>(a, hs[i].0.0)));
        lemma_isum_ext::<C>(|j: int| rows[i][hs[j]].0.0, |j: int| f(i, j), m);
        FF::<C>::ax_mul_comm(spec_lagrange::<C>(hs, Some(p), hs[i]), poly::<AL<C>>(a, hs[i].0.0));
    }
    lemma_isum_ext::<C>(|i: int| isum::<C>(|j: int| f(i, j), m), |i: int| g(hs[i]), m);
    lemma_id_sum_isum::<C>(hs, g, m);
    assert(hs.take(m as int) =~= hs);
    lemma_interpolate_at::<C>(hs, a, p.0.0);
}

} // verus!
}
