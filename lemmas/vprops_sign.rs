// lemmas/vprops_sign.rs -- property-level theorems about two-round signing (C01, C03, C04, C05) over the contracts'
// spec functions (`spec_sign`, `sp_share_ok`, `spec_culprits`, `agg_guard_err`, `agg_sig`, `agg_culprits`, `agg_result_is`,
// `spec_verify`, `spec_encode_list`, ...).  The contracts pin the code to these functions; the theorems here show that the
// functions have the properties users rely on, for all inputs.  No assume/admit/external_body/axioms.
pub mod vprops_sign {
#[allow(unused_imports)] use vstd::prelude::*;
#[allow(unused_imports)] use crate::traits::*;
#[allow(unused_imports)] use crate::vspec::*;
#[allow(unused_imports)] use crate::vfield::*;
#[allow(unused_imports)] use crate::keys::*;
#[allow(unused_imports)] use crate::serialization::*;
#[allow(unused_imports)] use crate::*;
verus! {

// ---------------------------------------------------------------------------------------------------
// the honest setup
// key material on a polynomial `a` (a[0] = group secret): what dealer key generation and the DKG hand out
pub open spec fn honest_keys<C: Ciphersuite>(a: Seq<Scalar<C>>, vk: Element<C>, ys: Map<Identifier<C>, VerifyingShare<C>>, ids: Set<Identifier<C>>) -> bool {
    a.len() >= 1 && vk == gmul::<C>(a[0])
    && forall|id: Identifier<C>| #[trigger] ids.contains(id) ==> ys.contains_key(id) && ys[id].0.0 == gmul::<C>(poly::<AL<C>>(a, id.0.0))
}

// every commitment of the package is the commitment to the nonce pair nonce(id) = (hiding d, binding e)
pub open spec fn honest_commitments<C: Ciphersuite>(sp: SigningPackage<C>, nonce: spec_fn(Identifier<C>) -> (Scalar<C>, Scalar<C>)) -> bool {
    forall|id: Identifier<C>| #[trigger] sp.signing_commitments@.contains_key(id) ==>
        sp.signing_commitments@[id].hiding.0.0 == gmul::<C>(nonce(id).0) && sp.signing_commitments@[id].binding.0.0 == gmul::<C>(nonce(id).1)
}

// RFC 9591 5.2: the share the holder of a(id) and of nonce(id) computes in the session (sp, vk)
pub open spec fn honest_share<C: Ciphersuite>(sp: SigningPackage<C>, vk: Element<C>, a: Seq<Scalar<C>>, nonce: spec_fn(Identifier<C>) -> (Scalar<C>, Scalar<C>), id: Identifier<C>) -> Scalar<C> {
    spec_sig_share::<C>(nonce(id).0, nonce(id).1, sp_rho::<C>(sp, vk, id), sp_lambda::<C>(sp, id), poly::<AL<C>>(a, id.0.0), sp_c::<C>(sp, vk))
}

// the share of `id` in `shares` fails the RFC 9591 5.3 check (the membership test of `spec_culprits`)
pub open spec fn share_bad<C: Ciphersuite>(sp: SigningPackage<C>, bf: Map<Identifier<C>, BindingFactor<C>>, shares: ShareMap<C>,
        ys: Map<Identifier<C>, VerifyingShare<C>>, c: Scalar<C>, id: Identifier<C>) -> bool
{ !sp_share_ok::<C>(sp, bf, id, shares[id].share.0, ys[id].0.0, c) }

// what dealer key generation returns is `honest_keys` (composition with C06: thm_dealer_output_consistent)
//@serves C01 C04
pub proof fn lemma_dealer_keys_honest<C: Ciphersuite>(shares: Map<Identifier<C>, SecretShare<C>>, pk: PublicKeyPackage<C>, ids: Seq<Identifier<C>>, a: Seq<Scalar<C>>, t: u16)
    requires spec_dealer_output::<C>(shares, pk, ids, a, t), a.len() >= 1
    ensures honest_keys::<C>(a, pk.verifying_key.element.0, pk.verifying_shares@, ids.to_set())
{
    assert forall|id: Identifier<C>| #[trigger] ids.to_set().contains(id) implies pk.verifying_shares@.contains_key(id)
        && pk.verifying_shares@[id].0.0 == gmul::<C>(poly::<AL<C>>(a, id.0.0)) by { assert(ids.contains(id)); }
}

// ---------------------------------------------------------------------------------------------------
// T1: the share check accepts exactly one scalar
// G*d + (G*e)*rho + ((G*s)*c)*lambda  ==  G * (d + e*rho + lambda*s*c)
//@serves C01 C04 C05
pub proof fn lemma_share_rhs<C: Ciphersuite>(d: Scalar<C>, e: Scalar<C>, rho: Scalar<C>, lambda: Scalar<C>, s: Scalar<C>, c: Scalar<C>)
    ensures eadd::<C>(eadd::<C>(gmul::<C>(d), emul::<C>(gmul::<C>(e), rho)), emul::<C>(emul::<C>(gmul::<C>(s), c), lambda))
        == gmul::<C>(spec_sig_share::<C>(d, e, rho, lambda, s, c))
{
    let g = eg::<C>();
    GG::<C>::ax_smul_mul(g, e, rho);
    GG::<C>::ax_smul_add(g, d, smul::<C>(e, rho));
    GG::<C>::ax_smul_mul(g, s, c);
    GG::<C>::ax_smul_mul(g, smul::<C>(s, c), lambda);
    FF::<C>::ax_mul_comm(smul::<C>(s, c), lambda);
    FF::<C>::ax_mul_assoc(lambda, s, c);
    GG::<C>::ax_smul_add(g, sadd::<C>(d, smul::<C>(e, rho)), smul::<C>(smul::<C>(lambda, s), c));
}

// for ANY binding-factor map and ANY challenge: signer `id` with commitments (G*d, G*e) and verifying share G*s passes the check
// with z iff z is the RFC 9591 5.2 share for (d, e, s) under the package's own rho_id, lambda_id
//@serves C01 C04 C05
pub proof fn lemma_share_check_iff_bf<C: Ciphersuite>(sp: SigningPackage<C>, bf: Map<Identifier<C>, BindingFactor<C>>, id: Identifier<C>,
        d: Scalar<C>, e: Scalar<C>, s: Scalar<C>, z: Scalar<C>, y: Element<C>, c: Scalar<C>)
    requires
        sp.signing_commitments@[id].hiding.0.0 == gmul::<C>(d), sp.signing_commitments@[id].binding.0.0 == gmul::<C>(e), y == gmul::<C>(s),
    ensures sp_share_ok::<C>(sp, bf, id, z, y, c) <==> z == spec_sig_share::<C>(d, e, bf[id].0, sp_lambda::<C>(sp, id), s, c)
{
    let h = spec_sig_share::<C>(d, e, bf[id].0, sp_lambda::<C>(sp, id), s, c);
    lemma_share_rhs::<C>(d, e, bf[id].0, sp_lambda::<C>(sp, id), s, c);
    if gmul::<C>(z) == gmul::<C>(h) { lemma_gen_inj::<C>(z, h); }
}

// T1 (as used by aggregate / verify_signature_share: the session's own binding factors)
//@serves C01 C04 C05
pub proof fn thm_share_check_iff<C: Ciphersuite>(sp: SigningPackage<C>, vk: Element<C>, id: Identifier<C>,
        d: Scalar<C>, e: Scalar<C>, s: Scalar<C>, z: Scalar<C>, y: Element<C>, c: Scalar<C>)
    requires sp.signing_commitments@.contains_key(id),
        sp.signing_commitments@[id].hiding.0.0 == gmul::<C>(d), sp.signing_commitments@[id].binding.0.0 == gmul::<C>(e), y == gmul::<C>(s),
    ensures
        sp_rho_map::<C>(sp, vk)[id].0 == sp_rho::<C>(sp, vk, id),
        sp_share_ok::<C>(sp, sp_rho_map::<C>(sp, vk), id, z, y, c) <==> z == spec_sig_share::<C>(d, e, sp_rho_map::<C>(sp, vk)[id].0, sp_lambda::<C>(sp, id), s, c),
        sp_share_ok::<C>(sp, sp_rho_map::<C>(sp, vk), id, z, y, c) <==> z == spec_sig_share::<C>(d, e, sp_rho::<C>(sp, vk, id), sp_lambda::<C>(sp, id), s, c),
{
    lemma_share_check_iff_bf::<C>(sp, sp_rho_map::<C>(sp, vk), id, d, e, s, z, y, c);
}

// T1 in the honest setup, with the session's own challenge: the check accepts exactly `honest_share`
//@serves C01 C04 C05
pub proof fn thm_share_ok_iff_honest<C: Ciphersuite>(sp: SigningPackage<C>, vk: Element<C>, a: Seq<Scalar<C>>, ys: Map<Identifier<C>, VerifyingShare<C>>,
        nonce: spec_fn(Identifier<C>) -> (Scalar<C>, Scalar<C>), id: Identifier<C>, z: Scalar<C>)
    requires sp.signing_commitments@.contains_key(id), honest_commitments::<C>(sp, nonce), ys[id].0.0 == gmul::<C>(poly::<AL<C>>(a, id.0.0)),
    ensures sp_share_ok::<C>(sp, sp_rho_map::<C>(sp, vk), id, z, ys[id].0.0, sp_c::<C>(sp, vk)) <==> z == honest_share::<C>(sp, vk, a, nonce, id)
{
    thm_share_check_iff::<C>(sp, vk, id, nonce(id).0, nonce(id).1, poly::<AL<C>>(a, id.0.0), z, ys[id].0.0, sp_c::<C>(sp, vk));
}

} // verus!
}
