// lemmas/vprops_sign.rs -- property-level theorems about two-round signing (C01, C03, C04, C05) over the contracts'
// spec functions (`spec_sign`, `sp_share_ok`, `spec_culprits`, `agg_guard_err`, `agg_sig`, `agg_culprits`, `agg_result_is`,
// `spec_verify`, `spec_encode_list`, ...).  The contracts pin the code to these functions; the theorems here show that the
// functions have the properties users rely on, for all inputs.  Everything is proved from the field/group/codec axioms of prelude/traits.rs.
pub mod vprops_sign {
#[allow(unused_imports)] use vstd::prelude::*;
#[allow(unused_imports)] use crate::traits::*;
#[allow(unused_imports)] use crate::vspec::*;
#[allow(unused_imports)] use crate::vfield::*;
#[allow(unused_imports)] use crate::keys::*;
#[allow(unused_imports)] use crate::serialization::*;
#[allow(unused_imports)] use crate::*;
verus! {

// ---------------------------------------------------------------------------------------------------
// the honest setup
// key material on a polynomial `a` (a[0] = group secret): what dealer key generation and the DKG hand out
pub open spec fn honest_keys<C: Ciphersuite>(a: Seq<Scalar<C>>, vk: Element<C>, ys: Map<Identifier<C>, VerifyingShare<C>>, ids: Set<Identifier<C>>) -> bool {
    a.len() >= 1 && vk == gmul::<C>(a[0])
    && forall|id: Identifier<C>| #[trigger] ids.contains(id) ==> ys.contains_key(id) && ys[id].0.0 == gmul::<C>(poly::<AL<C>>(a, id.0.0))
}

// every commitment of the package is the commitment to the nonce pair nonce(id) = (hiding d, binding e)
pub open spec fn honest_commitments<C: Ciphersuite>(sp: SigningPackage<C>, nonce: spec_fn(Identifier<C>) -> (Scalar<C>, Scalar<C>)) -> bool {
    forall|id: Identifier<C>| #[trigger] sp.signing_commitments@.contains_key(id) ==>
        sp.signing_commitments@[id].hiding.0.0 == gmul::<C>(nonce(id).0) && sp.signing_commitments@[id].binding.0.0 == gmul::<C>(nonce(id).1)
}

// RFC 9591 5.2: the share the holder of a(id) and of nonce(id) computes in the session (sp, vk)
pub open spec fn honest_share<C: Ciphersuite>(sp: SigningPackage<C>, vk: Element<C>, a: Seq<Scalar<C>>, nonce: spec_fn(Identifier<C>) -> (Scalar<C>, Scalar<C>), id: Identifier<C>) -> Scalar<C> {
    spec_sig_share::<C>(nonce(id).0, nonce(id).1, sp_rho::<C>(sp, vk, id), sp_lambda::<C>(sp, id), poly::<AL<C>>(a, id.0.0), sp_c::<C>(sp, vk))
}

// the share of `id` in `shares` fails the RFC 9591 5.3 check (the membership test of `spec_culprits`)
pub open spec fn share_bad<C: Ciphersuite>(sp: SigningPackage<C>, bf: Map<Identifier<C>, BindingFactor<C>>, shares: ShareMap<C>,
        ys: Map<Identifier<C>, VerifyingShare<C>>, c: Scalar<C>, id: Identifier<C>) -> bool
{ !sp_share_ok::<C>(sp, bf, id, shares[id].share.0, ys[id].0.0, c) }

// what dealer key generation returns is `honest_keys` (composition with C06: thm_dealer_output_consistent)
//@serves C01 C04
pub proof fn lemma_dealer_keys_honest<C: Ciphersuite>(shares: Map<Identifier<C>, SecretShare<C>>, pk: PublicKeyPackage<C>, ids: Seq<Identifier<C>>, a: Seq<Scalar<C>>, t: u16)
    requires spec_dealer_output::<C>(shares, pk, ids, a, t), a.len() >= 1
    ensures honest_keys::<C>(a, pk.verifying_key.element.0, pk.verifying_shares@, ids.to_set())
{
    assert forall|id: Identifier<C>| #[trigger] ids.to_set().contains(id) implies pk.verifying_shares@.contains_key(id)
        && pk.verifying_shares@[id].0.0 == gmul::<C>(poly::<AL<C>>(a, id.0.0)) by { assert(ids.contains(id)); }
}

// ---------------------------------------------------------------------------------------------------
// T1: the share check accepts exactly one scalar
// G*d + (G*e)*rho + ((G*s)*c)*lambda  ==  G * (d + e*rho + lambda*s*c)
//@serves C01 C04 C05
pub proof fn lemma_share_rhs<C: Ciphersuite>(d: Scalar<C>, e: Scalar<C>, rho: Scalar<C>, lambda: Scalar<C>, s: Scalar<C>, c: Scalar<C>)
    ensures eadd::<C>(eadd::<C>(gmul::<C>(d), emul::<C>(gmul::<C>(e), rho)), emul::<C>(emul::<C>(gmul::<C>(s), c), lambda))
        == gmul::<C>(spec_sig_share::<C>(d, e, rho, lambda, s, c))
{
    let g = eg::<C>();
    GG::<C>::ax_smul_mul(g, e, rho);
    GG::<C>::ax_smul_add(g, d, smul::<C>(e, rho));
    GG::<C>::ax_smul_mul(g, s, c);
    GG::<C>::ax_smul_mul(g, smul::<C>(s, c), lambda);
    FF::<C>::ax_mul_comm(smul::<C>(s, c), lambda);
    FF::<C>::ax_mul_assoc(lambda, s, c);
    GG::<C>::ax_smul_add(g, sadd::<C>(d, smul::<C>(e, rho)), smul::<C>(smul::<C>(lambda, s), c));
}

// for ANY binding-factor map and ANY challenge: signer `id` with commitments (G*d, G*e) and verifying share G*s passes the check
// with z iff z is the RFC 9591 5.2 share for (d, e, s) under the package's own rho_id, lambda_id
//@serves C01 C04 C05
pub proof fn lemma_share_check_iff_bf<C: Ciphersuite>(sp: SigningPackage<C>, bf: Map<Identifier<C>, BindingFactor<C>>, id: Identifier<C>,
        d: Scalar<C>, e: Scalar<C>, s: Scalar<C>, z: Scalar<C>, y: Element<C>, c: Scalar<C>)
    requires
        sp.signing_commitments@[id].hiding.0.0 == gmul::<C>(d), sp.signing_commitments@[id].binding.0.0 == gmul::<C>(e), y == gmul::<C>(s),
    ensures sp_share_ok::<C>(sp, bf, id, z, y, c) <==> z == spec_sig_share::<C>(d, e, bf[id].0, sp_lambda::<C>(sp, id), s, c)
{
    let h = spec_sig_share::<C>(d, e, bf[id].0, sp_lambda::<C>(sp, id), s, c);
    lemma_share_rhs::<C>(d, e, bf[id].0, sp_lambda::<C>(sp, id), s, c);
    if gmul::<C>(z) == gmul::<C>(h) { lemma_gen_inj::<C>(z, h); }
}

// T1 (as used by aggregate / verify_signature_share: the session's own binding factors)
//@serves C01 C04 C05
pub proof fn thm_share_check_iff<C: Ciphersuite>(sp: SigningPackage<C>, vk: Element<C>, id: Identifier<C>,
        d: Scalar<C>, e: Scalar<C>, s: Scalar<C>, z: Scalar<C>, y: Element<C>, c: Scalar<C>)
    requires sp.signing_commitments@.contains_key(id),
        sp.signing_commitments@[id].hiding.0.0 == gmul::<C>(d), sp.signing_commitments@[id].binding.0.0 == gmul::<C>(e), y == gmul::<C>(s),
    ensures
        sp_rho_map::<C>(sp, vk)[id].0 == sp_rho::<C>(sp, vk, id),
        sp_share_ok::<C>(sp, sp_rho_map::<C>(sp, vk), id, z, y, c) <==> z == spec_sig_share::<C>(d, e, sp_rho_map::<C>(sp, vk)[id].0, sp_lambda::<C>(sp, id), s, c),
        sp_share_ok::<C>(sp, sp_rho_map::<C>(sp, vk), id, z, y, c) <==> z == spec_sig_share::<C>(d, e, sp_rho::<C>(sp, vk, id), sp_lambda::<C>(sp, id), s, c),
{
    lemma_share_check_iff_bf::<C>(sp, sp_rho_map::<C>(sp, vk), id, d, e, s, z, y, c);
}

// T1 in the honest setup, with the session's own challenge: the check accepts exactly `honest_share`
//@serves C01 C04 C05
pub proof fn thm_share_ok_iff_honest<C: Ciphersuite>(sp: SigningPackage<C>, vk: Element<C>, a: Seq<Scalar<C>>, ys: Map<Identifier<C>, VerifyingShare<C>>,
        nonce: spec_fn(Identifier<C>) -> (Scalar<C>, Scalar<C>), id: Identifier<C>, z: Scalar<C>)
    requires sp.signing_commitments@.contains_key(id), honest_commitments::<C>(sp, nonce), ys[id].0.0 == gmul::<C>(poly::<AL<C>>(a, id.0.0)),
    ensures sp_share_ok::<C>(sp, sp_rho_map::<C>(sp, vk), id, z, ys[id].0.0, sp_c::<C>(sp, vk)) <==> z == honest_share::<C>(sp, vk, a, nonce, id)
{
    thm_share_check_iff::<C>(sp, vk, id, nonce(id).0, nonce(id).1, poly::<AL<C>>(a, id.0.0), z, ys[id].0.0, sp_c::<C>(sp, vk));
}

// ---------------------------------------------------------------------------------------------------
// T4a: what `spec_culprits` (the list detect_cheater / aggregate report) contains, and in which order
pub open spec fn in_prefix<C: Ciphersuite>(keys: Seq<Identifier<C>>, n: int, x: Identifier<C>) -> bool
{ exists|j: int| 0 <= j < n && #[trigger] keys[j] == x }

// x occurs before y among the first n keys
pub open spec fn key_before<C: Ciphersuite>(keys: Seq<Identifier<C>>, n: int, x: Identifier<C>, y: Identifier<C>) -> bool
{ exists|a: int, b: int| #![trigger keys[a], keys[b]] 0 <= a < b < n && keys[a] == x && keys[b] == y }

// membership: x is reported iff x is one of the first n keys and its share fails the check
//@serves C04
pub proof fn lemma_culprits_members<C: Ciphersuite>(keys: Seq<Identifier<C>>, sp: SigningPackage<C>, bf: Map<Identifier<C>, BindingFactor<C>>,
        shares: ShareMap<C>, ys: Map<Identifier<C>, VerifyingShare<C>>, c: Scalar<C>, n: int)
    requires 0 <= n <= keys.len()
    ensures forall|x: Identifier<C>| #[trigger] spec_culprits::<C>(keys, sp, bf, shares, ys, c, n).contains(x)
                <==> (share_bad::<C>(sp, bf, shares, ys, c, x) && in_prefix::<C>(keys, n, x))
    decreases n
{
    let cur = spec_culprits::<C>(keys, sp, bf, shares, ys, c, n);
    if n > 0 {
        lemma_culprits_members::<C>(keys, sp, bf, shares, ys, c, n - 1);
        let r = spec_culprits::<C>(keys, sp, bf, shares, ys, c, n - 1);
        let last = keys[n - 1];
        assert(cur == r || (share_bad::<C>(sp, bf, shares, ys, c, last) && cur == r.push(last)));
        assert forall|x: Identifier<C>| #[trigger] cur.contains(x) <==> (share_bad::<C>(sp, bf, shares, ys, c, x) && in_prefix::<C>(keys, n, x)) by {
            if cur.contains(x) {
                let i = choose|i: int| 0 <= i < cur.len() && cur[i] == x;
                if i < r.len() {
                    assert(r[i] == x);
                    assert(r.contains(x));
                    let j = choose|j: int| 0 <= j < n - 1 && #[trigger] keys[j] == x;
                    assert(0 <= j < n && keys[j] == x);
                } else {
                    assert(keys[n - 1] == x);
                }
            }
            if share_bad::<C>(sp, bf, shares, ys, c, x) && in_prefix::<C>(keys, n, x) {
                let j = choose|j: int| 0 <= j < n && #[trigger] keys[j] == x;
                if j < n - 1 {
                    assert(in_prefix::<C>(keys, n - 1, x));
                    assert(r.contains(x));
                    let i = choose|i: int| 0 <= i < r.len() && r[i] == x;
                    assert(cur[i] == x);
                } else {
                    assert(cur == r.push(last));
                    assert(cur[r.len() as int] == x);
                }
            }
        }
    } else {
        assert forall|x: Identifier<C>| #[trigger] cur.contains(x) <==> (share_bad::<C>(sp, bf, shares, ys, c, x) && in_prefix::<C>(keys, n, x)) by {}
    }
}

// for the keys themselves: keys[k] (k < n) is reported iff its share fails; every reported identifier is one of the keys
//@serves C04
pub proof fn lemma_culprits_keys<C: Ciphersuite>(keys: Seq<Identifier<C>>, sp: SigningPackage<C>, bf: Map<Identifier<C>, BindingFactor<C>>,
        shares: ShareMap<C>, ys: Map<Identifier<C>, VerifyingShare<C>>, c: Scalar<C>, n: int)
    requires 0 <= n <= keys.len()
    ensures
        forall|k: int| 0 <= k < n ==> (spec_culprits::<C>(keys, sp, bf, shares, ys, c, n).contains(#[trigger] keys[k])
            <==> !sp_share_ok::<C>(sp, bf, keys[k], shares[keys[k]].share.0, ys[keys[k]].0.0, c)),
        forall|i: int| 0 <= i < spec_culprits::<C>(keys, sp, bf, shares, ys, c, n).len() ==>
            in_prefix::<C>(keys, n, #[trigger] spec_culprits::<C>(keys, sp, bf, shares, ys, c, n)[i])
            && share_bad::<C>(sp, bf, shares, ys, c, spec_culprits::<C>(keys, sp, bf, shares, ys, c, n)[i]),
{
    let cur = spec_culprits::<C>(keys, sp, bf, shares, ys, c, n);
    lemma_culprits_members::<C>(keys, sp, bf, shares, ys, c, n);
    assert forall|k: int| 0 <= k < n implies (cur.contains(#[trigger] keys[k]) <==> !sp_share_ok::<C>(sp, bf, keys[k], shares[keys[k]].share.0, ys[keys[k]].0.0, c)) by {
        assert(in_prefix::<C>(keys, n, keys[k]));
    }
    assert forall|i: int| 0 <= i < cur.len() implies in_prefix::<C>(keys, n, #[trigger] cur[i]) && share_bad::<C>(sp, bf, shares, ys, c, cur[i]) by {
        assert(cur.contains(cur[i]));
    }
}

// order: the reported identifiers appear in the order of `keys`
//@serves C04
pub proof fn lemma_culprits_ordered<C: Ciphersuite>(keys: Seq<Identifier<C>>, sp: SigningPackage<C>, bf: Map<Identifier<C>, BindingFactor<C>>,
        shares: ShareMap<C>, ys: Map<Identifier<C>, VerifyingShare<C>>, c: Scalar<C>, n: int)
    requires 0 <= n <= keys.len()
    ensures forall|i: int, j: int| #![trigger spec_culprits::<C>(keys, sp, bf, shares, ys, c, n)[i], spec_culprits::<C>(keys, sp, bf, shares, ys, c, n)[j]]
        0 <= i < j < spec_culprits::<C>(keys, sp, bf, shares, ys, c, n).len() ==>
            key_before::<C>(keys, n, spec_culprits::<C>(keys, sp, bf, shares, ys, c, n)[i], spec_culprits::<C>(keys, sp, bf, shares, ys, c, n)[j])
    decreases n
{
    let cur = spec_culprits::<C>(keys, sp, bf, shares, ys, c, n);
    if n > 0 {
        lemma_culprits_ordered::<C>(keys, sp, bf, shares, ys, c, n - 1);
        lemma_culprits_members::<C>(keys, sp, bf, shares, ys, c, n - 1);
        let r = spec_culprits::<C>(keys, sp, bf, shares, ys, c, n - 1);
        let last = keys[n - 1];
        assert(cur == r || cur == r.push(last));
        assert forall|i: int, j: int| #![trigger cur[i], cur[j]] 0 <= i < j < cur.len() implies key_before::<C>(keys, n, cur[i], cur[j]) by {
            if j < r.len() {
                assert(r[i] == cur[i] && r[j] == cur[j]);
                assert(key_before::<C>(keys, n - 1, r[i], r[j]));
                let (a, b) = choose|a: int, b: int| #![trigger keys[a], keys[b]] 0 <= a < b < n - 1 && keys[a] == r[i] && keys[b] == r[j];
                assert(0 <= a < b < n && keys[a] == cur[i] && keys[b] == cur[j]);
            } else {
                assert(cur[j] == last);
                assert(r[i] == cur[i]);
                assert(r.contains(r[i]));
                let a = choose|a: int| 0 <= a < n - 1 && #[trigger] keys[a] == r[i];
                assert(0 <= a < n - 1 < n && keys[a] == cur[i] && keys[n - 1] == cur[j]);
            }
        }
    } else {
        assert(cur.len() == 0);
    }
}

// hence for strictly ascending keys (BTreeMap iteration order) the report is strictly ascending as well
//@serves C04
pub proof fn lemma_culprits_increasing<C: Ciphersuite>(keys: Seq<Identifier<C>>, sp: SigningPackage<C>, bf: Map<Identifier<C>, BindingFactor<C>>,
        shares: ShareMap<C>, ys: Map<Identifier<C>, VerifyingShare<C>>, c: Scalar<C>, n: int)
    requires 0 <= n <= keys.len(), vstd::std_specs::btree::increasing_seq(keys)
    ensures forall|i: int, j: int| #![trigger spec_culprits::<C>(keys, sp, bf, shares, ys, c, n)[i], spec_culprits::<C>(keys, sp, bf, shares, ys, c, n)[j]]
        0 <= i < j < spec_culprits::<C>(keys, sp, bf, shares, ys, c, n).len() ==>
            lt(spec_culprits::<C>(keys, sp, bf, shares, ys, c, n)[i], spec_culprits::<C>(keys, sp, bf, shares, ys, c, n)[j])
{
    use_id_order::<C>();
    broadcast use vstd::std_specs::btree::axiom_increasing_seq_meaning;
    let cur = spec_culprits::<C>(keys, sp, bf, shares, ys, c, n);
    lemma_culprits_ordered::<C>(keys, sp, bf, shares, ys, c, n);
    assert forall|i: int, j: int| #![trigger cur[i], cur[j]] 0 <= i < j < cur.len() implies lt(cur[i], cur[j]) by {
        assert(key_before::<C>(keys, n, cur[i], cur[j]));
        let (a, b) = choose|a: int, b: int| #![trigger keys[a], keys[b]] 0 <= a < b < n && keys[a] == cur[i] && keys[b] == cur[j];
        assert(lt(keys[a], keys[b]));
    }
}

// the first reported identifier is the first key (in the order of `keys`) whose share fails
//@serves C04
pub proof fn lemma_culprits_first<C: Ciphersuite>(keys: Seq<Identifier<C>>, sp: SigningPackage<C>, bf: Map<Identifier<C>, BindingFactor<C>>,
        shares: ShareMap<C>, ys: Map<Identifier<C>, VerifyingShare<C>>, c: Scalar<C>, n: int, k: int)
    requires 0 <= k < n <= keys.len(), share_bad::<C>(sp, bf, shares, ys, c, keys[k]),
        forall|j: int| 0 <= j < k ==> !share_bad::<C>(sp, bf, shares, ys, c, #[trigger] keys[j]),
    ensures spec_culprits::<C>(keys, sp, bf, shares, ys, c, n).len() > 0, spec_culprits::<C>(keys, sp, bf, shares, ys, c, n)[0] == keys[k]
{
    lemma_culprits_empty_prefix::<C>(keys, sp, bf, shares, ys, c, k);
    let one = spec_culprits::<C>(keys, sp, bf, shares, ys, c, k + 1);
    assert(one == spec_culprits::<C>(keys, sp, bf, shares, ys, c, k).push(keys[k]));
    assert(one.len() == 1 && one[0] == keys[k]);
    lemma_culprits_prefix::<C>(keys, sp, bf, shares, ys, c, k + 1, n);
}

// T4c (first-cheater mode): the participant named first is a participant whose share fails, and it is the LOWEST such
// identifier: every other participant whose share fails is greater
//@serves C04
pub proof fn thm_first_culprit_lowest<C: Ciphersuite>(sp: SigningPackage<C>, shares: ShareMap<C>, pk: PublicKeyPackage<C>)
    requires shares.dom().finite(), agg_culprits::<C>(sp, shares, pk).len() > 0
    ensures ({
        let vk = pk.verifying_key.element.0; let bf = sp_rho_map::<C>(sp, vk); let c = sp_c::<C>(sp, vk); let ys = pk.verifying_shares@;
        let first = agg_culprits::<C>(sp, shares, pk)[0];
        &&& shares.contains_key(first)
        &&& share_bad::<C>(sp, bf, shares, ys, c, first)
        &&& forall|id: Identifier<C>| #[trigger] shares.contains_key(id) && share_bad::<C>(sp, bf, shares, ys, c, id) ==> id == first || lt(first, id)
        &&& forall|id: Identifier<C>| #[trigger] shares.contains_key(id) && share_bad::<C>(sp, bf, shares, ys, c, id) ==> !lt(id, first)
    })
{
    use_id_order::<C>();
    let vk = pk.verifying_key.element.0; let bf = sp_rho_map::<C>(sp, vk); let c = sp_c::<C>(sp, vk); let ys = pk.verifying_shares@;
    let keys = sorted_seq(shares.dom());
    lemma_sorted_exists::<C>(shares.dom());
    keys.unique_seq_to_set();
    let n = shares.dom().len() as int;
    let cu = agg_culprits::<C>(sp, shares, pk);
    assert(cu == spec_culprits::<C>(keys, sp, bf, shares, ys, c, n));
    let first = cu[0];
    lemma_culprits_members::<C>(keys, sp, bf, shares, ys, c, n);
    lemma_culprits_increasing::<C>(keys, sp, bf, shares, ys, c, n);
    assert(cu.contains(first));
    let j0 = choose|j: int| 0 <= j < n && #[trigger] keys[j] == first;
    assert(keys.contains(first));
    assert(keys.to_set().contains(first));
    assert forall|id: Identifier<C>| #[trigger] shares.contains_key(id) && share_bad::<C>(sp, bf, shares, ys, c, id) implies (id == first || lt(first, id)) && !lt(id, first) by {
        assert(keys.to_set().contains(id));
        let j = choose|j: int| 0 <= j < keys.len() && keys[j] == id;
        assert(in_prefix::<C>(keys, n, id));
        assert(cu.contains(id));
        let i = choose|i: int| 0 <= i < cu.len() && cu[i] == id;
        if i > 0 { assert(lt(cu[0], cu[i])); }
        if lt(id, first) { if i > 0 { assert(lt(first, first)); } }
    }
}

// ---------------------------------------------------------------------------------------------------
// T5a/b (C03): the threshold guards
//@serves C03
pub proof fn thm_sign_refuses_below_threshold<C: Ciphersuite>(sp: SigningPackage<C>, sn: crate::round1::SigningNonces<C>, kp: KeyPackage<C>)
    requires sp.signing_commitments@.dom().len() < kp.min_signers
    ensures spec_sign::<C>(sp, sn, kp) == Err::<crate::round2::SignatureShare<C>, Error<C>>(Error::IncorrectNumberOfCommitments)
{}

//@serves C03
pub proof fn thm_aggregate_refuses_below_threshold<C: Ciphersuite>(sp: SigningPackage<C>, shares: ShareMap<C>, pk: PublicKeyPackage<C>, detect: bool, t: u16)
    requires pk.min_signers == Some(t), sp.signing_commitments@.dom().len() == shares.dom().len(), shares.dom().len() < t
    ensures agg_guard_err::<C>(sp, shares, pk, detect) == Some(Error::<C>::IncorrectNumberOfShares)
{}

// ... and hence whatever aggregate returns below the threshold is that refusal (never a signature)
//@serves C03
pub proof fn thm_aggregate_result_below_threshold<C: Ciphersuite>(res: Result<Signature<C>, Error<C>>, sp: SigningPackage<C>, shares: ShareMap<C>, pk: PublicKeyPackage<C>,
        detect: bool, first: bool, t: u16)
    requires agg_result_is::<C>(res, sp, shares, pk, detect, first), pk.min_signers == Some(t), shares.dom().len() < t
    ensures res is Err, res->Err_0 == Error::<C>::IncorrectNumberOfShares || res->Err_0 == Error::<C>::UnknownIdentifier,
        sp.signing_commitments@.dom().len() == shares.dom().len() ==> res->Err_0 == Error::<C>::IncorrectNumberOfShares
{}

// ---------------------------------------------------------------------------------------------------
// T6a (C05): the signer's and the coordinator's refusals that bind a share to its session
//@serves C05
pub proof fn thm_sign_refuses_missing<C: Ciphersuite>(sp: SigningPackage<C>, sn: crate::round1::SigningNonces<C>, kp: KeyPackage<C>)
    requires sp.signing_commitments@.dom().len() >= kp.min_signers, !sp.signing_commitments@.contains_key(kp.identifier)
    ensures spec_sign::<C>(sp, sn, kp) == Err::<crate::round2::SignatureShare<C>, Error<C>>(Error::MissingCommitment)
{}

//@serves C05
pub proof fn thm_sign_refuses_incorrect<C: Ciphersuite>(sp: SigningPackage<C>, sn: crate::round1::SigningNonces<C>, kp: KeyPackage<C>)
    requires sp.signing_commitments@.dom().len() >= kp.min_signers, sp.signing_commitments@.contains_key(kp.identifier),
        sn.commitments != sp.signing_commitments@[kp.identifier]
    ensures spec_sign::<C>(sp, sn, kp) == Err::<crate::round2::SignatureShare<C>, Error<C>>(Error::IncorrectCommitment)
{}

//@serves C05
pub proof fn thm_sign_refuses_identity<C: Ciphersuite>(sp: SigningPackage<C>, sn: crate::round1::SigningNonces<C>, kp: KeyPackage<C>)
    requires sp.signing_commitments@.dom().len() >= kp.min_signers, sp.signing_commitments@.contains_key(kp.identifier),
        sn.commitments == sp.signing_commitments@[kp.identifier], items_have_identity::<C>(sp_items::<C>(sp))
    ensures spec_sign::<C>(sp, sn, kp) == Err::<crate::round2::SignatureShare<C>, Error<C>>(Error::GroupError(GroupError::InvalidIdentityElement))
{}

// whatever the other guards say, a signer never signs a package with an identity commitment, a package that lacks its own entry
// or whose entry differs from the commitments it made, or a package below its threshold
//@serves C03 C05
pub proof fn thm_sign_ok_implies_session_sound<C: Ciphersuite>(sp: SigningPackage<C>, sn: crate::round1::SigningNonces<C>, kp: KeyPackage<C>)
    requires spec_sign::<C>(sp, sn, kp) is Ok
    ensures sp.signing_commitments@.dom().len() >= kp.min_signers, sp.signing_commitments@.contains_key(kp.identifier),
        sn.commitments == sp.signing_commitments@[kp.identifier], !items_have_identity::<C>(sp_items::<C>(sp)),
        kp.verifying_key.element.0 != e0::<C>(), sp_R::<C>(sp, kp.verifying_key.element.0) != e0::<C>(),
        (spec_sign::<C>(sp, sn, kp)->Ok_0).share.0 == spec_sig_share::<C>(sn.hiding.0.0, sn.binding.0.0, sp_rho::<C>(sp, kp.verifying_key.element.0, kp.identifier),
            sp_lambda::<C>(sp, kp.identifier), kp.signing_share.0.0, sp_c::<C>(sp, kp.verifying_key.element.0)),
{}

// the coordinator refuses a package with an identity commitment (whatever the other guards say)
//@serves C05
pub proof fn thm_aggregate_refuses_identity<C: Ciphersuite>(res: Result<Signature<C>, Error<C>>, sp: SigningPackage<C>, shares: ShareMap<C>, pk: PublicKeyPackage<C>, detect: bool, first: bool)
    requires items_have_identity::<C>(sp_items::<C>(sp))
    ensures agg_guard_err::<C>(sp, shares, pk, detect) is Some,
        agg_result_is::<C>(res, sp, shares, pk, detect, first) ==> res is Err,
        // with the exact error once the membership guards pass
        sp.signing_commitments@.dom().len() == shares.dom().len() && !(pk.min_signers is Some && shares.dom().len() < pk.min_signers->Some_0)
            && (forall|id: Identifier<C>| #[trigger] sp.signing_commitments@.contains_key(id) ==> shares.contains_key(id) && (detect ==> pk.verifying_shares@.contains_key(id)))
            ==> agg_guard_err::<C>(sp, shares, pk, detect) == Some(Error::<C>::GroupError(GroupError::InvalidIdentityElement)),
{}

// stand-alone share verification refuses such a package first of all
//@serves C05
pub proof fn thm_verify_share_refuses_identity<C: Ciphersuite>(id: Identifier<C>, sp: SigningPackage<C>, vk: Element<C>)
    requires items_have_identity::<C>(sp_items::<C>(sp))
    ensures vshare_session_err::<C>(id, sp, vk) == Some(Error::<C>::GroupError(GroupError::InvalidIdentityElement))
{}

// `items_have_identity` at the level of the map: some participant's hiding or binding commitment is the identity
//@serves C05
pub proof fn lemma_items_identity_iff<C: Ciphersuite>(sp: SigningPackage<C>)
    requires sp.signing_commitments@.dom().finite()
    ensures items_have_identity::<C>(sp_items::<C>(sp)) <==> exists|id: Identifier<C>| #[trigger] sp.signing_commitments@.contains_key(id) && sc_has_identity::<C>(sp.signing_commitments@[id])
{
    let m = sp.signing_commitments@; let keys = sorted_seq(m.dom()); let items = sp_items::<C>(sp);
    lemma_sorted_exists::<C>(m.dom());
    if items_have_identity::<C>(items) {
        let k = choose|k: int| 0 <= k < items.len() && sc_has_identity::<C>((#[trigger] items[k]).1);
        assert(items[k] == (keys[k], m[keys[k]]));
        assert(keys.contains(keys[k]));
        assert(keys.to_set().contains(keys[k]));
        assert(m.contains_key(keys[k]) && sc_has_identity::<C>(m[keys[k]]));
    }
    if exists|id: Identifier<C>| #[trigger] m.contains_key(id) && sc_has_identity::<C>(m[id]) {
        let id = choose|id: Identifier<C>| #[trigger] m.contains_key(id) && sc_has_identity::<C>(m[id]);
        assert(keys.to_set().contains(id));
        let k = choose|k: int| 0 <= k < keys.len() && keys[k] == id;
        assert(items[k] == (id, m[id]));
        assert(sc_has_identity::<C>(items[k].1));
    }
}

// ---------------------------------------------------------------------------------------------------
// T4e/f (C04): what aggregate releases, and what it reports with cheater detection disabled
//@serves C04 C01
pub proof fn thm_released_signature_verifies<C: Ciphersuite>(res: Result<Signature<C>, Error<C>>, sp: SigningPackage<C>, shares: ShareMap<C>, pk: PublicKeyPackage<C>, detect: bool, first: bool)
    requires agg_result_is::<C>(res, sp, shares, pk, detect, first), res is Ok
    ensures spec_verify::<C>(pk.verifying_key, sp.message@, res->Ok_0) is Ok,
        res->Ok_0 == agg_sig::<C>(sp, shares, pk.verifying_key.element.0),
        agg_guard_err::<C>(sp, shares, pk, detect) is None,
{}

// conversely: if the shares do not add up to a valid signature, aggregation fails (in every mode)
//@serves C04
pub proof fn thm_invalid_sum_fails<C: Ciphersuite>(res: Result<Signature<C>, Error<C>>, sp: SigningPackage<C>, shares: ShareMap<C>, pk: PublicKeyPackage<C>, detect: bool, first: bool)
    requires agg_result_is::<C>(res, sp, shares, pk, detect, first),
        spec_verify::<C>(pk.verifying_key, sp.message@, agg_sig::<C>(sp, shares, pk.verifying_key.element.0)) is Err
    ensures res is Err
{}

// disabled mode names nobody; once the coordinator's guards pass and the group commitment is not the identity the report is InvalidSignature
//@serves C04
pub proof fn thm_disabled_names_nobody<C: Ciphersuite>(res: Result<Signature<C>, Error<C>>, sp: SigningPackage<C>, shares: ShareMap<C>, pk: PublicKeyPackage<C>, first: bool)
    requires agg_result_is::<C>(res, sp, shares, pk, false, first), res is Err
    ensures !(res->Err_0 is InvalidSignatureShare),
        agg_guard_err::<C>(sp, shares, pk, false) is None && sp_R::<C>(sp, pk.verifying_key.element.0) != e0::<C>() ==> res->Err_0 == Error::<C>::InvalidSignature,
        agg_guard_err::<C>(sp, shares, pk, false) is None && sp_R::<C>(sp, pk.verifying_key.element.0) == e0::<C>() ==> res->Err_0 == Error::<C>::GroupError(GroupError::InvalidIdentityElement),
{}

// the two detecting modes: exactly the list / its first element, and only when the aggregate does not verify
//@serves C04
pub proof fn thm_detect_modes_report<C: Ciphersuite>(res: Result<Signature<C>, Error<C>>, sp: SigningPackage<C>, shares: ShareMap<C>, pk: PublicKeyPackage<C>, first: bool)
    requires agg_result_is::<C>(res, sp, shares, pk, true, first), res is Err, agg_guard_err::<C>(sp, shares, pk, true) is None,
        sp_R::<C>(sp, pk.verifying_key.element.0) != e0::<C>()
    ensures
        spec_verify::<C>(pk.verifying_key, sp.message@, agg_sig::<C>(sp, shares, pk.verifying_key.element.0)) is Err,
        agg_culprits::<C>(sp, shares, pk).len() == 0 ==> res->Err_0 == Error::<C>::InvalidSignature,
        agg_culprits::<C>(sp, shares, pk).len() > 0 ==> res->Err_0 is InvalidSignatureShare,
        agg_culprits::<C>(sp, shares, pk).len() > 0 && first ==> (res->Err_0->culprits)@ == seq![agg_culprits::<C>(sp, shares, pk)[0]],
        agg_culprits::<C>(sp, shares, pk).len() > 0 && !first ==> (res->Err_0->culprits)@ == agg_culprits::<C>(sp, shares, pk),
{}

// ---------------------------------------------------------------------------------------------------
// T2 (C01): the sum of the honest shares of >= t signers is a valid signature under the group key
// partial sums  sum_{j<k} g(keys[j])
pub open spec fn psum<C: Ciphersuite>(keys: Seq<Identifier<C>>, g: spec_fn(Identifier<C>) -> Scalar<C>, k: int) -> Scalar<C> { id_sum::<C>(keys.take(k), g) }

//@serves C01
pub proof fn lemma_psum_zero<C: Ciphersuite>(keys: Seq<Identifier<C>>, g: spec_fn(Identifier<C>) -> Scalar<C>)
    ensures psum::<C>(keys, g, 0) == s0::<C>()
{ assert(keys.take(0).len() == 0); }

//@serves C01
pub proof fn lemma_psum_step<C: Ciphersuite>(keys: Seq<Identifier<C>>, g: spec_fn(Identifier<C>) -> Scalar<C>, k: int)
    requires 0 <= k < keys.len()
    ensures psum::<C>(keys, g, k + 1) == sadd::<C>(psum::<C>(keys, g, k), g(keys[k]))
{
    assert(keys.take(k + 1).drop_last() =~= keys.take(k));
    assert(keys.take(k + 1).last() == keys[k]);
}

// the three summands of an honest share as functions of the identifier
pub open spec fn nonce_d<C: Ciphersuite>(nonce: spec_fn(Identifier<C>) -> (Scalar<C>, Scalar<C>)) -> spec_fn(Identifier<C>) -> Scalar<C>
{ |id: Identifier<C>| nonce(id).0 }
pub open spec fn nonce_er<C: Ciphersuite>(sp: SigningPackage<C>, vk: Element<C>, nonce: spec_fn(Identifier<C>) -> (Scalar<C>, Scalar<C>)) -> spec_fn(Identifier<C>) -> Scalar<C>
{ |id: Identifier<C>| smul::<C>(nonce(id).1, sp_rho::<C>(sp, vk, id)) }
pub open spec fn lam_share<C: Ciphersuite>(sp: SigningPackage<C>, a: Seq<Scalar<C>>) -> spec_fn(Identifier<C>) -> Scalar<C>
{ |id: Identifier<C>| smul::<C>(sp_lambda::<C>(sp, id), poly::<AL<C>>(a, id.0.0)) }

// (A + B) + (a + b) == (A + a) + (B + b)
//@serves C01
pub proof fn lemma_sadd_swap22<C: Ciphersuite>(A: Scalar<C>, B: Scalar<C>, a: Scalar<C>, b: Scalar<C>)
    ensures sadd::<C>(sadd::<C>(A, B), sadd::<C>(a, b)) == sadd::<C>(sadd::<C>(A, a), sadd::<C>(B, b))
{
    FF::<C>::ax_add_assoc(A, B, sadd::<C>(a, b));
    FF::<C>::ax_add_assoc(B, a, b);
    FF::<C>::ax_add_comm(B, a);
    FF::<C>::ax_add_assoc(a, B, b);
    FF::<C>::ax_add_assoc(A, a, sadd::<C>(B, b));
}

// the k-th entry of the commitment list is (keys[k], map[keys[k]]) and keys[k] is a participant
//@serves C01
pub proof fn lemma_sp_item<C: Ciphersuite>(sp: SigningPackage<C>, k: int)
    requires sp.signing_commitments@.dom().finite(), 0 <= k < sorted_seq(sp.signing_commitments@.dom()).len()
    ensures sp.signing_commitments@.contains_key(sorted_seq(sp.signing_commitments@.dom())[k]),
        sp_items::<C>(sp).len() == sorted_seq(sp.signing_commitments@.dom()).len(),
        sp_items::<C>(sp)[k] == (sorted_seq(sp.signing_commitments@.dom())[k], sp.signing_commitments@[sorted_seq(sp.signing_commitments@.dom())[k]]),
{
    let keys = sorted_seq(sp.signing_commitments@.dom());
    lemma_sorted_exists::<C>(sp.signing_commitments@.dom());
    assert(keys.contains(keys[k]));
    assert(keys.to_set().contains(keys[k]));
}

// sum of the hiding commitments = G * (sum of the hiding nonces)
//@serves C01
pub proof fn lemma_gc_hiding_honest<C: Ciphersuite>(sp: SigningPackage<C>, nonce: spec_fn(Identifier<C>) -> (Scalar<C>, Scalar<C>), k: int)
    requires sp.signing_commitments@.dom().finite(), honest_commitments::<C>(sp, nonce), 0 <= k <= sorted_seq(sp.signing_commitments@.dom()).len()
    ensures gc_hiding::<C>(sp_items::<C>(sp), k) == gmul::<C>(psum::<C>(sorted_seq(sp.signing_commitments@.dom()), nonce_d::<C>(nonce), k))
    decreases k
{
    let keys = sorted_seq(sp.signing_commitments@.dom()); let g = eg::<C>();
    if k == 0 {
        lemma_psum_zero::<C>(keys, nonce_d::<C>(nonce));
        lemma_smul_zero::<C>(g);
    } else {
        lemma_gc_hiding_honest::<C>(sp, nonce, k - 1);
        lemma_sp_item::<C>(sp, k - 1);
        lemma_psum_step::<C>(keys, nonce_d::<C>(nonce), k - 1);
        GG::<C>::ax_smul_add(g, psum::<C>(keys, nonce_d::<C>(nonce), k - 1), nonce(keys[k - 1]).0);
    }
}

// sum of the binding commitments times their binding factors = G * (sum of e_i * rho_i)
//@serves C01
pub proof fn lemma_gc_binding_honest<C: Ciphersuite>(sp: SigningPackage<C>, vk: Element<C>, nonce: spec_fn(Identifier<C>) -> (Scalar<C>, Scalar<C>), k: int)
    requires sp.signing_commitments@.dom().finite(), honest_commitments::<C>(sp, nonce), 0 <= k <= sorted_seq(sp.signing_commitments@.dom()).len()
    ensures gc_binding::<C>(sp_items::<C>(sp), sp_rho_map::<C>(sp, vk), k) == gmul::<C>(psum::<C>(sorted_seq(sp.signing_commitments@.dom()), nonce_er::<C>(sp, vk, nonce), k))
    decreases k
{
    let keys = sorted_seq(sp.signing_commitments@.dom()); let g = eg::<C>();
    if k == 0 {
        lemma_psum_zero::<C>(keys, nonce_er::<C>(sp, vk, nonce));
        lemma_smul_zero::<C>(g);
    } else {
        lemma_gc_binding_honest::<C>(sp, vk, nonce, k - 1);
        lemma_sp_item::<C>(sp, k - 1);
        lemma_psum_step::<C>(keys, nonce_er::<C>(sp, vk, nonce), k - 1);
        let id = keys[k - 1];
        assert(sp_rho_map::<C>(sp, vk)[id].0 == sp_rho::<C>(sp, vk, id));
        GG::<C>::ax_smul_mul(g, nonce(id).1, sp_rho::<C>(sp, vk, id));
        GG::<C>::ax_smul_add(g, psum::<C>(keys, nonce_er::<C>(sp, vk, nonce), k - 1), smul::<C>(nonce(id).1, sp_rho::<C>(sp, vk, id)));
    }
}

// the group commitment of an honest session is G * (sum d_i + sum e_i rho_i)
//@serves C01
pub proof fn lemma_R_honest<C: Ciphersuite>(sp: SigningPackage<C>, vk: Element<C>, nonce: spec_fn(Identifier<C>) -> (Scalar<C>, Scalar<C>))
    requires sp.signing_commitments@.dom().finite(), honest_commitments::<C>(sp, nonce)
    ensures ({ let keys = sorted_seq(sp.signing_commitments@.dom()); let n = keys.len() as int;
        sp_R::<C>(sp, vk) == gmul::<C>(sadd::<C>(psum::<C>(keys, nonce_d::<C>(nonce), n), psum::<C>(keys, nonce_er::<C>(sp, vk, nonce), n))) })
{
    let keys = sorted_seq(sp.signing_commitments@.dom()); let n = keys.len() as int;
    assert(sp_items::<C>(sp).len() == n);
    lemma_gc_hiding_honest::<C>(sp, nonce, n);
    lemma_gc_binding_honest::<C>(sp, vk, nonce, n);
    GG::<C>::ax_smul_add(eg::<C>(), psum::<C>(keys, nonce_d::<C>(nonce), n), psum::<C>(keys, nonce_er::<C>(sp, vk, nonce), n));
}

// the sum of the honest shares:  z = (sum d_i + sum e_i rho_i) + (sum lambda_i s_i) * c
//@serves C01
pub proof fn lemma_z_sum_honest<C: Ciphersuite>(sp: SigningPackage<C>, vk: Element<C>, a: Seq<Scalar<C>>, nonce: spec_fn(Identifier<C>) -> (Scalar<C>, Scalar<C>), shares: ShareMap<C>, k: int)
    requires sp.signing_commitments@.dom().finite(), 0 <= k <= sorted_seq(sp.signing_commitments@.dom()).len(),
        forall|id: Identifier<C>| #[trigger] sp.signing_commitments@.contains_key(id) ==> shares[id].share.0 == honest_share::<C>(sp, vk, a, nonce, id),
    ensures ({ let keys = sorted_seq(sp.signing_commitments@.dom());
        spec_z_sum::<C>(keys, shares, k) == sadd::<C>(sadd::<C>(psum::<C>(keys, nonce_d::<C>(nonce), k), psum::<C>(keys, nonce_er::<C>(sp, vk, nonce), k)),
            smul::<C>(psum::<C>(keys, lam_share::<C>(sp, a), k), sp_c::<C>(sp, vk))) })
    decreases k
{
    let keys = sorted_seq(sp.signing_commitments@.dom()); let c = sp_c::<C>(sp, vk);
    let gd = nonce_d::<C>(nonce); let ge = nonce_er::<C>(sp, vk, nonce); let gl = lam_share::<C>(sp, a);
    if k == 0 {
        lemma_psum_zero::<C>(keys, gd); lemma_psum_zero::<C>(keys, ge); lemma_psum_zero::<C>(keys, gl);
        lemma_mul_zero::<AL<C>>(c);
        FF::<C>::ax_add_zero(s0::<C>());
    } else {
        lemma_z_sum_honest::<C>(sp, vk, a, nonce, shares, k - 1);
        lemma_sp_item::<C>(sp, k - 1);
        lemma_psum_step::<C>(keys, gd, k - 1); lemma_psum_step::<C>(keys, ge, k - 1); lemma_psum_step::<C>(keys, gl, k - 1);
        let id = keys[k - 1];
        let D = psum::<C>(keys, gd, k - 1); let E = psum::<C>(keys, ge, k - 1); let L = psum::<C>(keys, gl, k - 1);
        let d = gd(id); let er = ge(id); let ls = gl(id);
        assert(shares[id].share.0 == sadd::<C>(sadd::<C>(d, er), smul::<C>(ls, c)));
        // ((D + E) + L c) + ((d + er) + ls c) == ((D + E) + (d + er)) + (L c + ls c) == ((D + d) + (E + er)) + (L + ls) c
        lemma_sadd_swap22::<C>(sadd::<C>(D, E), smul::<C>(L, c), sadd::<C>(d, er), smul::<C>(ls, c));
        lemma_sadd_swap22::<C>(D, E, d, er);
        FF::<C>::ax_mul_comm(sadd::<C>(L, ls), c); FF::<C>::ax_distrib(c, L, ls); FF::<C>::ax_mul_comm(c, L); FF::<C>::ax_mul_comm(c, ls);
    }
}

// sum_i lambda_i * a(i) == a(0) == a[0]  for at least |a| participants  (Lagrange interpolation at 0 over the participants of the package)
//@serves C01 C03
pub proof fn lemma_lambda_sum<C: Ciphersuite>(sp: SigningPackage<C>, a: Seq<Scalar<C>>)
    requires sp.signing_commitments@.dom().finite(), 1 <= a.len() <= sp.signing_commitments@.dom().len()
    ensures psum::<C>(sorted_seq(sp.signing_commitments@.dom()), lam_share::<C>(sp, a), sorted_seq(sp.signing_commitments@.dom()).len() as int) == a[0],
        sorted_seq(sp.signing_commitments@.dom()).len() == sp.signing_commitments@.dom().len()
{
    let keys = sorted_seq(sp.signing_commitments@.dom());
    lemma_sorted_exists::<C>(sp.signing_commitments@.dom());
    keys.unique_seq_to_set();
    let gl = lam_share::<C>(sp, a); let lt0 = lag_term::<C>(keys, a, s0::<C>());
    assert forall|k: int| 0 <= k < keys.len() implies gl(#[trigger] keys[k]) == lt0(keys[k]) by {
        let i = keys[k];
        lemma_lag0::<AL<C>>(scalars::<C>(keys), i.0.0);
        FF::<C>::ax_mul_comm(sp_lambda::<C>(sp, i), poly::<AL<C>>(a, i.0.0));
    }
    lemma_id_sum_ext::<C>(keys, gl, lt0);
    lemma_interpolate_at::<C>(keys, a, s0::<C>());
    lemma_poly_at_zero::<C>(a);
    assert(keys.take(keys.len() as int) =~= keys);
}

// (R + X) - X - R == 0: a signature satisfying the Schnorr equation  z G == R + c * PK  passes (cofactored) verification
//@serves C01
pub proof fn lemma_schnorr_equation_valid<C: Ciphersuite>(vkey: VerifyingKey<C>, c: Scalar<C>, sig: Signature<C>)
    requires gmul::<C>(sig.z) == eadd::<C>(sig.R, emul::<C>(vkey.element.0, c))
    ensures spec_sig_valid::<C>(vkey, Challenge::<C>(c), sig), spec_delta::<C>(vkey, Challenge::<C>(c), sig) == e0::<C>()
{
    let x = emul::<C>(vkey.element.0, c);
    GG::<C>::ax_eadd_assoc(sig.R, x, GG::<C>::e_neg(x));
    GG::<C>::ax_eadd_neg(x);
    GG::<C>::ax_eadd_id(sig.R);
    GG::<C>::ax_eadd_neg(sig.R);
    lemma_smul_id::<C>(GG::<C>::s_cofactor());
}

// the core equation:  G * z == R + c * PK
//@serves C01
pub proof fn lemma_honest_sum_equation<C: Ciphersuite>(sp: SigningPackage<C>, vk: Element<C>, a: Seq<Scalar<C>>, nonce: spec_fn(Identifier<C>) -> (Scalar<C>, Scalar<C>), shares: ShareMap<C>)
    requires sp.signing_commitments@.dom().finite(), 1 <= a.len() <= sp.signing_commitments@.dom().len(), vk == gmul::<C>(a[0]),
        honest_commitments::<C>(sp, nonce), shares.dom() == sp.signing_commitments@.dom(),
        forall|id: Identifier<C>| #[trigger] sp.signing_commitments@.contains_key(id) ==> shares[id].share.0 == honest_share::<C>(sp, vk, a, nonce, id),
    ensures gmul::<C>(agg_sig::<C>(sp, shares, vk).z) == eadd::<C>(sp_R::<C>(sp, vk), emul::<C>(vk, sp_c::<C>(sp, vk))),
        agg_sig::<C>(sp, shares, vk).R == sp_R::<C>(sp, vk)
{
    let keys = sorted_seq(sp.signing_commitments@.dom()); let n = keys.len() as int; let c = sp_c::<C>(sp, vk); let g = eg::<C>();
    let D = psum::<C>(keys, nonce_d::<C>(nonce), n); let E = psum::<C>(keys, nonce_er::<C>(sp, vk, nonce), n);
    lemma_lambda_sum::<C>(sp, a);
    lemma_z_sum_honest::<C>(sp, vk, a, nonce, shares, n);
    lemma_R_honest::<C>(sp, vk, nonce);
    assert(agg_sig::<C>(sp, shares, vk).z == sadd::<C>(sadd::<C>(D, E), smul::<C>(a[0], c)));
    GG::<C>::ax_smul_add(g, sadd::<C>(D, E), smul::<C>(a[0], c));
    GG::<C>::ax_smul_mul(g, a[0], c);
}

// T2
//@serves C01
pub proof fn thm_honest_sum_verifies<C: Ciphersuite>(sp: SigningPackage<C>, vkey: VerifyingKey<C>, a: Seq<Scalar<C>>, ys: Map<Identifier<C>, VerifyingShare<C>>,
        nonce: spec_fn(Identifier<C>) -> (Scalar<C>, Scalar<C>), shares: ShareMap<C>)
    requires sp.signing_commitments@.dom().finite(),
        honest_keys::<C>(a, vkey.element.0, ys, sp.signing_commitments@.dom()), a.len() <= sp.signing_commitments@.dom().len(),
        honest_commitments::<C>(sp, nonce), shares.dom() == sp.signing_commitments@.dom(),
        forall|id: Identifier<C>| #[trigger] sp.signing_commitments@.contains_key(id) ==> shares[id].share.0 == honest_share::<C>(sp, vkey.element.0, a, nonce, id),
        vkey.element.0 != e0::<C>(), sp_R::<C>(sp, vkey.element.0) != e0::<C>(),
    ensures spec_verify::<C>(vkey, sp.message@, agg_sig::<C>(sp, shares, vkey.element.0)) == Ok::<(), Error<C>>(()),
        vkey == (VerifyingKey::<C> { element: SerializableElement(vkey.element.0) }),
{
    let vk = vkey.element.0;
    lemma_honest_sum_equation::<C>(sp, vk, a, nonce, shares);
    lemma_schnorr_equation_valid::<C>(vkey, sp_c::<C>(sp, vk), agg_sig::<C>(sp, shares, vk));
}

// the coordinator's guards pass in the honest setup
//@serves C01
pub proof fn lemma_honest_guard_none<C: Ciphersuite>(sp: SigningPackage<C>, shares: ShareMap<C>, pk: PublicKeyPackage<C>, detect: bool)
    requires shares.dom() == sp.signing_commitments@.dom(),
        pk.min_signers is Some ==> pk.min_signers->Some_0 <= shares.dom().len(),
        forall|id: Identifier<C>| #[trigger] sp.signing_commitments@.contains_key(id) ==> pk.verifying_shares@.contains_key(id),
        pk.verifying_key.element.0 != e0::<C>(), !items_have_identity::<C>(sp_items::<C>(sp)),
    ensures agg_guard_err::<C>(sp, shares, pk, detect) is None
{}

// commitments to non-zero nonces are not the identity; a non-zero group secret gives a non-identity group key
//@serves C01
pub proof fn lemma_honest_no_identity<C: Ciphersuite>(sp: SigningPackage<C>, nonce: spec_fn(Identifier<C>) -> (Scalar<C>, Scalar<C>))
    requires sp.signing_commitments@.dom().finite(), honest_commitments::<C>(sp, nonce),
        forall|id: Identifier<C>| #[trigger] sp.signing_commitments@.contains_key(id) ==> nonce(id).0 != s0::<C>() && nonce(id).1 != s0::<C>(),
    ensures !items_have_identity::<C>(sp_items::<C>(sp))
{
    lemma_items_identity_iff::<C>(sp);
    GG::<C>::ax_gen_ne_id();
    assert forall|id: Identifier<C>| #[trigger] sp.signing_commitments@.contains_key(id) implies !sc_has_identity::<C>(sp.signing_commitments@[id]) by {
        GG::<C>::ax_smul_cancel(eg::<C>(), nonce(id).0);
        GG::<C>::ax_smul_cancel(eg::<C>(), nonce(id).1);
    }
}
//@serves C01
pub proof fn lemma_nonzero_key_not_identity<C: Ciphersuite>(s: Scalar<C>)
    requires s != s0::<C>()
    ensures gmul::<C>(s) != e0::<C>()
{ GG::<C>::ax_gen_ne_id(); GG::<C>::ax_smul_cancel(eg::<C>(), s); }

// the share `sign` returns for an honest signer is `honest_share`
//@serves C01
pub proof fn thm_sign_gives_honest_share<C: Ciphersuite>(sp: SigningPackage<C>, sn: crate::round1::SigningNonces<C>, kp: KeyPackage<C>, a: Seq<Scalar<C>>,
        nonce: spec_fn(Identifier<C>) -> (Scalar<C>, Scalar<C>))
    requires spec_sign::<C>(sp, sn, kp) is Ok, kp.signing_share.0.0 == poly::<AL<C>>(a, kp.identifier.0.0),
        nonce(kp.identifier) == (sn.hiding.0.0, sn.binding.0.0),
    ensures (spec_sign::<C>(sp, sn, kp)->Ok_0).share.0 == honest_share::<C>(sp, kp.verifying_key.element.0, a, nonce, kp.identifier),
        (spec_sign::<C>(sp, sn, kp)->Ok_0).header == default_header::<C>(),
{}

// `sign` succeeds for a participant of a sound session (the complement of the refusals T5a/T6a)
//@serves C01
pub proof fn thm_sign_succeeds<C: Ciphersuite>(sp: SigningPackage<C>, sn: crate::round1::SigningNonces<C>, kp: KeyPackage<C>)
    requires sp.signing_commitments@.dom().len() >= kp.min_signers, sp.signing_commitments@.contains_key(kp.identifier),
        sn.commitments == sp.signing_commitments@[kp.identifier], kp.verifying_key.element.0 != e0::<C>(), !items_have_identity::<C>(sp_items::<C>(sp)),
        sp_R::<C>(sp, kp.verifying_key.element.0) != e0::<C>(),
    ensures spec_sign::<C>(sp, sn, kp) is Ok
{}

// T3 (C01): in the honest setup aggregation returns the aggregate, it verifies, and every share passes its check
//@serves C01
pub proof fn thm_honest_aggregate_succeeds<C: Ciphersuite>(res: Result<Signature<C>, Error<C>>, sp: SigningPackage<C>, shares: ShareMap<C>, pk: PublicKeyPackage<C>,
        detect: bool, first: bool, a: Seq<Scalar<C>>, nonce: spec_fn(Identifier<C>) -> (Scalar<C>, Scalar<C>))
    requires sp.signing_commitments@.dom().finite(),
        honest_keys::<C>(a, pk.verifying_key.element.0, pk.verifying_shares@, sp.signing_commitments@.dom()), a.len() <= sp.signing_commitments@.dom().len(),
        honest_commitments::<C>(sp, nonce), shares.dom() == sp.signing_commitments@.dom(),
        forall|id: Identifier<C>| #[trigger] sp.signing_commitments@.contains_key(id) ==> shares[id].share.0 == honest_share::<C>(sp, pk.verifying_key.element.0, a, nonce, id),
        sp_R::<C>(sp, pk.verifying_key.element.0) != e0::<C>(),
        agg_guard_err::<C>(sp, shares, pk, detect) is None,
        agg_result_is::<C>(res, sp, shares, pk, detect, first),
    ensures
        res == Ok::<Signature<C>, Error<C>>(agg_sig::<C>(sp, shares, pk.verifying_key.element.0)),
        spec_verify::<C>(pk.verifying_key, sp.message@, res->Ok_0) == Ok::<(), Error<C>>(()),
        agg_culprits::<C>(sp, shares, pk).len() == 0,
        forall|id: Identifier<C>| #[trigger] sp.signing_commitments@.contains_key(id) ==>
            sp_share_ok::<C>(sp, sp_rho_map::<C>(sp, pk.verifying_key.element.0), id, shares[id].share.0, pk.verifying_shares@[id].0.0, sp_c::<C>(sp, pk.verifying_key.element.0)),
{
    let vk = pk.verifying_key.element.0; let ys = pk.verifying_shares@;
    thm_honest_sum_verifies::<C>(sp, pk.verifying_key, a, ys, nonce, shares);
    assert forall|id: Identifier<C>| #[trigger] sp.signing_commitments@.contains_key(id) implies
        sp_share_ok::<C>(sp, sp_rho_map::<C>(sp, vk), id, shares[id].share.0, ys[id].0.0, sp_c::<C>(sp, vk)) by {
        thm_share_ok_iff_honest::<C>(sp, vk, a, ys, nonce, id, shares[id].share.0);
    }
    let keys = sorted_seq(shares.dom());
    lemma_sorted_exists::<C>(shares.dom());
    keys.unique_seq_to_set();
    assert forall|k: int| 0 <= k < keys.len() implies sp_share_ok::<C>(sp, sp_rho_map::<C>(sp, vk), #[trigger] keys[k], shares[keys[k]].share.0, ys[keys[k]].0.0, sp_c::<C>(sp, vk)) by {
        assert(keys.contains(keys[k])); assert(keys.to_set().contains(keys[k]));
        assert(sp.signing_commitments@.contains_key(keys[k]));
    }
    lemma_culprits_empty_prefix::<C>(keys, sp, sp_rho_map::<C>(sp, vk), shares, ys, sp_c::<C>(sp, vk), keys.len() as int);
}

// ---------------------------------------------------------------------------------------------------
// T4b-d (C04): who is named
// T4b: with honest keys and honest commitments (NO assumption on the shares) the participants whose share fails the check are
// exactly those whose submitted share differs from the honest one
//@serves C04
pub proof fn thm_culprits_exact<C: Ciphersuite>(sp: SigningPackage<C>, shares: ShareMap<C>, pk: PublicKeyPackage<C>, a: Seq<Scalar<C>>, nonce: spec_fn(Identifier<C>) -> (Scalar<C>, Scalar<C>))
    requires sp.signing_commitments@.dom().finite(),
        honest_keys::<C>(a, pk.verifying_key.element.0, pk.verifying_shares@, sp.signing_commitments@.dom()),
        honest_commitments::<C>(sp, nonce), shares.dom() == sp.signing_commitments@.dom(),
    ensures forall|id: Identifier<C>| #[trigger] agg_culprits::<C>(sp, shares, pk).contains(id) <==>
        (sp.signing_commitments@.contains_key(id) && shares[id].share.0 != honest_share::<C>(sp, pk.verifying_key.element.0, a, nonce, id))
{
    let vk = pk.verifying_key.element.0; let ys = pk.verifying_shares@; let bf = sp_rho_map::<C>(sp, vk); let c = sp_c::<C>(sp, vk);
    let keys = sorted_seq(shares.dom()); let n = shares.dom().len() as int;
    lemma_sorted_exists::<C>(shares.dom());
    keys.unique_seq_to_set();
    let cu = agg_culprits::<C>(sp, shares, pk);
    lemma_culprits_members::<C>(keys, sp, bf, shares, ys, c, n);
    assert forall|id: Identifier<C>| #[trigger] cu.contains(id) <==> (sp.signing_commitments@.contains_key(id) && shares[id].share.0 != honest_share::<C>(sp, vk, a, nonce, id)) by {
        if sp.signing_commitments@.contains_key(id) {
            thm_share_ok_iff_honest::<C>(sp, vk, a, ys, nonce, id, shares[id].share.0);
            assert(keys.to_set().contains(id));
            let k = choose|k: int| 0 <= k < keys.len() && keys[k] == id;
            assert(in_prefix::<C>(keys, n, id));
        }
        if in_prefix::<C>(keys, n, id) {
            let j = choose|j: int| 0 <= j < n && #[trigger] keys[j] == id;
            assert(keys.contains(id)); assert(keys.to_set().contains(id));
        }
    }
}

// an honest share is never named (in any mode: both modes report a sub-list of agg_culprits)
//@serves C04
pub proof fn thm_honest_share_never_named<C: Ciphersuite>(sp: SigningPackage<C>, shares: ShareMap<C>, pk: PublicKeyPackage<C>, a: Seq<Scalar<C>>, nonce: spec_fn(Identifier<C>) -> (Scalar<C>, Scalar<C>), id: Identifier<C>)
    requires sp.signing_commitments@.dom().finite(),
        honest_keys::<C>(a, pk.verifying_key.element.0, pk.verifying_shares@, sp.signing_commitments@.dom()),
        honest_commitments::<C>(sp, nonce), shares.dom() == sp.signing_commitments@.dom(),
        shares[id].share.0 == honest_share::<C>(sp, pk.verifying_key.element.0, a, nonce, id),
    ensures !agg_culprits::<C>(sp, shares, pk).contains(id),
        agg_culprits::<C>(sp, shares, pk).len() > 0 ==> agg_culprits::<C>(sp, shares, pk)[0] != id,
{
    thm_culprits_exact::<C>(sp, shares, pk, a, nonce);
    let cu = agg_culprits::<C>(sp, shares, pk);
    if cu.len() > 0 { assert(cu.contains(cu[0])); }
}

// T4c in the honest setup: the participant named in first-cheater mode is the lowest-identifier participant whose share differs from the honest one
//@serves C04
pub proof fn thm_first_cheater_is_lowest_dishonest<C: Ciphersuite>(sp: SigningPackage<C>, shares: ShareMap<C>, pk: PublicKeyPackage<C>, a: Seq<Scalar<C>>, nonce: spec_fn(Identifier<C>) -> (Scalar<C>, Scalar<C>))
    requires sp.signing_commitments@.dom().finite(),
        honest_keys::<C>(a, pk.verifying_key.element.0, pk.verifying_shares@, sp.signing_commitments@.dom()),
        honest_commitments::<C>(sp, nonce), shares.dom() == sp.signing_commitments@.dom(),
        agg_culprits::<C>(sp, shares, pk).len() > 0,
    ensures ({ let first = agg_culprits::<C>(sp, shares, pk)[0]; let vk = pk.verifying_key.element.0;
        &&& sp.signing_commitments@.contains_key(first)
        &&& shares[first].share.0 != honest_share::<C>(sp, vk, a, nonce, first)
        &&& forall|id: Identifier<C>| #[trigger] sp.signing_commitments@.contains_key(id) && shares[id].share.0 != honest_share::<C>(sp, vk, a, nonce, id) ==> id == first || lt(first, id)
    })
{
    let vk = pk.verifying_key.element.0; let ys = pk.verifying_shares@;
    let cu = agg_culprits::<C>(sp, shares, pk); let first = cu[0];
    thm_culprits_exact::<C>(sp, shares, pk, a, nonce);
    thm_first_culprit_lowest::<C>(sp, shares, pk);
    assert(cu.contains(first));
    assert forall|id: Identifier<C>| #[trigger] sp.signing_commitments@.contains_key(id) && shares[id].share.0 != honest_share::<C>(sp, vk, a, nonce, id) implies id == first || lt(first, id) by {
        thm_share_ok_iff_honest::<C>(sp, vk, a, ys, nonce, id, shares[id].share.0);
        assert(shares.contains_key(id));
    }
}

// T4d: if the aggregate of the submitted shares is not a valid signature, somebody is named (detection cannot come up empty)
//@serves C04
pub proof fn thm_invalid_sum_has_culprit<C: Ciphersuite>(sp: SigningPackage<C>, shares: ShareMap<C>, pk: PublicKeyPackage<C>, a: Seq<Scalar<C>>, nonce: spec_fn(Identifier<C>) -> (Scalar<C>, Scalar<C>))
    requires sp.signing_commitments@.dom().finite(),
        honest_keys::<C>(a, pk.verifying_key.element.0, pk.verifying_shares@, sp.signing_commitments@.dom()), a.len() <= sp.signing_commitments@.dom().len(),
        honest_commitments::<C>(sp, nonce), shares.dom() == sp.signing_commitments@.dom(),
        pk.verifying_key.element.0 != e0::<C>(), sp_R::<C>(sp, pk.verifying_key.element.0) != e0::<C>(),
        spec_verify::<C>(pk.verifying_key, sp.message@, agg_sig::<C>(sp, shares, pk.verifying_key.element.0)) is Err,
    ensures agg_culprits::<C>(sp, shares, pk).len() > 0
{
    let cu = agg_culprits::<C>(sp, shares, pk);
    if cu.len() == 0 {
        thm_culprits_exact::<C>(sp, shares, pk, a, nonce);
        assert forall|id: Identifier<C>| #[trigger] sp.signing_commitments@.contains_key(id) implies shares[id].share.0 == honest_share::<C>(sp, pk.verifying_key.element.0, a, nonce, id) by {
            if shares[id].share.0 != honest_share::<C>(sp, pk.verifying_key.element.0, a, nonce, id) {
                assert(cu.contains(id));
                let i = choose|i: int| 0 <= i < cu.len() && cu[i] == id;
            }
        }
        thm_honest_sum_verifies::<C>(sp, pk.verifying_key, a, pk.verifying_shares@, nonce, shares);
    }
}

// C04, last sentence: altered shares whose errors cancel (the submitted shares sum to what the honest shares sum to) can at most
// yield a valid signature -- aggregation then returns exactly the signature the honest shares would have produced
//@serves C04
pub proof fn thm_cancelling_errors_yield_valid_signature<C: Ciphersuite>(res: Result<Signature<C>, Error<C>>, sp: SigningPackage<C>, shares: ShareMap<C>, hon: ShareMap<C>,
        pk: PublicKeyPackage<C>, detect: bool, first: bool, a: Seq<Scalar<C>>, nonce: spec_fn(Identifier<C>) -> (Scalar<C>, Scalar<C>))
    requires sp.signing_commitments@.dom().finite(),
        honest_keys::<C>(a, pk.verifying_key.element.0, pk.verifying_shares@, sp.signing_commitments@.dom()), a.len() <= sp.signing_commitments@.dom().len(),
        honest_commitments::<C>(sp, nonce), shares.dom() == sp.signing_commitments@.dom(), hon.dom() == sp.signing_commitments@.dom(),
        forall|id: Identifier<C>| #[trigger] sp.signing_commitments@.contains_key(id) ==> hon[id].share.0 == honest_share::<C>(sp, pk.verifying_key.element.0, a, nonce, id),
        agg_sig::<C>(sp, shares, pk.verifying_key.element.0).z == agg_sig::<C>(sp, hon, pk.verifying_key.element.0).z,
        sp_R::<C>(sp, pk.verifying_key.element.0) != e0::<C>(),
        agg_guard_err::<C>(sp, shares, pk, detect) is None,
        agg_result_is::<C>(res, sp, shares, pk, detect, first),
    ensures res == Ok::<Signature<C>, Error<C>>(agg_sig::<C>(sp, hon, pk.verifying_key.element.0)),
        spec_verify::<C>(pk.verifying_key, sp.message@, res->Ok_0) == Ok::<(), Error<C>>(()),
{
    let vk = pk.verifying_key.element.0;
    thm_honest_sum_verifies::<C>(sp, pk.verifying_key, a, pk.verifying_shares@, nonce, hon);
    assert(agg_sig::<C>(sp, shares, vk) == agg_sig::<C>(sp, hon, vk));
}

// C04 put together for the detecting modes: honest keys, honest commitments, >= t participants, arbitrary shares.  If aggregation fails
// then it names somebody, everybody it names submitted a share different from the honest one, first-cheater mode names the lowest
// such identifier and all-cheaters mode names exactly the set of them.
//@serves C04
pub proof fn thm_detection_exact<C: Ciphersuite>(res: Result<Signature<C>, Error<C>>, sp: SigningPackage<C>, shares: ShareMap<C>, pk: PublicKeyPackage<C>, first: bool,
        a: Seq<Scalar<C>>, nonce: spec_fn(Identifier<C>) -> (Scalar<C>, Scalar<C>))
    requires sp.signing_commitments@.dom().finite(),
        honest_keys::<C>(a, pk.verifying_key.element.0, pk.verifying_shares@, sp.signing_commitments@.dom()), a.len() <= sp.signing_commitments@.dom().len(),
        honest_commitments::<C>(sp, nonce), shares.dom() == sp.signing_commitments@.dom(),
        sp_R::<C>(sp, pk.verifying_key.element.0) != e0::<C>(),
        agg_guard_err::<C>(sp, shares, pk, true) is None,
        agg_result_is::<C>(res, sp, shares, pk, true, first), res is Err,
    ensures ({ let vk = pk.verifying_key.element.0;
        &&& res->Err_0 is InvalidSignatureShare
        &&& (res->Err_0->culprits)@.len() > 0
        &&& forall|id: Identifier<C>| #[trigger] (res->Err_0->culprits)@.contains(id) ==> sp.signing_commitments@.contains_key(id) && shares[id].share.0 != honest_share::<C>(sp, vk, a, nonce, id)
        &&& !first ==> forall|id: Identifier<C>| #[trigger] (res->Err_0->culprits)@.contains(id) <==> (sp.signing_commitments@.contains_key(id) && shares[id].share.0 != honest_share::<C>(sp, vk, a, nonce, id))
        &&& first ==> (res->Err_0->culprits)@.len() == 1 && forall|id: Identifier<C>| #[trigger] sp.signing_commitments@.contains_key(id) && shares[id].share.0 != honest_share::<C>(sp, vk, a, nonce, id)
                ==> id == (res->Err_0->culprits)@[0] || lt((res->Err_0->culprits)@[0], id)
    })
{
    let vk = pk.verifying_key.element.0;
    let cu = agg_culprits::<C>(sp, shares, pk);
    thm_invalid_sum_has_culprit::<C>(sp, shares, pk, a, nonce);
    thm_culprits_exact::<C>(sp, shares, pk, a, nonce);
    thm_first_cheater_is_lowest_dishonest::<C>(sp, shares, pk, a, nonce);
    let named = (res->Err_0->culprits)@;
    if first {
        assert(named == seq![cu[0]]);
        assert(named[0] == cu[0]);
        assert forall|id: Identifier<C>| #[trigger] named.contains(id) implies sp.signing_commitments@.contains_key(id) && shares[id].share.0 != honest_share::<C>(sp, vk, a, nonce, id) by {
            let i = choose|i: int| 0 <= i < named.len() && named[i] == id;
            assert(id == cu[0]);
            assert(cu.contains(cu[0]));
        }
    } else {
        assert(named == cu);
    }
}

// ---------------------------------------------------------------------------------------------------
// T6b (C05): a share is accepted in a session only if it IS that session's honest share
// The share z (for instance the honest share of participant idA in session A = (spA, vkA, aA, nonceA)) submitted under the claimed
// identifier idB in session B is accepted there iff it equals B's honest share for idB as a scalar.  Sessions that differ in the
// message, any commitment, the participant set, the group key or the claimed identifier hash different byte strings into rho / c
// (T6c below), so -- short of a hash collision or an accidental scalar coincidence -- the share is rejected.
//@serves C05
pub proof fn thm_share_accepted_only_if_session_honest<C: Ciphersuite>(spB: SigningPackage<C>, vkB: Element<C>, aB: Seq<Scalar<C>>, ysB: Map<Identifier<C>, VerifyingShare<C>>,
        nonceB: spec_fn(Identifier<C>) -> (Scalar<C>, Scalar<C>), idB: Identifier<C>, z: Scalar<C>)
    requires spB.signing_commitments@.contains_key(idB), honest_commitments::<C>(spB, nonceB), ysB[idB].0.0 == gmul::<C>(poly::<AL<C>>(aB, idB.0.0)),
    ensures sp_share_ok::<C>(spB, sp_rho_map::<C>(spB, vkB), idB, z, ysB[idB].0.0, sp_c::<C>(spB, vkB)) <==> z == honest_share::<C>(spB, vkB, aB, nonceB, idB)
{ thm_share_ok_iff_honest::<C>(spB, vkB, aB, ysB, nonceB, idB, z); }

//@serves C05
pub proof fn thm_cross_session_share<C: Ciphersuite>(spA: SigningPackage<C>, vkA: Element<C>, aA: Seq<Scalar<C>>, nonceA: spec_fn(Identifier<C>) -> (Scalar<C>, Scalar<C>), idA: Identifier<C>,
        spB: SigningPackage<C>, vkB: Element<C>, aB: Seq<Scalar<C>>, ysB: Map<Identifier<C>, VerifyingShare<C>>, nonceB: spec_fn(Identifier<C>) -> (Scalar<C>, Scalar<C>), idB: Identifier<C>)
    requires spB.signing_commitments@.contains_key(idB), honest_commitments::<C>(spB, nonceB), ysB[idB].0.0 == gmul::<C>(poly::<AL<C>>(aB, idB.0.0)),
    ensures sp_share_ok::<C>(spB, sp_rho_map::<C>(spB, vkB), idB, honest_share::<C>(spA, vkA, aA, nonceA, idA), ysB[idB].0.0, sp_c::<C>(spB, vkB))
        <==> honest_share::<C>(spA, vkA, aA, nonceA, idA) == honest_share::<C>(spB, vkB, aB, nonceB, idB)
{ thm_share_ok_iff_honest::<C>(spB, vkB, aB, ysB, nonceB, idB, honest_share::<C>(spA, vkA, aA, nonceA, idA)); }

// ---------------------------------------------------------------------------------------------------
// T6c (C05): what is hashed determines the session (injectivity of the encodings; NO collision-resistance claim)
//@serves C05
pub proof fn lemma_concat_inj_left(h1: Seq<u8>, r1: Seq<u8>, h2: Seq<u8>, r2: Seq<u8>)
    requires h1 + r1 == h2 + r2, h1.len() == h2.len()
    ensures h1 == h2, r1 == r2
{
    let s1 = h1 + r1; let s2 = h2 + r2;
    assert(s1.len() == h1.len() + r1.len() && s2.len() == h2.len() + r2.len());
    assert(h1 =~= h2) by { assert forall|i: int| 0 <= i < h1.len() implies h1[i] == h2[i] by { assert(s1[i] == h1[i]); assert(s2[i] == h2[i]); } }
    assert(r1 =~= r2) by { assert forall|i: int| 0 <= i < r1.len() implies r1[i] == r2[i] by { assert(s1[h1.len() + i] == r1[i]); assert(s2[h2.len() + i] == r2[i]); } }
}

//@serves C05
pub proof fn lemma_concat_inj_right(a1: Seq<u8>, t1: Seq<u8>, a2: Seq<u8>, t2: Seq<u8>)
    requires a1 + t1 == a2 + t2, t1.len() == t2.len()
    ensures a1 == a2, t1 == t2
{
    assert((a1 + t1).len() == a1.len() + t1.len() && (a2 + t2).len() == a2.len() + t2.len());
    lemma_concat_inj_left(a1, t1, a2, t2);
}

// an Identifier is determined by its encoding, a non-identity element by its encoding
//@serves C05
pub proof fn lemma_enc_id_inj<C: Ciphersuite>(i: Identifier<C>, j: Identifier<C>)
    requires enc_id::<C>(i) == enc_id::<C>(j)
    ensures i == j
{
    FF::<C>::ax_ser_deser(i.0.0); FF::<C>::ax_ser_deser(j.0.0);
    assert(i.0.0 == j.0.0);
    assert(i.0 == j.0);
}

//@serves C05
pub proof fn lemma_enc_el_inj<C: Ciphersuite>(a: Element<C>, b: Element<C>)
    requires a != e0::<C>(), b != e0::<C>(), enc_el::<C>(a) == enc_el::<C>(b)
    ensures a == b
{ GG::<C>::ax_eser_deser(a); GG::<C>::ax_eser_deser(b); }

pub open spec fn no_identity_upto<C: Ciphersuite>(items: Seq<(Identifier<C>, crate::round1::SigningCommitments<C>)>, n: int) -> bool
{ forall|k: int| 0 <= k < n ==> !sc_has_identity::<C>((#[trigger] items[k]).1) }

// width of one list entry
pub open spec fn item_width<C: Ciphersuite>() -> int { (FF::<C>::spec_ns() + 2 * GG::<C>::spec_ne()) as int }

//@serves C05
pub proof fn lemma_encode_list_len<C: Ciphersuite>(items: Seq<(Identifier<C>, crate::round1::SigningCommitments<C>)>, n: int)
    requires 0 <= n <= items.len(), no_identity_upto::<C>(items, n)
    ensures spec_encode_list::<C>(items, n).len() == n * item_width::<C>()
    decreases n
{
    let w = item_width::<C>();
    if n > 0 {
        lemma_encode_list_len::<C>(items, n - 1);
        let it = items[n - 1];
        assert(!sc_has_identity::<C>(it.1));
        FF::<C>::ax_ser_len(it.0.0.0); GG::<C>::ax_eser_len(it.1.hiding.0.0); GG::<C>::ax_eser_len(it.1.binding.0.0);
        assert(n * w == (n - 1) * w + w) by(nonlinear_arith);
    } else {
        assert(0 * w == 0);
    }
}

// equal encodings of equally many entries: the entries agree in identifier, hiding and binding commitment
//@serves C05
pub proof fn lemma_encode_list_injective_n<C: Ciphersuite>(items1: Seq<(Identifier<C>, crate::round1::SigningCommitments<C>)>, items2: Seq<(Identifier<C>, crate::round1::SigningCommitments<C>)>, n: int)
    requires 0 <= n <= items1.len(), n <= items2.len(), no_identity_upto::<C>(items1, n), no_identity_upto::<C>(items2, n),
        spec_encode_list::<C>(items1, n) == spec_encode_list::<C>(items2, n),
    ensures forall|k: int| 0 <= k < n ==> (#[trigger] items1[k]).0 == items2[k].0 && items1[k].1.hiding.0.0 == items2[k].1.hiding.0.0 && items1[k].1.binding.0.0 == items2[k].1.binding.0.0
    decreases n
{
    if n > 0 {
        let a = items1[n - 1]; let b = items2[n - 1];
        assert(!sc_has_identity::<C>(a.1) && !sc_has_identity::<C>(b.1));
        let p1 = spec_encode_list::<C>(items1, n - 1); let p2 = spec_encode_list::<C>(items2, n - 1);
        FF::<C>::ax_ser_len(a.0.0.0); GG::<C>::ax_eser_len(a.1.hiding.0.0); GG::<C>::ax_eser_len(a.1.binding.0.0);
        FF::<C>::ax_ser_len(b.0.0.0); GG::<C>::ax_eser_len(b.1.hiding.0.0); GG::<C>::ax_eser_len(b.1.binding.0.0);
        lemma_concat_inj_right(p1 + enc_id::<C>(a.0) + enc_el::<C>(a.1.hiding.0.0), enc_el::<C>(a.1.binding.0.0), p2 + enc_id::<C>(b.0) + enc_el::<C>(b.1.hiding.0.0), enc_el::<C>(b.1.binding.0.0));
        lemma_concat_inj_right(p1 + enc_id::<C>(a.0), enc_el::<C>(a.1.hiding.0.0), p2 + enc_id::<C>(b.0), enc_el::<C>(b.1.hiding.0.0));
        lemma_concat_inj_right(p1, enc_id::<C>(a.0), p2, enc_id::<C>(b.0));
        lemma_enc_id_inj::<C>(a.0, b.0);
        lemma_enc_el_inj::<C>(a.1.hiding.0.0, b.1.hiding.0.0);
        lemma_enc_el_inj::<C>(a.1.binding.0.0, b.1.binding.0.0);
        lemma_encode_list_injective_n::<C>(items1, items2, n - 1);
    }
}

// ... and WITHOUT assuming equal lengths: the total length n * (Ns + 2 Ne) determines n
//@serves C05
pub proof fn lemma_encode_list_injective<C: Ciphersuite>(items1: Seq<(Identifier<C>, crate::round1::SigningCommitments<C>)>, n1: int,
        items2: Seq<(Identifier<C>, crate::round1::SigningCommitments<C>)>, n2: int)
    requires 0 <= n1 <= items1.len(), 0 <= n2 <= items2.len(), no_identity_upto::<C>(items1, n1), no_identity_upto::<C>(items2, n2),
        spec_encode_list::<C>(items1, n1) == spec_encode_list::<C>(items2, n2),
    ensures n1 == n2,
        forall|k: int| 0 <= k < n1 ==> (#[trigger] items1[k]).0 == items2[k].0 && items1[k].1.hiding.0.0 == items2[k].1.hiding.0.0 && items1[k].1.binding.0.0 == items2[k].1.binding.0.0
{
    let w = item_width::<C>();
    lemma_encode_list_len::<C>(items1, n1); lemma_encode_list_len::<C>(items2, n2);
    GG::<C>::ax_ne_positive();
    assert(n1 == n2) by(nonlinear_arith) requires n1 * w == n2 * w, w > 0;
    lemma_encode_list_injective_n::<C>(items1, items2, n1);
}

// at the level of signing packages: the encoded commitment list determines the participant set and everybody's commitments
//@serves C05
pub proof fn thm_encoded_list_determines_commitments<C: Ciphersuite>(sp1: SigningPackage<C>, sp2: SigningPackage<C>)
    requires sp1.signing_commitments@.dom().finite(), sp2.signing_commitments@.dom().finite(),
        !items_have_identity::<C>(sp_items::<C>(sp1)), !items_have_identity::<C>(sp_items::<C>(sp2)),
        spec_encode_list::<C>(sp_items::<C>(sp1), sp_items::<C>(sp1).len() as int) == spec_encode_list::<C>(sp_items::<C>(sp2), sp_items::<C>(sp2).len() as int),
    ensures sp1.signing_commitments@.dom() == sp2.signing_commitments@.dom(),
        forall|id: Identifier<C>| #[trigger] sp1.signing_commitments@.contains_key(id) ==>
            sp1.signing_commitments@[id].hiding.0.0 == sp2.signing_commitments@[id].hiding.0.0 && sp1.signing_commitments@[id].binding.0.0 == sp2.signing_commitments@[id].binding.0.0
{
    let m1 = sp1.signing_commitments@; let m2 = sp2.signing_commitments@;
    let i1 = sp_items::<C>(sp1); let i2 = sp_items::<C>(sp2);
    let k1 = sorted_seq(m1.dom()); let k2 = sorted_seq(m2.dom());
    lemma_sorted_exists::<C>(m1.dom()); lemma_sorted_exists::<C>(m2.dom());
    lemma_encode_list_injective::<C>(i1, i1.len() as int, i2, i2.len() as int);
    assert(k1 =~= k2) by { assert forall|k: int| 0 <= k < k1.len() implies k1[k] == k2[k] by { assert(i1[k].0 == k1[k]); assert(i2[k].0 == k2[k]); } }
    assert(m1.dom() == k1.to_set());
    assert forall|id: Identifier<C>| #[trigger] m1.contains_key(id) implies m1[id].hiding.0.0 == m2[id].hiding.0.0 && m1[id].binding.0.0 == m2[id].binding.0.0 by {
        assert(k1.to_set().contains(id));
        let k = choose|k: int| 0 <= k < k1.len() && k1[k] == id;
        assert(i1[k] == (id, m1[id])); assert(i2[k] == (id, m2[id]));
    }
}

// the challenge preimage enc(R) || enc(PK) || msg determines R, PK and the message
//@serves C05
pub proof fn lemma_challenge_preimage_injective<C: Ciphersuite>(r1: Element<C>, vk1: Element<C>, msg1: Seq<u8>, r2: Element<C>, vk2: Element<C>, msg2: Seq<u8>)
    requires r1 != e0::<C>(), vk1 != e0::<C>(), r2 != e0::<C>(), vk2 != e0::<C>(),
        enc_el::<C>(r1) + enc_el::<C>(vk1) + msg1 == enc_el::<C>(r2) + enc_el::<C>(vk2) + msg2,
    ensures r1 == r2, vk1 == vk2, msg1 == msg2
{
    GG::<C>::ax_eser_len(r1); GG::<C>::ax_eser_len(vk1); GG::<C>::ax_eser_len(r2); GG::<C>::ax_eser_len(vk2);
    lemma_concat_inj_left(enc_el::<C>(r1) + enc_el::<C>(vk1), msg1, enc_el::<C>(r2) + enc_el::<C>(vk2), msg2);
    lemma_concat_inj_left(enc_el::<C>(r1), enc_el::<C>(vk1), enc_el::<C>(r2), enc_el::<C>(vk2));
    lemma_enc_el_inj::<C>(r1, r2); lemma_enc_el_inj::<C>(vk1, vk2);
}

// the binding-factor preimage  prefix || enc(id)  determines the prefix and the identifier (in particular: same prefix, different
// participants => different preimages)
//@serves C05
pub proof fn lemma_rho_preimage_injective<C: Ciphersuite>(prefix1: Seq<u8>, i: Identifier<C>, prefix2: Seq<u8>, j: Identifier<C>)
    requires prefix1 + enc_id::<C>(i) == prefix2 + enc_id::<C>(j)
    ensures prefix1 == prefix2, i == j
{
    FF::<C>::ax_ser_len(i.0.0); FF::<C>::ax_ser_len(j.0.0);
    lemma_concat_inj_right(prefix1, enc_id::<C>(i), prefix2, enc_id::<C>(j));
    lemma_enc_id_inj::<C>(i, j);
}

//@serves C05
pub proof fn lemma_rho_preimage_injective_id<C: Ciphersuite>(prefix: Seq<u8>, i: Identifier<C>, j: Identifier<C>)
    requires prefix + enc_id::<C>(i) == prefix + enc_id::<C>(j)
    ensures i == j
{ lemma_rho_preimage_injective::<C>(prefix, i, prefix, j); }

// the binding-factor prefix  enc(PK) || H4(msg) || H5(list) || extra  determines the group key (its first, fixed-width field)
//@serves C05
pub proof fn lemma_bf_prefix_binds_key<C: Ciphersuite>(vk1: Element<C>, msg1: Seq<u8>, items1: Seq<(Identifier<C>, crate::round1::SigningCommitments<C>)>, extra1: Seq<u8>,
        vk2: Element<C>, msg2: Seq<u8>, items2: Seq<(Identifier<C>, crate::round1::SigningCommitments<C>)>, extra2: Seq<u8>)
    requires vk1 != e0::<C>(), vk2 != e0::<C>(), spec_bf_prefix::<C>(vk1, msg1, items1, extra1) == spec_bf_prefix::<C>(vk2, msg2, items2, extra2)
    ensures vk1 == vk2
{
    GG::<C>::ax_eser_len(vk1); GG::<C>::ax_eser_len(vk2);
    let t1 = C::spec_H4(msg1) + C::spec_H5(spec_encode_list::<C>(items1, items1.len() as int)) + extra1;
    let t2 = C::spec_H4(msg2) + C::spec_H5(spec_encode_list::<C>(items2, items2.len() as int)) + extra2;
    assert(spec_bf_prefix::<C>(vk1, msg1, items1, extra1) =~= enc_el::<C>(vk1) + t1);
    assert(spec_bf_prefix::<C>(vk2, msg2, items2, extra2) =~= enc_el::<C>(vk2) + t2);
    lemma_concat_inj_left(enc_el::<C>(vk1), t1, enc_el::<C>(vk2), t2);
    lemma_enc_el_inj::<C>(vk1, vk2);
}

// ---------------------------------------------------------------------------------------------------
// T5c (C03): fewer than t shares determine nothing about the secret.  For evaluation points x_1..x_m (non-zero, m < t), a polynomial f
// with t coefficients and ANY candidate secret s there is a polynomial g with t coefficients, g(0) = s, that agrees with f at every x_i:
//      g = f + k * N,   N(x) = prod_i (x - x_i),   k = (s - f(0)) / N(0).
// (over an abstract field first)
//@serves C03
pub proof fn lemma_add_swap22<A: Fld>(a: A::S, b: A::S, c: A::S, d: A::S)
    ensures A::add(A::add(a, b), A::add(c, d)) == A::add(A::add(a, c), A::add(b, d))
{
    A::add_assoc(a, b, A::add(c, d));
    A::add_assoc(b, c, d);
    A::add_comm(b, c);
    A::add_assoc(c, b, d);
    A::add_assoc(a, c, A::add(b, d));
}

//@serves C03
pub proof fn lemma_poly0<A: Fld>(a: Seq<A::S>)
    requires a.len() >= 1
    ensures poly::<A>(a, A::zero()) == a[0]
{
    lemma_mul_zero::<A>(poly::<A>(a.drop_first(), A::zero()));
    A::add_zero(a[0]);
}

// coefficient-wise sum (the longer tail is kept)
pub open spec fn padd<A: Fld>(a: Seq<A::S>, b: Seq<A::S>) -> Seq<A::S> decreases a.len()
{ if a.len() == 0 { b } else if b.len() == 0 { a } else { seq![A::add(a[0], b[0])] + padd::<A>(a.drop_first(), b.drop_first()) } }

//@serves C03
pub proof fn lemma_padd<A: Fld>(a: Seq<A::S>, b: Seq<A::S>, t: A::S)
    ensures poly::<A>(padd::<A>(a, b), t) == A::add(poly::<A>(a, t), poly::<A>(b, t)),
        padd::<A>(a, b).len() == if a.len() >= b.len() { a.len() } else { b.len() }
    decreases a.len()
{
    if a.len() == 0 {
        lemma_zero_add::<A>(poly::<A>(b, t));
    } else if b.len() == 0 {
        A::add_zero(poly::<A>(a, t));
    } else {
        let ra = a.drop_first(); let rb = b.drop_first(); let p = padd::<A>(a, b);
        lemma_padd::<A>(ra, rb, t);
        assert(p.drop_first() =~= padd::<A>(ra, rb));
        assert(p[0] == A::add(a[0], b[0]));
        let pa = poly::<A>(ra, t); let pb = poly::<A>(rb, t);
        // (pa + pb) * t == pa t + pb t
        A::mul_comm(A::add(pa, pb), t); A::distrib(t, pa, pb); A::mul_comm(t, pa); A::mul_comm(t, pb);
        lemma_add_swap22::<A>(a[0], b[0], A::mul(pa, t), A::mul(pb, t));
    }
}

// coefficient-wise multiple
pub open spec fn pscale<A: Fld>(k: A::S, a: Seq<A::S>) -> Seq<A::S> decreases a.len()
{ if a.len() == 0 { Seq::empty() } else { seq![A::mul(k, a[0])] + pscale::<A>(k, a.drop_first()) } }

//@serves C03
pub proof fn lemma_pscale<A: Fld>(k: A::S, a: Seq<A::S>, t: A::S)
    ensures poly::<A>(pscale::<A>(k, a), t) == A::mul(k, poly::<A>(a, t)), pscale::<A>(k, a).len() == a.len()
    decreases a.len()
{
    if a.len() == 0 {
        lemma_mul_zero::<A>(k);
    } else {
        let ra = a.drop_first(); let q = pscale::<A>(k, a);
        lemma_pscale::<A>(k, ra, t);
        assert(q.drop_first() =~= pscale::<A>(k, ra));
        assert(q[0] == A::mul(k, a[0]));
        let pa = poly::<A>(ra, t);
        A::distrib(k, a[0], A::mul(pa, t));
        A::mul_assoc(k, pa, t);
    }
}

// N(0) = prod_i (0 - x_i) != 0 for non-zero x_i
//@serves C03
pub proof fn lemma_prodsub0_nonzero<A: Fld>(ys: Seq<A::S>)
    requires notin::<A>(ys, A::zero())
    ensures prodsub::<A>(ys, A::zero()) != A::zero()
    decreases ys.len()
{
    A::one_ne_zero();
    if ys.len() > 0 {
        let r = ys.drop_last();
        assert(notin::<A>(r, A::zero())) by { assert forall|j: int| 0 <= j < r.len() implies r[j] != A::zero() by { assert(r[j] == ys[j]); } }
        lemma_prodsub0_nonzero::<A>(r);
        assert(ys.last() == ys[ys.len() - 1]);
        lemma_sub_nonzero::<A>(A::zero(), ys.last());
        lemma_nozero::<A>(prodsub::<A>(r, A::zero()), crate::vfield::sub::<A>(A::zero(), ys.last()));
    }
}

//@serves C03
pub proof fn lemma_any_secret_consistent<A: Fld>(xs: Seq<A::S>, f: Seq<A::S>, s: A::S) -> (g: Seq<A::S>)
    requires notin::<A>(xs, A::zero()), xs.len() < f.len()
    ensures g.len() == f.len(), g[0] == s, forall|j: int| 0 <= j < xs.len() ==> poly::<A>(g, #[trigger] xs[j]) == poly::<A>(f, xs[j])
{
    let nn = ncoef::<A>(xs);
    let n0 = prodsub::<A>(xs, A::zero());
    let d = crate::vfield::sub::<A>(s, f[0]);
    let k = A::mul(d, A::inv(n0));
    let kn = pscale::<A>(k, nn);
    let g = padd::<A>(f, kn);
    lemma_ncoef::<A>(xs, A::zero());
    lemma_prodsub0_nonzero::<A>(xs);
    lemma_pscale::<A>(k, nn, A::zero());
    lemma_padd::<A>(f, kn, A::zero());
    lemma_poly0::<A>(f); lemma_poly0::<A>(g);
    // g(0) = f0 + (d * inv n0) * n0 = f0 + d = s
    A::mul_assoc(d, A::inv(n0), n0); A::mul_comm(A::inv(n0), n0); A::mul_inv(n0); A::mul_one(d);
    lemma_sub_add_cancel::<A>(s, f[0]);
    assert forall|j: int| 0 <= j < xs.len() implies poly::<A>(g, #[trigger] xs[j]) == poly::<A>(f, xs[j]) by {
        lemma_ncoef::<A>(xs, xs[j]);
        lemma_prodsub_root::<A>(xs, j);
        lemma_pscale::<A>(k, nn, xs[j]);
        lemma_padd::<A>(f, kn, xs[j]);
        lemma_mul_zero::<A>(k);
        A::add_zero(poly::<A>(f, xs[j]));
    }
    g
}

// T5c for identifiers: the shares f(id_1), .., f(id_m) of m < t = |f| participants are consistent with EVERY secret s
//@serves C03
pub proof fn thm_subthreshold_undetermined<C: Ciphersuite>(ids: Seq<Identifier<C>>, f: Seq<Scalar<C>>, s: Scalar<C>) -> (g: Seq<Scalar<C>>)
    requires ids.len() < f.len(), forall|k: int| 0 <= k < ids.len() ==> (#[trigger] ids[k]).0.0 != s0::<C>()
    ensures g.len() == f.len(), g[0] == s,
        forall|k: int| 0 <= k < ids.len() ==> poly::<AL<C>>(g, (#[trigger] ids[k]).0.0) == poly::<AL<C>>(f, ids[k].0.0)
{
    let xs = scalars::<C>(ids);
    assert(notin::<AL<C>>(xs, s0::<C>())) by { assert forall|j: int| 0 <= j < xs.len() implies xs[j] != s0::<C>() by { assert(xs[j] == ids[j].0.0); } }
    let g = lemma_any_secret_consistent::<AL<C>>(xs, f, s);
    assert forall|k: int| 0 <= k < ids.len() implies poly::<AL<C>>(g, (#[trigger] ids[k]).0.0) == poly::<AL<C>>(f, ids[k].0.0) by { assert(xs[k] == ids[k].0.0); }
    g
}

// hence no function of fewer than t shares -- Lagrange interpolation of them in particular -- yields the group secret: whatever value v
// it outputs, there are two sharings with the same t coefficients' worth of freedom, identical on the observed shares, with different
// secrets, and one whose secret is not v
//@serves C03
pub proof fn thm_subthreshold_no_reconstruction<C: Ciphersuite>(ids: Seq<Identifier<C>>, f: Seq<Scalar<C>>, v: Scalar<C>)
    requires ids.len() < f.len(), forall|k: int| 0 <= k < ids.len() ==> (#[trigger] ids[k]).0.0 != s0::<C>()
    ensures
        exists|g: Seq<Scalar<C>>| #![trigger g.len()] g.len() == f.len() && g[0] != f[0]
            && forall|k: int| 0 <= k < ids.len() ==> poly::<AL<C>>(g, (#[trigger] ids[k]).0.0) == poly::<AL<C>>(f, ids[k].0.0),
        exists|g: Seq<Scalar<C>>| #![trigger g.len()] g.len() == f.len() && g[0] != v
            && forall|k: int| 0 <= k < ids.len() ==> poly::<AL<C>>(g, (#[trigger] ids[k]).0.0) == poly::<AL<C>>(f, ids[k].0.0),
{
    // x + 1 != x
    FF::<C>::ax_one_ne_zero();
    let f1 = sadd::<C>(f[0], s1::<C>()); let v1 = sadd::<C>(v, s1::<C>());
    if f1 == f[0] { FF::<C>::ax_add_zero(f[0]); lemma_add_cancel::<AL<C>>(f[0], s1::<C>(), s0::<C>()); }
    if v1 == v { FF::<C>::ax_add_zero(v); lemma_add_cancel::<AL<C>>(v, s1::<C>(), s0::<C>()); }
    let g1 = thm_subthreshold_undetermined::<C>(ids, f, f1);
    let g2 = thm_subthreshold_undetermined::<C>(ids, f, v1);
    assert(g1.len() == f.len() && g1[0] != f[0]);
    assert(g2.len() == f.len() && g2[0] != v);
}

// ... in the shape of `reconstruct`'s contract: the value interpolated from fewer than t = |f| key packages is the constant term of SOME
// polynomial through those shares only by accident -- there is a sharing g with exactly the same packages' shares and another secret
//@serves C03
pub proof fn thm_interpolating_too_few_is_not_the_secret<C: Ciphersuite>(kps: Seq<KeyPackage<C>>, f: Seq<Scalar<C>>)
    requires kps.len() < f.len(),
        forall|k: int| 0 <= k < kps.len() ==> (#[trigger] kps[k]).identifier.0.0 != s0::<C>() && kps[k].signing_share.0.0 == poly::<AL<C>>(f, kps[k].identifier.0.0),
    ensures exists|g: Seq<Scalar<C>>| #![trigger g.len()] g.len() == f.len()
        && g[0] != spec_interpolate0::<C>(kps, sorted_seq(kp_ids::<C>(kps).to_set()), kps.len() as nat)
        && forall|k: int| 0 <= k < kps.len() ==> (#[trigger] kps[k]).signing_share.0.0 == poly::<AL<C>>(g, kps[k].identifier.0.0)
{
    let ids = kp_ids::<C>(kps);
    let v = spec_interpolate0::<C>(kps, sorted_seq(ids.to_set()), kps.len() as nat);
    FF::<C>::ax_one_ne_zero();
    let v1 = sadd::<C>(v, s1::<C>());
    if v1 == v { FF::<C>::ax_add_zero(v); lemma_add_cancel::<AL<C>>(v, s1::<C>(), s0::<C>()); }
    assert forall|k: int| 0 <= k < ids.len() implies (#[trigger] ids[k]).0.0 != s0::<C>() by { assert(ids[k] == kps[k].identifier); }
    let g = thm_subthreshold_undetermined::<C>(ids, f, v1);
    assert forall|k: int| 0 <= k < kps.len() implies (#[trigger] kps[k]).signing_share.0.0 == poly::<AL<C>>(g, kps[k].identifier.0.0) by { assert(ids[k] == kps[k].identifier); }
    assert(g.len() == f.len() && g[0] != v);
}

} // verus!
}
