// lemmas/vprops_dkg.rs -- property-level theorems about the distributed key generation (C07, C08, C09) over the contracts'
// spec functions.
pub mod vprops_dkg {
#[allow(unused_imports)] use vstd::prelude::*;
#[allow(unused_imports)] use crate::traits::*;
#[allow(unused_imports)] use crate::vspec::*;
#[allow(unused_imports)] use crate::vfield::*;
#[allow(unused_imports)] use crate::keys::*;

#[allow(unused_imports)] use crate::serialization::*;
#[allow(unused_imports)] use crate::vprops_keys::*;
#[allow(unused_imports)] use crate::*;
verus! {

// C07/C08: the proof of knowledge an honest participant computes (any nonce k) passes verification under its own identifier
//@serves C07 C08
pub proof fn thm_pok_complete<C: Ciphersuite>(id: Identifier<C>, a: Seq<Scalar<C>>, k: Scalar<C>)
    requires a.len() >= 1, spec_compute_pok::<C>(id, a, spec_commitment::<C>(a), k) is Ok
    ensures spec_pok_check::<C>(id, spec_commitment::<C>(a), spec_compute_pok::<C>(id, a, spec_commitment::<C>(a), k)->Ok_0) is Ok
{
    let c = spec_commitment::<C>(a);
    let g = eg::<C>();
    let phi0 = gmul::<C>(a[0]);
    assert(c[0].0.0 == phi0);
    let ch = spec_dkg_challenge::<C>(id, phi0, gmul::<C>(k))->Ok_0;
    let z = sadd::<C>(k, smul::<C>(a[0], ch));
    // z G - ch * (a0 G) == k G
    GG::<C>::ax_smul_add(g, k, smul::<C>(a[0], ch));
    GG::<C>::ax_smul_mul(g, a[0], ch);
    let x = emul::<C>(phi0, ch);
    GG::<C>::ax_eadd_assoc(gmul::<C>(k), x, GG::<C>::e_neg(x));
    GG::<C>::ax_eadd_neg(x);
    GG::<C>::ax_eadd_id(gmul::<C>(k));
}

// C08/C09: a round-2 share is accepted by recipient `own` against the commitment of polynomial a exactly when it is a(own):
// a share computed for another recipient, or belonging to another polynomial, is rejected unless it happens to be that scalar
//@serves C08 C09
pub proof fn thm_share_accepted_iff<C: Ciphersuite>(own: Identifier<C>, f: Scalar<C>, a: Seq<Scalar<C>>, sender: Identifier<C>)
    requires a.len() >= 1
    ensures (spec_share_err::<C>(own, f, spec_commitment::<C>(a), sender) is None) == (f == poly::<AL<C>>(a, own.0.0)),
        f != poly::<AL<C>>(a, own.0.0) ==> spec_share_err::<C>(own, f, spec_commitment::<C>(a), sender) == Some(Error::<C>::InvalidSecretShare { culprit: Some(sender) })
{
    lemma_vss_complete::<C>(a, own.0.0, s1::<C>());
    lemma_one_mul::<AL<C>>(poly::<AL<C>>(a, own.0.0));
    if gmul::<C>(f) == gmul::<C>(poly::<AL<C>>(a, own.0.0)) { lemma_gen_inj::<C>(f, poly::<AL<C>>(a, own.0.0)); }
    assert(spec_commitment::<C>(a).len() == a.len());
}

// C09 (ii): the public key package is a function of the set of round-one commitments: two participants (or two runs of one
// participant) that complete on the same identifier -> commitment map hold the same public key package
//@serves C07 C09
pub proof fn thm_same_commitments_same_public_package<C: Ciphersuite>(pk1: PublicKeyPackage<C>, pk2: PublicKeyPackage<C>, ids: Set<Identifier<C>>, c: Seq<CoefficientCommitment<C>>)
    requires spec_is_pk_from_commitment::<C>(pk1, ids, c), spec_is_pk_from_commitment::<C>(pk2, ids, c)
    ensures pk1.verifying_shares@ =~= pk2.verifying_shares@, pk1.verifying_key == pk2.verifying_key, pk1.min_signers == pk2.min_signers, pk1.header == pk2.header
{
    assert forall|id: Identifier<C>| pk1.verifying_shares@.contains_key(id) implies pk1.verifying_shares@[id] == pk2.verifying_shares@[id] by { assert(ids.contains(id)); }
}

// C09 (i): whatever part3 returns in the default world is internally consistent in the part that does not depend on the peers:
// verifying share = G * signing share, same group key in both packages, own threshold recorded
//@serves C07 C09
pub proof fn thm_part3_internal_consistency<C: Ciphersuite>(kp: KeyPackage<C>, pk: PublicKeyPackage<C>, s2: crate::keys::dkg::round2::SecretPackage<C>,
        r1: Map<Identifier<C>, crate::keys::dkg::round1::Package<C>>, r2: Map<Identifier<C>, crate::keys::dkg::round2::Package<C>>)
    requires spec_part3_pre::<C>(kp, pk, s2, r1, r2)
    ensures kp.verifying_share.0.0 == gmul::<C>(kp.signing_share.0.0), kp.verifying_key == pk.verifying_key, kp.identifier == s2.identifier,
        kp.min_signers == s2.min_signers, pk.verifying_shares@.dom() == r1.dom().insert(s2.identifier),
        pk.verifying_key.element.0 == (spec_dkg_group_commitment::<C>(spec_part3_commitments::<C>(s2, r1))->Ok_0)[0].0.0
{}

} // verus!
}
