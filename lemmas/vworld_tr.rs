// lemmas/vworld_tr.rs -- the "Taproot world": what the abstract hook spec functions of `trait Ciphersuite` ARE for
// C = Secp256K1Sha256TR.  Unlike the default world (lemmas/vworld.rs, an axiom "this suite uses the default bodies"), nothing is
// assumed here: the impl DEFINES the trait-level spec functions (contracts_tr/tr.vc, `impl .. Ciphersuite for Secp256K1Sha256TR`),
// every hook body -- overridden or default -- is verified against the trait-level contract phrased with them (rule E10b), and
// `lemma_taproot_world` is proved by unfolding those definitions.
pub mod vworld_tr {
#[allow(unused_imports)] use vstd::prelude::*;
#[allow(unused_imports)] use std::collections::BTreeMap;
#[allow(unused_imports)] use crate::traits::*;
#[allow(unused_imports)] use crate::vspec::*;
#[allow(unused_imports)] use crate::vspec_tr::*;
#[allow(unused_imports)] use crate::k256_model::*;
#[allow(unused_imports)] use crate::k256_model::Scalar;
#[allow(unused_imports)] use crate::keys::*;
#[allow(unused_imports)] use crate::*;
verus! {
//@module_serves C18

// DEFINITION of the symbol `tr_rnz` (lemmas/vspec_tr.rs): the result of `random_nonzero::<TR>` as specified in lemmas/vspec_nonce.rs.  It has to be
// introduced by an axiom because the impl's `spec_generate_nonce` may not mention a function instantiated at the impl's own type (Verus:
// cyclic self-reference); `tr_rnz` occurs nowhere else, so the axiom is conservative (it assumes nothing about the code or about k256).
pub axiom fn ax_tr_rnz_def(stream: spec_fn(nat) -> u8, pos: nat)
    ensures tr_rnz(stream, pos) == (spec_rnz_val::<TR>(stream, pos), spec_rnz_end::<TR>(stream, pos));

// The Taproot world, in the vocabulary of the generic contracts (lemmas/vspec.rs, vspec_w.rs, vworld.rs) and of BIP-340/341 (lemmas/vspec_tr.rs).
pub open spec fn taproot_world() -> bool {
    // pre_sign / pre_aggregate / pre_verify: even-Y normalisation of the key material (and of R for verification)
    &&& forall|a: SigningPackage<TR>, b: crate::round1::SigningNonces<TR>, k: KeyPackage<TR>| #[trigger] TR::spec_pre_sign(a, b, k)
            == Ok::<(SigningPackage<TR>, crate::round1::SigningNonces<TR>, KeyPackage<TR>), Error<TR>>((a, b, tr_kp_even(k)))
    &&& forall|a: SigningPackage<TR>, b: BTreeMap<Identifier<TR>, crate::round2::SignatureShare<TR>>, p: PublicKeyPackage<TR>| #[trigger] TR::spec_pre_aggregate(a, b, p)
            == Ok::<(SigningPackage<TR>, BTreeMap<Identifier<TR>, crate::round2::SignatureShare<TR>>, PublicKeyPackage<TR>), Error<TR>>((a, b, tr_pkp_even(p)))
    &&& forall|m: Seq<u8>, s: Signature<TR>, k: VerifyingKey<TR>| #[trigger] TR::spec_pre_verify(m, s, k)
            == Ok::<(Seq<u8>, Signature<TR>, VerifyingKey<TR>), Error<TR>>((m, tr_sig_even(s), mk_vk(ev(vk_pt(k)))))
    // the two pre_commitment hooks are not overridden
    &&& crate::vspec_w::commitment_hooks_unused::<TR>()
    // challenge: BIP-340, x-only, never refuses
    &&& forall|r: ProjectivePoint, k: VerifyingKey<TR>, m: Seq<u8>| #[trigger] TR::spec_hook_challenge(r, k, m) == Ok::<Scalar, Error<TR>>(bip340_challenge(pt_x(r), pt_x(vk_pt(k)), m))
    &&& forall|r: ProjectivePoint, k: VerifyingKey<TR>, m: Seq<u8>| #[trigger] TR::spec_challenge(r, k, m) == Ok::<Challenge<TR>, Error<TR>>(Challenge(bip340_challenge(pt_x(r), pt_x(vk_pt(k)), m)))
    // signature share / share verification: nonces resp. commitment share negated iff the group commitment has odd Y
    &&& forall|g: GroupCommitment<TR>, n: crate::round1::SigningNonces<TR>, b: BindingFactor<TR>, l: Scalar, k: KeyPackage<TR>, c: Challenge<TR>| #![trigger TR::spec_hook_sig_share(g, n, b, l, k, c)]
            TR::spec_hook_sig_share(g, n, b, l, k, c).header == default_header::<TR>()
            && TR::spec_hook_sig_share(g, n, b, l, k, c).share.0 == spec_sig_share::<TR>(even_sc(g.0, n.hiding.0.0), even_sc(g.0, n.binding.0.0), b.0, l, k.signing_share.0.0, c.0)
    &&& forall|g: GroupCommitment<TR>, z: crate::round2::SignatureShare<TR>, i: Identifier<TR>, rs: crate::round1::GroupCommitmentShare<TR>, y: VerifyingShare<TR>, l: Scalar, c: Challenge<TR>|
            #[trigger] TR::spec_hook_verify_share(g, z, i, rs, y, l, c) == spec_sigshare_ok::<TR>(z.share.0, even_pt(g.0, rs.0), y.0.0, l, c.0)
    // verify_signature is NOT overridden: the default body on top of the overridden pre_verify and challenge
    &&& forall|m: Seq<u8>, s: Signature<TR>, k: VerifyingKey<TR>| #[trigger] TR::spec_hook_verify_signature(m, s, k) == spec_default_verify_signature::<TR>(m, s, k)
    &&& forall|m: Seq<u8>, s: Signature<TR>, k: VerifyingKey<TR>| #[trigger] TR::spec_verify_signature(m, s, k) == spec_default_verify_signature::<TR>(m, s, k)
    // nonce generation: even-Y R; dealer output untouched (post_generate is not overridden); DKG output gets the key-path-only tweak
    &&& forall|stream: spec_fn(nat) -> u8, pos: nat| #[trigger] TR::spec_generate_nonce(stream, pos) == tr_generate_nonce(stream, pos)
    &&& forall|s: BTreeMap<Identifier<TR>, SecretShare<TR>>, p: PublicKeyPackage<TR>| #[trigger] TR::spec_post_generate(s, p) == Ok::<(BTreeMap<Identifier<TR>, SecretShare<TR>>, PublicKeyPackage<TR>), Error<TR>>((s, p))
    &&& forall|k: KeyPackage<TR>, p: PublicKeyPackage<TR>| #[trigger] TR::spec_post_dkg(k, p) == Ok::<(KeyPackage<TR>, PublicKeyPackage<TR>), Error<TR>>((tr_kp_tweak(k, None), tr_pkp_tweak(p, None)))
    // 64-byte x-only signature encoding
    &&& forall|s: Signature<TR>| #[trigger] TR::spec_serialize_signature(s) == tr_serialize_signature(s)
    &&& forall|b: Seq<u8>| #[trigger] TR::spec_deserialize_signature(b) == tr_deserialize_signature(b)
}

// PROVED (no axiom): the impl defines the trait-level spec functions as exactly these
//@serves C18
pub proof fn lemma_taproot_world()
    ensures taproot_world()
{
    assert forall|m: Seq<u8>, s: Signature<TR>, k: VerifyingKey<TR>| #[trigger] TR::spec_hook_verify_signature(m, s, k) == spec_default_verify_signature::<TR>(m, s, k) by {
        assert(TR::spec_hook_verify_signature(m, s, k) == tr_verify_signature(m, s, k));
    }
    assert forall|m: Seq<u8>, s: Signature<TR>, k: VerifyingKey<TR>| #[trigger] TR::spec_verify_signature(m, s, k) == spec_default_verify_signature::<TR>(m, s, k) by {
        assert(TR::spec_verify_signature(m, s, k) == tr_verify_signature(m, s, k));
    }
}

} // verus!
}
