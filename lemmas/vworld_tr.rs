// lemmas/vworld_tr.rs -- the "Taproot world": what the abstract hook spec functions of `trait Ciphersuite` ARE for
// C = Secp256K1Sha256TR.  Unlike the default world (lemmas/vworld.rs, an axiom "this suite uses the default bodies"), nothing is
// assumed here: the impl DEFINES the trait-level spec functions (contracts_tr/tr.vc, `impl .. Ciphersuite for Secp256K1Sha256TR`),
// every hook body -- overridden or default -- is verified against the trait-level contract phrased with them (rule E10b), and
// `lemma_taproot_world` is proved by unfolding those definitions.
pub mod vworld_tr {
#[allow(unused_imports)] use vstd::prelude::*;
#[allow(unused_imports)] use std::collections::BTreeMap;
#[allow(unused_imports)] use crate::traits::*;
#[allow(unused_imports)] use crate::vspec::*;
#[allow(unused_imports)] use crate::vspec_tr::*;
#[allow(unused_imports)] use crate::k256_model::*;
#[allow(unused_imports)] use crate::keys::*;
#[allow(unused_imports)] use crate::*;
verus! {
//@module_serves C18

// DEFINITION of the symbol `tr_rnz` (lemmas/vspec_tr.rs): the result of `random_nonzero::<TR>` as specified in lemmas/vspec_nonce.rs.  It has to be
// introduced by an axiom because the impl's `spec_generate_nonce` may not mention a function instantiated at the impl's own type (Verus:
// cyclic self-reference); `tr_rnz` occurs nowhere else, so the axiom is conservative (it assumes nothing about the code or about k256).
pub axiom fn ax_tr_rnz_def(stream: spec_fn(nat) -> u8, pos: nat)
    ensures tr_rnz(stream, pos) == (spec_rnz_val::<TR>(stream, pos), spec_rnz_end::<TR>(stream, pos));

} // verus!
}
