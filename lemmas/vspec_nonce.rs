// lemmas/vspec_nonce.rs -- specification vocabulary for nonce generation and the RNG-consuming entry points
// (properties C15, C16).  Written from RFC 9591 section 4.1 (nonce_generate), section 5.1 (commit) and the
// property statements, not from the code.  Everything here speaks about the ghost-stream model of the
// caller's random source (prelude/traits.rs, trusted base T9): `stream` is the infinite byte sequence the
// source will produce, `pos` how much of it has been consumed.
pub mod vspec_nonce {
#[allow(unused_imports)] use vstd::prelude::*;
#[allow(unused_imports)] use crate::traits::*;
#[allow(unused_imports)] use crate::vspec::*;
#[allow(unused_imports)] use crate::{Header, SigningKey};
#[allow(unused_imports)] use crate::serialization::{SerializableElement, SerializableScalar};
#[allow(unused_imports)] use crate::keys::SigningShare;
#[allow(unused_imports)] use crate::round1::{Nonce, NonceCommitment, SigningNonces, SigningCommitments};
verus! {
//@module_serves C15 C16

// ---------------------------------------------------------------------------------------------------
// the n bytes of the stream starting at `pos` (what `fill_bytes` writes into an n-byte buffer)
pub open spec fn rng_bytes(stream: spec_fn(nat) -> u8, pos: nat, n: nat) -> Seq<u8>
{ Seq::new(n, |i: int| stream((pos + i) as nat)) }

// ---------------------------------------------------------------------------------------------------
// C15: signing nonces
//
// RFC 9591 section 4.1:  nonce_generate(secret) = H3(random_bytes(32) || SerializeScalar(secret))
pub open spec fn spec_nonce_generate<C: Ciphersuite>(random_bytes: Seq<u8>, secret: Scalar<C>) -> Scalar<C>
{ C::spec_H3(random_bytes + FF::<C>::spec_ser(secret)) }

// the nonce obtained from the 32 stream bytes at `pos` and the signing share
pub open spec fn spec_nonce<C: Ciphersuite>(stream: spec_fn(nat) -> u8, pos: nat, secret: SigningShare<C>) -> Nonce<C>
{ Nonce::<C>(SerializableScalar(spec_nonce_generate::<C>(rng_bytes(stream, pos, 32), secret.0.0))) }

// RFC 9591 section 5.1: the commitment to a nonce is  G.ScalarBaseMult(nonce)
pub open spec fn spec_nonce_commitment<C: Ciphersuite>(n: Nonce<C>) -> NonceCommitment<C>
{ NonceCommitment::<C>(SerializableElement(gmul::<C>(n.0.0))) }

pub open spec fn spec_signing_commitments<C: Ciphersuite>(hiding: Nonce<C>, binding: Nonce<C>) -> SigningCommitments<C>
{ SigningCommitments::<C> { header: default_header::<C>(), hiding: spec_nonce_commitment::<C>(hiding), binding: spec_nonce_commitment::<C>(binding) } }

// a (nonce pair, commitment pair) record for given nonces
pub open spec fn spec_signing_nonces_from<C: Ciphersuite>(hiding: Nonce<C>, binding: Nonce<C>) -> SigningNonces<C>
{ SigningNonces::<C> { header: default_header::<C>(), hiding: hiding, binding: binding, commitments: spec_signing_commitments::<C>(hiding, binding) } }

// RFC 9591 section 5.1 commit(sk_i): the record built from the 64-byte segment [pos, pos+64) of the stream:
// hiding nonce from [pos, pos+32), binding nonce from the 32 FURTHER bytes [pos+32, pos+64)
pub open spec fn spec_signing_nonces<C: Ciphersuite>(stream: spec_fn(nat) -> u8, pos: nat, secret: SigningShare<C>) -> SigningNonces<C>
{ spec_signing_nonces_from::<C>(spec_nonce::<C>(stream, pos, secret), spec_nonce::<C>(stream, pos + 32, secret)) }

// a buffer that holds stream[pos + i] at every index i IS the segment (extensionality hint)
pub proof fn lemma_rng_bytes_is(b: Seq<u8>, stream: spec_fn(nat) -> u8, pos: nat, n: nat)
    requires b.len() == n, forall|i: int| 0 <= i < n ==> #[trigger] b[i] == stream((pos + i) as nat)
    ensures b == rng_bytes(stream, pos, n)
{ assert(b =~= rng_bytes(stream, pos, n)); }

// consecutive 32-byte reads are adjacent and disjoint: the 64-byte segment is the hiding bytes followed by the binding bytes
pub proof fn lemma_rng_bytes_split(stream: spec_fn(nat) -> u8, pos: nat, a: nat, b: nat)
    ensures rng_bytes(stream, pos, a + b) =~= rng_bytes(stream, pos, a) + rng_bytes(stream, pos + a, b)
{}

// reproducibility / locality (C15, C16): a pair depends on the source ONLY through the 64 bytes of its own segment -- two sources
// that agree on [pos, pos+64) give the same nonces and commitments, whatever they produce elsewhere
pub proof fn lemma_signing_nonces_local<C: Ciphersuite>(st1: spec_fn(nat) -> u8, st2: spec_fn(nat) -> u8, pos: nat, secret: SigningShare<C>)
    requires forall|i: nat| pos <= i < pos + 64 ==> #[trigger] st1(i) == st2(i)
    ensures spec_signing_nonces::<C>(st1, pos, secret) == spec_signing_nonces::<C>(st2, pos, secret)
{
    assert(rng_bytes(st1, pos, 32) =~= rng_bytes(st2, pos, 32));
    assert(rng_bytes(st1, pos + 32, 32) =~= rng_bytes(st2, pos + 32, 32));
}

// ---------------------------------------------------------------------------------------------------
// C16: random_nonzero (rejection sampling).  `spec_draws_end::<C>(stream, pos, k)` (vspec.rs) is the stream position after
// k consecutive `Field::random` draws starting at `pos`; draw number k (k = 0, 1, ...) is read at that position.
pub open spec fn spec_draw_at<C: Ciphersuite>(stream: spec_fn(nat) -> u8, pos: nat, k: nat) -> Scalar<C>
{ FF::<C>::rand_val(stream, spec_draws_end::<C>(stream, pos, k)) }

// draw number k is the first non-zero one
pub open spec fn spec_is_first_nonzero<C: Ciphersuite>(stream: spec_fn(nat) -> u8, pos: nat, k: nat) -> bool
{ spec_draw_at::<C>(stream, pos, k) != s0::<C>() && forall|j: nat| j < k ==> #[trigger] spec_draw_at::<C>(stream, pos, j) == s0::<C>() }

// the stream eventually yields a non-zero scalar (true with probability 1 for a uniform source; NOT provable for
// every stream -- T11; the contracts only ever *conclude* it from the fact that the rejection loop returned)
pub open spec fn spec_rnz_ok<C: Ciphersuite>(stream: spec_fn(nat) -> u8, pos: nat) -> bool
{ exists|k: nat| spec_is_first_nonzero::<C>(stream, pos, k) }

// number of rejected (zero) draws
pub open spec fn spec_rnz_index<C: Ciphersuite>(stream: spec_fn(nat) -> u8, pos: nat) -> nat
{ choose|k: nat| spec_is_first_nonzero::<C>(stream, pos, k) }

// value of random_nonzero: the first non-zero draw; and the stream position after it
pub open spec fn spec_rnz_val<C: Ciphersuite>(stream: spec_fn(nat) -> u8, pos: nat) -> Scalar<C>
{ spec_draw_at::<C>(stream, pos, spec_rnz_index::<C>(stream, pos)) }
pub open spec fn spec_rnz_end<C: Ciphersuite>(stream: spec_fn(nat) -> u8, pos: nat) -> nat
{ spec_draws_end::<C>(stream, pos, spec_rnz_index::<C>(stream, pos) + 1) }

// position after k+1 draws = position after k draws + what draw number k consumes
pub proof fn lemma_draws_end_step<C: Ciphersuite>(stream: spec_fn(nat) -> u8, pos: nat, k: nat)
    ensures spec_draws_end::<C>(stream, pos, k + 1)
        == spec_draws_end::<C>(stream, pos, k) + FF::<C>::rand_used(stream, spec_draws_end::<C>(stream, pos, k))
    decreases k
{
    if k > 0 {
        lemma_draws_end_step::<C>(stream, pos + FF::<C>::rand_used(stream, pos), (k - 1) as nat);
        assert(spec_draws_end::<C>(stream, pos, k + 1) == spec_draws_end::<C>(stream, pos + FF::<C>::rand_used(stream, pos), k));
    } else {
        assert(spec_draws_end::<C>(stream, pos, 1) == spec_draws_end::<C>(stream, pos + FF::<C>::rand_used(stream, pos), 0));
    }
}

// every draw consumes something: positions strictly increase, so distinct draws read at distinct positions
pub proof fn lemma_draws_end_increasing<C: Ciphersuite>(stream: spec_fn(nat) -> u8, pos: nat, j: nat, k: nat)
    requires j < k
    ensures spec_draws_end::<C>(stream, pos, j) < spec_draws_end::<C>(stream, pos, k)
    decreases k
{
    lemma_draws_end_step::<C>(stream, pos, (k - 1) as nat);
    FF::<C>::ax_rand_used(stream, spec_draws_end::<C>(stream, pos, (k - 1) as nat));
    if j < k - 1 { lemma_draws_end_increasing::<C>(stream, pos, j, (k - 1) as nat); }
}

// the index of the first non-zero draw is unique, so "the first non-zero draw" is a function of (stream, pos)
pub proof fn lemma_first_nonzero_unique<C: Ciphersuite>(stream: spec_fn(nat) -> u8, pos: nat, k1: nat, k2: nat)
    requires spec_is_first_nonzero::<C>(stream, pos, k1), spec_is_first_nonzero::<C>(stream, pos, k2)
    ensures k1 == k2
{
    if k1 < k2 { assert(spec_draw_at::<C>(stream, pos, k1) == s0::<C>()); }
    if k2 < k1 { assert(spec_draw_at::<C>(stream, pos, k2) == s0::<C>()); }
}

// what a returning rejection loop establishes: k zero draws followed by one non-zero draw
pub proof fn lemma_rnz_is<C: Ciphersuite>(stream: spec_fn(nat) -> u8, pos: nat, k: nat)
    requires spec_is_first_nonzero::<C>(stream, pos, k)
    ensures spec_rnz_ok::<C>(stream, pos), spec_rnz_index::<C>(stream, pos) == k,
        spec_rnz_val::<C>(stream, pos) == spec_draw_at::<C>(stream, pos, k),
        spec_rnz_end::<C>(stream, pos) == spec_draws_end::<C>(stream, pos, k + 1),
        spec_rnz_val::<C>(stream, pos) != s0::<C>(),
        spec_rnz_end::<C>(stream, pos) > pos,
{
    let k2 = spec_rnz_index::<C>(stream, pos);
    assert(spec_is_first_nonzero::<C>(stream, pos, k2));
    lemma_first_nonzero_unique::<C>(stream, pos, k, k2);
    lemma_draws_end_increasing::<C>(stream, pos, 0, k + 1);
    assert(spec_draws_end::<C>(stream, pos, 0) == pos);
}

// consequences used by callers: the value is non-zero and the source has advanced
pub proof fn lemma_rnz_props<C: Ciphersuite>(stream: spec_fn(nat) -> u8, pos: nat)
    requires spec_rnz_ok::<C>(stream, pos)
    ensures spec_rnz_val::<C>(stream, pos) != s0::<C>(), spec_rnz_end::<C>(stream, pos) > pos
{
    let k = choose|k: nat| spec_is_first_nonzero::<C>(stream, pos, k);
    lemma_rnz_is::<C>(stream, pos, k);
}

// if some draw up to number n is non-zero then there is a first non-zero draw
pub proof fn lemma_first_nonzero_exists<C: Ciphersuite>(stream: spec_fn(nat) -> u8, pos: nat, n: nat)
    requires spec_draw_at::<C>(stream, pos, n) != s0::<C>()
    ensures spec_rnz_ok::<C>(stream, pos)
    decreases n
{
    if forall|j: nat| j < n ==> #[trigger] spec_draw_at::<C>(stream, pos, j) == s0::<C>() {
        assert(spec_is_first_nonzero::<C>(stream, pos, n));
    } else {
        let j = choose|j: nat| j < n && #[trigger] spec_draw_at::<C>(stream, pos, j) != s0::<C>();
        lemma_first_nonzero_exists::<C>(stream, pos, j);
    }
}

// conversely: a contract that only says `res == spec_rnz_val(..) && res != 0` (SigningKey::new, the generate_nonce hook)
// already pins `res` to the first non-zero draw
pub proof fn lemma_rnz_nonzero_ok<C: Ciphersuite>(stream: spec_fn(nat) -> u8, pos: nat)
    requires spec_rnz_val::<C>(stream, pos) != s0::<C>()
    ensures spec_rnz_ok::<C>(stream, pos)
{ lemma_first_nonzero_exists::<C>(stream, pos, spec_rnz_index::<C>(stream, pos)); }

// C16 (reproducibility): two sources with the same output give the same random_nonzero result and leave the source at
// the same position.  Immediate because the result is a *function* of (stream, pos) -- stated as a lemma so that the
// check has a named obligation for it.
pub proof fn lemma_rnz_deterministic<C: Ciphersuite>(st1: spec_fn(nat) -> u8, st2: spec_fn(nat) -> u8, pos: nat)
    requires st1 == st2
    ensures spec_rnz_val::<C>(st1, pos) == spec_rnz_val::<C>(st2, pos), spec_rnz_end::<C>(st1, pos) == spec_rnz_end::<C>(st2, pos)
{}

// ---------------------------------------------------------------------------------------------------
// C15 consequences that ARE decided by the contracts (pure logic, no property of H3 needed)

// a batch of k pairs consumes k disjoint, consecutive 64-byte segments: segment j is [pos+64j, pos+64j+64)
pub open spec fn spec_pair_segment(stream: spec_fn(nat) -> u8, pos: nat, j: nat) -> Seq<u8>
{ rng_bytes(stream, pos + 64 * j, 64) }

// the hiding and binding nonce of pair j hash exactly the two halves of segment j, followed by the encoded share
pub proof fn lemma_pair_reads_segment<C: Ciphersuite>(stream: spec_fn(nat) -> u8, pos: nat, j: nat, secret: SigningShare<C>)
    ensures
        spec_signing_nonces::<C>(stream, pos + 64 * j, secret).hiding.0.0
            == C::spec_H3(spec_pair_segment(stream, pos, j).subrange(0, 32) + FF::<C>::spec_ser(secret.0.0)),
        spec_signing_nonces::<C>(stream, pos + 64 * j, secret).binding.0.0
            == C::spec_H3(spec_pair_segment(stream, pos, j).subrange(32, 64) + FF::<C>::spec_ser(secret.0.0)),
{
    let p = pos + 64 * j;
    assert(spec_pair_segment(stream, pos, j).subrange(0, 32) =~= rng_bytes(stream, p, 32));
    assert(spec_pair_segment(stream, pos, j).subrange(32, 64) =~= rng_bytes(stream, p + 32, 32));
}

// segments of different pairs do not overlap (they are read at disjoint position ranges of the stream)
pub proof fn lemma_segments_disjoint(pos: nat, i: nat, j: nat)
    requires i < j
    ensures pos + 64 * i + 64 <= pos + 64 * j
{}

// "nonces differ whenever the random bytes or the share differ": the H3 PREIMAGE `random_bytes || SerializeScalar(share)` is an
// injective function of (random_bytes, share) (fixed byte length + canonical scalar encoding, T4) ...
pub proof fn lemma_nonce_preimage_injective<C: Ciphersuite>(rb1: Seq<u8>, sh1: Scalar<C>, rb2: Seq<u8>, sh2: Scalar<C>)
    requires rb1.len() == rb2.len(), rb1 + FF::<C>::spec_ser(sh1) == rb2 + FF::<C>::spec_ser(sh2)
    ensures rb1 == rb2, sh1 == sh2
{
    let a = rb1 + FF::<C>::spec_ser(sh1);
    let b = rb2 + FF::<C>::spec_ser(sh2);
    let n = rb1.len() as int;
    assert(a.subrange(0, n) =~= rb1);
    assert(b.subrange(0, n) =~= rb2);
    assert(rb1 == rb2);
    FF::<C>::ax_ser_len(sh1); FF::<C>::ax_ser_len(sh2);
    assert(a.subrange(n, a.len() as int) =~= FF::<C>::spec_ser(sh1));
    assert(b.subrange(n, b.len() as int) =~= FF::<C>::spec_ser(sh2));
    FF::<C>::ax_ser_deser(sh1); FF::<C>::ax_ser_deser(sh2);
}

// ... so two equal nonces from different (bytes, share) ARE a collision of H3.  Whether H3 has such collisions is a property of
// the hash function (T5 assumes only determinism): this is the exact residue of the clause that the contracts do not decide.
pub proof fn lemma_nonce_collision_is_h3_collision<C: Ciphersuite>(rb1: Seq<u8>, sh1: Scalar<C>, rb2: Seq<u8>, sh2: Scalar<C>)
    requires rb1.len() == rb2.len(), rb1 != rb2 || sh1 != sh2,
        spec_nonce_generate::<C>(rb1, sh1) == spec_nonce_generate::<C>(rb2, sh2)
    ensures exists|m1: Seq<u8>, m2: Seq<u8>| m1 != m2 && #[trigger] C::spec_H3(m1) == #[trigger] C::spec_H3(m2)
{
    let m1 = rb1 + FF::<C>::spec_ser(sh1);
    let m2 = rb2 + FF::<C>::spec_ser(sh2);
    if m1 == m2 { lemma_nonce_preimage_injective::<C>(rb1, sh1, rb2, sh2); }
    assert(m1 != m2 && C::spec_H3(m1) == C::spec_H3(m2));
}

// "no commitment is ever the identity" reduces to "no nonce is ever zero" (prime order), and different nonces have different
// commitments.  That a nonce = H3(..) is never ZERO is again a statement about H3 (the code does not check it): not decided.
pub proof fn lemma_commitment_identity_iff_nonce_zero<C: Ciphersuite>(n: Nonce<C>)
    ensures (spec_nonce_commitment::<C>(n).0.0 == e0::<C>()) == (n.0.0 == s0::<C>())
{
    lemma_smul_zero::<C>(eg::<C>());
    GG::<C>::ax_smul_cancel(eg::<C>(), n.0.0);
    GG::<C>::ax_gen_ne_id();
}
pub proof fn lemma_commitment_injective<C: Ciphersuite>(n1: Nonce<C>, n2: Nonce<C>)
    requires spec_nonce_commitment::<C>(n1) == spec_nonce_commitment::<C>(n2)
    ensures n1 == n2
{ lemma_gen_inj::<C>(n1.0.0, n2.0.0); }

// ---------------------------------------------------------------------------------------------------
// C16 consequences decided by the contracts: layout of the consumed stream segment

// the j-th element of `spec_draws` is the draw read at position `spec_draws_end(.., j)`: every value is `rand_val` of ITS OWN position
pub proof fn lemma_draws_index<C: Ciphersuite>(stream: spec_fn(nat) -> u8, pos: nat, k: nat, j: nat)
    requires j < k
    ensures spec_draws::<C>(stream, pos, k).len() == k, spec_draws::<C>(stream, pos, k)[j as int] == spec_draw_at::<C>(stream, pos, j)
    decreases k
{
    lemma_draws_len::<C>(stream, pos, k);
    let pos1 = pos + FF::<C>::rand_used(stream, pos);
    lemma_draws_len::<C>(stream, pos1, (k - 1) as nat);
    if j > 0 {
        lemma_draws_index::<C>(stream, pos1, (k - 1) as nat, (j - 1) as nat);
        assert(spec_draws_end::<C>(stream, pos, j) == spec_draws_end::<C>(stream, pos1, (j - 1) as nat));
    } else {
        assert(spec_draws_end::<C>(stream, pos, 0) == pos);
    }
}

// trusted-dealer key generation (generate_with_dealer): [key draws ...][t-1 coefficient draws].  The accepted key draw is read
// strictly before `spec_rnz_end`, coefficient j is the draw read at `spec_draws_end(stream, spec_rnz_end, j)`, which lies at or after
// `spec_rnz_end`, before the final position, and at a different position for every j: no draw is used twice.
pub proof fn lemma_dealer_layout<C: Ciphersuite>(stream: spec_fn(nat) -> u8, pos: nat, t: nat, i: nat, j: nat)
    requires spec_rnz_ok::<C>(stream, pos), i < j, j + 1 < t
    ensures ({
        let key_at = spec_draws_end::<C>(stream, pos, spec_rnz_index::<C>(stream, pos));
        let ke = spec_rnz_end::<C>(stream, pos);
        let poly = seq![spec_rnz_val::<C>(stream, pos)] + spec_draws::<C>(stream, ke, (t - 1) as nat);
        &&& poly.len() == t
        &&& poly[0] == FF::<C>::rand_val(stream, key_at) && pos <= key_at < ke
        &&& poly[j as int + 1] == FF::<C>::rand_val(stream, spec_draws_end::<C>(stream, ke, j))
        &&& poly[i as int + 1] == FF::<C>::rand_val(stream, spec_draws_end::<C>(stream, ke, i))
        &&& ke <= spec_draws_end::<C>(stream, ke, i) < spec_draws_end::<C>(stream, ke, j) < spec_draws_end::<C>(stream, ke, (t - 1) as nat)
    })
{
    let idx = spec_rnz_index::<C>(stream, pos);
    let ke = spec_rnz_end::<C>(stream, pos);
    assert(spec_is_first_nonzero::<C>(stream, pos, idx));
    lemma_draws_end_increasing::<C>(stream, pos, idx, idx + 1);
    if idx > 0 { lemma_draws_end_increasing::<C>(stream, pos, 0, idx); }
    assert(spec_draws_end::<C>(stream, pos, 0) == pos);
    lemma_draws_index::<C>(stream, ke, (t - 1) as nat, j);
    lemma_draws_index::<C>(stream, ke, (t - 1) as nat, i);
    lemma_draws_end_increasing::<C>(stream, ke, i, j);
    lemma_draws_end_increasing::<C>(stream, ke, j, (t - 1) as nat);
    if i > 0 { lemma_draws_end_increasing::<C>(stream, ke, 0, i); }
    assert(spec_draws_end::<C>(stream, ke, 0) == ke);
}

} // verus!
}
