// lemmas/vspec_codec.rs -- C12 vocabulary: the wire codec of frost-core's fixed-size types as total spec functions over the
// ciphersuite's primitive codecs (`Field::spec_ser/spec_deser`, `Group::spec_eser/spec_edeser`, trusted base T4).
// Written from the property text, not from the code:
//   enc_X(v)  the encoding of v        (Option where a value may have no encoding: the identity element)
//   dec_X(b)  Some(v): the byte string b is accepted and denotes v;  None: b is rejected
// The contracts in contracts/codec.vc state that the executable (de)serialisers compute exactly these functions (and which
// error each rejection reports); lemmas/vprops_codec.rs proves round trip, canonicity and rejection about them.
pub mod vspec_codec {
#[allow(unused_imports)] use vstd::prelude::*;
#[allow(unused_imports)] use crate::traits::*;
#[allow(unused_imports)] use crate::vspec::*;
#[allow(unused_imports)] use crate::vstdx::*;
#[allow(unused_imports)] use crate::serialization::{SerializableElement, SerializableScalar};
#[allow(unused_imports)] use crate::keys::{CoefficientCommitment, VerifiableSecretSharingCommitment};
#[allow(unused_imports)] use crate::{Identifier, Signature, SigningKey, VerifyingKey, Error, FieldError, GroupError};
verus! {
//@module_serves C12 C14 C02

// fixed encoding lengths of the suite (RFC 9591: Ns, Ne)
pub open spec fn codec_ns<C: Ciphersuite>() -> nat { FF::<C>::spec_ns() }
pub open spec fn codec_ne<C: Ciphersuite>() -> nat { GG::<C>::spec_ne() }

// ---- scalars ------------------------------------------------------------------------------------------
pub open spec fn enc_scalar<C: Ciphersuite>(s: Scalar<C>) -> Seq<u8> { FF::<C>::spec_ser(s) }
// accepted: exactly Ns bytes that the suite's scalar decoder accepts (in range, canonical: T4)
pub open spec fn dec_scalar<C: Ciphersuite>(b: Seq<u8>) -> Option<Scalar<C>>
{ if b.len() == codec_ns::<C>() { FF::<C>::spec_deser(b) } else { None } }

// ---- group elements -----------------------------------------------------------------------------------
// the identity element has no encoding
pub open spec fn enc_element<C: Ciphersuite>(e: Element<C>) -> Option<Seq<u8>>
{ if e == e0::<C>() { None } else { Some(GG::<C>::spec_eser(e)) } }
// accepted: exactly Ne bytes that the suite's element decoder accepts (on the curve, prime-order subgroup, canonical,
// not the identity: T4)
pub open spec fn dec_element<C: Ciphersuite>(b: Seq<u8>) -> Option<Element<C>>
{ if b.len() == codec_ne::<C>() { GG::<C>::spec_edeser(b) } else { None } }

// ---- identifiers: non-zero scalars ----------------------------------------------------------------------
pub open spec fn enc_identifier<C: Ciphersuite>(i: Identifier<C>) -> Seq<u8> { enc_scalar::<C>(i.0.0) }
pub open spec fn dec_identifier<C: Ciphersuite>(b: Seq<u8>) -> Option<Identifier<C>> {
    match dec_scalar::<C>(b) {
        Some(s) => if s == s0::<C>() { None } else { Some(Identifier::<C>(SerializableScalar(s))) },
        None => None,
    }
}

// ---- signing keys: non-zero scalars ----------------------------------------------------------------------
pub open spec fn enc_signing_key<C: Ciphersuite>(k: SigningKey<C>) -> Seq<u8> { enc_scalar::<C>(k.scalar) }
pub open spec fn dec_signing_key<C: Ciphersuite>(b: Seq<u8>) -> Option<SigningKey<C>> {
    match dec_scalar::<C>(b) {
        Some(s) => if s == s0::<C>() { None } else { Some(SigningKey::<C> { scalar: s }) },
        None => None,
    }
}

// ---- verifying keys: non-identity elements ----------------------------------------------------------------
pub open spec fn enc_verifying_key<C: Ciphersuite>(k: VerifyingKey<C>) -> Option<Seq<u8>> { enc_element::<C>(k.element.0) }
pub open spec fn dec_verifying_key<C: Ciphersuite>(b: Seq<u8>) -> Option<VerifyingKey<C>> {
    match dec_element::<C>(b) {
        Some(e) => Some(VerifyingKey::<C> { element: SerializableElement(e) }),
        None => None,
    }
}

// ---- signatures (RFC 9591 section 5.3 / appendix A: R || z, Ne + Ns bytes, no padding) ------------------------
// Stated over the group (`G: Group`) so that the hook contracts inside `trait Ciphersuite` can use them (a spec function
// bounded by `C: Ciphersuite` there is a cyclic self-reference for Verus); the `C`-level names below are the same functions.
pub open spec fn gsig_r_bytes<G: Group>(b: Seq<u8>) -> Seq<u8> { b.subrange(0, G::spec_ne() as int) }
pub open spec fn gsig_z_bytes<G: Group>(b: Seq<u8>) -> Seq<u8> { b.subrange(G::spec_ne() as int, (G::spec_ne() + <G::Field as Field>::spec_ns()) as int) }

pub open spec fn genc_sig<G: Group>(r: G::Element, z: <G::Field as Field>::Scalar) -> Option<Seq<u8>>
{ if r == G::e_id() { None } else { Some(G::spec_eser(r) + <G::Field as Field>::spec_ser(z)) } }

pub open spec fn gdec_sig<G: Group>(b: Seq<u8>) -> Option<(G::Element, <G::Field as Field>::Scalar)> {
    if b.len() != G::spec_ne() + <G::Field as Field>::spec_ns() { None }
    else {
        match (G::spec_edeser(gsig_r_bytes::<G>(b)), <G::Field as Field>::spec_deser(gsig_z_bytes::<G>(b))) {
            (Some(r), Some(z)) => Some((r, z)),
            _ => None,
        }
    }
}

pub open spec fn sig_r_bytes<C: Ciphersuite>(b: Seq<u8>) -> Seq<u8> { gsig_r_bytes::<GG<C>>(b) }
pub open spec fn sig_z_bytes<C: Ciphersuite>(b: Seq<u8>) -> Seq<u8> { gsig_z_bytes::<GG<C>>(b) }
pub open spec fn enc_signature<C: Ciphersuite>(sig: Signature<C>) -> Option<Seq<u8>> { genc_sig::<GG<C>>(sig.R, sig.z) }
pub open spec fn dec_signature<C: Ciphersuite>(b: Seq<u8>) -> Option<Signature<C>> {
    match gdec_sig::<GG<C>>(b) { Some(p) => Some(Signature::<C> { R: p.0, z: p.1 }), None => None }
}

// ---- commitment vectors: the element encodings one after the other -----------------------------------------
pub open spec fn commitment_has_identity<C: Ciphersuite>(c: Seq<CoefficientCommitment<C>>) -> bool
{ exists|k: int| 0 <= k < c.len() && (#[trigger] c[k]).0.0 == e0::<C>() }

pub open spec fn enc_commitment<C: Ciphersuite>(c: Seq<CoefficientCommitment<C>>) -> Option<Seq<Seq<u8>>> {
    if commitment_has_identity::<C>(c) { None }
    else { Some(Seq::new(c.len(), |k: int| GG::<C>::spec_eser(c[k].0.0))) }
}
pub open spec fn enc_commitment_whole<C: Ciphersuite>(c: Seq<CoefficientCommitment<C>>) -> Option<Seq<u8>> {
    match enc_commitment::<C>(c) { Some(l) => Some(l.flatten()), None => None }
}

// decoding a list of chunks: every chunk must be an accepted element encoding
pub open spec fn chunks_all_accepted<C: Ciphersuite>(chunks: Seq<Seq<u8>>) -> bool
{ forall|k: int| 0 <= k < chunks.len() ==> dec_element::<C>(#[trigger] chunks[k]) is Some }

// index of the first rejected chunk (chunks.len() if there is none)
pub open spec fn first_rejected<C: Ciphersuite>(chunks: Seq<Seq<u8>>) -> int decreases chunks.len()
{ if chunks.len() == 0 { 0 } else if dec_element::<C>(chunks[0]) is None { 0 } else { 1 + first_rejected::<C>(chunks.drop_first()) } }

pub open spec fn dec_commitment_list<C: Ciphersuite>(chunks: Seq<Seq<u8>>) -> Option<Seq<CoefficientCommitment<C>>> {
    if chunks_all_accepted::<C>(chunks) {
        Some(Seq::new(chunks.len(), |k: int| CoefficientCommitment::<C>(SerializableElement(dec_element::<C>(chunks[k])->Some_0))))
    } else { None }
}
// a whole vector: the length must be a multiple of Ne (no trailing bytes), every Ne-byte chunk an accepted element
pub open spec fn dec_commitment_whole<C: Ciphersuite>(b: Seq<u8>) -> Option<Seq<CoefficientCommitment<C>>> {
    if codec_ne::<C>() == 0 || b.len() % codec_ne::<C>() != 0 { None }
    else { dec_commitment_list::<C>(spec_chunks(b, codec_ne::<C>())) }
}

// ---- facts about the primitive codecs used by the contracts (consequences of T4) ------------------------------
// a byte string the scalar decoder accepts has length Ns (so `dec_scalar` == `spec_deser`)
pub proof fn lemma_deser_len<C: Ciphersuite>(b: Seq<u8>)
    ensures FF::<C>::spec_deser(b) is Some ==> b.len() == codec_ns::<C>(), dec_scalar::<C>(b) == FF::<C>::spec_deser(b)
{
    if FF::<C>::spec_deser(b) is Some {
        FF::<C>::ax_deser_canonical(b);
        FF::<C>::ax_ser_len(FF::<C>::spec_deser(b)->Some_0);
    }
}
pub proof fn lemma_edeser_len<C: Ciphersuite>(b: Seq<u8>)
    ensures GG::<C>::spec_edeser(b) is Some ==> b.len() == codec_ne::<C>() && GG::<C>::spec_edeser(b)->Some_0 != e0::<C>(),
        dec_element::<C>(b) == GG::<C>::spec_edeser(b)
{
    if GG::<C>::spec_edeser(b) is Some {
        GG::<C>::ax_edeser_canonical(b);
        GG::<C>::ax_eser_len(GG::<C>::spec_edeser(b)->Some_0);
    }
}

// chunking a byte string into Ne-byte pieces: no remainder iff the length is a multiple of Ne; every chunk has Ne bytes
pub proof fn lemma_chunks_facts<C: Ciphersuite>(b: Seq<u8>)
    requires codec_ne::<C>() > 0
    ensures
        (spec_chunks_remainder(b, codec_ne::<C>()).len() == 0) == (b.len() % codec_ne::<C>() == 0),
        spec_chunks(b, codec_ne::<C>()).len() == b.len() / codec_ne::<C>(),
        forall|k: int| 0 <= k < spec_chunks(b, codec_ne::<C>()).len() ==> (#[trigger] spec_chunks(b, codec_ne::<C>())[k]).len() == codec_ne::<C>(),
        !chunks_all_accepted::<C>(spec_chunks(b, codec_ne::<C>())) ==> 0 <= first_rejected::<C>(spec_chunks(b, codec_ne::<C>())) < spec_chunks(b, codec_ne::<C>()).len(),
{
    let n = codec_ne::<C>() as int;
    let l = b.len() as int;
    vstd::arithmetic::div_mod::lemma_fundamental_div_mod(l, n);
    vstd::arithmetic::div_mod::lemma_mod_bound(l, n);
    vstd::arithmetic::div_mod::lemma_div_pos_is_pos(l, n);
    assert(n * (l / n) == (l / n) * n) by (nonlinear_arith);
    let ch = spec_chunks(b, codec_ne::<C>());
    assert forall|k: int| 0 <= k < ch.len() implies (#[trigger] ch[k]).len() == codec_ne::<C>() by {
        assert(k * n + n <= (l / n) * n) by (nonlinear_arith) requires 0 <= k < l / n, n > 0;
    }
    lemma_first_rejected::<C>(ch);
}

pub proof fn lemma_first_rejected<C: Ciphersuite>(chunks: Seq<Seq<u8>>)
    ensures
        0 <= first_rejected::<C>(chunks) <= chunks.len(),
        forall|k: int| 0 <= k < first_rejected::<C>(chunks) ==> dec_element::<C>(#[trigger] chunks[k]) is Some,
        first_rejected::<C>(chunks) < chunks.len() ==> dec_element::<C>(chunks[first_rejected::<C>(chunks)]) is None,
        chunks_all_accepted::<C>(chunks) == (first_rejected::<C>(chunks) == chunks.len()),
    decreases chunks.len()
{
    if chunks.len() > 0 && dec_element::<C>(chunks[0]) is Some {
        let t = chunks.drop_first();
        lemma_first_rejected::<C>(t);
        let j = first_rejected::<C>(t);
        assert forall|k: int| 0 <= k < 1 + j implies dec_element::<C>(#[trigger] chunks[k]) is Some by { if k > 0 { assert(t[k - 1] == chunks[k]); } }
        if j < t.len() { assert(t[j] == chunks[1 + j]); }
        if chunks_all_accepted::<C>(chunks) { assert forall|k: int| 0 <= k < t.len() implies dec_element::<C>(#[trigger] t[k]) is Some by { assert(t[k] == chunks[k + 1]); } }
    }
}

// what `self.0.iter().map(|cc| cc.serialize()).collect::<Result<Vec<_>, _>>()` hands back (helper map_collect_result_vec in
// prelude/vstdx.rs): `vals` are the per-entry results in order, collection stops at the first Err
pub open spec fn spec_collected_encodings<C: Ciphersuite>(c: Seq<CoefficientCommitment<C>>, vals: Seq<Result<Vec<u8>, Error<C>>>,
        res: Result<Vec<Vec<u8>>, Error<C>>) -> bool {
    vals.len() <= c.len()
    && (forall|k: int| 0 <= k < vals.len() ==>
            (c[k].0.0 == e0::<C>() ==> #[trigger] vals[k] == Err::<Vec<u8>, Error<C>>(Error::GroupError(GroupError::InvalidIdentityElement)))
            && (c[k].0.0 != e0::<C>() ==> vals[k] is Ok && (vals[k]->Ok_0)@ == GG::<C>::spec_eser(c[k].0.0)))
    && (res is Ok ==> vals.len() == c.len() && (res->Ok_0)@.len() == vals.len()
            && forall|k: int| 0 <= k < vals.len() ==> #[trigger] vals[k] == Ok::<Vec<u8>, Error<C>>((res->Ok_0)@[k]))
    && (res is Err ==> vals.len() > 0 && vals.last() == Err::<Vec<u8>, Error<C>>(res->Err_0)
            && forall|k: int| 0 <= k < vals.len() - 1 ==> #[trigger] vals[k] is Ok)
}

pub proof fn lemma_collected_encodings<C: Ciphersuite>(c: Seq<CoefficientCommitment<C>>, vals: Seq<Result<Vec<u8>, Error<C>>>,
        res: Result<Vec<Vec<u8>>, Error<C>>)
    requires spec_collected_encodings::<C>(c, vals, res)
    ensures
        commitment_has_identity::<C>(c) ==> res == Err::<Vec<Vec<u8>>, Error<C>>(Error::GroupError(GroupError::InvalidIdentityElement)),
        !commitment_has_identity::<C>(c) ==> res is Ok && Some((res->Ok_0)@.map_values(|v: Vec<u8>| v@)) == enc_commitment::<C>(c),
{
    if res is Ok {
        assert forall|k: int| 0 <= k < c.len() implies (#[trigger] c[k]).0.0 != e0::<C>() by { assert(vals[k] is Ok); }
        let deep = (res->Ok_0)@.map_values(|v: Vec<u8>| v@);
        let want = Seq::new(c.len(), |k: int| GG::<C>::spec_eser(c[k].0.0));
        assert forall|k: int| 0 <= k < c.len() implies deep[k] == want[k] by { assert(vals[k] is Ok); }
        assert(deep =~= want);
    } else {
        let j = vals.len() - 1;
        assert(vals[j] is Err);
        assert(c[j].0.0 == e0::<C>());
    }
}

// ---- chunking and flattening (pure sequence facts used by the commitment-vector theorems) --------------------------
// flattening m pieces of n elements each and cutting the result into n-element chunks gives the pieces back
pub proof fn lemma_flatten_uniform<T>(l: Seq<Seq<T>>, n: nat)
    requires n > 0, forall|k: int| 0 <= k < l.len() ==> (#[trigger] l[k]).len() == n
    ensures l.flatten().len() == l.len() * n, spec_chunks(l.flatten(), n) =~= l
    decreases l.len()
{
    let ni = n as int;
    if l.len() == 0 {
        assert(l.flatten() =~= Seq::<T>::empty());
        vstd::arithmetic::div_mod::lemma_div_basics(ni);
    } else {
        let t = l.drop_first();
        let m1 = t.len() as int;
        assert forall|k: int| 0 <= k < t.len() implies (#[trigger] t[k]).len() == n by { assert(t[k] == l[k + 1]); }
        lemma_flatten_uniform(t, n);
        let f = t.flatten();
        let b = l.flatten();
        assert(b == l.first() + f);
        assert(b.len() == ni + m1 * ni);
        assert(ni + m1 * ni == (m1 + 1) * ni) by (nonlinear_arith);
        vstd::arithmetic::div_mod::lemma_div_by_multiple(m1 + 1, ni);
        let ch = spec_chunks(b, n);
        assert(ch.len() == l.len());
        assert forall|k: int| 0 <= k < l.len() implies ch[k] =~= l[k] by {
            assert(k * ni + ni <= (m1 + 1) * ni) by (nonlinear_arith) requires 0 <= k <= m1, ni > 0;
            if k == 0 {
                assert(b.subrange(0, ni) =~= l[0]);
            } else {
                assert((k - 1) * ni + ni == k * ni) by (nonlinear_arith);
                assert((k - 1) * ni >= 0) by (nonlinear_arith) requires k >= 1, ni > 0;
                assert(b.subrange(k * ni, k * ni + ni) =~= f.subrange((k - 1) * ni, (k - 1) * ni + ni));
                assert(spec_chunks(f, n)[k - 1] == f.subrange((k - 1) * ni, (k - 1) * ni + ni));
                assert(t[k - 1] == l[k]);
            }
        }
    }
}

// cutting a string whose length is a multiple of n into n-element chunks and flattening them gives the string back
pub proof fn lemma_chunks_flatten<T>(b: Seq<T>, n: nat)
    requires n > 0, b.len() % n == 0
    ensures spec_chunks(b, n).flatten() =~= b
    decreases b.len()
{
    let ni = n as int; let l = b.len() as int;
    let ch = spec_chunks(b, n);
    vstd::arithmetic::div_mod::lemma_fundamental_div_mod(l, ni);
    if l == 0 {
        vstd::arithmetic::div_mod::lemma_div_basics(ni);
        assert(ch =~= Seq::<Seq<T>>::empty());
        assert(ch.flatten() =~= Seq::<T>::empty());
    } else {
        let q = l / ni;
        assert(q >= 1 && l == ni * q && l >= ni) by (nonlinear_arith) requires l == ni * q + 0, l > 0, ni > 0;
        let rest = b.skip(ni);
        assert((l - ni) == ni * (q - 1)) by (nonlinear_arith) requires l == ni * q;
        vstd::arithmetic::div_mod::lemma_mod_multiples_basic(q - 1, ni);
        vstd::arithmetic::div_mod::lemma_div_multiples_vanish(q - 1, ni);
        assert(ni * (q - 1) == (q - 1) * ni) by (nonlinear_arith);
        lemma_chunks_flatten(rest, n);
        let chr = spec_chunks(rest, n);
        assert(ch.len() == q && chr.len() == q - 1);
        assert(ch.drop_first() =~= chr) by {
            assert forall|k: int| 0 <= k < q - 1 implies #[trigger] ch.drop_first()[k] =~= chr[k] by {
                assert((k + 1) * ni == k * ni + ni) by (nonlinear_arith);
                assert(k * ni >= 0 && (k + 1) * ni + ni <= l) by (nonlinear_arith) requires 0 <= k < q - 1, ni > 0, l == ni * q;
            }
        }
        assert(ch.first() =~= b.subrange(0, ni));
        assert(ch.flatten() == ch.first() + ch.drop_first().flatten());
        assert(b.subrange(0, ni) + rest =~= b);
    }
}

} // verus!
}
