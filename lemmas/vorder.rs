// lemmas/vorder.rs -- the ascending sequence of a set of identifiers is unique, so contracts can name *the*
// iteration sequence of a BTreeSet/BTreeMap with one deterministic spec function instead of an existential.
pub mod vorder {
#[allow(unused_imports)] use vstd::prelude::*;
#[allow(unused_imports)] use vstd::std_specs::cmp::*;
#[allow(unused_imports)] use vstd::std_specs::btree::*;
#[allow(unused_imports)] use vstd::laws_cmp::*;
#[allow(unused_imports)] use core::cmp::Ordering;
verus! {
//@module_serves ALL

pub open spec fn lt<K: Ord>(a: K, b: K) -> bool { a.cmp_spec(&b) is Less }

// strict-order laws of `cmp_spec` in the explicit form the proofs below use.  (They are consequences of
// vstd::laws_cmp::obeys_cmp, but this Verus prunes the body of obeys_cmp_ord/obeys_partial_cmp_spec_properties from
// queries over a generic key type -- measured -- so the laws cannot be extracted from obeys_cmp inside a proof.)
pub open spec fn lt_laws<K: Ord>() -> bool {
    &&& forall|a: K| !#[trigger] lt(a, a)
    &&& forall|a: K, b: K, c: K| #[trigger] lt(a, b) && #[trigger] lt(b, c) ==> lt(a, c)
}

pub proof fn lemma_sorted_unique<K: Ord>(p: Seq<K>, q: Seq<K>)
    requires obeys_cmp::<K>(), lt_laws::<K>(), increasing_seq(p), increasing_seq(q), p.to_set() == q.to_set(), p.no_duplicates(), q.no_duplicates()
    ensures p == q
    decreases p.len()
{
    broadcast use axiom_increasing_seq_meaning;
    p.unique_seq_to_set(); q.unique_seq_to_set();
    if p.len() == 0 {
        assert(p =~= q);
    } else {
        let m = p.last();
        assert(p.contains(m));
        assert(q.to_set().contains(m));
        let j = choose|j: int| 0 <= j < q.len() && q[j] == m;
        let m2 = q.last();
        assert(q.contains(m2));
        assert(p.to_set().contains(m2));
        let i = choose|i: int| 0 <= i < p.len() && p[i] == m2;
        if j != q.len() - 1 {
            assert(lt(q[j], q[q.len() - 1]));
            if i != p.len() - 1 { assert(lt(p[i], p[p.len() - 1])); }
            assert(false);
        }
        let p1 = p.drop_last(); let q1 = q.drop_last();
        assert(p1.to_set() =~= q1.to_set()) by {
            assert forall|x: K| p1.to_set().contains(x) <==> q1.to_set().contains(x) by {
                if p1.contains(x) {
                    let w = choose|w: int| 0 <= w < p1.len() && p1[w] == x;
                    assert(p[w] == x); assert(p.contains(x)); assert(q.to_set().contains(x));
                    let v = choose|v: int| 0 <= v < q.len() && q[v] == x;
                    if v == q.len() - 1 { assert(p[w] == p[p.len() - 1]); assert(false); }
                    assert(q1[v] == x);
                }
                if q1.contains(x) {
                    let w = choose|w: int| 0 <= w < q1.len() && q1[w] == x;
                    assert(q[w] == x); assert(q.contains(x)); assert(p.to_set().contains(x));
                    let v = choose|v: int| 0 <= v < p.len() && p[v] == x;
                    if v == p.len() - 1 { assert(q[w] == q[q.len() - 1]); assert(false); }
                    assert(p1[v] == x);
                }
            }
        }
        assert(increasing_seq(p1)) by { assert forall|a: int, b: int| 0 <= a < b < p1.len() implies p1[a].cmp_spec(&p1[b]) is Less by { assert(lt(p[a], p[b])); } }
        assert(increasing_seq(q1)) by { assert forall|a: int, b: int| 0 <= a < b < q1.len() implies q1[a].cmp_spec(&q1[b]) is Less by { assert(lt(q[a], q[b])); } }
        lemma_sorted_unique::<K>(p1, q1);
        assert(p =~= p1.push(m));
        assert(q =~= q1.push(m));
    }
}

// BTreeSet/BTreeMap iterators yield references: vstd states `increasing_seq` over Seq<&K>
pub proof fn lemma_unref_increasing<K: Ord>(s: Seq<&K>)
    requires obeys_cmp::<K>(), increasing_seq(s)
    ensures increasing_seq(s.unref())
{
    broadcast use axiom_increasing_seq_meaning;
    broadcast use vstd::laws_cmp::lemma_ref_obeys_cmp_spec;
    assert(obeys_cmp::<&K>());
    let u = s.unref();
    assert forall|a: int, b: int| 0 <= a < b < u.len() implies u[a].cmp_spec(&u[b]) is Less by {
        assert(<&K as OrdSpec>::cmp_spec(&s[a], &s[b]) is Less);
    }
}

// the ascending, duplicate-free sequence of a finite set of keys (what BTreeSet/BTreeMap iteration yields)
pub open spec fn sorted_seq<K: Ord>(s: Set<K>) -> Seq<K>
{ choose|q: Seq<K>| q.no_duplicates() && q.to_set() == s && increasing_seq(q) }

pub proof fn lemma_sorted_seq<K: Ord>(q: Seq<K>, s: Set<K>)
    requires obeys_cmp::<K>(), lt_laws::<K>(), q.no_duplicates(), q.to_set() == s, increasing_seq(q)
    ensures q == sorted_seq::<K>(s)
{
    let c = sorted_seq::<K>(s);
    lemma_sorted_unique::<K>(q, c);
}


// for temporaries that cannot be named in a hint (`map.keys()` / `set.iter()` passed straight into an adaptor): EVERY strictly
// increasing enumeration of `dom` by references is the sorted sequence
pub proof fn lemma_keys_sorted_all<K: Ord>(dom: Set<K>)
    requires obeys_cmp::<K>(), lt_laws::<K>()
    ensures forall|rem: Seq<&K>| #[trigger] increasing_seq(rem) && rem.unref().to_set() == dom ==> rem.unref() == sorted_seq(dom)
{
    assert forall|rem: Seq<&K>| #[trigger] increasing_seq(rem) && rem.unref().to_set() == dom implies rem.unref() == sorted_seq(dom) by {
        lemma_unref_increasing::<K>(rem);
        let ks = rem.unref();
        assert(ks.no_duplicates()) by {
            broadcast use axiom_increasing_seq_meaning;
            assert forall|i: int, j: int| 0 <= i < ks.len() && 0 <= j < ks.len() && i != j implies ks[i] != ks[j] by {
                if i < j { assert(lt(ks[i], ks[j])); } else { assert(lt(ks[j], ks[i])); }
            }
        }
        lemma_sorted_seq::<K>(ks, dom);
    }
}

// what `BTreeMap::iter()` yields: the (key, value) pairs in ascending key order = sorted_seq of the domain
pub proof fn lemma_btree_iter_sorted<K: Ord, V>(m: Map<K, V>, rem: Seq<(&K, &V)>)
    requires obeys_cmp::<K>(), lt_laws::<K>(),
        rem.len() == m.dom().len(), m.dom().finite(),
        forall|i: int| 0 <= i < rem.len() ==> m.contains_key(*(#[trigger] rem[i]).0) && m[*rem[i].0] == *rem[i].1,
        increasing_seq(rem.map_values(|p: (&K, &V)| *p.0)),
    ensures rem.map_values(|p: (&K, &V)| *p.0) == sorted_seq(m.dom()), rem.map_values(|p: (&K, &V)| *p.0).no_duplicates(),
        forall|i: int| 0 <= i < rem.len() ==> *(#[trigger] rem[i]).1 == m[sorted_seq(m.dom())[i]],
{
    let ks = rem.map_values(|p: (&K, &V)| *p.0);
    assert(ks.no_duplicates()) by {
        broadcast use axiom_increasing_seq_meaning;
        assert forall|i: int, j: int| 0 <= i < ks.len() && 0 <= j < ks.len() && i != j implies ks[i] != ks[j] by {
            if i < j { assert(lt(ks[i], ks[j])); } else { assert(lt(ks[j], ks[i])); }
        }
    }
    ks.unique_seq_to_set();
    assert(ks.to_set().subset_of(m.dom())) by {
        assert forall|x: K| ks.to_set().contains(x) implies m.dom().contains(x) by {
            let w = choose|w: int| 0 <= w < ks.len() && ks[w] == x; assert(m.contains_key(*rem[w].0));
        }
    }
    vstd::set_lib::lemma_subset_equality(ks.to_set(), m.dom());
    lemma_sorted_seq::<K>(ks, m.dom());
    assert forall|i: int| 0 <= i < rem.len() implies *(#[trigger] rem[i]).1 == m[sorted_seq(m.dom())[i]] by { assert(ks[i] == *rem[i].0); }
}

// what `BTreeMap::values()` yields (vstd states it through an existential key sequence): the values in ascending key order
pub proof fn lemma_btree_values_sorted<K: Ord, V>(m: Map<K, V>, rem: Seq<&V>)
    requires obeys_cmp::<K>(), lt_laws::<K>(),
        exists|ks: Seq<K>| #![trigger increasing_seq(ks)] increasing_seq(ks) && ks.to_set() == m.dom() && ks.no_duplicates() && rem.len() == ks.len()
            && forall|i: int| 0 <= i < ks.len() ==> *(#[trigger] rem[i]) == m[ks[i]],
    ensures rem.len() == sorted_seq(m.dom()).len(), forall|i: int| 0 <= i < rem.len() ==> *(#[trigger] rem[i]) == m[sorted_seq(m.dom())[i]],
{
    let ks = choose|ks: Seq<K>| #![trigger increasing_seq(ks)] increasing_seq(ks) && ks.to_set() == m.dom() && ks.no_duplicates() && rem.len() == ks.len()
            && forall|i: int| 0 <= i < ks.len() ==> *(#[trigger] rem[i]) == m[ks[i]];
    lemma_sorted_seq::<K>(ks, m.dom());
}

} // verus!
}
