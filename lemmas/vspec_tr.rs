// lemmas/vspec_tr.rs -- specification vocabulary of the Taproot suite (C18), transcribed from BIP-340 (Schnorr signatures for
// secp256k1) and BIP-341 (Taproot output key), NOT from the code.
//
// Every function here is written over the concrete k256 model operations (prelude/k256_model.rs) and never applies a function
// generic over `C: Ciphersuite` at the Taproot suite: the definitions are used INSIDE `impl Ciphersuite for Secp256K1Sha256TR` (the
// impl defines the trait-level hook spec functions as these), and Verus rejects an impl that depends on a function instantiated
// at the impl ("cyclic self-reference").  lemmas/vworld_tr.rs proves that they coincide with the generic vocabulary at C = TR.
pub mod vspec_tr {
#[allow(unused_imports)] use vstd::prelude::*;
#[allow(unused_imports)] use vstd::string::*;
#[allow(unused_imports)] use std::collections::BTreeMap;
#[allow(unused_imports)] use core::marker::PhantomData;
#[allow(unused_imports)] use crate::k256_model::*;
#[allow(unused_imports)] use crate::traits::{Ciphersuite, Field, Group};
#[allow(unused_imports)] use crate::serialization::{SerializableElement, SerializableScalar};
#[allow(unused_imports)] use crate::{Header, Identifier, Error, FieldError, GroupError, Signature, SigningKey, VerifyingKey, Challenge, BindingFactor, BindingFactorList,
    SigningPackage, GroupCommitment};
#[allow(unused_imports)] use crate::keys::{SigningShare, VerifyingShare, KeyPackage, PublicKeyPackage, SecretShare};
#[allow(unused_imports)] use crate::round1::{Nonce, NonceCommitment, SigningNonces, SigningCommitments, GroupCommitmentShare};
#[allow(unused_imports)] use crate::round2::SignatureShare;
verus! {
//@module_serves C18

pub type TR = crate::secp256k1_tr::Secp256K1Sha256TR;

// ---------------------------------------------------------------------------------------------------
// BIP-340 "Tagged Hashes":  hash_tag(x) = SHA256(SHA256(tag) || SHA256(tag) || x)
pub open spec fn tagged_hash(tag: Seq<u8>, x: Seq<u8>) -> Seq<u8> { sha256(sha256(tag) + sha256(tag) + x) }
// int(hash_tag(x)) mod n   (BIP-340 challenge; BIP-341 takes int(..) and FAILS for values >= n, the code reduces: they differ
// only if a SHA-256 output is >= n, probability < 2^-127 -- recorded in the C18 level note)
pub open spec fn tagged_scalar(tag: Seq<u8>, x: Seq<u8>) -> Scalar { sc_reduce_be(tagged_hash(tag, x)) }
pub open spec fn tag_challenge() -> Seq<u8> { "BIP0340/challenge".spec_bytes() }
pub open spec fn tag_taptweak() -> Seq<u8> { "TapTweak".spec_bytes() }

// BIP-340 Sign/Verify:  e = int(hash_BIP0340/challenge(bytes(R) || bytes(P) || m)) mod n     (bytes(.) = the 32-byte x coordinate)
pub open spec fn bip340_challenge(rx: Seq<u8>, px: Seq<u8>, m: Seq<u8>) -> Scalar { tagged_scalar(tag_challenge(), rx + px + m) }

// BIP-341:  t = int(hash_TapTweak(bytes(P) || k_m));  without a script tree: t = int(hash_TapTweak(bytes(P)))
pub open spec fn root_bytes(root: Option<Seq<u8>>) -> Seq<u8> { match root { None => Seq::<u8>::empty(), Some(r) => r } }
pub open spec fn bip341_tweak(px: Seq<u8>, root: Option<Seq<u8>>) -> Scalar { tagged_scalar(tag_taptweak(), px + root_bytes(root)) }

// lift_x / has_even_y of BIP-340 on group elements: the representative with even Y of {P, -P}
pub open spec fn even_pt(key: ProjectivePoint, p: ProjectivePoint) -> ProjectivePoint { if pt_y_odd(key) { pt_neg(p) } else { p } }
pub open spec fn even_sc(key: ProjectivePoint, s: Scalar) -> Scalar { if pt_y_odd(key) { sc_neg(s) } else { s } }
pub open spec fn ev(p: ProjectivePoint) -> ProjectivePoint { even_pt(p, p) }
pub open spec fn g_mul(k: Scalar) -> ProjectivePoint { pt_smul(pt_gen(), k) }

// BIP-341 taproot_tweak_pubkey:  Q = lift_x(x(P)) + t*G   with the internal key P given by any of its two representatives
pub open spec fn taproot_output_key(p: ProjectivePoint, root: Option<Seq<u8>>) -> ProjectivePoint { pt_add(ev(p), g_mul(bip341_tweak(pt_x(p), root))) }

// BIP-340 Verify(pk, m, sig), pk and both halves of sig 32 bytes:  P = lift_x(int(pk)) (fail if none); r = sig[0..32], s = int(sig[32..64])
// (fail if s >= n); e as above; R = s*G - e*P; fail if R is infinite, has odd Y, or x(R) != r.   `P = lift_x(pk)` is stated by its
// definition: a point other than infinity with x(P) = pk and even Y (unique: axiom K9).
pub open spec fn is_lift_x(pk: Seq<u8>, p: ProjectivePoint) -> bool { p != pt_id() && pt_x(p) == pk && !pt_y_odd(p) }
pub open spec fn bip340_verify_with(p: ProjectivePoint, pk: Seq<u8>, m: Seq<u8>, r: Seq<u8>, s: Scalar) -> bool {
    let e = bip340_challenge(r, pk, m);
    let rr = pt_add(g_mul(s), pt_neg(pt_smul(p, e)));
    rr != pt_id() && !pt_y_odd(rr) && pt_x(rr) == r
}
pub open spec fn bip340_verify(pk: Seq<u8>, m: Seq<u8>, sig: Seq<u8>) -> bool {
    sig.len() == 64 && pk.len() == 32
    && crate::secp256k1_tr::Secp256K1ScalarField::spec_deser(sig.subrange(32, 64)) is Some
    && exists|p: ProjectivePoint| is_lift_x(pk, p)
        && bip340_verify_with(p, pk, m, sig.subrange(0, 32), crate::secp256k1_tr::Secp256K1ScalarField::spec_deser(sig.subrange(32, 64))->Some_0)
}

// ---------------------------------------------------------------------------------------------------
// the packages of the suite
pub open spec fn tr_header() -> Header<TR> { Header { version: 0, ciphersuite: (), phantom: PhantomData } }
pub open spec fn vk_pt(vk: VerifyingKey<TR>) -> ProjectivePoint { vk.element.0 }
pub open spec fn mk_vk(p: ProjectivePoint) -> VerifyingKey<TR> { VerifyingKey { element: SerializableElement(p) } }
pub open spec fn mk_vs(p: ProjectivePoint) -> VerifyingShare<TR> { VerifyingShare(SerializableElement(p)) }
pub open spec fn mk_ss(s: Scalar) -> SigningShare<TR> { SigningShare(SerializableScalar(s)) }

// EvenY::into_even_y(is_even): `is_even` = evenness determined beforehand, None = decide from the group key
pub open spec fn want_even(key: ProjectivePoint, is_even: Option<bool>) -> bool { match is_even { Some(b) => b, None => !pt_y_odd(key) } }
// ... on a key package: ALL of (group key, verifying share, signing share) negated iff the group key has odd Y
pub open spec fn tr_kp_even_with(kp: KeyPackage<TR>, is_even: Option<bool>) -> KeyPackage<TR> {
    if want_even(vk_pt(kp.verifying_key), is_even) { kp } else {
        KeyPackage { header: tr_header(), identifier: kp.identifier, signing_share: mk_ss(sc_neg(kp.signing_share.0.0)),
            verifying_share: mk_vs(pt_neg(kp.verifying_share.0.0)), verifying_key: mk_vk(pt_neg(vk_pt(kp.verifying_key))), min_signers: kp.min_signers }
    }
}
pub open spec fn tr_kp_even(kp: KeyPackage<TR>) -> KeyPackage<TR> { tr_kp_even_with(kp, None) }
pub open spec fn tr_pt_even_with(p: ProjectivePoint, is_even: Option<bool>) -> ProjectivePoint { if want_even(p, is_even) { p } else { pt_neg(p) } }
// the bytes a generic `T: AsRef<[u8]>` merkle root stands for (`root.as_ref()`); for `&[u8]` that is the slice itself (std: `impl AsRef<[T]> for [T]`
// is the identity and `impl AsRef<U> for &T` forwards) -- assumed, T6
pub uninterp spec fn asref_bytes<T>(t: T) -> Seq<u8>;
pub axiom fn ax_asref_slice(s: &[u8])
    ensures asref_bytes::<&[u8]>(s) == s@;
pub open spec fn opt_root<T>(o: Option<T>) -> Option<Seq<u8>> { match o { None => None, Some(r) => Some(asref_bytes(r)) } }
// Tweak::tweak(root) on a key package (BIP-341 applied to a share): even-Y normalisation FIRST, then key + t*G, verifying share + t*G,
// signing share + t, with t computed from the x coordinate of the internal key
pub open spec fn tr_kp_tweak(kp: KeyPackage<TR>, root: Option<Seq<u8>>) -> KeyPackage<TR> {
    let t = bip341_tweak(pt_x(vk_pt(kp.verifying_key)), root);
    let e = tr_kp_even(kp);
    KeyPackage { header: tr_header(), identifier: e.identifier, signing_share: mk_ss(sc_add(e.signing_share.0.0, t)),
        verifying_share: mk_vs(pt_add(e.verifying_share.0.0, g_mul(t))), verifying_key: mk_vk(pt_add(vk_pt(e.verifying_key), g_mul(t))), min_signers: e.min_signers }
}

// public key packages contain a BTreeMap, which has no spec-level constructor: the transformed package is described by a relation on
// its fields (the map by its view) and selected with `choose`
pub open spec fn neg_vs_map(m: Map<Identifier<TR>, VerifyingShare<TR>>) -> Map<Identifier<TR>, VerifyingShare<TR>>
{ Map::new(m.dom(), |i: Identifier<TR>| mk_vs(pt_neg(m[i].0.0))) }
pub open spec fn shift_vs_map(m: Map<Identifier<TR>, VerifyingShare<TR>>, d: ProjectivePoint) -> Map<Identifier<TR>, VerifyingShare<TR>>
{ Map::new(m.dom(), |i: Identifier<TR>| mk_vs(pt_add(m[i].0.0, d))) }
pub open spec fn pkp_is(q: PublicKeyPackage<TR>, vs: Map<Identifier<TR>, VerifyingShare<TR>>, vk: ProjectivePoint, min_signers: Option<u16>) -> bool
{ q.header == tr_header() && q.verifying_shares@ == vs && q.verifying_key == mk_vk(vk) && q.min_signers == min_signers }
// EvenY::into_even_y on a public key package: group key and EVERY verifying share negated iff the group key has odd Y
pub open spec fn tr_pkp_even_with_is(p: PublicKeyPackage<TR>, is_even: Option<bool>, q: PublicKeyPackage<TR>) -> bool {
    if want_even(vk_pt(p.verifying_key), is_even) { q == p } else { pkp_is(q, neg_vs_map(p.verifying_shares@), pt_neg(vk_pt(p.verifying_key)), p.min_signers) }
}
pub open spec fn tr_pkp_even_is(p: PublicKeyPackage<TR>, q: PublicKeyPackage<TR>) -> bool { tr_pkp_even_with_is(p, None, q) }
pub open spec fn tr_pkp_even(p: PublicKeyPackage<TR>) -> PublicKeyPackage<TR> { choose|q: PublicKeyPackage<TR>| tr_pkp_even_is(p, q) }
// the verifying shares / key of the even-Y package as values (what the relation pins)
pub open spec fn even_vs_map(p: PublicKeyPackage<TR>) -> Map<Identifier<TR>, VerifyingShare<TR>>
{ if pt_y_odd(vk_pt(p.verifying_key)) { neg_vs_map(p.verifying_shares@) } else { p.verifying_shares@ } }
// Tweak::tweak(root) on a public key package: even-Y normalisation first, then key + t*G and every verifying share + t*G
pub open spec fn tr_pkp_tweak_is(p: PublicKeyPackage<TR>, root: Option<Seq<u8>>, q: PublicKeyPackage<TR>) -> bool {
    let t = bip341_tweak(pt_x(vk_pt(p.verifying_key)), root);
    pkp_is(q, shift_vs_map(even_vs_map(p), g_mul(t)), pt_add(ev(vk_pt(p.verifying_key)), g_mul(t)), p.min_signers)
}
pub open spec fn tr_pkp_tweak(p: PublicKeyPackage<TR>, root: Option<Seq<u8>>) -> PublicKeyPackage<TR> { choose|q: PublicKeyPackage<TR>| tr_pkp_tweak_is(p, root, q) }

// T6 addendum (assumed): a BTreeMap value is determined by its contents.  Needed only because the trait-level hook contracts state the
// result of pre_aggregate / post_dkg as an EQUATION with a spec value (contracts/hooks.vc), and a package with a freshly built map can
// be pinned only up to the map's view.
pub axiom fn ax_btreemap_ext<K, V>(a: BTreeMap<K, V>, b: BTreeMap<K, V>)
    requires a@ == b@
    ensures a == b;

pub proof fn lemma_pkp_ext(a: PublicKeyPackage<TR>, b: PublicKeyPackage<TR>)
    requires a.header == b.header, a.verifying_shares@ == b.verifying_shares@, a.verifying_key == b.verifying_key, a.min_signers == b.min_signers
    ensures a == b
{ ax_btreemap_ext(a.verifying_shares, b.verifying_shares); }
pub proof fn lemma_pkp_even_unique(p: PublicKeyPackage<TR>, q: PublicKeyPackage<TR>)
    requires tr_pkp_even_is(p, q)
    ensures q == tr_pkp_even(p)
{ let c = tr_pkp_even(p); assert(tr_pkp_even_is(p, c)); if pt_y_odd(vk_pt(p.verifying_key)) { lemma_pkp_ext(q, c); } }
pub proof fn lemma_pkp_tweak_unique(p: PublicKeyPackage<TR>, root: Option<Seq<u8>>, q: PublicKeyPackage<TR>)
    requires tr_pkp_tweak_is(p, root, q)
    ensures q == tr_pkp_tweak(p, root)
{ let c = tr_pkp_tweak(p, root); assert(tr_pkp_tweak_is(p, root, c)); lemma_pkp_ext(q, c); }

// `m.iter().map(|(i, v)| (*i, f(v))).collect::<BTreeMap>()` is the map with the same keys and f applied to every value.  The premise is what
// BTreeMap::iter (vstd) and the adaptor helper `map_collect_btreemap` (prelude/vstdx.rs) give, with the iteration sequence quantified.
pub open spec fn collected_from<W>(m: Map<Identifier<TR>, VerifyingShare<TR>>, r: Map<Identifier<TR>, W>, f: spec_fn(VerifyingShare<TR>) -> W) -> bool {
    exists|rem: Seq<(&Identifier<TR>, &VerifyingShare<TR>)>, vals: Seq<(Identifier<TR>, W)>| #![auto]
        rem.len() == m.dom().len()
        && (forall|i: int| 0 <= i < rem.len() ==> m.contains_key(*(#[trigger] rem[i]).0) && m[*rem[i].0] == *rem[i].1)
        && vstd::std_specs::btree::increasing_seq(rem.map_values(|p: (&Identifier<TR>, &VerifyingShare<TR>)| *p.0))
        && vals.len() == rem.len()
        && (forall|k: int| 0 <= k < vals.len() ==> #[trigger] vals[k] == (*rem[k].0, f(*rem[k].1)))
        && (forall|key: Identifier<TR>| #[trigger] r.contains_key(key) <==> exists|k: int| 0 <= k < vals.len() && (#[trigger] vals[k]).0 == key)
        && (forall|k: int| 0 <= k < vals.len() && (forall|j: int| k < j < vals.len() ==> vals[j].0 != vals[k].0) ==> r[#[trigger] vals[k].0] == vals[k].1)
}
pub proof fn lemma_collected_from<W>(m: Map<Identifier<TR>, VerifyingShare<TR>>, r: Map<Identifier<TR>, W>, f: spec_fn(VerifyingShare<TR>) -> W)
    requires m.dom().finite(), collected_from(m, r, f)
    ensures r == Map::new(m.dom(), |i: Identifier<TR>| f(m[i]))
{
    crate::vspec::use_id_order::<TR>();
    let (rem, vals) = choose|rem: Seq<(&Identifier<TR>, &VerifyingShare<TR>)>, vals: Seq<(Identifier<TR>, W)>| #![auto]
        rem.len() == m.dom().len()
        && (forall|i: int| 0 <= i < rem.len() ==> m.contains_key(*(#[trigger] rem[i]).0) && m[*rem[i].0] == *rem[i].1)
        && vstd::std_specs::btree::increasing_seq(rem.map_values(|p: (&Identifier<TR>, &VerifyingShare<TR>)| *p.0))
        && vals.len() == rem.len()
        && (forall|k: int| 0 <= k < vals.len() ==> #[trigger] vals[k] == (*rem[k].0, f(*rem[k].1)))
        && (forall|key: Identifier<TR>| #[trigger] r.contains_key(key) <==> exists|k: int| 0 <= k < vals.len() && (#[trigger] vals[k]).0 == key)
        && (forall|k: int| 0 <= k < vals.len() && (forall|j: int| k < j < vals.len() ==> vals[j].0 != vals[k].0) ==> r[#[trigger] vals[k].0] == vals[k].1);
    crate::vspec::lemma_btree_iter_sorted::<Identifier<TR>, VerifyingShare<TR>>(m, rem);
    let ks = rem.map_values(|p: (&Identifier<TR>, &VerifyingShare<TR>)| *p.0);
    let want = Map::new(m.dom(), |i: Identifier<TR>| f(m[i]));
    ks.unique_seq_to_set();
    assert forall|k: int| 0 <= k < vals.len() implies (#[trigger] vals[k]).0 == ks[k] by {}
    assert forall|key: Identifier<TR>| r.contains_key(key) <==> m.contains_key(key) by {
        if r.contains_key(key) { let k = choose|k: int| 0 <= k < vals.len() && (#[trigger] vals[k]).0 == key; assert(m.contains_key(*rem[k].0)); }
        if m.contains_key(key) {
            assert(crate::vspec::sorted_seq(m.dom()).to_set().contains(key)) by { crate::vspec::lemma_sorted_exists::<TR>(m.dom()); }
            let k = choose|k: int| 0 <= k < ks.len() && ks[k] == key;
            assert(vals[k].0 == key);
        }
    }
    assert(r =~= want) by {
        assert forall|key: Identifier<TR>| r.contains_key(key) implies #[trigger] r[key] == want[key] by {
            let k = choose|k: int| 0 <= k < vals.len() && (#[trigger] vals[k]).0 == key;
            assert forall|j: int| k < j < vals.len() implies vals[j].0 != vals[k].0 by { assert(ks[j] != ks[k]); }
            assert(r[vals[k].0] == vals[k].1);
        }
    }
}

// "the even-Y package of p exists" (true in every execution that reaches pre_aggregate: the hook's verified contract exhibits it; a BTreeMap has
// no spec-level constructor, so it cannot be shown for an arbitrary spec value)
pub open spec fn tr_pkp_realisable(p: PublicKeyPackage<TR>) -> bool { exists|q: PublicKeyPackage<TR>| tr_pkp_even_is(p, q) }
// the merkle root argument of sign_with_tweak / aggregate_with_tweak
pub open spec fn slice_root(o: Option<&[u8]>) -> Option<Seq<u8>> { match o { None => None, Some(r) => Some(r@) } }
// (broadcast form, for callers that cannot name the tweaked value at a structural anchor)
pub broadcast proof fn lemma_pkp_tweak_unique_b(p: PublicKeyPackage<TR>, root: Option<Seq<u8>>, q: PublicKeyPackage<TR>)
    requires #[trigger] tr_pkp_tweak_is(p, root, q)
    ensures q == tr_pkp_tweak(p, root)
{ lemma_pkp_tweak_unique(p, root, q); }

// ---------------------------------------------------------------------------------------------------
// the hooks (what BIP-340 prescribes at each point where the suite departs from RFC 9591)

// pre_sign: the signer works with the even-Y key package; pre_aggregate: the coordinator with the even-Y public key package;
// pre_verify: verification with the even-Y key and the even-Y R
pub open spec fn tr_pre_sign(sp: SigningPackage<TR>, sn: SigningNonces<TR>, kp: KeyPackage<TR>) -> Result<(SigningPackage<TR>, SigningNonces<TR>, KeyPackage<TR>), Error<TR>>
{ Ok((sp, sn, tr_kp_even(kp))) }
pub open spec fn tr_pre_aggregate(sp: SigningPackage<TR>, sh: BTreeMap<Identifier<TR>, SignatureShare<TR>>, p: PublicKeyPackage<TR>)
    -> Result<(SigningPackage<TR>, BTreeMap<Identifier<TR>, SignatureShare<TR>>, PublicKeyPackage<TR>), Error<TR>>
{ Ok((sp, sh, tr_pkp_even(p))) }
pub open spec fn tr_sig_even(s: Signature<TR>) -> Signature<TR> { Signature { R: ev(s.R), z: s.z } }
pub open spec fn tr_pre_verify(m: Seq<u8>, s: Signature<TR>, vk: VerifyingKey<TR>) -> Result<(Seq<u8>, Signature<TR>, VerifyingKey<TR>), Error<TR>>
{ Ok((m, tr_sig_even(s), mk_vk(ev(vk_pt(vk))))) }

// challenge: x-only R and P (never refuses: the identity has an x coordinate in k256's affine form)
pub open spec fn tr_challenge(r: ProjectivePoint, vk: VerifyingKey<TR>, m: Seq<u8>) -> Scalar { bip340_challenge(pt_x(r), pt_x(vk_pt(vk)), m) }

// signature share: both nonces negated iff the group commitment has odd Y, then the RFC 9591 formula  d + e*rho + lambda*s*c
pub open spec fn tr_sig_share_scalar(gc: ProjectivePoint, d: Scalar, e: Scalar, rho: Scalar, lambda: Scalar, s: Scalar, c: Scalar) -> Scalar
{ sc_add(sc_add(even_sc(gc, d), sc_mul(even_sc(gc, e), rho)), sc_mul(sc_mul(lambda, s), c)) }
pub open spec fn tr_sig_share(gc: GroupCommitment<TR>, sn: SigningNonces<TR>, bf: BindingFactor<TR>, lambda: Scalar, kp: KeyPackage<TR>, c: Challenge<TR>) -> SignatureShare<TR> {
    SignatureShare { header: tr_header(), share: SerializableScalar(tr_sig_share_scalar(gc.0, sn.hiding.0.0, sn.binding.0.0, bf.0, lambda, kp.signing_share.0.0, c.0)) }
}
// share verification: the commitment share negated under the same condition, then  z*G == R_i + (Y_i*c)*lambda
pub open spec fn tr_share_ok(gc: ProjectivePoint, z: Scalar, rs: ProjectivePoint, y: ProjectivePoint, lambda: Scalar, c: Scalar) -> bool
{ g_mul(z) == pt_add(even_pt(gc, rs), pt_smul(pt_smul(y, c), lambda)) }

// the (not overridden) default verify_signature on top of the overridden pre_verify and challenge:  1*(z*G - c*P' - R') == 0
pub open spec fn tr_verify_signature(m: Seq<u8>, s: Signature<TR>, vk: VerifyingKey<TR>) -> Result<(), Error<TR>> {
    let c = tr_challenge(ev(s.R), mk_vk(ev(vk_pt(vk))), m);
    let zb = g_mul(s.z);
    let vc = pt_smul(ev(vk_pt(vk)), c);
    let check = pt_smul(pt_add(pt_add(zb, pt_neg(vc)), pt_neg(ev(s.R))), sc_one());
    if check == pt_id() { Ok(()) } else { Err(Error::InvalidSignature) }
}

// generate_nonce: k from rejection sampling, negated iff k*G has odd Y (so that R always has even Y).  `tr_rnz` is the result of
// `random_nonzero::<TR>` (first non-zero draw, stream position after it); it is tied to the generic definition by `ax_tr_rnz_def`
// in lemmas/vworld_tr.rs (a DEFINITION of the fresh symbol, not an assumption about the code)
pub uninterp spec fn tr_rnz(stream: spec_fn(nat) -> u8, pos: nat) -> (Scalar, nat);
pub open spec fn tr_generate_nonce(stream: spec_fn(nat) -> u8, pos: nat) -> (Scalar, ProjectivePoint, nat) {
    let k = tr_rnz(stream, pos).0;
    let r = g_mul(k);
    if pt_y_odd(r) { (sc_neg(k), pt_neg(r), tr_rnz(stream, pos).1) } else { (k, r, tr_rnz(stream, pos).1) }
}

// single_sign (BIP-340 Sign with a fresh nonce): the secret key negated iff its public key has odd Y, then plain Schnorr with the even-Y nonce
// of generate_nonce and the BIP-340 challenge:  (R, k + e*d)
pub open spec fn tr_single_sign(sk: SigningKey<TR>, stream: spec_fn(nat) -> u8, pos: nat, m: Seq<u8>) -> Signature<TR> {
    let d = even_sc(g_mul(sk.scalar), sk.scalar);
    let n = tr_generate_nonce(stream, pos);
    Signature { R: n.1, z: sc_add(n.0, sc_mul(tr_challenge(n.1, mk_vk(g_mul(d)), m), d)) }
}

// post_dkg: both packages get the key-path-only tweak (BIP-341: "commit to an unspendable script path": t = hash_TapTweak(bytes(P)))
pub open spec fn tr_post_dkg(kp: KeyPackage<TR>, p: PublicKeyPackage<TR>) -> Result<(KeyPackage<TR>, PublicKeyPackage<TR>), Error<TR>>
{ Ok((tr_kp_tweak(kp, None), tr_pkp_tweak(p, None))) }

// 64-byte BIP-340 signature encoding  bytes(R) || bytes(s)  (the parity of R is dropped); the point at infinity has no encoding
pub open spec fn tr_sig_bytes(s: Signature<TR>) -> Seq<u8> { pt_x(s.R) + crate::secp256k1_tr::Secp256K1ScalarField::spec_ser(s.z) }
pub open spec fn tr_serialize_signature(s: Signature<TR>) -> Result<Seq<u8>, Error<TR>>
{ if s.R == pt_id() { Err(Error::GroupError(GroupError::InvalidIdentityElement)) } else { Ok(tr_sig_bytes(s)) } }
// decoding: exactly 64 bytes; R = lift_x(first half) -- decoded as the SEC1 point with tag 0x02 (even Y) --, s = int(second half) < n
pub open spec fn tr_deserialize_signature(b: Seq<u8>) -> Result<Signature<TR>, Error<TR>> {
    if b.len() != 64 { Err(Error::MalformedSignature) } else {
        let rb = seq![2u8] + b.subrange(0, 32);
        match crate::secp256k1_tr::Secp256K1Group::spec_edeser(rb) {
            None => Err(Error::GroupError(crate::secp256k1_tr::Secp256K1Group::spec_edeser_err(rb))),
            Some(r) => match crate::secp256k1_tr::Secp256K1ScalarField::spec_deser(b.subrange(32, 64)) {
                None => Err(Error::FieldError(FieldError::MalformedScalar)),
                Some(z) => Ok(Signature { R: r, z: z }),
            },
        }
    }
}

} // verus!
}
