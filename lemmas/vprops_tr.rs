// lemmas/vprops_tr.rs -- C18: property-level theorems for the Taproot suite (BIP-340 signatures under the BIP-341 output key).
// Proved from the field/group axioms (T3), the k256 parity facts K7-K10 (prelude/k256_model.rs), the proved Taproot world
// (lemmas/vworld_tr.rs) and the world-generic contracts of frost-core (lemmas/vspec_w.rs).  No assume/admit/axiom in this file.
pub mod vprops_tr {
#[allow(unused_imports)] use vstd::prelude::*;
#[allow(unused_imports)] use std::collections::BTreeMap;
#[allow(unused_imports)] use crate::traits::*;
#[allow(unused_imports)] use crate::vspec::*;
#[allow(unused_imports)] use crate::vspec_w::*;
#[allow(unused_imports)] use crate::vspec_tr::*;
#[allow(unused_imports)] use crate::vworld_tr::*;
#[allow(unused_imports)] use crate::k256_model::*;
#[allow(unused_imports)] use crate::k256_model::Scalar;
#[allow(unused_imports)] use crate::keys::*;
#[allow(unused_imports)] use crate::*;
verus! {
//@module_serves C18

// =====================================================================================================
// Part 1 -- algebra with a sign, for ANY suite: `odd` says whether the nonces (signer) / the commitments (verifier) are negated
pub open spec fn sgn_sc<C: Ciphersuite>(odd: bool, a: crate::traits::Scalar<C>) -> crate::traits::Scalar<C> { if odd { FF::<C>::s_neg(a) } else { a } }
pub open spec fn sgn_el<C: Ciphersuite>(odd: bool, p: Element<C>) -> Element<C> { if odd { GG::<C>::e_neg(p) } else { p } }

// -(a + b) == (-a) + (-b)   (scalars / elements)
pub proof fn lemma_sneg_add<C: Ciphersuite>(a: crate::traits::Scalar<C>, b: crate::traits::Scalar<C>)
    ensures FF::<C>::s_neg(sadd::<C>(a, b)) == sadd::<C>(FF::<C>::s_neg(a), FF::<C>::s_neg(b))
{
    let na = FF::<C>::s_neg(a); let nb = FF::<C>::s_neg(b); let s = sadd::<C>(a, b);
    // (a + b) + (na + nb) = (a + na) + (b + nb) = 0
    FF::<C>::ax_add_assoc(a, b, sadd::<C>(na, nb));
    FF::<C>::ax_add_comm(na, nb); FF::<C>::ax_add_assoc(b, nb, na); FF::<C>::ax_add_neg(b);
    lemma_zero_add::<AL<C>>(na); FF::<C>::ax_add_neg(a);
    FF::<C>::ax_add_neg(s);
    lemma_add_cancel::<AL<C>>(s, sadd::<C>(na, nb), FF::<C>::s_neg(s));
}
// -0 == 0  (so a non-zero scalar has a non-zero negative: -(-a) == a)
pub proof fn lemma_sneg_zero()
    ensures sc_neg(sc_zero()) == sc_zero()
{ FF::<TR>::ax_add_neg(sc_zero()); lemma_zero_add::<AL<TR>>(sc_neg(sc_zero())); }
pub proof fn lemma_eneg_add<C: Ciphersuite>(a: Element<C>, b: Element<C>)
    ensures GG::<C>::e_neg(eadd::<C>(a, b)) == eadd::<C>(GG::<C>::e_neg(a), GG::<C>::e_neg(b))
{
    let na = GG::<C>::e_neg(a); let nb = GG::<C>::e_neg(b); let s = eadd::<C>(a, b);
    GG::<C>::ax_eadd_assoc(a, b, eadd::<C>(na, nb));
    GG::<C>::ax_eadd_comm(na, nb); GG::<C>::ax_eadd_assoc(b, nb, na); GG::<C>::ax_eadd_neg(b);
    lemma_eid_add::<C>(na); GG::<C>::ax_eadd_neg(a);
    lemma_eneg_unique::<C>(s, eadd::<C>(na, nb));
}
pub proof fn lemma_sgn_add<C: Ciphersuite>(odd: bool, a: Element<C>, b: Element<C>)
    ensures sgn_el::<C>(odd, eadd::<C>(a, b)) == eadd::<C>(sgn_el::<C>(odd, a), sgn_el::<C>(odd, b))
{ if odd { lemma_eneg_add::<C>(a, b); } }
pub proof fn lemma_eneg_id<C: Ciphersuite>()
    ensures GG::<C>::e_neg(e0::<C>()) == e0::<C>()
{ GG::<C>::ax_eadd_id(e0::<C>()); lemma_eneg_unique::<C>(e0::<C>(), e0::<C>()); }
pub proof fn lemma_eneg_neg<C: Ciphersuite>(a: Element<C>)
    ensures GG::<C>::e_neg(GG::<C>::e_neg(a)) == a
{ let na = GG::<C>::e_neg(a); GG::<C>::ax_eadd_neg(a); GG::<C>::ax_eadd_comm(a, na); lemma_eneg_unique::<C>(na, a); }
// (a + b) + (c + d) == (a + c) + (b + d)
pub proof fn lemma_eadd_swap<C: Ciphersuite>(a: Element<C>, b: Element<C>, c: Element<C>, d: Element<C>)
    ensures eadd::<C>(eadd::<C>(a, b), eadd::<C>(c, d)) == eadd::<C>(eadd::<C>(a, c), eadd::<C>(b, d))
{
    GG::<C>::ax_eadd_assoc(a, b, eadd::<C>(c, d));
    GG::<C>::ax_eadd_assoc(b, c, d); GG::<C>::ax_eadd_comm(b, c); GG::<C>::ax_eadd_assoc(c, b, d);
    GG::<C>::ax_eadd_assoc(a, c, eadd::<C>(b, d));
}

// the commitment share of a signer with nonces (d, e):  R_i = d*G + (e*G)*rho ;  G*(+-d + (+-e)*rho) == +-R_i
pub open spec fn commit_share<C: Ciphersuite>(d: crate::traits::Scalar<C>, e: crate::traits::Scalar<C>, rho: crate::traits::Scalar<C>) -> Element<C>
{ eadd::<C>(gmul::<C>(d), emul::<C>(gmul::<C>(e), rho)) }
pub proof fn lemma_signed_nonce<C: Ciphersuite>(odd: bool, d: crate::traits::Scalar<C>, e: crate::traits::Scalar<C>, rho: crate::traits::Scalar<C>)
    ensures gmul::<C>(sadd::<C>(sgn_sc::<C>(odd, d), smul::<C>(sgn_sc::<C>(odd, e), rho))) == sgn_el::<C>(odd, commit_share::<C>(d, e, rho))
{
    let g = eg::<C>();
    GG::<C>::ax_smul_add(g, d, smul::<C>(e, rho));
    GG::<C>::ax_smul_mul(g, e, rho);
    if odd {
        lemma_neg_mul::<AL<C>>(e, rho);
        lemma_sneg_add::<C>(d, smul::<C>(e, rho));
        lemma_smul_neg::<C>(g, sadd::<C>(d, smul::<C>(e, rho)));
    }
}
// the signed share  z = +-d + (+-e)*rho + (lambda*s)*c  satisfies  z*G == +-R_i + ((s*G)*c)*lambda
pub open spec fn signed_share<C: Ciphersuite>(odd: bool, d: crate::traits::Scalar<C>, e: crate::traits::Scalar<C>, rho: crate::traits::Scalar<C>, lam: crate::traits::Scalar<C>,
        s: crate::traits::Scalar<C>, c: crate::traits::Scalar<C>) -> crate::traits::Scalar<C>
{ spec_sig_share::<C>(sgn_sc::<C>(odd, d), sgn_sc::<C>(odd, e), rho, lam, s, c) }
pub proof fn lemma_key_term<C: Ciphersuite>(lam: crate::traits::Scalar<C>, s: crate::traits::Scalar<C>, c: crate::traits::Scalar<C>)
    ensures gmul::<C>(smul::<C>(smul::<C>(lam, s), c)) == emul::<C>(emul::<C>(gmul::<C>(s), c), lam),
            gmul::<C>(smul::<C>(smul::<C>(lam, s), c)) == emul::<C>(gmul::<C>(smul::<C>(lam, s)), c),
{
    let g = eg::<C>();
    GG::<C>::ax_smul_mul(g, s, c); GG::<C>::ax_smul_mul(g, smul::<C>(s, c), lam);
    GG::<C>::ax_smul_mul(g, smul::<C>(lam, s), c);
    // (lam*s)*c == (s*c)*lam
    FF::<C>::ax_mul_comm(lam, s); FF::<C>::ax_mul_assoc(s, lam, c); FF::<C>::ax_mul_comm(lam, c); FF::<C>::ax_mul_assoc(s, c, lam);
}
pub proof fn lemma_signed_share_eq<C: Ciphersuite>(odd: bool, d: crate::traits::Scalar<C>, e: crate::traits::Scalar<C>, rho: crate::traits::Scalar<C>, lam: crate::traits::Scalar<C>,
        s: crate::traits::Scalar<C>, c: crate::traits::Scalar<C>)
    ensures gmul::<C>(signed_share::<C>(odd, d, e, rho, lam, s, c)) == eadd::<C>(sgn_el::<C>(odd, commit_share::<C>(d, e, rho)), emul::<C>(emul::<C>(gmul::<C>(s), c), lam))
{
    let g = eg::<C>();
    let n = sadd::<C>(sgn_sc::<C>(odd, d), smul::<C>(sgn_sc::<C>(odd, e), rho));
    let k = smul::<C>(smul::<C>(lam, s), c);
    GG::<C>::ax_smul_add(g, n, k);
    lemma_signed_nonce::<C>(odd, d, e, rho);
    lemma_key_term::<C>(lam, s, c);
}
// share verification with the same sign accepts EXACTLY the signed share (k*G is injective)
pub proof fn lemma_signed_share_iff<C: Ciphersuite>(odd: bool, z: crate::traits::Scalar<C>, d: crate::traits::Scalar<C>, e: crate::traits::Scalar<C>, rho: crate::traits::Scalar<C>,
        lam: crate::traits::Scalar<C>, s: crate::traits::Scalar<C>, c: crate::traits::Scalar<C>)
    ensures spec_sigshare_ok::<C>(z, sgn_el::<C>(odd, commit_share::<C>(d, e, rho)), gmul::<C>(s), lam, c) <==> z == signed_share::<C>(odd, d, e, rho, lam, s, c)
{
    lemma_signed_share_eq::<C>(odd, d, e, rho, lam, s, c);
    if spec_sigshare_ok::<C>(z, sgn_el::<C>(odd, commit_share::<C>(d, e, rho)), gmul::<C>(s), lam, c) {
        lemma_gen_inj::<C>(z, signed_share::<C>(odd, d, e, rho, lam, s, c));
    }
}

// =====================================================================================================
// Part 2 -- C18 (b): Taproot share verification accepts exactly the honest share, for BOTH parities of the group commitment

// the honest Taproot share: `compute_signature_share` on the (pre_sign-normalised) key share s with nonces (d, e)
//@serves C18
pub proof fn thm_tr_share_accepted_iff(gc: ProjectivePoint, z: Scalar, d: Scalar, e: Scalar, rho: Scalar, lam: Scalar, s: Scalar, c: Scalar)
    ensures
        // BIP-340 vocabulary (lemmas/vspec_tr.rs): verify_share  <==>  the share is the one compute_signature_share produces
        tr_share_ok(gc, z, pt_add(g_mul(d), pt_smul(g_mul(e), rho)), g_mul(s), lam, c) <==> z == tr_sig_share_scalar(gc, d, e, rho, lam, s, c),
{
    lemma_signed_share_iff::<TR>(pt_y_odd(gc), z, d, e, rho, lam, s, c);
}

// the same statement at the level of the hooks (what frost-core calls), in every parity case of the group commitment
//@serves C18
pub proof fn thm_tr_hooks_share_parity(gc: GroupCommitment<TR>, sh: crate::round2::SignatureShare<TR>, id: Identifier<TR>, sn: crate::round1::SigningNonces<TR>, bf: BindingFactor<TR>,
        lam: Scalar, kp: KeyPackage<TR>, c: Challenge<TR>)
    ensures TR::spec_hook_verify_share(gc, sh, id, crate::round1::GroupCommitmentShare(commit_share::<TR>(sn.hiding.0.0, sn.binding.0.0, bf.0)),
                VerifyingShare(crate::serialization::SerializableElement(gmul::<TR>(kp.signing_share.0.0))), lam, c)
            <==> sh.share.0 == TR::spec_hook_sig_share(gc, sn, bf, lam, kp, c).share.0
{
    lemma_taproot_world();
    thm_tr_share_accepted_iff(gc.0, sh.share.0, sn.hiding.0.0, sn.binding.0.0, bf.0, lam, kp.signing_share.0.0, c.0);
}

// =====================================================================================================
// Part 3 -- the aggregate of signed shares, for ANY suite (induction over the signers in ascending identifier order)

// sum_{k<n} lambda(ids[k]) * sk(ids[k])   (the secret the signers' key shares interpolate to)
pub open spec fn lag_sum<C: Ciphersuite>(sp: SigningPackage<C>, ids: Seq<Identifier<C>>, sk: Map<Identifier<C>, crate::traits::Scalar<C>>, n: int) -> crate::traits::Scalar<C> decreases n
{ if n <= 0 { s0::<C>() } else { sadd::<C>(lag_sum::<C>(sp, ids, sk, n - 1), smul::<C>(sp_lambda::<C>(sp, ids[n - 1]), sk[ids[n - 1]])) } }

// every signer of the session committed to its nonces (D = d*G, E = e*G) and submitted the signed share for key share sk
pub open spec fn signed_session<C: Ciphersuite>(odd: bool, sp: SigningPackage<C>, vk: Element<C>, shares: Map<Identifier<C>, crate::round2::SignatureShare<C>>,
        nonces: Map<Identifier<C>, (crate::traits::Scalar<C>, crate::traits::Scalar<C>)>, sk: Map<Identifier<C>, crate::traits::Scalar<C>>, c: crate::traits::Scalar<C>) -> bool {
    forall|id: Identifier<C>| #[trigger] sp.signing_commitments@.contains_key(id) ==>
        sp.signing_commitments@[id].hiding.0.0 == gmul::<C>(nonces[id].0) && sp.signing_commitments@[id].binding.0.0 == gmul::<C>(nonces[id].1)
        && shares[id].share.0 == signed_share::<C>(odd, nonces[id].0, nonces[id].1, sp_rho::<C>(sp, vk, id), sp_lambda::<C>(sp, id), sk[id], c)
}

// G * (sum of the first n shares) == +-(group commitment over the first n signers) + (G * lag_sum_n) * c
pub proof fn lemma_signed_sum<C: Ciphersuite>(odd: bool, sp: SigningPackage<C>, vk: Element<C>, shares: Map<Identifier<C>, crate::round2::SignatureShare<C>>,
        nonces: Map<Identifier<C>, (crate::traits::Scalar<C>, crate::traits::Scalar<C>)>, sk: Map<Identifier<C>, crate::traits::Scalar<C>>, c: crate::traits::Scalar<C>, n: int)
    requires signed_session::<C>(odd, sp, vk, shares, nonces, sk, c), sp.signing_commitments@.dom().finite(), 0 <= n <= sp.signing_commitments@.dom().len()
    ensures ({ let ids = sorted_seq(sp.signing_commitments@.dom());
        gmul::<C>(spec_z_sum::<C>(ids, shares, n))
            == eadd::<C>(sgn_el::<C>(odd, eadd::<C>(gc_hiding::<C>(sp_items::<C>(sp), n), gc_binding::<C>(sp_items::<C>(sp), sp_rho_map::<C>(sp, vk), n))),
                         emul::<C>(gmul::<C>(lag_sum::<C>(sp, ids, sk, n)), c)) })
    decreases n
{
    let m = sp.signing_commitments@;
    let ids = sorted_seq(m.dom());
    let items = sp_items::<C>(sp);
    let bf = sp_rho_map::<C>(sp, vk);
    let g = eg::<C>();
    lemma_sorted_exists::<C>(m.dom());
    ids.unique_seq_to_set();
    if n == 0 {
        lemma_smul_zero::<C>(g);
        GG::<C>::ax_eadd_id(e0::<C>());
        lemma_eneg_id::<C>();
        lemma_smul_id::<C>(c);
    } else {
        lemma_signed_sum::<C>(odd, sp, vk, shares, nonces, sk, c, n - 1);
        let id = ids[n - 1];
        assert(ids.to_set().contains(id));
        assert(m.contains_key(id));
        assert(items[n - 1] == (id, m[id]));
        let d = nonces[id].0; let e = nonces[id].1; let rho = sp_rho::<C>(sp, vk, id); let lam = sp_lambda::<C>(sp, id); let s = sk[id];
        assert(bf[id].0 == rho);
        let zp = spec_z_sum::<C>(ids, shares, n - 1); let zi = shares[id].share.0;
        let hp = gc_hiding::<C>(items, n - 1); let bp = gc_binding::<C>(items, bf, n - 1);
        let dd = gmul::<C>(d); let er = emul::<C>(gmul::<C>(e), rho);
        let lp = lag_sum::<C>(sp, ids, sk, n - 1); let ls = smul::<C>(lam, s);
        // left: G*(zp + zi) = G*zp + G*zi
        GG::<C>::ax_smul_add(g, zp, zi);
        lemma_signed_share_eq::<C>(odd, d, e, rho, lam, s, c);
        lemma_key_term::<C>(lam, s, c);
        let kt = emul::<C>(gmul::<C>(ls), c);
        assert(gmul::<C>(zi) == eadd::<C>(sgn_el::<C>(odd, eadd::<C>(dd, er)), kt));
        // right: +-((hp + D) + (bp + E*rho)) = +-(hp + bp) + +-(D + E*rho)
        lemma_eadd_swap::<C>(hp, dd, bp, er);
        lemma_sgn_add::<C>(odd, eadd::<C>(hp, bp), eadd::<C>(dd, er));
        // (G*(lp + ls))*c = (G*lp)*c + (G*ls)*c
        GG::<C>::ax_smul_add(g, lp, ls);
        GG::<C>::ax_smul_eadd(gmul::<C>(lp), gmul::<C>(ls), c);
        lemma_eadd_swap::<C>(sgn_el::<C>(odd, eadd::<C>(hp, bp)), emul::<C>(gmul::<C>(lp), c), sgn_el::<C>(odd, eadd::<C>(dd, er)), kt);
        assert(gc_hiding::<C>(items, n) == eadd::<C>(hp, dd));
        assert(gc_binding::<C>(items, bf, n) == eadd::<C>(bp, er));
        assert(lag_sum::<C>(sp, ids, sk, n) == sadd::<C>(lp, ls));
        assert(spec_z_sum::<C>(ids, shares, n) == sadd::<C>(zp, zi));
    }
}

// key shares on a polynomial a (constant term first) with at most |signers| coefficients interpolate to a[0]
pub open spec fn on_poly<C: Ciphersuite>(ids: Set<Identifier<C>>, sk: Map<Identifier<C>, crate::traits::Scalar<C>>, a: Seq<crate::traits::Scalar<C>>) -> bool
{ 1 <= a.len() <= ids.len() && forall|id: Identifier<C>| #[trigger] ids.contains(id) ==> sk[id] == poly::<AL<C>>(a, id.0.0) }

pub proof fn lemma_lag_sum_as_id_sum<C: Ciphersuite>(sp: SigningPackage<C>, sk: Map<Identifier<C>, crate::traits::Scalar<C>>, a: Seq<crate::traits::Scalar<C>>, n: int)
    requires sp.signing_commitments@.dom().finite(), on_poly::<C>(sp.signing_commitments@.dom(), sk, a), 0 <= n <= sp.signing_commitments@.dom().len()
    ensures ({ let ids = sorted_seq(sp.signing_commitments@.dom()); lag_sum::<C>(sp, ids, sk, n) == id_sum::<C>(ids.take(n), lag_term::<C>(ids, a, s0::<C>())) })
    decreases n
{
    let ids = sorted_seq(sp.signing_commitments@.dom());
    lemma_sorted_exists::<C>(sp.signing_commitments@.dom());
    ids.unique_seq_to_set();
    if n > 0 {
        lemma_lag_sum_as_id_sum::<C>(sp, sk, a, n - 1);
        assert(ids.take(n).drop_last() =~= ids.take(n - 1));
        assert(ids.take(n).last() == ids[n - 1]);
        let i = ids[n - 1];
        assert(ids.to_set().contains(i));
        lemma_lag0::<AL<C>>(scalars::<C>(ids), i.0.0);
        FF::<C>::ax_mul_comm(spec_lagrange::<C>(ids, None, i), sk[i]);
    }
}
pub proof fn lemma_lag_sum_interpolates<C: Ciphersuite>(sp: SigningPackage<C>, sk: Map<Identifier<C>, crate::traits::Scalar<C>>, a: Seq<crate::traits::Scalar<C>>)
    requires sp.signing_commitments@.dom().finite(), on_poly::<C>(sp.signing_commitments@.dom(), sk, a)
    ensures lag_sum::<C>(sp, sorted_seq(sp.signing_commitments@.dom()), sk, sp.signing_commitments@.dom().len() as int) == a[0]
{
    let ids = sorted_seq(sp.signing_commitments@.dom());
    lemma_sorted_exists::<C>(sp.signing_commitments@.dom());
    ids.unique_seq_to_set();
    lemma_lag_sum_as_id_sum::<C>(sp, sk, a, ids.len() as int);
    assert(ids.take(ids.len() as int) =~= ids);
    lemma_interpolate_at::<C>(ids, a, s0::<C>());
    lemma_poly_at_zero::<C>(a);
}

// =====================================================================================================
// Part 4 -- C18 (c): the Taproot aggregate is a BIP-340 signature under the (x-only) group key of the package

// parity facts about the even-Y representative (from K7, K8 and the group laws)
pub proof fn lemma_ev(p: ProjectivePoint)
    ensures pt_x(ev(p)) == pt_x(p), p != pt_id() ==> ev(p) != pt_id() && !pt_y_odd(ev(p)), p == pt_id() ==> ev(p) == pt_id(), ev(ev(p)) == ev(p)
{
    ax_neg_x(p);
    lemma_eneg_id::<TR>();
    if p != pt_id() {
        ax_neg_parity(p);
        if pt_neg(p) == pt_id() { lemma_eneg_neg::<TR>(p); }
    }
}

// poly with all coefficients negated is the negated poly; poly with t added to the constant term is poly + t
pub open spec fn neg_coeffs(a: Seq<Scalar>) -> Seq<Scalar> { a.map_values(|x: Scalar| sc_neg(x)) }
pub proof fn lemma_poly_neg(a: Seq<Scalar>, x: Scalar)
    ensures poly::<AL<TR>>(neg_coeffs(a), x) == sc_neg(poly::<AL<TR>>(a, x))
    decreases a.len()
{
    if a.len() == 0 {
        FF::<TR>::ax_add_neg(sc_zero()); lemma_zero_add::<AL<TR>>(sc_neg(sc_zero()));
    } else {
        lemma_poly_neg(a.drop_first(), x);
        assert(neg_coeffs(a).drop_first() =~= neg_coeffs(a.drop_first()));
        let r = poly::<AL<TR>>(a.drop_first(), x);
        lemma_neg_mul::<AL<TR>>(r, x);
        lemma_sneg_add::<TR>(a[0], sc_mul(r, x));
    }
}
pub proof fn lemma_poly_shift(a: Seq<Scalar>, t: Scalar, x: Scalar)
    requires a.len() >= 1
    ensures poly::<AL<TR>>(a.update(0, sc_add(a[0], t)), x) == sc_add(poly::<AL<TR>>(a, x), t)
{
    let b = a.update(0, sc_add(a[0], t));
    assert(b.drop_first() =~= a.drop_first());
    let r = sc_mul(poly::<AL<TR>>(a.drop_first(), x), x);
    // (a0 + t) + r == (a0 + r) + t
    FF::<TR>::ax_add_assoc(a[0], t, r); FF::<TR>::ax_add_comm(t, r); FF::<TR>::ax_add_assoc(a[0], r, t);
}

// the signers of the session (`kps`: their key packages, `sns`: their nonces) are honest: consistent with the public key package, nonces
// committed in the signing package, and the submitted share is what round2::sign returns (world-generic contract of sign)
pub open spec fn tr_signers_honest(sp: SigningPackage<TR>, pk: PublicKeyPackage<TR>, shares: Map<Identifier<TR>, crate::round2::SignatureShare<TR>>,
        kps: Map<Identifier<TR>, KeyPackage<TR>>, sns: Map<Identifier<TR>, crate::round1::SigningNonces<TR>>) -> bool {
    forall|id: Identifier<TR>| #[trigger] sp.signing_commitments@.contains_key(id) ==> {
        &&& kps[id].identifier == id && kps[id].verifying_key == pk.verifying_key && kps[id].min_signers <= sp.signing_commitments@.dom().len()
        &&& sns[id].commitments == sp.signing_commitments@[id]
        &&& sns[id].commitments.hiding.0.0 == g_mul(sns[id].hiding.0.0) && sns[id].commitments.binding.0.0 == g_mul(sns[id].binding.0.0)
        &&& spec_sign_w::<TR>(sp, sns[id], kps[id]) == Ok::<crate::round2::SignatureShare<TR>, Error<TR>>(shares[id])
    }
}
pub open spec fn kp_secrets(dom: Set<Identifier<TR>>, kps: Map<Identifier<TR>, KeyPackage<TR>>) -> Map<Identifier<TR>, Scalar>
{ Map::new(dom, |id: Identifier<TR>| kps[id].signing_share.0.0) }

// (a + b) - b - a == 0  and  (a + b) + (-b) == a
pub proof fn lemma_cancel2(a: ProjectivePoint, b: ProjectivePoint)
    ensures pt_add(pt_add(a, b), pt_neg(b)) == a, pt_add(pt_add(pt_add(a, b), pt_neg(b)), pt_neg(a)) == pt_id()
{
    GG::<TR>::ax_eadd_assoc(a, b, pt_neg(b)); GG::<TR>::ax_eadd_neg(b); GG::<TR>::ax_eadd_id(a); GG::<TR>::ax_eadd_neg(a);
}

// from the verification equation  z*G == ev(R) + ev(P)*e,  e the BIP-340 challenge: the 64 bytes x(R) || ser(z) pass BIP-340 Verify under x(P)
//@serves C18
pub proof fn lemma_bip340_from_equation(p: ProjectivePoint, m: Seq<u8>, r: ProjectivePoint, z: Scalar)
    requires p != pt_id(), r != pt_id(), g_mul(z) == pt_add(ev(r), pt_smul(ev(p), bip340_challenge(pt_x(r), pt_x(p), m)))
    ensures bip340_verify(pt_x(p), m, tr_sig_bytes(Signature::<TR> { R: r, z: z })), tr_sig_bytes(Signature::<TR> { R: r, z: z }).len() == 64
{
    let bytes = tr_sig_bytes(Signature::<TR> { R: r, z: z });
    let zs = crate::secp256k1_tr::Secp256K1ScalarField::spec_ser(z);
    ax_x_len(r); ax_x_len(p);
    crate::secp256k1_tr::Secp256K1ScalarField::ax_ser_len(z);
    crate::secp256k1_tr::Secp256K1ScalarField::ax_ser_deser(z);
    assert(bytes.subrange(0, 32) =~= pt_x(r));
    assert(bytes.subrange(32, 64) =~= zs);
    lemma_ev(p); lemma_ev(r);
    let e = bip340_challenge(pt_x(r), pt_x(p), m);
    lemma_cancel2(ev(r), pt_smul(ev(p), e));
    assert(is_lift_x(pt_x(p), ev(p)));
    assert(bip340_verify_with(ev(p), pt_x(p), m, pt_x(r), z));
}

// the even-Y-normalised key shares and the nonces of the signers, as maps over the signer set
pub open spec fn tr_nonces(dom: Set<Identifier<TR>>, sns: Map<Identifier<TR>, crate::round1::SigningNonces<TR>>) -> Map<Identifier<TR>, (Scalar, Scalar)>
{ Map::new(dom, |id: Identifier<TR>| (sns[id].hiding.0.0, sns[id].binding.0.0)) }
pub open spec fn tr_even_secrets(dom: Set<Identifier<TR>>, vk: ProjectivePoint, kps: Map<Identifier<TR>, KeyPackage<TR>>) -> Map<Identifier<TR>, Scalar>
{ Map::new(dom, |id: Identifier<TR>| even_sc(vk, kps[id].signing_share.0.0)) }
// the session as signers and coordinator see it after pre_sign / pre_aggregate: even-Y group key, group commitment and BIP-340 challenge
pub open spec fn tr_R(sp: SigningPackage<TR>, vk: ProjectivePoint) -> ProjectivePoint { sp_R::<TR>(sp, ev(vk)) }
pub open spec fn tr_c(sp: SigningPackage<TR>, vk: ProjectivePoint) -> Scalar { bip340_challenge(pt_x(tr_R(sp, vk)), pt_x(ev(vk)), sp.message@) }

// step 1: what an honest signer submits is the signed share (sign = pre_sign, BIP-340 challenge, compute_signature_share)
pub proof fn lemma_tr_session_signed(sp: SigningPackage<TR>, pk: PublicKeyPackage<TR>, shares: Map<Identifier<TR>, crate::round2::SignatureShare<TR>>,
        kps: Map<Identifier<TR>, KeyPackage<TR>>, sns: Map<Identifier<TR>, crate::round1::SigningNonces<TR>>)
    requires tr_signers_honest(sp, pk, shares, kps, sns), vk_pt(pk.verifying_key) != pt_id(), !items_have_identity::<TR>(sp_items::<TR>(sp))
    ensures ({ let vk = vk_pt(pk.verifying_key); let dom = sp.signing_commitments@.dom();
        signed_session::<TR>(pt_y_odd(tr_R(sp, vk)), sp, ev(vk), shares, tr_nonces(dom, sns), tr_even_secrets(dom, vk, kps), tr_c(sp, vk)) })
{
    lemma_taproot_world();
    let vk = vk_pt(pk.verifying_key); let vke = ev(vk); let dom = sp.signing_commitments@.dom();
    let r = tr_R(sp, vk); let m = sp.message@; let c = tr_c(sp, vk); let odd = pt_y_odd(r);
    let nonces = tr_nonces(dom, sns); let ske = tr_even_secrets(dom, vk, kps);
    lemma_ev(vk);
    assert forall|id: Identifier<TR>| #[trigger] sp.signing_commitments@.contains_key(id) implies
        sp.signing_commitments@[id].hiding.0.0 == gmul::<TR>(nonces[id].0) && sp.signing_commitments@[id].binding.0.0 == gmul::<TR>(nonces[id].1)
        && shares[id].share.0 == signed_share::<TR>(odd, nonces[id].0, nonces[id].1, sp_rho::<TR>(sp, vke, id), sp_lambda::<TR>(sp, id), ske[id], c) by {
        let kp = kps[id]; let sn = sns[id];
        let kpe = tr_kp_even(kp);
        assert(dom.contains(id));
        assert(TR::spec_pre_sign(sp, sn, kp) == Ok::<(SigningPackage<TR>, crate::round1::SigningNonces<TR>, KeyPackage<TR>), Error<TR>>((sp, sn, kpe)));
        assert(kpe.verifying_key == mk_vk(vke));
        assert(kpe.identifier == id);
        assert(kpe.signing_share.0.0 == even_sc(vk, kp.signing_share.0.0));
        assert(TR::spec_hook_challenge(r, kpe.verifying_key, m) == Ok::<Scalar, Error<TR>>(c));
        let want = TR::spec_hook_sig_share(GroupCommitment(r), sn, BindingFactor(sp_rho::<TR>(sp, vke, id)), sp_lambda::<TR>(sp, id), kpe, Challenge(c));
        assert(spec_sign_w::<TR>(sp, sn, kp) == Ok::<crate::round2::SignatureShare<TR>, Error<TR>>(want));
        assert(shares[id] == want);
    }
}

// step 2: the verification equation  z*G == ev(R) + ev(P)*c  for the sum z of the shares
pub proof fn lemma_tr_equation(sp: SigningPackage<TR>, vk: ProjectivePoint, shares: Map<Identifier<TR>, crate::round2::SignatureShare<TR>>,
        nonces: Map<Identifier<TR>, (Scalar, Scalar)>, sk: Map<Identifier<TR>, Scalar>, a: Seq<Scalar>)
    requires sp.signing_commitments@.dom().finite(),
        signed_session::<TR>(pt_y_odd(tr_R(sp, vk)), sp, ev(vk), shares, nonces, tr_even_of(sp.signing_commitments@.dom(), vk, sk), tr_c(sp, vk)),
        on_poly::<TR>(sp.signing_commitments@.dom(), sk, a), vk == g_mul(a[0]),
    ensures g_mul(spec_z_sum::<TR>(sorted_seq(sp.signing_commitments@.dom()), shares, sp.signing_commitments@.dom().len() as int)) == pt_add(ev(tr_R(sp, vk)), pt_smul(ev(vk), tr_c(sp, vk)))
{
    let dom = sp.signing_commitments@.dom(); let n = dom.len() as int; let ids = sorted_seq(dom);
    let vke = ev(vk); let r = tr_R(sp, vk); let c = tr_c(sp, vk); let odd = pt_y_odd(r);
    let ske = tr_even_of(dom, vk, sk);
    lemma_sorted_exists::<TR>(dom);
    ids.unique_seq_to_set();
    lemma_signed_sum::<TR>(odd, sp, vke, shares, nonces, ske, c, n);
    let ae = if pt_y_odd(vk) { neg_coeffs(a) } else { a };
    assert(on_poly::<TR>(dom, ske, ae)) by {
        assert forall|id: Identifier<TR>| #[trigger] dom.contains(id) implies ske[id] == poly::<AL<TR>>(ae, id.0.0) by {
            assert(sk[id] == poly::<AL<TR>>(a, id.0.0));
            if pt_y_odd(vk) { lemma_poly_neg(a, id.0.0); }
        }
    }
    lemma_lag_sum_interpolates::<TR>(sp, ske, ae);
    assert(g_mul(ae[0]) == vke) by { if pt_y_odd(vk) { lemma_smul_neg::<TR>(pt_gen(), a[0]); } }
    let items = sp_items::<TR>(sp);
    assert(items.len() == n);
    assert(r == eadd::<TR>(gc_hiding::<TR>(items, n), gc_binding::<TR>(items, sp_rho_map::<TR>(sp, vke), n)));
}
pub open spec fn tr_even_of(dom: Set<Identifier<TR>>, vk: ProjectivePoint, sk: Map<Identifier<TR>, Scalar>) -> Map<Identifier<TR>, Scalar>
{ Map::new(dom, |id: Identifier<TR>| even_sc(vk, sk[id])) }

// step 3: a signature satisfying the equation passes the suite's own verification (default verify_signature + Taproot pre_verify / challenge)
pub proof fn lemma_tr_verify_ok(vke: ProjectivePoint, m: Seq<u8>, r: ProjectivePoint, z: Scalar)
    requires ev(vke) == vke, g_mul(z) == pt_add(ev(r), pt_smul(vke, bip340_challenge(pt_x(r), pt_x(vke), m)))
    ensures TR::spec_hook_verify_signature(m, Signature::<TR> { R: r, z: z }, mk_vk(vke)) is Ok
{
    lemma_taproot_world();
    let sig = Signature::<TR> { R: r, z: z };
    let c = bip340_challenge(pt_x(r), pt_x(vke), m);
    lemma_ev(r);
    assert(TR::spec_pre_verify(m, sig, mk_vk(vke)) == Ok::<(Seq<u8>, Signature<TR>, VerifyingKey<TR>), Error<TR>>((m, tr_sig_even(sig), mk_vk(ev(vke)))));
    assert(TR::spec_hook_challenge(ev(r), mk_vk(vke), m) == Ok::<Scalar, Error<TR>>(c));
    lemma_cancel2(ev(r), pt_smul(vke, c));
    lemma_smul_id::<TR>(sc_one());
    assert(spec_sig_valid::<TR>(mk_vk(vke), Challenge(c), tr_sig_even(sig)));
}

//@serves C18
pub proof fn thm_tr_aggregate_bip340(res: Result<Signature<TR>, Error<TR>>, sp: SigningPackage<TR>, shares: BTreeMap<Identifier<TR>, crate::round2::SignatureShare<TR>>,
        pk: PublicKeyPackage<TR>, kps: Map<Identifier<TR>, KeyPackage<TR>>, sns: Map<Identifier<TR>, crate::round1::SigningNonces<TR>>, a: Seq<Scalar>, detect: bool, first: bool)
    requires
        // what frost::aggregate / aggregate_custom guarantee (world-generic contract, contracts_tr/core_generic.vc)
        agg_result_is_w::<TR>(res, sp, shares, pk, detect, first),
        // the even-Y package pre_aggregate returns exists (witnessed by every execution of the hook: its verified contract)
        tr_pkp_realisable(pk),
        // the coordinator's structural guards pass; no identity key / commitment; the group commitment is not the identity
        agg_pre_guard_err::<TR>(sp, shares@, pk, detect) is None,
        vk_pt(pk.verifying_key) != pt_id(), !items_have_identity::<TR>(sp_items::<TR>(sp)), tr_R(sp, vk_pt(pk.verifying_key)) != pt_id(),
        // honest signers whose key shares lie on a polynomial with constant term the group secret (dealer: C06, DKG: C07; at most |signers| coefficients)
        tr_signers_honest(sp, pk, shares@, kps, sns),
        on_poly::<TR>(sp.signing_commitments@.dom(), kp_secrets(sp.signing_commitments@.dom(), kps), a), vk_pt(pk.verifying_key) == g_mul(a[0]),
    ensures
        res is Ok, (res->Ok_0).R == tr_R(sp, vk_pt(pk.verifying_key)),
        // the 64-byte encoding exists and passes BIP-340 verification under the x-only key of the package -- for EVERY parity of the key and of R
        TR::spec_serialize_signature(res->Ok_0) == Ok::<Seq<u8>, Error<TR>>(tr_sig_bytes(res->Ok_0)), tr_sig_bytes(res->Ok_0).len() == 64,
        bip340_verify(pt_x(vk_pt(pk.verifying_key)), sp.message@, tr_sig_bytes(res->Ok_0)),
{
    lemma_taproot_world();
    use_id_order::<TR>();
    let vk = vk_pt(pk.verifying_key); let vke = ev(vk);
    let pke = tr_pkp_even(pk);
    assert(tr_pkp_even_is(pk, pke));
    assert(pke.verifying_key == mk_vk(vke));
    lemma_ev(vk);
    let dom = sp.signing_commitments@.dom(); let n = dom.len() as int;
    let r = tr_R(sp, vk); let m = sp.message@; let c = tr_c(sp, vk);
    assert(dom == shares@.dom()) by {
        assert forall|id: Identifier<TR>| #[trigger] dom.contains(id) implies shares@.dom().contains(id) by { assert(sp.signing_commitments@.contains_key(id)); }
        lemma_same_ids::<TR>(dom, shares@.dom());
    }
    lemma_tr_session_signed(sp, pk, shares@, kps, sns);
    let sk = kp_secrets(dom, kps);
    assert(tr_even_of(dom, vk, sk) =~= tr_even_secrets(dom, vk, kps));
    lemma_tr_equation(sp, vk, shares@, tr_nonces(dom, sns), sk, a);
    let z = spec_z_sum::<TR>(sorted_seq(dom), shares@, n);
    let sig = agg_sig::<TR>(sp, shares@, vke);
    assert(sig == (Signature::<TR> { R: r, z: z }));
    assert(pt_x(vke) == pt_x(vk));
    lemma_tr_verify_ok(vke, m, r, z);
    assert(res == Ok::<Signature<TR>, Error<TR>>(sig));
    lemma_bip340_from_equation(vk, m, r, z);
}

// =====================================================================================================
// Part 5 -- parity of the GROUP KEY, the BIP-341 tweak, the untweaked key, key generation

// signer (pre_sign) and coordinator (pre_aggregate) normalise consistently: after the hooks the coordinator's verifying share of a
// participant is still G * (the participant's signing share), and both hold the same (even-Y) group key -- for both parities of the key
//@serves C18
pub proof fn thm_tr_key_parity_consistent(kp: KeyPackage<TR>, pk: PublicKeyPackage<TR>, q: PublicKeyPackage<TR>)
    requires tr_pkp_even_is(pk, q), kp.verifying_key == pk.verifying_key, pk.verifying_shares@.contains_key(kp.identifier),
        pk.verifying_shares@[kp.identifier] == mk_vs(g_mul(kp.signing_share.0.0))
    ensures q.verifying_shares@.contains_key(kp.identifier), q.verifying_shares@[kp.identifier] == mk_vs(g_mul(tr_kp_even(kp).signing_share.0.0)),
        q.verifying_key == mk_vk(ev(vk_pt(pk.verifying_key))), tr_kp_even(kp).verifying_key == q.verifying_key
{
    if pt_y_odd(vk_pt(pk.verifying_key)) { lemma_smul_neg::<TR>(pt_gen(), kp.signing_share.0.0); }
}

// share verification by the coordinator == "the share is the one the signer's hooks compute", whatever the parities of key and commitment:
// the check of the `verify_share` hook on the package pre_aggregate returns accepts EXACTLY the share of `compute_signature_share` on the
// package pre_sign returns (so cheater identification blames exactly the participants whose share differs from it)
//@serves C18
pub proof fn thm_tr_share_check_exact(gc: GroupCommitment<TR>, sh: crate::round2::SignatureShare<TR>, sn: crate::round1::SigningNonces<TR>, bf: BindingFactor<TR>, lam: Scalar,
        kp: KeyPackage<TR>, pk: PublicKeyPackage<TR>, q: PublicKeyPackage<TR>, c: Challenge<TR>)
    requires tr_pkp_even_is(pk, q), kp.verifying_key == pk.verifying_key, pk.verifying_shares@.contains_key(kp.identifier),
        pk.verifying_shares@[kp.identifier] == mk_vs(g_mul(kp.signing_share.0.0))
    ensures TR::spec_hook_verify_share(gc, sh, kp.identifier, crate::round1::GroupCommitmentShare(commit_share::<TR>(sn.hiding.0.0, sn.binding.0.0, bf.0)),
                q.verifying_shares@[kp.identifier], lam, c)
            <==> sh.share.0 == TR::spec_hook_sig_share(gc, sn, bf, lam, tr_kp_even(kp), c).share.0
{
    thm_tr_key_parity_consistent(kp, pk, q);
    thm_tr_hooks_share_parity(gc, sh, kp.identifier, sn, bf, lam, tr_kp_even(kp), c);
}

// BIP-341: tweaking keeps the sharing.  If the key shares lie on a polynomial a with P = a[0]*G, the tweaked shares (+-s_i + t) lie on the
// polynomial with the coefficients negated iff P has odd Y and t added to the constant term, whose constant term is the discrete log of the
// OUTPUT KEY  Q = lift_x(x(P)) + t*G,  t = hash_TapTweak(x(P) || root?)
pub open spec fn tweaked_coeffs(p: ProjectivePoint, a: Seq<Scalar>, t: Scalar) -> Seq<Scalar>
{ (if pt_y_odd(p) { neg_coeffs(a) } else { a }).update(0, sc_add(even_sc(p, a[0]), t)) }
//@serves C18
pub proof fn thm_tr_tweak_keeps_sharing(dom: Set<Identifier<TR>>, p: ProjectivePoint, sk: Map<Identifier<TR>, Scalar>, a: Seq<Scalar>, root: Option<Seq<u8>>)
    requires on_poly::<TR>(dom, sk, a), p == g_mul(a[0])
    ensures ({ let t = bip341_tweak(pt_x(p), root);
        on_poly::<TR>(dom, Map::new(dom, |id: Identifier<TR>| sc_add(even_sc(p, sk[id]), t)), tweaked_coeffs(p, a, t))
        && g_mul(tweaked_coeffs(p, a, t)[0]) == taproot_output_key(p, root) })
{
    let t = bip341_tweak(pt_x(p), root);
    let ae = if pt_y_odd(p) { neg_coeffs(a) } else { a };
    let at = tweaked_coeffs(p, a, t);
    let skt = Map::new(dom, |id: Identifier<TR>| sc_add(even_sc(p, sk[id]), t));
    assert(ae[0] == even_sc(p, a[0]));
    assert forall|id: Identifier<TR>| #[trigger] dom.contains(id) implies skt[id] == poly::<AL<TR>>(at, id.0.0) by {
        assert(sk[id] == poly::<AL<TR>>(a, id.0.0));
        if pt_y_odd(p) { lemma_poly_neg(a, id.0.0); }
        lemma_poly_shift(ae, t, id.0.0);
    }
    GG::<TR>::ax_smul_add(pt_gen(), even_sc(p, a[0]), t);
    if pt_y_odd(p) { lemma_smul_neg::<TR>(pt_gen(), a[0]); }
}

// the tweaked packages (sign_with_tweak / aggregate_with_tweak work on `kp.tweak(root)` / `pk.tweak(root)`): both carry the BIP-341 output key,
// and the tweaked verifying share is G * the tweaked signing share
//@serves C18
pub proof fn thm_tr_tweaked_packages(kp: KeyPackage<TR>, pk: PublicKeyPackage<TR>, q: PublicKeyPackage<TR>, root: Option<Seq<u8>>)
    requires tr_pkp_tweak_is(pk, root, q), kp.verifying_key == pk.verifying_key, pk.verifying_shares@.contains_key(kp.identifier),
        pk.verifying_shares@[kp.identifier] == mk_vs(g_mul(kp.signing_share.0.0))
    ensures ({ let out = taproot_output_key(vk_pt(pk.verifying_key), root);
        q.verifying_key == mk_vk(out) && tr_kp_tweak(kp, root).verifying_key == mk_vk(out)
        && q.verifying_shares@.contains_key(kp.identifier) && q.verifying_shares@[kp.identifier] == mk_vs(g_mul(tr_kp_tweak(kp, root).signing_share.0.0))
        && tr_kp_tweak(kp, root).signing_share.0.0 == sc_add(even_sc(vk_pt(pk.verifying_key), kp.signing_share.0.0), bip341_tweak(pt_x(vk_pt(pk.verifying_key)), root)) })
{
    let p = vk_pt(pk.verifying_key); let t = bip341_tweak(pt_x(p), root); let s = kp.signing_share.0.0;
    GG::<TR>::ax_smul_add(pt_gen(), even_sc(p, s), t);
    if pt_y_odd(p) { lemma_smul_neg::<TR>(pt_gen(), s); }
}

// key generation (DKG): post_dkg returns the KEY-PATH-ONLY tweak of both packages: output key  lift_x(x(P)) + hash_TapTweak(x(P))*G
//@serves C18
pub proof fn thm_tr_dkg_key_path_only(kp: KeyPackage<TR>, pk: PublicKeyPackage<TR>)
    ensures TR::spec_post_dkg(kp, pk) == Ok::<(KeyPackage<TR>, PublicKeyPackage<TR>), Error<TR>>((tr_kp_tweak(kp, None), tr_pkp_tweak(pk, None))),
        tr_kp_tweak(kp, None).verifying_key == mk_vk(taproot_output_key(vk_pt(kp.verifying_key), None)),
        bip341_tweak(pt_x(vk_pt(kp.verifying_key)), None) == tagged_scalar(tag_taptweak(), pt_x(vk_pt(kp.verifying_key))),
        (exists|q: PublicKeyPackage<TR>| tr_pkp_tweak_is(pk, None, q)) ==> tr_pkp_tweak(pk, None).verifying_key == mk_vk(taproot_output_key(vk_pt(pk.verifying_key), None)),
        // the dealer path: post_generate is NOT overridden -- dealer output is handed out untweaked (callers use sign_with_tweak / aggregate_with_tweak)
        forall|s: BTreeMap<Identifier<TR>, SecretShare<TR>>| #[trigger] TR::spec_post_generate(s, pk) == Ok::<(BTreeMap<Identifier<TR>, SecretShare<TR>>, PublicKeyPackage<TR>), Error<TR>>((s, pk)),
{
    lemma_taproot_world();
    let x = pt_x(vk_pt(kp.verifying_key));
    assert(x + Seq::<u8>::empty() =~= x);
    if exists|q: PublicKeyPackage<TR>| tr_pkp_tweak_is(pk, None, q) { assert(tr_pkp_tweak_is(pk, None, tr_pkp_tweak(pk, None))); }
}

// the untweaked key.  A signature made for the output key Q verifies under the INTERNAL key P exactly if  e*ev(Q) == e'*ev(P)  with the two
// BIP-340 challenges e = H(x(R) || x(Q) || m), e' = H(x(R) || x(P) || m).  That this relation between two hash outputs does not hold when
// t*G != 0 is a property of the hash (not decided here); the theorem pins the claim down to exactly that relation.
//@serves C18
pub proof fn thm_tr_untweaked_key_iff(p: ProjectivePoint, q: ProjectivePoint, m: Seq<u8>, r: ProjectivePoint, z: Scalar)
    requires p != pt_id(), r != pt_id(), g_mul(z) == pt_add(ev(r), pt_smul(ev(q), bip340_challenge(pt_x(r), pt_x(q), m)))
    ensures bip340_verify(pt_x(p), m, tr_sig_bytes(Signature::<TR> { R: r, z: z }))
        <==> pt_smul(ev(q), bip340_challenge(pt_x(r), pt_x(q), m)) == pt_smul(ev(p), bip340_challenge(pt_x(r), pt_x(p), m))
{
    let bytes = tr_sig_bytes(Signature::<TR> { R: r, z: z });
    let zs = crate::secp256k1_tr::Secp256K1ScalarField::spec_ser(z);
    ax_x_len(r); ax_x_len(p);
    crate::secp256k1_tr::Secp256K1ScalarField::ax_ser_len(z);
    crate::secp256k1_tr::Secp256K1ScalarField::ax_ser_deser(z);
    assert(bytes.subrange(0, 32) =~= pt_x(r));
    assert(bytes.subrange(32, 64) =~= zs);
    lemma_ev(p); lemma_ev(r);
    let e = bip340_challenge(pt_x(r), pt_x(q), m); let e2 = bip340_challenge(pt_x(r), pt_x(p), m);
    let aa = pt_smul(ev(q), e); let bb = pt_smul(ev(p), e2);
    let rr = pt_add(g_mul(z), pt_neg(bb));
    // rr == ev(r) + (aa - bb)
    GG::<TR>::ax_eadd_assoc(ev(r), aa, pt_neg(bb));
    if aa == bb {
        lemma_cancel2(ev(r), aa);
        assert(is_lift_x(pt_x(p), ev(p)));
        assert(bip340_verify_with(ev(p), pt_x(p), m, pt_x(r), z));
    }
    if bip340_verify(pt_x(p), m, bytes) {
        let pp = choose|pp: ProjectivePoint| is_lift_x(pt_x(p), pp) && bip340_verify_with(pp, pt_x(p), m, bytes.subrange(0, 32),
            crate::secp256k1_tr::Secp256K1ScalarField::spec_deser(bytes.subrange(32, 64))->Some_0);
        ax_x_parity_determine(pp, ev(p));
        ax_x_parity_determine(rr, ev(r));
        // ev(r) + (aa - bb) == ev(r) + 0  ==>  aa - bb == 0  ==>  aa == bb
        GG::<TR>::ax_eadd_id(ev(r));
        lemma_eadd_cancel::<TR>(ev(r), pt_add(aa, pt_neg(bb)), pt_id());
        lemma_esub_zero::<TR>(aa, bb);
    }
}

// ---- composition: dealer / DKG packages + BIP-341 tweak (with or without a script-tree root) + sign_with_tweak + aggregate_with_tweak ----
// the signers hold the UNTWEAKED key packages `kps` (consistent with the untweaked public package pk) and ran sign_with_tweak(.., root)
pub open spec fn tr_signers_honest_tweaked(sp: SigningPackage<TR>, pk: PublicKeyPackage<TR>, root: Option<Seq<u8>>, shares: Map<Identifier<TR>, crate::round2::SignatureShare<TR>>,
        kps: Map<Identifier<TR>, KeyPackage<TR>>, sns: Map<Identifier<TR>, crate::round1::SigningNonces<TR>>) -> bool {
    forall|id: Identifier<TR>| #[trigger] sp.signing_commitments@.contains_key(id) ==> {
        &&& kps[id].identifier == id && kps[id].verifying_key == pk.verifying_key && kps[id].min_signers <= sp.signing_commitments@.dom().len()
        &&& sns[id].commitments == sp.signing_commitments@[id]
        &&& sns[id].commitments.hiding.0.0 == g_mul(sns[id].hiding.0.0) && sns[id].commitments.binding.0.0 == g_mul(sns[id].binding.0.0)
        &&& spec_sign_w::<TR>(sp, sns[id], tr_kp_tweak(kps[id], root)) == Ok::<crate::round2::SignatureShare<TR>, Error<TR>>(shares[id])     // = sign_with_tweak (its contract)
    }
}
// C18, the whole chain: the aggregate of aggregate_with_tweak verifies under the BIP-341 OUTPUT KEY computed from the internal key P and the root
//@serves C18
pub proof fn thm_tr_tweaked_aggregate_bip340(res: Result<Signature<TR>, Error<TR>>, sp: SigningPackage<TR>, shares: BTreeMap<Identifier<TR>, crate::round2::SignatureShare<TR>>,
        pk: PublicKeyPackage<TR>, root: Option<Seq<u8>>, pkt: PublicKeyPackage<TR>, kps: Map<Identifier<TR>, KeyPackage<TR>>, sns: Map<Identifier<TR>, crate::round1::SigningNonces<TR>>,
        a: Seq<Scalar>, detect: bool, first: bool)
    requires
        tr_pkp_tweak_is(pk, root, pkt),                                       // pkt = pk.tweak(root)
        agg_result_is_w::<TR>(res, sp, shares, pkt, detect, first),           // what aggregate_with_tweak guarantees (its contract, t = pkt)
        tr_pkp_realisable(pkt),
        agg_pre_guard_err::<TR>(sp, shares@, pkt, detect) is None,
        taproot_output_key(vk_pt(pk.verifying_key), root) != pt_id(), !items_have_identity::<TR>(sp_items::<TR>(sp)),
        tr_R(sp, taproot_output_key(vk_pt(pk.verifying_key), root)) != pt_id(),
        tr_signers_honest_tweaked(sp, pk, root, shares@, kps, sns),
        // the UNTWEAKED key shares lie on a polynomial with constant term the internal secret (dealer: C06, key generation: C07)
        on_poly::<TR>(sp.signing_commitments@.dom(), kp_secrets(sp.signing_commitments@.dom(), kps), a), vk_pt(pk.verifying_key) == g_mul(a[0]),
    ensures
        res is Ok, tr_sig_bytes(res->Ok_0).len() == 64,
        bip340_verify(pt_x(taproot_output_key(vk_pt(pk.verifying_key), root)), sp.message@, tr_sig_bytes(res->Ok_0)),
{
    let p = vk_pt(pk.verifying_key); let t = bip341_tweak(pt_x(p), root); let q = taproot_output_key(p, root);
    let dom = sp.signing_commitments@.dom();
    let kpts = Map::new(dom, |id: Identifier<TR>| tr_kp_tweak(kps[id], root));
    let sk = kp_secrets(dom, kps);
    thm_tr_tweak_keeps_sharing(dom, p, sk, a, root);
    let at = tweaked_coeffs(p, a, t);
    assert(kp_secrets(dom, kpts) =~= Map::new(dom, |id: Identifier<TR>| sc_add(even_sc(p, sk[id]), t))) by {
        assert forall|id: Identifier<TR>| dom.contains(id) implies #[trigger] kp_secrets(dom, kpts)[id] == sc_add(even_sc(p, sk[id]), t) by {
            assert(sp.signing_commitments@.contains_key(id));
            assert(kps[id].verifying_key == pk.verifying_key);
        }
    }
    assert(pkt.verifying_key == mk_vk(q));
    assert(tr_signers_honest(sp, pkt, shares@, kpts, sns)) by {
        assert forall|id: Identifier<TR>| #[trigger] sp.signing_commitments@.contains_key(id) implies
            kpts[id].identifier == id && kpts[id].verifying_key == pkt.verifying_key && kpts[id].min_signers <= sp.signing_commitments@.dom().len()
            && sns[id].commitments == sp.signing_commitments@[id]
            && sns[id].commitments.hiding.0.0 == g_mul(sns[id].hiding.0.0) && sns[id].commitments.binding.0.0 == g_mul(sns[id].binding.0.0)
            && spec_sign_w::<TR>(sp, sns[id], kpts[id]) == Ok::<crate::round2::SignatureShare<TR>, Error<TR>>(shares@[id]) by {
            assert(dom.contains(id));
            assert(kps[id].verifying_key == pk.verifying_key);
        }
    }
    thm_tr_aggregate_bip340(res, sp, shares, pkt, kpts, sns, at, detect, first);
}

// the premise of the world-generic aggregate contract holds for the Taproot suite whenever the even-Y package exists
pub proof fn lemma_tr_keeps_ids(sp: SigningPackage<TR>, sh: BTreeMap<Identifier<TR>, crate::round2::SignatureShare<TR>>, pk: PublicKeyPackage<TR>)
    requires tr_pkp_realisable(pk)
    ensures pre_aggregate_keeps_ids_at::<TR>(sp, sh, pk), commitment_hooks_unused::<TR>()
{
    lemma_taproot_world();
    assert(tr_pkp_even_is(pk, tr_pkp_even(pk)));
}

} // verus!
}
