// lemmas/vprops_dkg2.rs -- the COMPOSITION theorem of honest distributed key generation (C07, the DKG half of C01) and the strong
// form of the internal-consistency statement of C09, over the contracts' spec functions (lemmas/vspec.rs "dkg").
// The linearity machinery (evaluate_vss over column sums, sums of polynomials) is the one of lemmas/vprops_refresh.rs.
pub mod vprops_dkg2 {
#[allow(unused_imports)] use vstd::prelude::*;
#[allow(unused_imports)] use crate::traits::*;
#[allow(unused_imports)] use crate::vspec::*;
#[allow(unused_imports)] use crate::vspec_refresh::*;
#[allow(unused_imports)] use crate::vfield::*;
#[allow(unused_imports)] use crate::keys::*;
#[allow(unused_imports)] use crate::serialization::*;
#[allow(unused_imports)] use crate::vprops_keys::*;
#[allow(unused_imports)] use crate::vprops_dkg::*;
#[allow(unused_imports)] use crate::vprops_refresh::*;
#[allow(unused_imports)] use crate::*;
verus! {

pub type R1Pkg<C> = crate::keys::dkg::round1::Package<C>;
pub type R2Pkg<C> = crate::keys::dkg::round2::Package<C>;
pub type R1Sec<C> = crate::keys::dkg::round1::SecretPackage<C>;
pub type R2Sec<C> = crate::keys::dkg::round2::SecretPackage<C>;
pub type R1Map<C> = Map<Identifier<C>, crate::keys::dkg::round1::Package<C>>;
pub type R2Map<C> = Map<Identifier<C>, crate::keys::dkg::round2::Package<C>>;
// l -> coefficient sequence of participant l's secret polynomial (constant term first)
pub type Polys<C> = spec_fn(Identifier<C>) -> Seq<Scalar<C>>;
pub type Part3Result<C> = Result<(KeyPackage<C>, PublicKeyPackage<C>), Error<C>>;

// ===================================================================================================
// the honest run, algebraic view

// ids = the participants (|ids| = n = max_signers), f(l) = participant l's polynomial with t = min_signers coefficients
pub open spec fn dkg_setup<C: Ciphersuite>(ids: Set<Identifier<C>>, f: Polys<C>, t: u16, n: u16) -> bool {
    ids.finite() && ids.len() == n && t >= 1
    && forall|l: Identifier<C>| ids.contains(l) ==> (#[trigger] f(l)).len() == t
}

// the round-one commitment map of the run:  l -> G * f(l)
pub open spec fn dkg_commitments<C: Ciphersuite>(ids: Set<Identifier<C>>, f: Polys<C>) -> Map<Identifier<C>, Seq<CoefficientCommitment<C>>>
{ Map::new(ids, |l: Identifier<C>| spec_commitment::<C>(f(l))) }

// the SUM polynomial F = sum_l f(l): coefficient-wise sum over the participants in ascending identifier order (t coefficients)
pub open spec fn dkg_sum_poly<C: Ciphersuite>(ids: Set<Identifier<C>>, f: Polys<C>, t: u16) -> Seq<Scalar<C>>
{ psum::<C>(sorted_seq(ids), f, t as nat) }

// l -> constant term of f(l)
pub open spec fn const_term<C: Ciphersuite>(f: Polys<C>) -> spec_fn(Identifier<C>) -> Scalar<C>
{ |l: Identifier<C>| f(l)[0] }

// what participant i passes to part3 in the honest run: its own round-2 secret package as part2 returns it on its part1 state (spec_part2_ok:
// identifier, own commitment G*f(i), thresholds, own share f(i)(i)), the round-one packages of ALL others (commitment G*f(l)) and the
// round-two shares f(l)(i) that all others addressed to it
pub open spec fn honest_part3_inputs<C: Ciphersuite>(ids: Set<Identifier<C>>, f: Polys<C>, t: u16, n: u16, i: Identifier<C>,
        s2: R2Sec<C>, r1: R1Map<C>, r2: R2Map<C>) -> bool {
    ids.contains(i)
    && s2.identifier == i && s2.commitment.0@ == spec_commitment::<C>(f(i)) && s2.min_signers == t && s2.max_signers == n
    && s2.secret_share.0 == poly::<AL<C>>(f(i), i.0.0)
    && r1.dom() == ids.remove(i) && r2.dom() == ids.remove(i)
    && (forall|l: Identifier<C>| #[trigger] r1.contains_key(l) ==> r1[l].commitment.0@ == spec_commitment::<C>(f(l)))
    && (forall|l: Identifier<C>| #[trigger] r2.contains_key(l) ==> r2[l].signing_share.0.0 == poly::<AL<C>>(f(l), i.0.0))
}

// ===================================================================================================
// algebra: sums of polynomials without any premise on the constant terms (lemma_psum of vprops_refresh.rs is the zero-constant case)

// (sum_l rs(l))(x) == sum_l rs(l)(x), and the sum has `len` coefficients
//@serves C07 C01
pub proof fn lemma_psum_general<C: Ciphersuite>(parts: Seq<Identifier<C>>, rs: Polys<C>, len: nat, x: Scalar<C>)
    requires forall|k: int| 0 <= k < parts.len() ==> rs(#[trigger] parts[k]).len() == len
    ensures psum::<C>(parts, rs, len).len() == len,
        poly::<AL<C>>(psum::<C>(parts, rs, len), x) == id_sum::<C>(parts, refresh_term::<C>(rs, x))
    decreases parts.len()
{
    if parts.len() == 0 {
        lemma_poly_zero::<C>(len, x);
    } else {
        let p1 = parts.drop_last();
        assert forall|k: int| 0 <= k < p1.len() implies rs(#[trigger] p1[k]).len() == len by { assert(p1[k] == parts[k]); }
        lemma_psum_general::<C>(p1, rs, len, x);
        assert(parts.last() == parts[parts.len() - 1]);
        lemma_poly_add::<C>(psum::<C>(p1, rs, len), rs(parts.last()), x);
    }
}

// the constant term of the sum is the sum of the constant terms
//@serves C07 C01
pub proof fn lemma_psum_const<C: Ciphersuite>(parts: Seq<Identifier<C>>, rs: Polys<C>, len: nat)
    requires len >= 1, forall|k: int| 0 <= k < parts.len() ==> rs(#[trigger] parts[k]).len() == len
    ensures psum::<C>(parts, rs, len)[0] == id_sum::<C>(parts, const_term::<C>(rs))
{
    lemma_psum_general::<C>(parts, rs, len, s0::<C>());
    lemma_poly_at_zero::<C>(psum::<C>(parts, rs, len));
    assert forall|k: int| 0 <= k < parts.len() implies refresh_term::<C>(rs, s0::<C>())(#[trigger] parts[k]) == const_term::<C>(rs)(parts[k]) by {
        lemma_poly_at_zero::<C>(rs(parts[k]));
    }
    lemma_id_sum_ext::<C>(parts, refresh_term::<C>(rs, s0::<C>()), const_term::<C>(rs));
}

// column c of the honest commitments, summed over the first `upto` participants, is G * (coefficient c of the sum of their polynomials)
//@serves C07 C01
pub proof fn lemma_col_sum_honest<C: Ciphersuite>(cs: Seq<Seq<CoefficientCommitment<C>>>, srt: Seq<Identifier<C>>, f: Polys<C>, len: nat, c: int, upto: int)
    requires 0 <= upto <= srt.len(), cs.len() == srt.len(), 0 <= c < len,
        forall|k: int| 0 <= k < srt.len() ==> f(#[trigger] srt[k]).len() == len && cs[k] == spec_commitment::<C>(f(srt[k]))
    ensures spec_col_sum::<C>(cs, c, upto) == gmul::<C>(psum::<C>(srt.take(upto), f, len)[c])
    decreases upto
{
    if upto == 0 {
        assert(srt.take(0).len() == 0);
        lemma_smul_zero::<C>(eg::<C>());
    } else {
        lemma_col_sum_honest::<C>(cs, srt, f, len, c, upto - 1);
        let p = srt.take(upto); let p1 = srt.take(upto - 1);
        assert(p.drop_last() =~= p1);
        assert(p.last() == srt[upto - 1]);
        assert forall|k: int| 0 <= k < p1.len() implies f(#[trigger] p1[k]).len() == len by { assert(p1[k] == srt[k]); }
        lemma_psum_general::<C>(p1, f, len, s0::<C>());
        let a = psum::<C>(p1, f, len); let b = f(srt[upto - 1]);
        assert(psum::<C>(p, f, len) == padd::<C>(a, b));
        assert(padd::<C>(a, b)[c] == sadd::<C>(a[c], b[c]));
        assert(cs[upto - 1][c].0.0 == gmul::<C>(b[c]));
        GG::<C>::ax_smul_add(eg::<C>(), a[c], b[c]);
    }
}

// the group commitment of the honest run (sum_commitments over the ascending commitment list) is the commitment G*F of the sum polynomial
//@serves C07 C01
pub proof fn lemma_honest_group_commitment<C: Ciphersuite>(ids: Set<Identifier<C>>, f: Polys<C>, t: u16, n: u16)
    requires dkg_setup::<C>(ids, f, t, n), n >= 1
    ensures spec_dkg_group_commitment::<C>(dkg_commitments::<C>(ids, f)) == Ok::<Seq<CoefficientCommitment<C>>, Error<C>>(spec_commitment::<C>(dkg_sum_poly::<C>(ids, f, t))),
        dkg_sum_poly::<C>(ids, f, t).len() == t,
        sorted_seq(ids).len() == n,
{
    let m = dkg_commitments::<C>(ids, f);
    let srt = sorted_seq(ids);
    lemma_sorted_exists::<C>(ids);
    srt.unique_seq_to_set();
    assert(m.dom() =~= ids);
    let cs = spec_dkg_commitment_list::<C>(m);
    let len = t as nat;
    assert forall|k: int| 0 <= k < srt.len() implies f(#[trigger] srt[k]).len() == len && cs[k] == spec_commitment::<C>(f(srt[k])) by {
        assert(srt.contains(srt[k])); assert(ids.contains(srt[k]));
    }
    let bigf = dkg_sum_poly::<C>(ids, f, t);
    lemma_psum_general::<C>(srt, f, len, s0::<C>());
    assert(cs.len() == n);
    assert forall|j: int| 0 <= j < cs.len() implies (#[trigger] cs[j]).len() == len by { assert(cs[j] == spec_commitment::<C>(f(srt[j]))); }
    assert(cs[0].len() == len);
    assert(spec_sum_commitments::<C>(cs) is Ok);
    let v = spec_sum_commitments::<C>(cs)->Ok_0;
    assert(v.len() == len);
    assert(srt.take(srt.len() as int) =~= srt);
    assert forall|c: int| 0 <= c < len implies v[c] == spec_commitment::<C>(bigf)[c] by {
        lemma_col_sum_honest::<C>(cs, srt, f, len, c, srt.len() as int);
    }
    assert(v =~= spec_commitment::<C>(bigf));
}

// ===================================================================================================
// (T-c core) the commitment map part3 builds (own commitment + the round-one packages) is the SAME map l -> G*f(l) at every participant
//@serves C07 C09
pub proof fn lemma_part3_commitments_honest<C: Ciphersuite>(ids: Set<Identifier<C>>, f: Polys<C>, t: u16, n: u16, i: Identifier<C>,
        s2: R2Sec<C>, r1: R1Map<C>, r2: R2Map<C>)
    requires honest_part3_inputs::<C>(ids, f, t, n, i, s2, r1, r2)
    ensures spec_part3_commitments::<C>(s2, r1) == dkg_commitments::<C>(ids, f), spec_part3_commitments::<C>(s2, r1).dom() == ids
{
    let m = spec_part3_commitments::<C>(s2, r1); let d = dkg_commitments::<C>(ids, f);
    assert(ids.remove(i).insert(i) =~= ids);
    assert(m.dom() =~= d.dom());
    assert forall|l: Identifier<C>| m.contains_key(l) implies m[l] == d[l] by { if l != i { assert(r1.contains_key(l)); } }
    assert(m =~= d);
}

// (T-a) in the honest run no guard of part3 fires, every received share passes the VSS check against its sender's commitment, and the
// commitments sum up: the three premises of the `value` clause of the part3 contract hold
//@serves C07 C01
pub proof fn thm_honest_part3_no_error<C: Ciphersuite>(ids: Set<Identifier<C>>, f: Polys<C>, t: u16, n: u16, i: Identifier<C>,
        s2: R2Sec<C>, r1: R1Map<C>, r2: R2Map<C>)
    requires dkg_setup::<C>(ids, f, t, n), honest_part3_inputs::<C>(ids, f, t, n, i, s2, r1, r2)
    ensures spec_part3_guard_err::<C>(s2, r1, r2) is None,
        spec_first_share_err::<C>(sorted_seq(r2.dom()), r1, r2, s2.identifier, 0) is None,
        spec_dkg_group_commitment::<C>(spec_part3_commitments::<C>(s2, r1)) is Ok,
{
    // guards: n - 1 packages in both maps, own identifier in neither, same keys
    assert(r1.dom().len() == n - 1);
    assert(spec_part3_guard_err::<C>(s2, r1, r2) is None);
    // shares
    let keys = sorted_seq(r2.dom());
    lemma_sorted_exists::<C>(r2.dom());
    assert forall|k: int| 0 <= k < keys.len() implies spec_share_err::<C>(i, r2[#[trigger] keys[k]].signing_share.0.0, r1[keys[k]].commitment.0@, keys[k]) is None by {
        let l = keys[k];
        assert(keys.contains(l)); assert(keys.to_set().contains(l));
        assert(r2.contains_key(l) && r1.contains_key(l) && ids.contains(l));
        thm_share_accepted_iff::<C>(i, poly::<AL<C>>(f(l), i.0.0), f(l), l);
    }
    lemma_first_share_err_none::<C>(keys, r1, r2, i, keys.len() as int);
    // commitments
    lemma_part3_commitments_honest::<C>(ids, f, t, n, i, s2, r1, r2);
    lemma_honest_group_commitment::<C>(ids, f, t, n);
}

// the signing share part3 computes (received shares in ascending sender order, then the own share) is F(i) = sum_l f(l)(i)
//@serves C07 C01
pub proof fn lemma_honest_signing_share<C: Ciphersuite>(ids: Set<Identifier<C>>, f: Polys<C>, t: u16, n: u16, i: Identifier<C>,
        s2: R2Sec<C>, r1: R1Map<C>, r2: R2Map<C>)
    requires dkg_setup::<C>(ids, f, t, n), honest_part3_inputs::<C>(ids, f, t, n, i, s2, r1, r2)
    ensures sadd::<C>(spec_r2_sum::<C>(sorted_seq(r2.dom()), r2, sorted_seq(r2.dom()).len() as int), s2.secret_share.0)
            == poly::<AL<C>>(dkg_sum_poly::<C>(ids, f, t), i.0.0),
        poly::<AL<C>>(dkg_sum_poly::<C>(ids, f, t), i.0.0) == id_sum::<C>(sorted_seq(ids), refresh_term::<C>(f, i.0.0)),
{
    let x = i.0.0;
    let g = refresh_term::<C>(f, x);
    // reuse the refresh lemma with an "old share" of zero
    let zero_kp = KeyPackage::<C> { header: default_header::<C>(), identifier: i, signing_share: SigningShare(SerializableScalar(s0::<C>())),
        verifying_share: VerifyingShare(SerializableElement(e0::<C>())), verifying_key: VerifyingKey::<C> { element: SerializableElement(e0::<C>()) }, min_signers: t };
    lemma_refresh_new_share_as_id_sum::<C>(s2, r2, zero_kp, g);
    let p = sorted_seq(r2.dom()).push(i);
    let sum = sadd::<C>(spec_r2_sum::<C>(sorted_seq(r2.dom()), r2, sorted_seq(r2.dom()).len() as int), s2.secret_share.0);
    FF::<C>::ax_add_zero(sum); FF::<C>::ax_add_zero(id_sum::<C>(p, g));
    assert(sum == id_sum::<C>(p, g));
    // reorder: senders ++ [own]  ->  ascending over all participants
    let srt = sorted_seq(ids);
    lemma_sorted_exists::<C>(ids);
    assert(ids.remove(i).insert(i) =~= ids);
    lemma_id_sum_perm::<C>(p, srt, g);
    assert forall|k: int| 0 <= k < srt.len() implies f(#[trigger] srt[k]).len() == t as nat by { assert(srt.contains(srt[k])); assert(ids.contains(srt[k])); }
    lemma_psum_general::<C>(srt, f, t as nat, x);
}

// the public key package derived from the group commitment G*F: entry j is G*F(j), the group key is G*F(0), threshold t
//@serves C07 C01
pub proof fn lemma_honest_public_package<C: Ciphersuite>(pk: PublicKeyPackage<C>, ids: Set<Identifier<C>>, bigf: Seq<Scalar<C>>)
    requires bigf.len() >= 1, spec_is_pk_from_commitment::<C>(pk, ids, spec_commitment::<C>(bigf))
    ensures pk.verifying_key.element.0 == gmul::<C>(bigf[0]), pk.min_signers == Some(bigf.len() as u16), pk.verifying_shares@.dom() == ids,
        forall|j: Identifier<C>| ids.contains(j) ==> (#[trigger] pk.verifying_shares@[j]).0.0 == gmul::<C>(poly::<AL<C>>(bigf, j.0.0)),
        crate::vprops_sign::honest_keys::<C>(bigf, pk.verifying_key.element.0, pk.verifying_shares@, ids),
{
    assert(spec_commitment::<C>(bigf).len() == bigf.len());
    assert(spec_commitment::<C>(bigf)[0].0.0 == gmul::<C>(bigf[0]));
    assert forall|j: Identifier<C>| ids.contains(j) implies (#[trigger] pk.verifying_shares@[j]).0.0 == gmul::<C>(poly::<AL<C>>(bigf, j.0.0)) by {
        lemma_vss_complete::<C>(bigf, j.0.0, s1::<C>());
        lemma_one_mul::<AL<C>>(poly::<AL<C>>(bigf, j.0.0));
    }
    assert forall|id: Identifier<C>| #[trigger] ids.contains(id) implies pk.verifying_shares@.contains_key(id)
        && pk.verifying_shares@[id].0.0 == gmul::<C>(poly::<AL<C>>(bigf, id.0.0)) by { assert(pk.verifying_shares@.dom().contains(id)); }
}

// the conclusion of the composition theorem for participant i holding (kp, pk), with F = sum_l f(l) the sum polynomial
pub open spec fn honest_dkg_output<C: Ciphersuite>(ids: Set<Identifier<C>>, f: Polys<C>, t: u16, n: u16, i: Identifier<C>, kp: KeyPackage<C>, pk: PublicKeyPackage<C>) -> bool {
        let bigf = dkg_sum_poly::<C>(ids, f, t);
        let srt = sorted_seq(ids);
        &&& bigf.len() == t && srt.len() == n && srt.no_duplicates() && srt.to_set() == ids
        &&& kp.identifier == i && kp.min_signers == t && pk.min_signers == Some(t) && kp.header == default_header::<C>() && pk.header == default_header::<C>()
        &&& kp.signing_share.0.0 == poly::<AL<C>>(bigf, i.0.0)
        &&& kp.signing_share.0.0 == id_sum::<C>(srt, refresh_term::<C>(f, i.0.0))
        &&& kp.verifying_share.0.0 == gmul::<C>(kp.signing_share.0.0)
        &&& kp.verifying_share == pk.verifying_shares@[i]
        &&& kp.verifying_key == pk.verifying_key
        &&& pk.verifying_key.element.0 == gmul::<C>(bigf[0])
        &&& bigf[0] == id_sum::<C>(srt, const_term::<C>(f))
        &&& pk.verifying_key.element.0 == spec_col_sum::<C>(spec_dkg_commitment_list::<C>(dkg_commitments::<C>(ids, f)), 0, n as int)
        &&& pk.verifying_shares@.dom() == ids
        &&& forall|j: Identifier<C>| ids.contains(j) ==> (#[trigger] pk.verifying_shares@[j]).0.0 == gmul::<C>(poly::<AL<C>>(bigf, j.0.0))
        &&& crate::vprops_sign::honest_keys::<C>(bigf, pk.verifying_key.element.0, pk.verifying_shares@, ids)
}

// (T-b, T-d) THE COMPOSITION THEOREM, one participant: whatever key package / public key package part3 hands to the post_dkg hook in the honest
// run (spec_part3_pre: the `value` clause of the part3 contract) satisfies, with F = sum_l f(l) the sum polynomial:
//   signing share = F(i) = sum_l f(l)(i);  verifying share = G*F(i) = the participant's entry in the public key package;
//   entry j of the public key package = G*F(j) for EVERY participant j;  group key (both packages) = G*F(0) = sum of the constant-term commitments;
//   threshold t in both packages;  the key material is `honest_keys` on F (the premise of the signing theorems of C01/C04)
//@serves C07 C01 C09
pub proof fn thm_honest_dkg_output<C: Ciphersuite>(ids: Set<Identifier<C>>, f: Polys<C>, t: u16, n: u16, i: Identifier<C>,
        s2: R2Sec<C>, r1: R1Map<C>, r2: R2Map<C>, kp: KeyPackage<C>, pk: PublicKeyPackage<C>)
    requires dkg_setup::<C>(ids, f, t, n), honest_part3_inputs::<C>(ids, f, t, n, i, s2, r1, r2), spec_part3_pre::<C>(kp, pk, s2, r1, r2)
    ensures honest_dkg_output::<C>(ids, f, t, n, i, kp, pk)
{
    let bigf = dkg_sum_poly::<C>(ids, f, t);
    let srt = sorted_seq(ids);
    lemma_sorted_exists::<C>(ids);
    lemma_part3_commitments_honest::<C>(ids, f, t, n, i, s2, r1, r2);
    lemma_honest_group_commitment::<C>(ids, f, t, n);
    lemma_honest_signing_share::<C>(ids, f, t, n, i, s2, r1, r2);
    lemma_honest_public_package::<C>(pk, ids, bigf);
    assert forall|k: int| 0 <= k < srt.len() implies f(#[trigger] srt[k]).len() == t as nat by { assert(srt.contains(srt[k])); assert(ids.contains(srt[k])); }
    lemma_psum_const::<C>(srt, f, t as nat);
    // the group key as the column-0 sum of the commitment list
    let cs = spec_dkg_commitment_list::<C>(dkg_commitments::<C>(ids, f));
    assert(spec_sum_commitments::<C>(cs) is Ok);
    assert((spec_sum_commitments::<C>(cs)->Ok_0)[0].0.0 == spec_col_sum::<C>(cs, 0, cs.len() as int));
    assert(cs.len() == n);
}

// (T-c) the public key package does not depend on the participant: any two participants of the honest run hold the same one
//@serves C07 C09
pub proof fn thm_honest_dkg_same_public_package<C: Ciphersuite>(ids: Set<Identifier<C>>, f: Polys<C>, t: u16, n: u16,
        i1: Identifier<C>, s2a: R2Sec<C>, r1a: R1Map<C>, r2a: R2Map<C>, kp1: KeyPackage<C>, pk1: PublicKeyPackage<C>,
        i2: Identifier<C>, s2b: R2Sec<C>, r1b: R1Map<C>, r2b: R2Map<C>, kp2: KeyPackage<C>, pk2: PublicKeyPackage<C>)
    requires honest_part3_inputs::<C>(ids, f, t, n, i1, s2a, r1a, r2a), honest_part3_inputs::<C>(ids, f, t, n, i2, s2b, r1b, r2b),
        spec_part3_pre::<C>(kp1, pk1, s2a, r1a, r2a), spec_part3_pre::<C>(kp2, pk2, s2b, r1b, r2b)
    ensures pk1.verifying_shares@ =~= pk2.verifying_shares@, pk1.verifying_key == pk2.verifying_key, pk1.min_signers == pk2.min_signers, pk1.header == pk2.header,
        kp1.verifying_key == kp2.verifying_key, kp1.min_signers == kp2.min_signers
{
    lemma_part3_commitments_honest::<C>(ids, f, t, n, i1, s2a, r1a, r2a);
    lemma_part3_commitments_honest::<C>(ids, f, t, n, i2, s2b, r1b, r2b);
    let gc = spec_dkg_group_commitment::<C>(dkg_commitments::<C>(ids, f))->Ok_0;
    thm_same_commitments_same_public_package::<C>(pk1, pk2, ids, gc);
}

// (T-e) default world: in the honest run part3 RETURNS Ok((kp, pk)) with the packages of the composition theorem.  The second premise is the
// `value` clause of the part3 contract (contracts/dkg.vc), the third the default world (post_dkg is the identity; the Taproot suite: C18)
//@serves C07 C01
pub proof fn thm_honest_dkg_part3_returns<C: Ciphersuite>(res: Part3Result<C>, ids: Set<Identifier<C>>, f: Polys<C>, t: u16, n: u16, i: Identifier<C>,
        s2: R2Sec<C>, r1: R1Map<C>, r2: R2Map<C>)
    requires dkg_setup::<C>(ids, f, t, n), honest_part3_inputs::<C>(ids, f, t, n, i, s2, r1, r2),
        spec_part3_guard_err::<C>(s2, r1, r2) is None
            && spec_first_share_err::<C>(sorted_seq(r2.dom()), r1, r2, s2.identifier, 0) is None
            && spec_dkg_group_commitment::<C>(spec_part3_commitments::<C>(s2, r1)) is Ok
            ==> exists|kp0: KeyPackage<C>, pk0: PublicKeyPackage<C>| #[trigger] spec_part3_pre::<C>(kp0, pk0, s2, r1, r2) && res == C::spec_post_dkg(kp0, pk0),
        default_world::<C>(),
    ensures res is Ok, spec_part3_pre::<C>((res->Ok_0).0, (res->Ok_0).1, s2, r1, r2)
{
    thm_honest_part3_no_error::<C>(ids, f, t, n, i, s2, r1, r2);
    let (kp0, pk0) = choose|kp0: KeyPackage<C>, pk0: PublicKeyPackage<C>| #[trigger] spec_part3_pre::<C>(kp0, pk0, s2, r1, r2) && res == C::spec_post_dkg(kp0, pk0);
    assert(C::spec_post_dkg(kp0, pk0) == Ok::<(KeyPackage<C>, PublicKeyPackage<C>), Error<C>>((kp0, pk0)));
}

// ===================================================================================================
// the honest run, protocol view: composition with the contracts of part1 and part2 (contracts/dkg.vc)

// the polynomial part1 draws from the randomness (stream, pos) for threshold t:  [fresh non-zero key] ++ [t-1 draws]  (spec_part1)
pub open spec fn part1_coeffs<C: Ciphersuite>(stream: spec_fn(nat) -> u8, pos: nat, t: u16) -> Seq<Scalar<C>>
{ seq![spec_rnz_val::<C>(stream, pos)] + spec_draws::<C>(stream, spec_rnz_end::<C>(stream, pos), (t - 1) as nat) }

// what the `value` clause of the part1 contract says about a call that returned Ok((sp, pkg)): the secret package holds the polynomial, both
// packages hold its commitment, and the proof of knowledge in the broadcast package verifies under the caller's identifier
//@serves C07 C01
pub proof fn lemma_part1_ok_facts<C: Ciphersuite>(sp: R1Sec<C>, pkg: R1Pkg<C>, id: Identifier<C>, n: u16, t: u16, stream: spec_fn(nat) -> u8, pos: nat)
    requires t >= 1, spec_part1::<C>(Ok::<(R1Sec<C>, R1Pkg<C>), Error<C>>((sp, pkg)), id, n, t, stream, pos)
    ensures part1_coeffs::<C>(stream, pos, t).len() == t, sp_coeffs::<C>(sp) == part1_coeffs::<C>(stream, pos, t),
        sp.identifier == id, sp.min_signers == t, sp.max_signers == n,
        sp.commitment.0@ == spec_commitment::<C>(sp_coeffs::<C>(sp)), pkg.commitment.0@ == spec_commitment::<C>(sp_coeffs::<C>(sp)),
        spec_pok_check::<C>(id, pkg.commitment.0@, pkg.proof_of_knowledge) is Ok,
{
    let p1 = spec_rnz_end::<C>(stream, pos);
    lemma_draws_len::<C>(stream, p1, (t - 1) as nat);
    let a = part1_coeffs::<C>(stream, pos, t);
    let p2 = spec_draws_end::<C>(stream, p1, (t - 1) as nat);
    let k = C::spec_generate_nonce(stream, p2).0;
    assert(spec_compute_pok::<C>(id, a, spec_commitment::<C>(a), k) is Ok);
    assert(sp_coeffs::<C>(sp) =~= a);
    thm_pok_complete::<C>(id, a, k);
}

// the round-one packages participant i receives: everybody else's broadcast package
pub open spec fn r1_view<C: Ciphersuite>(ids: Set<Identifier<C>>, pkg: spec_fn(Identifier<C>) -> R1Pkg<C>, i: Identifier<C>) -> R1Map<C>
{ Map::new(ids.remove(i), |l: Identifier<C>| pkg(l)) }

// the round-two packages participant i receives: from every other participant l the package l's part2 made for i
pub open spec fn r2_view<C: Ciphersuite>(ids: Set<Identifier<C>>, out2: spec_fn(Identifier<C>) -> R2Map<C>, i: Identifier<C>) -> R2Map<C>
{ Map::new(ids.remove(i), |l: Identifier<C>| out2(l)[i]) }

// every participant l of `ids` called part1(l, n, t, rng_l) with randomness (stream(l), pos(l)) and got Ok((sp(l), pkg(l))): `value` clause of part1
pub open spec fn honest_round1<C: Ciphersuite>(ids: Set<Identifier<C>>, n: u16, t: u16, stream: spec_fn(Identifier<C>) -> spec_fn(nat) -> u8, pos: spec_fn(Identifier<C>) -> nat,
        sp: spec_fn(Identifier<C>) -> R1Sec<C>, pkg: spec_fn(Identifier<C>) -> R1Pkg<C>) -> bool {
    ids.finite() && ids.len() == n && t >= 1
    && forall|l: Identifier<C>| #[trigger] ids.contains(l) ==> spec_part1::<C>(Ok::<(R1Sec<C>, R1Pkg<C>), Error<C>>((sp(l), pkg(l))), l, n, t, stream(l), pos(l))
}

// ... and every participant l called part2(sp(l), the broadcast packages of all others) and got Ok((s2(l), out2(l))): `value` clause of part2
pub open spec fn honest_round2<C: Ciphersuite>(ids: Set<Identifier<C>>, sp: spec_fn(Identifier<C>) -> R1Sec<C>, pkg: spec_fn(Identifier<C>) -> R1Pkg<C>,
        s2: spec_fn(Identifier<C>) -> R2Sec<C>, out2: spec_fn(Identifier<C>) -> R2Map<C>) -> bool {
    forall|l: Identifier<C>| #[trigger] ids.contains(l) ==> spec_part2_ok::<C>(s2(l), out2(l), sp(l), r1_view::<C>(ids, pkg, l))
}

// the polynomials of the run
pub open spec fn run_polys<C: Ciphersuite>(sp: spec_fn(Identifier<C>) -> R1Sec<C>) -> Polys<C>
{ |l: Identifier<C>| sp_coeffs::<C>(sp(l)) }

// part2 does not fail in the honest run: n-1 packages, own identifier absent, t commitments each, every proof of knowledge verifies.
// With the `error`/`value` clauses of the part2 contract: part2 returns Ok and spec_part2_ok holds (the premise honest_round2)
//@serves C07 C01
pub proof fn thm_honest_part2_no_error<C: Ciphersuite>(ids: Set<Identifier<C>>, n: u16, t: u16, stream: spec_fn(Identifier<C>) -> spec_fn(nat) -> u8, pos: spec_fn(Identifier<C>) -> nat,
        sp: spec_fn(Identifier<C>) -> R1Sec<C>, pkg: spec_fn(Identifier<C>) -> R1Pkg<C>, i: Identifier<C>)
    requires honest_round1::<C>(ids, n, t, stream, pos, sp, pkg), ids.contains(i)
    ensures spec_part2_err::<C>(sp(i), r1_view::<C>(ids, pkg, i)) is None
{
    let r1 = r1_view::<C>(ids, pkg, i);
    lemma_part1_ok_facts::<C>(sp(i), pkg(i), i, n, t, stream(i), pos(i));
    assert(r1.dom() =~= ids.remove(i));
    assert(r1.dom().len() == n - 1);
    assert forall|id: Identifier<C>| r1.contains_key(id) implies ((#[trigger] r1[id]).commitment.0@.len() as u16) == t by {
        lemma_part1_ok_facts::<C>(sp(id), pkg(id), id, n, t, stream(id), pos(id));
        assert(spec_commitment::<C>(sp_coeffs::<C>(sp(id))).len() == t as nat);
    }
    let keys = sorted_seq(r1.dom());
    lemma_sorted_exists::<C>(r1.dom());
    assert forall|k: int| 0 <= k < keys.len() implies spec_pok_check::<C>(#[trigger] keys[k], r1[keys[k]].commitment.0@, r1[keys[k]].proof_of_knowledge) is Ok by {
        let l = keys[k];
        assert(keys.contains(l)); assert(keys.to_set().contains(l)); assert(ids.contains(l));
        lemma_part1_ok_facts::<C>(sp(l), pkg(l), l, n, t, stream(l), pos(l));
    }
    lemma_first_pok_err_none::<C>(keys, r1, keys.len() as int);
}

// the part1/part2 contracts put every participant of the honest run into the situation of the composition theorem
//@serves C07 C01
pub proof fn thm_honest_run_part3_inputs<C: Ciphersuite>(ids: Set<Identifier<C>>, n: u16, t: u16, stream: spec_fn(Identifier<C>) -> spec_fn(nat) -> u8, pos: spec_fn(Identifier<C>) -> nat,
        sp: spec_fn(Identifier<C>) -> R1Sec<C>, pkg: spec_fn(Identifier<C>) -> R1Pkg<C>, s2: spec_fn(Identifier<C>) -> R2Sec<C>, out2: spec_fn(Identifier<C>) -> R2Map<C>, i: Identifier<C>)
    requires honest_round1::<C>(ids, n, t, stream, pos, sp, pkg), honest_round2::<C>(ids, sp, pkg, s2, out2), ids.contains(i)
    ensures dkg_setup::<C>(ids, run_polys::<C>(sp), t, n),
        honest_part3_inputs::<C>(ids, run_polys::<C>(sp), t, n, i, s2(i), r1_view::<C>(ids, pkg, i), r2_view::<C>(ids, out2, i))
{
    let f = run_polys::<C>(sp);
    assert forall|l: Identifier<C>| ids.contains(l) implies (#[trigger] f(l)).len() == t by {
        lemma_part1_ok_facts::<C>(sp(l), pkg(l), l, n, t, stream(l), pos(l));
    }
    let r1 = r1_view::<C>(ids, pkg, i); let r2 = r2_view::<C>(ids, out2, i);
    lemma_part1_ok_facts::<C>(sp(i), pkg(i), i, n, t, stream(i), pos(i));
    assert(spec_part2_ok::<C>(s2(i), out2(i), sp(i), r1));
    assert(r1.dom() =~= ids.remove(i)); assert(r2.dom() =~= ids.remove(i));
    assert forall|l: Identifier<C>| #[trigger] r1.contains_key(l) implies r1[l].commitment.0@ == spec_commitment::<C>(f(l)) by {
        lemma_part1_ok_facts::<C>(sp(l), pkg(l), l, n, t, stream(l), pos(l));
    }
    assert forall|l: Identifier<C>| #[trigger] r2.contains_key(l) implies r2[l].signing_share.0.0 == poly::<AL<C>>(f(l), i.0.0) by {
        assert(ids.contains(l) && l != i);
        lemma_part1_ok_facts::<C>(sp(l), pkg(l), l, n, t, stream(l), pos(l));
        // l's part2 saw i's package, so it made the share f(l)(i) for i
        assert(spec_part2_ok::<C>(s2(l), out2(l), sp(l), r1_view::<C>(ids, pkg, l)));
        assert(r1_view::<C>(ids, pkg, l).contains_key(i));
    }
}

// the `value` clause of the part3 contract (contracts/dkg.vc), for the result `res` of one call
pub open spec fn part3_value_clause<C: Ciphersuite>(res: Part3Result<C>, s2: R2Sec<C>, r1: R1Map<C>, r2: R2Map<C>) -> bool {
    spec_part3_guard_err::<C>(s2, r1, r2) is None
        && spec_first_share_err::<C>(sorted_seq(r2.dom()), r1, r2, s2.identifier, 0) is None
        && spec_dkg_group_commitment::<C>(spec_part3_commitments::<C>(s2, r1)) is Ok
    ==> exists|kp0: KeyPackage<C>, pk0: PublicKeyPackage<C>| #[trigger] spec_part3_pre::<C>(kp0, pk0, s2, r1, r2) && res == C::spec_post_dkg(kp0, pk0)
}

// C07, END TO END over the contracts: n participants run part1, exchange the broadcast packages, run part2, deliver every round-two package to
// its addressee and run part3 (res(i) = what part3 returned at i, known only through the `value` clause of its contract).  In the default
// world EVERY participant's part3 returns Ok((kp_i, pk_i)) with the conclusion of the composition theorem (shares on the sum polynomial F of the
// polynomials drawn in part1, kp_i's verifying share = G*F(i) = pk_i's entry for i, group key G*F(0) = sum of constant-term commitments,
// threshold t, honest_keys), and all participants hold the same public key package
//@serves C07 C01 C09
pub proof fn thm_honest_dkg<C: Ciphersuite>(ids: Set<Identifier<C>>, n: u16, t: u16, stream: spec_fn(Identifier<C>) -> spec_fn(nat) -> u8, pos: spec_fn(Identifier<C>) -> nat,
        sp: spec_fn(Identifier<C>) -> R1Sec<C>, pkg: spec_fn(Identifier<C>) -> R1Pkg<C>, s2: spec_fn(Identifier<C>) -> R2Sec<C>, out2: spec_fn(Identifier<C>) -> R2Map<C>,
        res: spec_fn(Identifier<C>) -> Part3Result<C>)
    requires honest_round1::<C>(ids, n, t, stream, pos, sp, pkg), honest_round2::<C>(ids, sp, pkg, s2, out2), default_world::<C>(),
        forall|i: Identifier<C>| #[trigger] ids.contains(i) ==> part3_value_clause::<C>(res(i), s2(i), r1_view::<C>(ids, pkg, i), r2_view::<C>(ids, out2, i)),
    ensures
        forall|i: Identifier<C>| #[trigger] ids.contains(i) ==> res(i) is Ok
            && honest_dkg_output::<C>(ids, run_polys::<C>(sp), t, n, i, (res(i)->Ok_0).0, (res(i)->Ok_0).1),
        forall|i: Identifier<C>, j: Identifier<C>| #![trigger ids.contains(i), ids.contains(j)] ids.contains(i) && ids.contains(j) ==>
            (res(i)->Ok_0).1.verifying_shares@ == (res(j)->Ok_0).1.verifying_shares@ && (res(i)->Ok_0).1.verifying_key == (res(j)->Ok_0).1.verifying_key
            && (res(i)->Ok_0).1.min_signers == (res(j)->Ok_0).1.min_signers && (res(i)->Ok_0).1.header == (res(j)->Ok_0).1.header,
{
    let f = run_polys::<C>(sp);
    assert forall|i: Identifier<C>| #[trigger] ids.contains(i) implies res(i) is Ok
            && spec_part3_pre::<C>((res(i)->Ok_0).0, (res(i)->Ok_0).1, s2(i), r1_view::<C>(ids, pkg, i), r2_view::<C>(ids, out2, i))
            && honest_dkg_output::<C>(ids, f, t, n, i, (res(i)->Ok_0).0, (res(i)->Ok_0).1) by {
        let r1 = r1_view::<C>(ids, pkg, i); let r2 = r2_view::<C>(ids, out2, i);
        thm_honest_run_part3_inputs::<C>(ids, n, t, stream, pos, sp, pkg, s2, out2, i);
        thm_honest_dkg_part3_returns::<C>(res(i), ids, f, t, n, i, s2(i), r1, r2);
        thm_honest_dkg_output::<C>(ids, f, t, n, i, s2(i), r1, r2, (res(i)->Ok_0).0, (res(i)->Ok_0).1);
    }
    assert forall|i: Identifier<C>, j: Identifier<C>| #![trigger ids.contains(i), ids.contains(j)] ids.contains(i) && ids.contains(j) implies
            (res(i)->Ok_0).1.verifying_shares@ == (res(j)->Ok_0).1.verifying_shares@ && (res(i)->Ok_0).1.verifying_key == (res(j)->Ok_0).1.verifying_key
            && (res(i)->Ok_0).1.min_signers == (res(j)->Ok_0).1.min_signers && (res(i)->Ok_0).1.header == (res(j)->Ok_0).1.header by {
        thm_honest_run_part3_inputs::<C>(ids, n, t, stream, pos, sp, pkg, s2, out2, i);
        thm_honest_run_part3_inputs::<C>(ids, n, t, stream, pos, sp, pkg, s2, out2, j);
        thm_honest_dkg_same_public_package::<C>(ids, f, t, n,
            i, s2(i), r1_view::<C>(ids, pkg, i), r2_view::<C>(ids, out2, i), (res(i)->Ok_0).0, (res(i)->Ok_0).1,
            j, s2(j), r1_view::<C>(ids, pkg, j), r2_view::<C>(ids, out2, j), (res(j)->Ok_0).0, (res(j)->Ok_0).1);
    }
}

// ===================================================================================================
// C09 (i), strong form: NO assumption on the peers.  Whatever round-one packages and round-two shares a participant is handed, if part3
// completes (no guard fires, every share passes its check) on commitments of one common length and the participant's own round-2 secret
// package is what part2 made (own share matches own commitment), then its verifying share EQUALS its entry in the public key package.

// a run of accepted shares: every share from `from` on passed the VSS check
//@serves C09 C07
pub proof fn lemma_first_share_err_none_all<C: Ciphersuite>(keys: Seq<Identifier<C>>, r1: R1Map<C>, r2: R2Map<C>, own: Identifier<C>, from: int)
    requires 0 <= from, spec_first_share_err::<C>(keys, r1, r2, own, from) is None
    ensures forall|k: int| from <= k < keys.len() ==> spec_share_err::<C>(own, r2[#[trigger] keys[k]].signing_share.0.0, r1[keys[k]].commitment.0@, keys[k]) is None
    decreases keys.len() - from
{
    if from < keys.len() { lemma_first_share_err_none_all::<C>(keys, r1, r2, own, from + 1); }
}

// the premises: part3 ran to the post_dkg hook on (s2, r1, r2) and produced (kp, pk); the own state is consistent; equal commitment lengths
pub open spec fn part3_completed<C: Ciphersuite>(kp: KeyPackage<C>, pk: PublicKeyPackage<C>, s2: R2Sec<C>, r1: R1Map<C>, r2: R2Map<C>) -> bool {
    r1.dom().finite() && r2.dom().finite()
    && spec_part3_guard_err::<C>(s2, r1, r2) is None
    && spec_first_share_err::<C>(sorted_seq(r2.dom()), r1, r2, s2.identifier, 0) is None
    && spec_part3_pre::<C>(kp, pk, s2, r1, r2)
    // own share matches own commitment (part2 returns f(own id) and the commitment G*f of the part1 state: spec_part2_ok + spec_part1)
    && gmul::<C>(s2.secret_share.0) == spec_vss::<C>(comm_vals::<C>(s2.commitment.0@), s2.identifier.0.0, s1::<C>())
    // all commitments of the run have the length of the own one (part2 enforces min_signers entries on the set IT is given)
    && forall|id: Identifier<C>| r1.contains_key(id) ==> (#[trigger] r1[id]).commitment.0@.len() == s2.commitment.0@.len()
}

// evaluate_vss of the summed commitment at the own identifier is G * (sum of the accepted shares + own share)
//@serves C09 C07
pub proof fn lemma_part3_own_entry<C: Ciphersuite>(kp: KeyPackage<C>, pk: PublicKeyPackage<C>, s2: R2Sec<C>, r1: R1Map<C>, r2: R2Map<C>)
    requires part3_completed::<C>(kp, pk, s2, r1, r2)
    ensures spec_vss::<C>(comm_vals::<C>(spec_dkg_group_commitment::<C>(spec_part3_commitments::<C>(s2, r1))->Ok_0), s2.identifier.0.0, s1::<C>())
            == gmul::<C>(kp.signing_share.0.0)
{
    let own = s2.identifier;
    let m = spec_part3_commitments::<C>(s2, r1);
    lemma_part3_same_keys::<C>(r1, r2);
    let keys = sorted_seq(r2.dom());
    lemma_sorted_exists::<C>(r2.dom());
    assert(m.dom() =~= r1.dom().insert(own));
    lemma_sorted_exists::<C>(m.dom());
    let srt = sorted_seq(m.dom());
    let n = srt.len() as int;
    let cs = spec_dkg_commitment_list::<C>(m);
    let len = s2.commitment.0@.len();
    assert(m.dom().contains(own));
    assert(srt.to_set().contains(own));
    assert(n > 0);
    // every commitment of the run has `len` entries
    assert forall|j: int| 0 <= j < n implies (#[trigger] cs[j]).len() == len by {
        assert(srt.contains(srt[j])); assert(m.dom().contains(srt[j]));
        if srt[j] != own { assert(r1.contains_key(srt[j])); }
    }
    assert(cs[0].len() == len);
    let gc = spec_dkg_group_commitment::<C>(m)->Ok_0;
    assert(comm_vals::<C>(gc) =~= colsums::<C>(cs, len, n));
    // every commitment verifies the scalar its owner contributed at `own`
    let g = |id: Identifier<C>| if id == own { s2.secret_share.0 } else { r2[id].signing_share.0.0 };
    lemma_first_share_err_none_all::<C>(keys, r1, r2, own, 0);
    assert forall|j: int| 0 <= j < n implies gmul::<C>(g(#[trigger] srt[j])) == spec_vss::<C>(comm_vals::<C>(cs[j]), own.0.0, s1::<C>()) by {
        assert(srt.contains(srt[j])); assert(m.dom().contains(srt[j]));
        if srt[j] != own {
            assert(r2.dom().contains(srt[j])); assert(keys.to_set().contains(srt[j]));
            let w = choose|w: int| 0 <= w < keys.len() && keys[w] == srt[j];
            assert(spec_share_err::<C>(own, r2[keys[w]].signing_share.0.0, r1[keys[w]].commitment.0@, keys[w]) is None);
        }
    }
    lemma_vss_colsums::<C>(cs, len, own.0.0, s1::<C>(), n);
    lemma_vss_sum_shares::<C>(cs, srt, g, own.0.0, n);
    assert(srt.take(n) =~= srt);
    // the order part3 adds in: (accepted shares, ascending senders) + own share  ==  sum over senders ++ [own]  ==  sum in ascending order over all
    let zero_kp = KeyPackage::<C> { header: default_header::<C>(), identifier: own, signing_share: SigningShare(SerializableScalar(s0::<C>())),
        verifying_share: VerifyingShare(SerializableElement(e0::<C>())), verifying_key: VerifyingKey::<C> { element: SerializableElement(e0::<C>()) }, min_signers: s2.min_signers };
    lemma_refresh_new_share_as_id_sum::<C>(s2, r2, zero_kp, g);
    let p = keys.push(own);
    let sum = sadd::<C>(spec_r2_sum::<C>(keys, r2, keys.len() as int), s2.secret_share.0);
    FF::<C>::ax_add_zero(sum); FF::<C>::ax_add_zero(id_sum::<C>(p, g));
    lemma_id_sum_perm::<C>(srt, p, g);
    assert(kp.signing_share.0.0 == sum);
}

// C09 (i): entry of the public key package == verifying share of the key package, for EVERY completed part3 on equal-length commitments,
// honest peers or not (the clause thm_part3_internal_consistency could not state)
//@serves C09 C07
pub proof fn thm_part3_entry_matches<C: Ciphersuite>(kp: KeyPackage<C>, pk: PublicKeyPackage<C>, s2: R2Sec<C>, r1: R1Map<C>, r2: R2Map<C>)
    requires part3_completed::<C>(kp, pk, s2, r1, r2)
    ensures pk.verifying_shares@.contains_key(s2.identifier), pk.verifying_shares@[s2.identifier] == kp.verifying_share,
        kp.verifying_share.0.0 == gmul::<C>(kp.signing_share.0.0), kp.verifying_key == pk.verifying_key, kp.identifier == s2.identifier
{
    lemma_part3_own_entry::<C>(kp, pk, s2, r1, r2);
    assert(spec_part3_commitments::<C>(s2, r1).dom().contains(s2.identifier));
}

// the own-state premise of part3_completed is what the part1 and part2 contracts give: a round-2 secret package made by part2 from a part1 state
//@serves C09 C07
pub proof fn lemma_own_state_consistent<C: Ciphersuite>(sp: R1Sec<C>, pkg: R1Pkg<C>, id: Identifier<C>, n: u16, t: u16, stream: spec_fn(nat) -> u8, pos: nat,
        s2: R2Sec<C>, out2: R2Map<C>, r1: R1Map<C>)
    requires t >= 1, spec_part1::<C>(Ok::<(R1Sec<C>, R1Pkg<C>), Error<C>>((sp, pkg)), id, n, t, stream, pos), spec_part2_ok::<C>(s2, out2, sp, r1)
    ensures gmul::<C>(s2.secret_share.0) == spec_vss::<C>(comm_vals::<C>(s2.commitment.0@), s2.identifier.0.0, s1::<C>()),
        s2.commitment.0@.len() == t, s2.identifier == id, s2.min_signers == t
{
    lemma_part1_ok_facts::<C>(sp, pkg, id, n, t, stream, pos);
    let a = sp_coeffs::<C>(sp);
    lemma_vss_complete::<C>(a, id.0.0, s1::<C>());
    lemma_one_mul::<AL<C>>(poly::<AL<C>>(a, id.0.0));
    assert(spec_commitment::<C>(a).len() == a.len());
}

// C09 ("... and can sign together"): if the summed commitment of a completed part3 is the commitment G*a of a coefficient sequence a (every
// group element is a multiple of G in a prime-order group -- that existence is NOT axiomatised, hence the premise), then the participant's
// signing share is a(own id), whoever the peers were, and the public key package is `honest_keys` on a.  All participants that complete on ONE
// commitment map therefore hold shares of ONE polynomial and the same public key package (thm_same_commitments_same_public_package): the
// premises of the signing theorems (C01: thm_honest_aggregate_succeeds) and of thm_reconstruct
//@serves C09 C07 C01
pub proof fn thm_part3_completed_share_on_committed_polynomial<C: Ciphersuite>(kp: KeyPackage<C>, pk: PublicKeyPackage<C>, s2: R2Sec<C>, r1: R1Map<C>, r2: R2Map<C>, a: Seq<Scalar<C>>)
    requires part3_completed::<C>(kp, pk, s2, r1, r2), a.len() >= 1,
        spec_dkg_group_commitment::<C>(spec_part3_commitments::<C>(s2, r1))->Ok_0 == spec_commitment::<C>(a)
    ensures kp.signing_share.0.0 == poly::<AL<C>>(a, s2.identifier.0.0),
        crate::vprops_sign::honest_keys::<C>(a, pk.verifying_key.element.0, pk.verifying_shares@, r1.dom().insert(s2.identifier)),
        pk.min_signers == Some(a.len() as u16),
{
    let own = s2.identifier;
    lemma_part3_own_entry::<C>(kp, pk, s2, r1, r2);
    lemma_vss_complete::<C>(a, own.0.0, s1::<C>());
    lemma_one_mul::<AL<C>>(poly::<AL<C>>(a, own.0.0));
    lemma_gen_inj::<C>(kp.signing_share.0.0, poly::<AL<C>>(a, own.0.0));
    assert(spec_part3_commitments::<C>(s2, r1).dom() =~= r1.dom().insert(own));
    lemma_honest_public_package::<C>(pk, r1.dom().insert(own), a);
}

// ===================================================================================================
// "any t of them can then sign / reconstruct": the bridges from the DKG output to C03 (thm_reconstruct) and C01 (thm_honest_aggregate_succeeds)

// any >= t key packages of the honest run with distinct identifiers interpolate to F(0) = the sum of the participants' secrets, whose public
// image G*F(0) is the group key of the composition theorem
//@serves C07 C01
pub proof fn thm_honest_dkg_reconstruct<C: Ciphersuite>(ids: Set<Identifier<C>>, f: Polys<C>, t: u16, n: u16, kps: Seq<KeyPackage<C>>)
    requires dkg_setup::<C>(ids, f, t, n), kp_ids::<C>(kps).no_duplicates(), t <= kps.len(),
        // what honest_dkg_output says about each package
        forall|k: int| 0 <= k < kps.len() ==> (#[trigger] kps[k]).signing_share.0.0 == poly::<AL<C>>(dkg_sum_poly::<C>(ids, f, t), kps[k].identifier.0.0),
    ensures spec_interpolate0::<C>(kps, sorted_seq(kp_ids::<C>(kps).to_set()), kps.len() as nat) == dkg_sum_poly::<C>(ids, f, t)[0],
        dkg_sum_poly::<C>(ids, f, t)[0] == id_sum::<C>(sorted_seq(ids), const_term::<C>(f)),
{
    let srt = sorted_seq(ids);
    lemma_sorted_exists::<C>(ids);
    assert forall|k: int| 0 <= k < srt.len() implies f(#[trigger] srt[k]).len() == t as nat by { assert(srt.contains(srt[k])); assert(ids.contains(srt[k])); }
    lemma_psum_general::<C>(srt, f, t as nat, s0::<C>());
    lemma_psum_const::<C>(srt, f, t as nat);
    thm_reconstruct::<C>(kps, dkg_sum_poly::<C>(ids, f, t));
}

// C01 for keys from the DKG: a signing session among any signer set S of participants of the honest run (|S| >= t) with honest commitments and the
// shares `sign` computes from the DKG key packages: aggregation with the DKG public key package returns the signature and it verifies.
// (pk, ids, F) come from the composition theorem: honest_dkg_output gives honest_keys(F, ..) and |F| = t
//@serves C01 C07
pub proof fn thm_honest_dkg_then_sign<C: Ciphersuite>(ids: Set<Identifier<C>>, f: Polys<C>, t: u16, n: u16, i: Identifier<C>, kp: KeyPackage<C>, pk: PublicKeyPackage<C>,
        res: Result<Signature<C>, Error<C>>, sp: SigningPackage<C>, shares: ShareMap<C>, detect: bool, first: bool, nonce: spec_fn(Identifier<C>) -> (Scalar<C>, Scalar<C>))
    requires honest_dkg_output::<C>(ids, f, t, n, i, kp, pk),
        sp.signing_commitments@.dom().finite(), sp.signing_commitments@.dom().subset_of(ids), t <= sp.signing_commitments@.dom().len(),
        crate::vprops_sign::honest_commitments::<C>(sp, nonce), shares.dom() == sp.signing_commitments@.dom(),
        forall|id: Identifier<C>| #[trigger] sp.signing_commitments@.contains_key(id) ==>
            shares[id].share.0 == crate::vprops_sign::honest_share::<C>(sp, pk.verifying_key.element.0, dkg_sum_poly::<C>(ids, f, t), nonce, id),
        // the session does not hit the identity (group key, commitments, group commitment)
        pk.verifying_key.element.0 != e0::<C>(), !items_have_identity::<C>(sp_items::<C>(sp)), sp_R::<C>(sp, pk.verifying_key.element.0) != e0::<C>(),
        // the contract of aggregate / aggregate_custom
        agg_result_is::<C>(res, sp, shares, pk, detect, first),
    ensures
        agg_guard_err::<C>(sp, shares, pk, detect) is None,
        res == Ok::<Signature<C>, Error<C>>(agg_sig::<C>(sp, shares, pk.verifying_key.element.0)),
        spec_verify::<C>(pk.verifying_key, sp.message@, res->Ok_0) == Ok::<(), Error<C>>(()),
        agg_culprits::<C>(sp, shares, pk).len() == 0,
{
    let bigf = dkg_sum_poly::<C>(ids, f, t);
    assert forall|id: Identifier<C>| #[trigger] sp.signing_commitments@.contains_key(id) implies pk.verifying_shares@.contains_key(id) by { assert(ids.contains(id)); }
    crate::vprops_sign::lemma_honest_guard_none::<C>(sp, shares, pk, detect);
    assert(crate::vprops_sign::honest_keys::<C>(bigf, pk.verifying_key.element.0, pk.verifying_shares@, sp.signing_commitments@.dom())) by {
        assert forall|id: Identifier<C>| #[trigger] sp.signing_commitments@.dom().contains(id) implies pk.verifying_shares@.contains_key(id)
            && pk.verifying_shares@[id].0.0 == gmul::<C>(poly::<AL<C>>(bigf, id.0.0)) by { assert(ids.contains(id)); }
    }
    crate::vprops_sign::thm_honest_aggregate_succeeds::<C>(res, sp, shares, pk, detect, first, bigf, nonce);
}

} // verus!
}
