// lemmas/vprops_dkg2.rs -- the COMPOSITION theorem of honest distributed key generation (C07, the DKG half of C01) and the strong
// form of the internal-consistency statement of C09, over the contracts' spec functions (lemmas/vspec.rs "dkg").
// The linearity machinery (evaluate_vss over column sums, sums of polynomials) is the one of lemmas/vprops_refresh.rs.
pub mod vprops_dkg2 {
#[allow(unused_imports)] use vstd::prelude::*;
#[allow(unused_imports)] use crate::traits::*;
#[allow(unused_imports)] use crate::vspec::*;
#[allow(unused_imports)] use crate::vspec_refresh::*;
#[allow(unused_imports)] use crate::vfield::*;
#[allow(unused_imports)] use crate::keys::*;
#[allow(unused_imports)] use crate::serialization::*;
#[allow(unused_imports)] use crate::vprops_keys::*;
#[allow(unused_imports)] use crate::vprops_dkg::*;
#[allow(unused_imports)] use crate::vprops_refresh::*;
#[allow(unused_imports)] use crate::*;
verus! {

pub type R1Pkg<C> = crate::keys::dkg::round1::Package<C>;
pub type R2Pkg<C> = crate::keys::dkg::round2::Package<C>;
pub type R1Sec<C> = crate::keys::dkg::round1::SecretPackage<C>;
pub type R2Sec<C> = crate::keys::dkg::round2::SecretPackage<C>;
pub type R1Map<C> = Map<Identifier<C>, crate::keys::dkg::round1::Package<C>>;
pub type R2Map<C> = Map<Identifier<C>, crate::keys::dkg::round2::Package<C>>;
// l -> coefficient sequence of participant l's secret polynomial (constant term first)
pub type Polys<C> = spec_fn(Identifier<C>) -> Seq<Scalar<C>>;
pub type Part3Result<C> = Result<(KeyPackage<C>, PublicKeyPackage<C>), Error<C>>;

// ===================================================================================================
// the honest run, algebraic view

// ids = the participants (|ids| = n = max_signers), f(l) = participant l's polynomial with t = min_signers coefficients
pub open spec fn dkg_setup<C: Ciphersuite>(ids: Set<Identifier<C>>, f: Polys<C>, t: u16, n: u16) -> bool {
    ids.finite() && ids.len() == n && t >= 1
    && forall|l: Identifier<C>| ids.contains(l) ==> (#[trigger] f(l)).len() == t
}

// the round-one commitment map of the run:  l -> G * f(l)
pub open spec fn dkg_commitments<C: Ciphersuite>(ids: Set<Identifier<C>>, f: Polys<C>) -> Map<Identifier<C>, Seq<CoefficientCommitment<C>>>
{ Map::new(ids, |l: Identifier<C>| spec_commitment::<C>(f(l))) }

// the SUM polynomial F = sum_l f(l): coefficient-wise sum over the participants in ascending identifier order (t coefficients)
pub open spec fn dkg_sum_poly<C: Ciphersuite>(ids: Set<Identifier<C>>, f: Polys<C>, t: u16) -> Seq<Scalar<C>>
{ psum::<C>(sorted_seq(ids), f, t as nat) }

// l -> constant term of f(l)
pub open spec fn const_term<C: Ciphersuite>(f: Polys<C>) -> spec_fn(Identifier<C>) -> Scalar<C>
{ |l: Identifier<C>| f(l)[0] }

// what participant i passes to part3 in the honest run: its own round-2 secret package as part2 returns it on its part1 state (spec_part2_ok:
// identifier, own commitment G*f(i), thresholds, own share f(i)(i)), the round-one packages of ALL others (commitment G*f(l)) and the
// round-two shares f(l)(i) that all others addressed to it
pub open spec fn honest_part3_inputs<C: Ciphersuite>(ids: Set<Identifier<C>>, f: Polys<C>, t: u16, n: u16, i: Identifier<C>,
        s2: R2Sec<C>, r1: R1Map<C>, r2: R2Map<C>) -> bool {
    ids.contains(i)
    && s2.identifier == i && s2.commitment.0@ == spec_commitment::<C>(f(i)) && s2.min_signers == t && s2.max_signers == n
    && s2.secret_share.0 == poly::<AL<C>>(f(i), i.0.0)
    && r1.dom() == ids.remove(i) && r2.dom() == ids.remove(i)
    && (forall|l: Identifier<C>| #[trigger] r1.contains_key(l) ==> r1[l].commitment.0@ == spec_commitment::<C>(f(l)))
    && (forall|l: Identifier<C>| #[trigger] r2.contains_key(l) ==> r2[l].signing_share.0.0 == poly::<AL<C>>(f(l), i.0.0))
}

// ===================================================================================================
// algebra: sums of polynomials without any premise on the constant terms (lemma_psum of vprops_refresh.rs is the zero-constant case)

// (sum_l rs(l))(x) == sum_l rs(l)(x), and the sum has `len` coefficients
//@serves C07 C01
pub proof fn lemma_psum_general<C: Ciphersuite>(parts: Seq<Identifier<C>>, rs: Polys<C>, len: nat, x: Scalar<C>)
    requires forall|k: int| 0 <= k < parts.len() ==> rs(#[trigger] parts[k]).len() == len
    ensures psum::<C>(parts, rs, len).len() == len,
        poly::<AL<C>>(psum::<C>(parts, rs, len), x) == id_sum::<C>(parts, refresh_term::<C>(rs, x))
    decreases parts.len()
{
    if parts.len() == 0 {
        lemma_poly_zero::<C>(len, x);
    } else {
        let p1 = parts.drop_last();
        assert forall|k: int| 0 <= k < p1.len() implies rs(#[trigger] p1[k]).len() == len by { assert(p1[k] == parts[k]); }
        lemma_psum_general::<C>(p1, rs, len, x);
        assert(parts.last() == parts[parts.len() - 1]);
        lemma_poly_add::<C>(psum::<C>(p1, rs, len), rs(parts.last()), x);
    }
}

// the constant term of the sum is the sum of the constant terms
//@serves C07 C01
pub proof fn lemma_psum_const<C: Ciphersuite>(parts: Seq<Identifier<C>>, rs: Polys<C>, len: nat)
    requires len >= 1, forall|k: int| 0 <= k < parts.len() ==> rs(#[trigger] parts[k]).len() == len
    ensures psum::<C>(parts, rs, len)[0] == id_sum::<C>(parts, const_term::<C>(rs))
{
    lemma_psum_general::<C>(parts, rs, len, s0::<C>());
    lemma_poly_at_zero::<C>(psum::<C>(parts, rs, len));
    assert forall|k: int| 0 <= k < parts.len() implies refresh_term::<C>(rs, s0::<C>())(#[trigger] parts[k]) == const_term::<C>(rs)(parts[k]) by {
        lemma_poly_at_zero::<C>(rs(parts[k]));
    }
    lemma_id_sum_ext::<C>(parts, refresh_term::<C>(rs, s0::<C>()), const_term::<C>(rs));
}

// column c of the honest commitments, summed over the first `upto` participants, is G * (coefficient c of the sum of their polynomials)
//@serves C07 C01
pub proof fn lemma_col_sum_honest<C: Ciphersuite>(cs: Seq<Seq<CoefficientCommitment<C>>>, srt: Seq<Identifier<C>>, f: Polys<C>, len: nat, c: int, upto: int)
    requires 0 <= upto <= srt.len(), cs.len() == srt.len(), 0 <= c < len,
        forall|k: int| 0 <= k < srt.len() ==> f(#[trigger] srt[k]).len() == len && cs[k] == spec_commitment::<C>(f(srt[k]))
    ensures spec_col_sum::<C>(cs, c, upto) == gmul::<C>(psum::<C>(srt.take(upto), f, len)[c])
    decreases upto
{
    if upto == 0 {
        assert(srt.take(0).len() == 0);
        lemma_smul_zero::<C>(eg::<C>());
    } else {
        lemma_col_sum_honest::<C>(cs, srt, f, len, c, upto - 1);
        let p = srt.take(upto); let p1 = srt.take(upto - 1);
        assert(p.drop_last() =~= p1);
        assert(p.last() == srt[upto - 1]);
        assert forall|k: int| 0 <= k < p1.len() implies f(#[trigger] p1[k]).len() == len by { assert(p1[k] == srt[k]); }
        lemma_psum_general::<C>(p1, f, len, s0::<C>());
        let a = psum::<C>(p1, f, len); let b = f(srt[upto - 1]);
        assert(psum::<C>(p, f, len) == padd::<C>(a, b));
        assert(padd::<C>(a, b)[c] == sadd::<C>(a[c], b[c]));
        assert(cs[upto - 1][c].0.0 == gmul::<C>(b[c]));
        GG::<C>::ax_smul_add(eg::<C>(), a[c], b[c]);
    }
}

// the group commitment of the honest run (sum_commitments over the ascending commitment list) is the commitment G*F of the sum polynomial
//@serves C07 C01
pub proof fn lemma_honest_group_commitment<C: Ciphersuite>(ids: Set<Identifier<C>>, f: Polys<C>, t: u16, n: u16)
    requires dkg_setup::<C>(ids, f, t, n), n >= 1
    ensures spec_dkg_group_commitment::<C>(dkg_commitments::<C>(ids, f)) == Ok::<Seq<CoefficientCommitment<C>>, Error<C>>(spec_commitment::<C>(dkg_sum_poly::<C>(ids, f, t))),
        dkg_sum_poly::<C>(ids, f, t).len() == t,
        sorted_seq(ids).len() == n,
{
    let m = dkg_commitments::<C>(ids, f);
    let srt = sorted_seq(ids);
    lemma_sorted_exists::<C>(ids);
    srt.unique_seq_to_set();
    assert(m.dom() =~= ids);
    let cs = spec_dkg_commitment_list::<C>(m);
    let len = t as nat;
    assert forall|k: int| 0 <= k < srt.len() implies f(#[trigger] srt[k]).len() == len && cs[k] == spec_commitment::<C>(f(srt[k])) by {
        assert(srt.contains(srt[k])); assert(ids.contains(srt[k]));
    }
    let bigf = dkg_sum_poly::<C>(ids, f, t);
    lemma_psum_general::<C>(srt, f, len, s0::<C>());
    assert(cs.len() == n);
    assert forall|j: int| 0 <= j < cs.len() implies (#[trigger] cs[j]).len() == len by { assert(cs[j] == spec_commitment::<C>(f(srt[j]))); }
    assert(cs[0].len() == len);
    assert(spec_sum_commitments::<C>(cs) is Ok);
    let v = spec_sum_commitments::<C>(cs)->Ok_0;
    assert(v.len() == len);
    assert(srt.take(srt.len() as int) =~= srt);
    assert forall|c: int| 0 <= c < len implies v[c] == spec_commitment::<C>(bigf)[c] by {
        lemma_col_sum_honest::<C>(cs, srt, f, len, c, srt.len() as int);
    }
    assert(v =~= spec_commitment::<C>(bigf));
}

} // verus!
}
