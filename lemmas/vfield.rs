// lemmas/vfield.rs -- abstract field `Fld`, polynomial lemmas and the NATIVE proof of Lagrange interpolation
// (product form, general point and the x = 0 / `None` form).  No assume/admit/external_body.  From probe P22.
pub mod vfield {
#[allow(unused_imports)] use vstd::prelude::*;
verus! {
//@module_serves ALL
pub trait Fld {
    type S;
    spec fn zero() -> Self::S;
    spec fn one() -> Self::S;
    spec fn add(a: Self::S, b: Self::S) -> Self::S;
    spec fn neg(a: Self::S) -> Self::S;
    spec fn mul(a: Self::S, b: Self::S) -> Self::S;
    spec fn inv(a: Self::S) -> Self::S;

    proof fn add_comm(a: Self::S, b: Self::S) ensures Self::add(a, b) == Self::add(b, a);
    proof fn add_assoc(a: Self::S, b: Self::S, c: Self::S) ensures Self::add(Self::add(a, b), c) == Self::add(a, Self::add(b, c));
    proof fn add_zero(a: Self::S) ensures Self::add(a, Self::zero()) == a;
    proof fn add_neg(a: Self::S) ensures Self::add(a, Self::neg(a)) == Self::zero();
    proof fn mul_comm(a: Self::S, b: Self::S) ensures Self::mul(a, b) == Self::mul(b, a);
    proof fn mul_assoc(a: Self::S, b: Self::S, c: Self::S) ensures Self::mul(Self::mul(a, b), c) == Self::mul(a, Self::mul(b, c));
    proof fn mul_one(a: Self::S) ensures Self::mul(a, Self::one()) == a;
    proof fn distrib(a: Self::S, b: Self::S, c: Self::S) ensures Self::mul(a, Self::add(b, c)) == Self::add(Self::mul(a, b), Self::mul(a, c));
    proof fn mul_inv(a: Self::S) requires a != Self::zero() ensures Self::mul(a, Self::inv(a)) == Self::one();
    proof fn one_ne_zero() ensures Self::one() != Self::zero();
}

pub open spec fn sub<A: Fld>(a: A::S, b: A::S) -> A::S { A::add(a, A::neg(b)) }

pub proof fn lemma_mul_zero<A: Fld>(a: A::S) ensures A::mul(a, A::zero()) == A::zero(), A::mul(A::zero(), a) == A::zero()
{
    let z = A::mul(a, A::zero());
    A::distrib(a, A::zero(), A::zero());
    A::add_zero(A::zero());
    assert(z == A::add(z, z));
    A::add_neg(z);
    A::add_assoc(z, z, A::neg(z));
    A::add_zero(z);
    A::mul_comm(a, A::zero());
}

pub proof fn lemma_zero_add<A: Fld>(a: A::S) ensures A::add(A::zero(), a) == a
{ A::add_comm(A::zero(), a); A::add_zero(a); }

pub proof fn lemma_one_mul<A: Fld>(a: A::S) ensures A::mul(A::one(), a) == a
{ A::mul_comm(A::one(), a); A::mul_one(a); }

// a + x == a + y ==> x == y
pub proof fn lemma_add_cancel<A: Fld>(a: A::S, x: A::S, y: A::S)
    requires A::add(a, x) == A::add(a, y) ensures x == y
{
    // x = 0 + x = (-a + a) + x = -a + (a + x)
    A::add_neg(a); A::add_comm(a, A::neg(a));
    A::add_assoc(A::neg(a), a, x); A::add_assoc(A::neg(a), a, y);
    lemma_zero_add::<A>(x); lemma_zero_add::<A>(y);
}

pub proof fn lemma_neg_mul<A: Fld>(a: A::S, b: A::S) ensures A::mul(A::neg(a), b) == A::neg(A::mul(a, b)), A::mul(b, A::neg(a)) == A::neg(A::mul(a, b))
{
    // a*b + (-a)*b = (a + -a)*b = 0 ; a*b + -(a*b) = 0
    A::mul_comm(A::neg(a), b); A::mul_comm(a, b);
    A::distrib(b, a, A::neg(a));
    A::add_neg(a);
    lemma_mul_zero::<A>(b);
    A::add_neg(A::mul(b, a));
    lemma_add_cancel::<A>(A::mul(b, a), A::mul(b, A::neg(a)), A::neg(A::mul(b, a)));
}

pub proof fn lemma_sub_self<A: Fld>(a: A::S) ensures sub::<A>(a, a) == A::zero() { A::add_neg(a); }

// c + (t - c) == t
pub proof fn lemma_sub_add_cancel<A: Fld>(t: A::S, c: A::S) ensures A::add(c, sub::<A>(t, c)) == t, A::add(sub::<A>(t, c), c) == t
{
    A::add_comm(t, A::neg(c));
    A::add_assoc(c, A::neg(c), t);
    A::add_neg(c);
    lemma_zero_add::<A>(t);
    A::add_comm(c, sub::<A>(t, c));
}

pub proof fn lemma_sub_nonzero<A: Fld>(a: A::S, b: A::S) requires a != b ensures sub::<A>(a, b) != A::zero()
{
    if sub::<A>(a, b) == A::zero() {
        lemma_sub_add_cancel::<A>(a, b);
        A::add_zero(b);
        assert(false);
    }
}

pub proof fn lemma_nozero<A: Fld>(a: A::S, b: A::S) requires a != A::zero(), b != A::zero() ensures A::mul(a, b) != A::zero()
{
    if A::mul(a, b) == A::zero() {
        // b = 1*b = (inv a * a) * b = inv a * (a*b) = 0
        A::mul_inv(a); A::mul_comm(a, A::inv(a));
        A::mul_assoc(A::inv(a), a, b);
        lemma_one_mul::<A>(b);
        lemma_mul_zero::<A>(A::inv(a));
        assert(false);
    }
}

pub proof fn lemma_inv_unique<A: Fld>(a: A::S, b: A::S) requires a != A::zero(), A::mul(a, b) == A::one() ensures b == A::inv(a)
{
    // inv a = inv a * 1 = inv a * (a*b) = (inv a * a) * b = b
    A::mul_inv(a); A::mul_comm(a, A::inv(a));
    A::mul_one(A::inv(a));
    A::mul_assoc(A::inv(a), a, b);
    lemma_one_mul::<A>(b);
}

pub proof fn lemma_inv_mul<A: Fld>(a: A::S, b: A::S) requires a != A::zero(), b != A::zero()
    ensures A::inv(A::mul(a, b)) == A::mul(A::inv(a), A::inv(b)), A::mul(a, b) != A::zero()
{
    lemma_nozero::<A>(a, b);
    // (a*b)*(ia*ib) = (a*ia)*(b*ib) = 1
    let ia = A::inv(a); let ib = A::inv(b);
    A::mul_assoc(a, b, A::mul(ia, ib));
    A::mul_comm(ia, ib);
    A::mul_assoc(b, ib, ia);
    A::mul_inv(b); lemma_one_mul::<A>(ia);
    A::mul_inv(a);
    lemma_inv_unique::<A>(A::mul(a, b), A::mul(ia, ib));
}

pub proof fn lemma_inv_one<A: Fld>() ensures A::inv(A::one()) == A::one()
{ A::one_ne_zero(); lemma_one_mul::<A>(A::one()); lemma_inv_unique::<A>(A::one(), A::one()); }


// ---------------- polynomials as coefficient sequences (constant term first) ----------------
pub open spec fn poly<A: Fld>(a: Seq<A::S>, t: A::S) -> A::S decreases a.len()
{ if a.len() == 0 { A::zero() } else { A::add(a[0], A::mul(poly::<A>(a.drop_first(), t), t)) } }

pub open spec fn quot<A: Fld>(a: Seq<A::S>, c: A::S) -> Seq<A::S> decreases a.len()
{ if a.len() <= 1 { Seq::empty() } else { seq![poly::<A>(a.drop_first(), c)] + quot::<A>(a.drop_first(), c) } }

pub proof fn lemma_quot_len<A: Fld>(a: Seq<A::S>, c: A::S) ensures quot::<A>(a, c).len() == if a.len() == 0 { 0 } else { a.len() - 1 } decreases a.len()
{ if a.len() > 1 { lemma_quot_len::<A>(a.drop_first(), c); } }

// poly(a,t) == poly(a,c) + (t-c)*poly(quot(a,c),t)
pub proof fn lemma_quot<A: Fld>(a: Seq<A::S>, c: A::S, t: A::S)
    ensures poly::<A>(a, t) == A::add(poly::<A>(a, c), A::mul(sub::<A>(t, c), poly::<A>(quot::<A>(a, c), t)))
    decreases a.len()
{
    let d = sub::<A>(t, c);
    if a.len() == 0 {
        lemma_mul_zero::<A>(d); A::add_zero(A::zero());
    } else if a.len() == 1 {
        let r = a.drop_first();
        assert(r.len() == 0);
        lemma_mul_zero::<A>(d);
        A::add_zero(poly::<A>(a, c));
        lemma_mul_zero::<A>(t); lemma_mul_zero::<A>(c);
        assert(poly::<A>(r, t) == A::zero());
        assert(poly::<A>(r, c) == A::zero());
        assert(poly::<A>(a, t) == A::add(a[0], A::zero()));
        assert(poly::<A>(a, c) == A::add(a[0], A::zero()));
        assert(quot::<A>(a, c).len() == 0);
        assert(poly::<A>(quot::<A>(a, c), t) == A::zero());
    } else {
        let r = a.drop_first();
        let q1 = quot::<A>(r, c);
        let q = quot::<A>(a, c);
        let rc = poly::<A>(r, c); let rt = poly::<A>(r, t); let q1t = poly::<A>(q1, t);
        lemma_quot::<A>(r, c, t);       // rt = rc + d*q1t
        assert(q.drop_first() =~= q1);
        assert(q[0] == rc);
        let qt = poly::<A>(q, t);       // = rc + q1t*t
        assert(qt == A::add(rc, A::mul(q1t, t)));
        // goal: a0 + rt*t == (a0 + rc*c) + d*(rc + q1t*t)
        // rt*t = (rc + d*q1t)*t = rc*t + (d*q1t)*t
        A::mul_comm(rt, t); A::distrib(t, rc, A::mul(d, q1t)); A::mul_comm(t, rc); A::mul_comm(t, A::mul(d, q1t));
        A::mul_assoc(d, q1t, t);
        // d*(rc + q1t*t) = d*rc + d*(q1t*t)
        A::distrib(d, rc, A::mul(q1t, t));
        // rc*c + d*rc = rc*(c + d) = rc*t
        A::mul_comm(d, rc); A::distrib(rc, c, d); lemma_sub_add_cancel::<A>(t, c);
        // assemble: (a0 + rc*c) + (rc*d + X) = a0 + (rc*c + rc*d) + X
        let x = A::mul(d, A::mul(q1t, t));
        A::add_assoc(a[0], A::mul(rc, c), A::add(A::mul(rc, d), x));
        A::add_assoc(A::mul(rc, c), A::mul(rc, d), x);
        assert(A::mul(rt, t) == A::add(A::mul(rc, t), x));
        assert(A::mul(d, qt) == A::add(A::mul(rc, d), x));
        assert(A::add(A::mul(rc, c), A::mul(rc, d)) == A::mul(rc, t));
        assert(poly::<A>(a, t) == A::add(a[0], A::mul(rt, t)));
        assert(poly::<A>(a, c) == A::add(a[0], A::mul(rc, c)));
    }
}

// add k to the constant coefficient
pub open spec fn add_head<A: Fld>(b: Seq<A::S>, k: A::S) -> Seq<A::S>
{ if b.len() == 0 { seq![k] } else { seq![A::add(k, b[0])] + b.drop_first() } }

pub proof fn lemma_add_head<A: Fld>(b: Seq<A::S>, k: A::S, t: A::S)
    ensures poly::<A>(add_head::<A>(b, k), t) == A::add(k, poly::<A>(b, t)), add_head::<A>(b, k).len() == if b.len() == 0 { 1 } else { b.len() }
{
    let h = add_head::<A>(b, k);
    reveal_with_fuel(poly, 3);
    if b.len() == 0 {
        assert(h.drop_first().len() == 0);
        lemma_mul_zero::<A>(t);
    } else {
        assert(h.drop_first() =~= b.drop_first());
        A::add_assoc(k, b[0], A::mul(poly::<A>(b.drop_first(), t), t));
    }
}

// coefficients of (t - y) * a(t)
pub open spec fn mul_lin<A: Fld>(a: Seq<A::S>, y: A::S) -> Seq<A::S> decreases a.len()
{ if a.len() == 0 { Seq::empty() } else { seq![A::neg(A::mul(y, a[0]))] + add_head::<A>(mul_lin::<A>(a.drop_first(), y), a[0]) } }

pub proof fn lemma_mul_lin<A: Fld>(a: Seq<A::S>, y: A::S, t: A::S)
    ensures poly::<A>(mul_lin::<A>(a, y), t) == A::mul(sub::<A>(t, y), poly::<A>(a, t)),
            mul_lin::<A>(a, y).len() == if a.len() == 0 { 0 } else { a.len() + 1 }
    decreases a.len()
{
    let d = sub::<A>(t, y);
    if a.len() == 0 { lemma_mul_zero::<A>(d); }
    else {
        let r = a.drop_first(); let ml = mul_lin::<A>(r, y); let ah = add_head::<A>(ml, a[0]);
        let m = mul_lin::<A>(a, y);
        lemma_mul_lin::<A>(r, y, t);
        lemma_add_head::<A>(ml, a[0], t);
        assert(m.drop_first() =~= ah);
        let rt = poly::<A>(r, t);
        // poly(m,t) = -(y*a0) + (a0 + d*rt)*t
        // goal     = d*(a0 + rt*t) = d*a0 + d*(rt*t)
        A::distrib(d, a[0], A::mul(rt, t));
        // (a0 + d*rt)*t = a0*t + (d*rt)*t
        A::mul_comm(A::add(a[0], A::mul(d, rt)), t); A::distrib(t, a[0], A::mul(d, rt)); A::mul_comm(t, a[0]); A::mul_comm(t, A::mul(d, rt));
        A::mul_assoc(d, rt, t);
        // d*a0 = (t + -y)*a0 = a0*t + -(y*a0)
        A::mul_comm(d, a[0]); A::distrib(a[0], t, A::neg(y)); lemma_neg_mul::<A>(y, a[0]);
        A::mul_comm(y, a[0]);
        let x = A::mul(d, A::mul(rt, t));
        // -(y a0) + (a0 t + x) == (a0 t + -(y a0)) + x
        A::add_comm(A::neg(A::mul(y, a[0])), A::add(A::mul(a[0], t), x));
        A::add_assoc(A::mul(a[0], t), x, A::neg(A::mul(y, a[0])));
        A::add_comm(x, A::neg(A::mul(y, a[0])));
        A::add_assoc(A::mul(a[0], t), A::neg(A::mul(y, a[0])), x);
    }
}

// prod_j (t - ys[j])
pub open spec fn prodsub<A: Fld>(ys: Seq<A::S>, t: A::S) -> A::S decreases ys.len()
{ if ys.len() == 0 { A::one() } else { A::mul(prodsub::<A>(ys.drop_last(), t), sub::<A>(t, ys.last())) } }

pub open spec fn ncoef<A: Fld>(ys: Seq<A::S>) -> Seq<A::S> decreases ys.len()
{ if ys.len() == 0 { seq![A::one()] } else { mul_lin::<A>(ncoef::<A>(ys.drop_last()), ys.last()) } }

pub proof fn lemma_ncoef<A: Fld>(ys: Seq<A::S>, t: A::S)
    ensures poly::<A>(ncoef::<A>(ys), t) == prodsub::<A>(ys, t), ncoef::<A>(ys).len() == ys.len() + 1
    decreases ys.len()
{
    reveal_with_fuel(poly, 3);
    if ys.len() == 0 {
        let o = seq![A::one()];
        assert(o.drop_first().len() == 0);
        lemma_mul_zero::<A>(t); A::add_zero(A::one());
    } else {
        lemma_ncoef::<A>(ys.drop_last(), t);
        lemma_mul_lin::<A>(ncoef::<A>(ys.drop_last()), ys.last(), t);
        A::mul_comm(sub::<A>(t, ys.last()), prodsub::<A>(ys.drop_last(), t));
    }
}


pub proof fn lemma_neg_neg<A: Fld>(a: A::S) ensures A::neg(A::neg(a)) == a
{
    // -a + a = 0 and -a + -(-a) = 0
    A::add_neg(a); A::add_comm(a, A::neg(a)); A::add_neg(A::neg(a));
    lemma_add_cancel::<A>(A::neg(a), a, A::neg(A::neg(a)));
}

// ---------------- Lagrange basis in the product form of the code ----------------
// prod over j with xs[j] != xi of (x - xs[j]);  den(xs, xi) == num(xs, xi, xi)
pub open spec fn num<A: Fld>(xs: Seq<A::S>, x: A::S, xi: A::S) -> A::S decreases xs.len()
{ if xs.len() == 0 { A::one() } else { let r = num::<A>(xs.drop_last(), x, xi); if xs.last() == xi { r } else { A::mul(r, sub::<A>(x, xs.last())) } } }

pub open spec fn basis<A: Fld>(xs: Seq<A::S>, x: A::S, xi: A::S) -> A::S { A::mul(num::<A>(xs, x, xi), A::inv(num::<A>(xs, xi, xi))) }

pub open spec fn lsum<A: Fld>(xs: Seq<A::S>, a: Seq<A::S>, x: A::S, k: nat) -> A::S decreases k
{ if k == 0 { A::zero() } else { A::add(lsum::<A>(xs, a, x, (k - 1) as nat), A::mul(poly::<A>(a, xs[k - 1]), basis::<A>(xs, x, xs[k - 1]))) } }

pub open spec fn usum<A: Fld>(xs: Seq<A::S>, x: A::S, k: nat) -> A::S decreases k
{ if k == 0 { A::zero() } else { A::add(usum::<A>(xs, x, (k - 1) as nat), basis::<A>(xs, x, xs[k - 1])) } }

pub open spec fn distinct<A: Fld>(xs: Seq<A::S>) -> bool { forall|i: int, j: int| 0 <= i < xs.len() && 0 <= j < xs.len() && i != j ==> xs[i] != xs[j] }
pub open spec fn notin<A: Fld>(ys: Seq<A::S>, c: A::S) -> bool { forall|j: int| 0 <= j < ys.len() ==> ys[j] != c }

pub proof fn lemma_num_notin<A: Fld>(ys: Seq<A::S>, x: A::S, c: A::S)
    requires notin::<A>(ys, c) ensures num::<A>(ys, x, c) == prodsub::<A>(ys, x) decreases ys.len()
{ if ys.len() > 0 { lemma_num_notin::<A>(ys.drop_last(), x, c); } }

pub proof fn lemma_den_nonzero<A: Fld>(ys: Seq<A::S>, xi: A::S)
    ensures num::<A>(ys, xi, xi) != A::zero() decreases ys.len()
{
    A::one_ne_zero();
    if ys.len() > 0 {
        lemma_den_nonzero::<A>(ys.drop_last(), xi);
        if ys.last() != xi { lemma_sub_nonzero::<A>(xi, ys.last()); lemma_nozero::<A>(num::<A>(ys.drop_last(), xi, xi), sub::<A>(xi, ys.last())); }
    }
}

pub proof fn lemma_prodsub_root<A: Fld>(ys: Seq<A::S>, i: int)
    requires 0 <= i < ys.len() ensures prodsub::<A>(ys, ys[i]) == A::zero() decreases ys.len()
{
    if i == ys.len() - 1 { lemma_sub_self::<A>(ys[i]); lemma_mul_zero::<A>(prodsub::<A>(ys.drop_last(), ys[i])); }
    else { lemma_prodsub_root::<A>(ys.drop_last(), i); lemma_mul_zero::<A>(sub::<A>(ys[i], ys.last())); }
}

// basis over ys.push(c) at an old node xi = ys[i]:  basis(xs) = basis(ys) * ((x-c) * inv(xi-c))
pub proof fn lemma_basis_old<A: Fld>(ys: Seq<A::S>, c: A::S, x: A::S, xi: A::S)
    requires xi != c
    ensures basis::<A>(ys.push(c), x, xi) == A::mul(basis::<A>(ys, x, xi), A::mul(sub::<A>(x, c), A::inv(sub::<A>(xi, c))))
{
    let xs = ys.push(c);
    assert(xs.drop_last() =~= ys);
    let n = num::<A>(ys, x, xi); let d = num::<A>(ys, xi, xi);
    let e = sub::<A>(xi, c); let f = sub::<A>(x, c);
    assert(num::<A>(xs, x, xi) == A::mul(n, f));
    assert(num::<A>(xs, xi, xi) == A::mul(d, e));
    lemma_den_nonzero::<A>(ys, xi); lemma_sub_nonzero::<A>(xi, c);
    lemma_inv_mul::<A>(d, e);
    let id = A::inv(d); let ie = A::inv(e);
    // (n*f)*(id*ie) == (n*id)*(f*ie)
    A::mul_assoc(n, f, A::mul(id, ie));
    A::mul_comm(id, ie); A::mul_assoc(f, ie, id); A::mul_comm(A::mul(f, ie), id);
    A::mul_assoc(n, id, A::mul(f, ie));
}

// basis over ys.push(c) at the new node c:  N(x) * inv(D)
pub proof fn lemma_basis_new<A: Fld>(ys: Seq<A::S>, c: A::S, x: A::S)
    requires notin::<A>(ys, c)
    ensures basis::<A>(ys.push(c), x, c) == A::mul(prodsub::<A>(ys, x), A::inv(prodsub::<A>(ys, c))), prodsub::<A>(ys, c) != A::zero()
{
    let xs = ys.push(c);
    assert(xs.drop_last() =~= ys);
    lemma_num_notin::<A>(ys, x, c); lemma_num_notin::<A>(ys, c, c);
    lemma_den_nonzero::<A>(ys, c);
}


// T1: term of P at an old node
pub proof fn lemma_term_p<A: Fld>(ys: Seq<A::S>, c: A::S, a: Seq<A::S>, x: A::S, xi: A::S)
    requires xi != c
    ensures A::mul(poly::<A>(a, xi), basis::<A>(ys.push(c), x, xi))
         == A::add(A::mul(poly::<A>(a, c), basis::<A>(ys.push(c), x, xi)),
                   A::mul(sub::<A>(x, c), A::mul(poly::<A>(quot::<A>(a, c), xi), basis::<A>(ys, x, xi))))
{
    let q = quot::<A>(a, c);
    let pc = poly::<A>(a, c); let qi = poly::<A>(q, xi);
    let e = sub::<A>(xi, c); let f = sub::<A>(x, c); let ie = A::inv(e);
    let b1 = basis::<A>(ys.push(c), x, xi); let b0 = basis::<A>(ys, x, xi);
    lemma_quot::<A>(a, c, xi);           // poly(a,xi) = pc + e*qi
    lemma_basis_old::<A>(ys, c, x, xi);  // b1 = b0*(f*ie)
    lemma_sub_nonzero::<A>(xi, c); A::mul_inv(e);
    // (pc + e*qi)*b1 = pc*b1 + (e*qi)*b1
    A::mul_comm(A::add(pc, A::mul(e, qi)), b1); A::distrib(b1, pc, A::mul(e, qi)); A::mul_comm(b1, pc); A::mul_comm(b1, A::mul(e, qi));
    // (e*qi)*(b0*(f*ie)) = f*(qi*b0)   using e*ie = 1
    // (e*qi)*(b0*(f*ie)) = (qi*e)*((b0*f)*ie)
    A::mul_comm(e, qi);
    A::mul_assoc(b0, f, ie);
    // (qi*e)*((b0*f)*ie) = qi*(e*((b0*f)*ie)) ; e*((b0*f)*ie) = (b0*f)*(e*ie) = b0*f
    A::mul_assoc(qi, e, A::mul(A::mul(b0, f), ie));
    A::mul_comm(A::mul(b0, f), ie); A::mul_assoc(e, ie, A::mul(b0, f)); lemma_one_mul::<A>(A::mul(b0, f));
    // qi*(b0*f) = f*(qi*b0)
    A::mul_assoc(qi, b0, f); A::mul_comm(A::mul(qi, b0), f);
}

// S1: partial sums of P over the old nodes
pub proof fn lemma_sum_p<A: Fld>(ys: Seq<A::S>, c: A::S, a: Seq<A::S>, x: A::S, k: nat)
    requires notin::<A>(ys, c), k <= ys.len()
    ensures lsum::<A>(ys.push(c), a, x, k)
         == A::add(A::mul(poly::<A>(a, c), usum::<A>(ys.push(c), x, k)), A::mul(sub::<A>(x, c), lsum::<A>(ys, quot::<A>(a, c), x, k)))
    decreases k
{
    let xs = ys.push(c); let q = quot::<A>(a, c); let pc = poly::<A>(a, c); let f = sub::<A>(x, c);
    if k == 0 {
        lemma_mul_zero::<A>(pc); lemma_mul_zero::<A>(f); A::add_zero(A::zero());
    } else {
        let k1 = (k - 1) as nat; let xi = ys[k - 1];
        assert(xs[k - 1] == xi);
        lemma_sum_p::<A>(ys, c, a, x, k1);
        lemma_term_p::<A>(ys, c, a, x, xi);
        let u0 = usum::<A>(xs, x, k1); let l0 = lsum::<A>(ys, q, x, k1);
        let b1 = basis::<A>(xs, x, xi); let t0 = A::mul(poly::<A>(q, xi), basis::<A>(ys, x, xi));
        // (pc*u0 + f*l0) + (pc*b1 + f*t0) == pc*(u0 + b1) + f*(l0 + t0)
        A::distrib(pc, u0, b1); A::distrib(f, l0, t0);
        let p = A::mul(pc, u0); let qq = A::mul(f, l0); let r = A::mul(pc, b1); let t = A::mul(f, t0);
        A::add_assoc(p, qq, A::add(r, t)); A::add_assoc(qq, r, t); A::add_comm(qq, r); A::add_assoc(r, qq, t); A::add_assoc(p, r, A::add(qq, t));
    }
}

// T2: basis at an old node expressed through Q = quot(N_ys, c)
pub proof fn lemma_term_u<A: Fld>(ys: Seq<A::S>, c: A::S, x: A::S, i: int)
    requires notin::<A>(ys, c), 0 <= i < ys.len()
    ensures basis::<A>(ys.push(c), x, ys[i])
         == A::mul(A::neg(A::mul(sub::<A>(x, c), A::inv(prodsub::<A>(ys, c)))),
                   A::mul(poly::<A>(quot::<A>(ncoef::<A>(ys), c), ys[i]), basis::<A>(ys, x, ys[i])))
{
    let xi = ys[i]; let nc = ncoef::<A>(ys); let qq = quot::<A>(nc, c);
    let dd = prodsub::<A>(ys, c); let idd = A::inv(dd);
    let e = sub::<A>(xi, c); let f = sub::<A>(x, c); let qi = poly::<A>(qq, xi); let b0 = basis::<A>(ys, x, xi);
    lemma_basis_new::<A>(ys, c, x);      // dd != 0
    lemma_basis_old::<A>(ys, c, x, xi);  // b1 = b0*(f*inv e)
    lemma_sub_nonzero::<A>(xi, c);
    lemma_ncoef::<A>(ys, xi); lemma_ncoef::<A>(ys, c);
    lemma_prodsub_root::<A>(ys, i);
    lemma_quot::<A>(nc, c, xi);          // 0 = dd + e*qi
    // e*qi = -dd
    A::add_neg(dd);
    lemma_add_cancel::<A>(dd, A::mul(e, qi), A::neg(dd));
    // candidate inverse of e: w = -(qi*idd);  e*w = -(e*(qi*idd)) = -((e*qi)*idd) = -((-dd)*idd) = -(-(dd*idd)) = 1
    let w = A::neg(A::mul(qi, idd));
    lemma_neg_mul::<A>(A::mul(qi, idd), e);          // e * -(qi*idd) = -((qi*idd)*e)
    A::mul_comm(A::mul(qi, idd), e); A::mul_assoc(e, qi, idd);
    lemma_neg_mul::<A>(dd, idd); A::mul_inv(dd); lemma_neg_neg::<A>(A::one());
    lemma_inv_unique::<A>(e, w);
    // b0*(f*w) == -(f*idd) * (qi*b0)
    // f*w = f * -(qi*idd) = -((qi*idd)*f)
    lemma_neg_mul::<A>(A::mul(qi, idd), f);
    // b0 * -(z) = -(z*b0) with z = (qi*idd)*f
    let z = A::mul(A::mul(qi, idd), f);
    lemma_neg_mul::<A>(z, b0);
    // -(f*idd) * (qi*b0) = -((f*idd)*(qi*b0))
    lemma_neg_mul::<A>(A::mul(f, idd), A::mul(qi, b0));
    // z*b0 = ((qi*idd)*f)*b0 == (f*idd)*(qi*b0)
    A::mul_comm(A::mul(qi, idd), f); A::mul_comm(qi, idd); A::mul_assoc(f, idd, qi);  // z = f*(idd*qi) = (f*idd)*qi
    A::mul_assoc(A::mul(f, idd), qi, b0);
}

// S2: partial sums of U over the old nodes
pub proof fn lemma_sum_u<A: Fld>(ys: Seq<A::S>, c: A::S, x: A::S, k: nat)
    requires notin::<A>(ys, c), k <= ys.len()
    ensures usum::<A>(ys.push(c), x, k)
         == A::mul(A::neg(A::mul(sub::<A>(x, c), A::inv(prodsub::<A>(ys, c)))), lsum::<A>(ys, quot::<A>(ncoef::<A>(ys), c), x, k))
    decreases k
{
    let xs = ys.push(c); let qq = quot::<A>(ncoef::<A>(ys), c);
    let g = A::neg(A::mul(sub::<A>(x, c), A::inv(prodsub::<A>(ys, c))));
    if k == 0 { lemma_mul_zero::<A>(g); }
    else {
        let k1 = (k - 1) as nat; let xi = ys[k - 1];
        assert(xs[k - 1] == xi);
        lemma_sum_u::<A>(ys, c, x, k1);
        lemma_term_u::<A>(ys, c, x, k - 1);
        A::distrib(g, lsum::<A>(ys, qq, x, k1), A::mul(poly::<A>(qq, xi), basis::<A>(ys, x, xi)));
    }
}

pub proof fn lemma_lsum_zero<A: Fld>(xs: Seq<A::S>, x: A::S, k: nat)
    requires k <= xs.len() ensures lsum::<A>(xs, Seq::<A::S>::empty(), x, k) == A::zero() decreases k
{
    if k > 0 { lemma_lsum_zero::<A>(xs, x, (k - 1) as nat); lemma_mul_zero::<A>(basis::<A>(xs, x, xs[k - 1])); A::add_zero(A::zero()); }
}

// ---------------- the theorem ----------------
pub proof fn lemma_unity<A: Fld>(xs: Seq<A::S>, x: A::S)
    requires distinct::<A>(xs), xs.len() >= 1
    ensures usum::<A>(xs, x, xs.len()) == A::one()
    decreases xs.len(), 0int
{
    let ys = xs.drop_last(); let c = xs.last(); let m = ys.len();
    assert(xs =~= ys.push(c));
    assert(notin::<A>(ys, c)) by { assert forall|j: int| 0 <= j < ys.len() implies ys[j] != c by { assert(xs[j] == ys[j]); } }
    assert(distinct::<A>(ys)) by { assert forall|i: int, j: int| 0 <= i < ys.len() && 0 <= j < ys.len() && i != j implies ys[i] != ys[j] by { assert(xs[i] == ys[i] && xs[j] == ys[j]); } }
    let nc = ncoef::<A>(ys); let qq = quot::<A>(nc, c);
    let dd = prodsub::<A>(ys, c); let idd = A::inv(dd); let f = sub::<A>(x, c);
    lemma_ncoef::<A>(ys, x); lemma_ncoef::<A>(ys, c); lemma_quot_len::<A>(nc, c);
    lemma_sum_u::<A>(ys, c, x, m);
    lemma_lagrange::<A>(ys, qq, x);          // lsum(ys,qq,x,m) == poly(qq,x)
    lemma_quot::<A>(nc, c, x);               // N(x) = dd + f*Q(x)
    lemma_basis_new::<A>(ys, c, x);          // last basis = N(x)*idd, dd != 0
    let qx = poly::<A>(qq, x); let nx = prodsub::<A>(ys, x);
    let w = A::mul(A::mul(f, qx), idd);
    // usum(m) = -(f*idd) * qx = -w
    lemma_neg_mul::<A>(A::mul(f, idd), qx);
    A::mul_assoc(f, idd, qx); A::mul_comm(idd, qx); A::mul_assoc(f, qx, idd);
    // nx*idd = (dd + f*qx)*idd = dd*idd + w = 1 + w
    A::mul_comm(A::add(dd, A::mul(f, qx)), idd); A::distrib(idd, dd, A::mul(f, qx)); A::mul_comm(idd, dd); A::mul_comm(idd, A::mul(f, qx));
    A::mul_inv(dd);
    // -w + (1 + w) = 1
    A::add_comm(A::one(), w); A::add_assoc(A::neg(w), w, A::one()); A::add_neg(w); A::add_comm(w, A::neg(w)); lemma_zero_add::<A>(A::one());
    assert(usum::<A>(xs, x, xs.len()) == A::add(usum::<A>(xs, x, m), basis::<A>(xs, x, c)));
}

pub proof fn lemma_lagrange<A: Fld>(xs: Seq<A::S>, a: Seq<A::S>, x: A::S)
    requires distinct::<A>(xs), a.len() <= xs.len()
    ensures lsum::<A>(xs, a, x, xs.len()) == poly::<A>(a, x)
    decreases xs.len(), 1int
{
    if a.len() == 0 {
        assert(a =~= Seq::<A::S>::empty());
        lemma_lsum_zero::<A>(xs, x, xs.len());
    } else {
        let ys = xs.drop_last(); let c = xs.last(); let m = ys.len();
        assert(xs =~= ys.push(c));
        assert(notin::<A>(ys, c)) by { assert forall|j: int| 0 <= j < ys.len() implies ys[j] != c by { assert(xs[j] == ys[j]); } }
        assert(distinct::<A>(ys)) by { assert forall|i: int, j: int| 0 <= i < ys.len() && 0 <= j < ys.len() && i != j implies ys[i] != ys[j] by { assert(xs[i] == ys[i] && xs[j] == ys[j]); } }
        let q = quot::<A>(a, c); let pc = poly::<A>(a, c); let f = sub::<A>(x, c);
        lemma_quot_len::<A>(a, c);
        lemma_sum_p::<A>(ys, c, a, x, m);
        lemma_lagrange::<A>(ys, q, x);
        lemma_unity::<A>(xs, x);
        lemma_quot::<A>(a, c, x);
        let u0 = usum::<A>(xs, x, m); let bl = basis::<A>(xs, x, c); let lq = lsum::<A>(ys, q, x, m);
        assert(lsum::<A>(xs, a, x, xs.len()) == A::add(lsum::<A>(xs, a, x, m), A::mul(pc, bl)));
        assert(usum::<A>(xs, x, xs.len()) == A::add(u0, bl));
        // (pc*u0 + f*lq) + pc*bl == pc*(u0 + bl) + f*lq
        A::distrib(pc, u0, bl);
        A::add_assoc(A::mul(pc, u0), A::mul(f, lq), A::mul(pc, bl)); A::add_comm(A::mul(f, lq), A::mul(pc, bl)); A::add_assoc(A::mul(pc, u0), A::mul(pc, bl), A::mul(f, lq));
        A::mul_one(pc);
    }
}


// ---------------- the sign-flipped x = 0 form used by the code when `x` is None ----------------
pub open spec fn numn<A: Fld>(xs: Seq<A::S>, xi: A::S) -> A::S decreases xs.len()
{ if xs.len() == 0 { A::one() } else { let r = numn::<A>(xs.drop_last(), xi); if xs.last() == xi { r } else { A::mul(r, xs.last()) } } }
pub open spec fn denn<A: Fld>(xs: Seq<A::S>, xi: A::S) -> A::S decreases xs.len()
{ if xs.len() == 0 { A::one() } else { let r = denn::<A>(xs.drop_last(), xi); if xs.last() == xi { r } else { A::mul(r, sub::<A>(xs.last(), xi)) } } }

pub proof fn lemma_neg_sub<A: Fld>(a: A::S, b: A::S) ensures A::neg(sub::<A>(a, b)) == sub::<A>(b, a)
{
    // (a-b) + (b-a) = 0
    let p = sub::<A>(a, b); let q = sub::<A>(b, a);
    A::add_assoc(a, A::neg(b), q); A::add_assoc(A::neg(b), b, A::neg(a)); A::add_neg(b); A::add_comm(b, A::neg(b));
    lemma_zero_add::<A>(A::neg(a)); A::add_neg(a);
    A::add_neg(p);
    lemma_add_cancel::<A>(p, q, A::neg(p));
}

pub proof fn lemma_denn_nonzero<A: Fld>(ys: Seq<A::S>, xi: A::S) ensures denn::<A>(ys, xi) != A::zero() decreases ys.len()
{
    A::one_ne_zero();
    if ys.len() > 0 {
        lemma_denn_nonzero::<A>(ys.drop_last(), xi);
        if ys.last() != xi { lemma_sub_nonzero::<A>(ys.last(), xi); lemma_nozero::<A>(denn::<A>(ys.drop_last(), xi), sub::<A>(ys.last(), xi)); }
    }
}

pub proof fn lemma_cross<A: Fld>(xs: Seq<A::S>, xi: A::S)
    ensures A::mul(num::<A>(xs, A::zero(), xi), denn::<A>(xs, xi)) == A::mul(numn::<A>(xs, xi), num::<A>(xs, xi, xi))
    decreases xs.len()
{
    if xs.len() > 0 {
        let r = xs.drop_last(); let a = xs.last();
        lemma_cross::<A>(r, xi);
        if a != xi {
            let n0 = num::<A>(r, A::zero(), xi); let dn = denn::<A>(r, xi); let nn = numn::<A>(r, xi); let d = num::<A>(r, xi, xi);
            let u = sub::<A>(A::zero(), a); let v = sub::<A>(a, xi); let w = sub::<A>(xi, a);
            // u*v == a*w
            lemma_zero_add::<A>(A::neg(a));             // u = -a
            lemma_neg_mul::<A>(a, v);                   // (-a)*v = -(a*v)
            lemma_neg_sub::<A>(a, xi);                  // -v = w
            lemma_neg_mul::<A>(v, a);                   // a*(-v) = -(v*a)
            A::mul_comm(v, a);
            // (n0*u)*(dn*v) = (n0*dn)*(u*v) ; (nn*a)*(d*w) = (nn*d)*(a*w)
            A::mul_assoc(n0, u, A::mul(dn, v)); A::mul_comm(dn, v); A::mul_assoc(u, v, dn); A::mul_comm(A::mul(u, v), dn); A::mul_assoc(n0, dn, A::mul(u, v));
            A::mul_assoc(nn, a, A::mul(d, w)); A::mul_comm(d, w); A::mul_assoc(a, w, d); A::mul_comm(A::mul(a, w), d); A::mul_assoc(nn, d, A::mul(a, w));
        }
    }
}

// the `None` branch of compute_lagrange_coefficient equals the general form at x = 0
pub proof fn lemma_lag0<A: Fld>(xs: Seq<A::S>, xi: A::S)
    ensures A::mul(numn::<A>(xs, xi), A::inv(denn::<A>(xs, xi))) == basis::<A>(xs, A::zero(), xi)
{
    let n0 = num::<A>(xs, A::zero(), xi); let dn = denn::<A>(xs, xi); let nn = numn::<A>(xs, xi); let d = num::<A>(xs, xi, xi);
    lemma_cross::<A>(xs, xi); lemma_den_nonzero::<A>(xs, xi); lemma_denn_nonzero::<A>(xs, xi);
    let id = A::inv(d); let idn = A::inv(dn);
    A::mul_inv(d); A::mul_inv(dn);
    // n0*id = n0*(dn*idn)*id = (n0*dn)*(idn*id) = (nn*d)*(idn*id) = nn*idn*(d*id) = nn*idn
    A::mul_one(n0); A::mul_assoc(n0, dn, idn);
    A::mul_assoc(A::mul(n0, dn), idn, id);
    A::mul_assoc(n0, A::mul(dn, idn), id); 
    A::mul_assoc(A::mul(nn, d), idn, id); A::mul_comm(idn, id); A::mul_assoc(A::mul(nn, d), id, idn);
    A::mul_assoc(nn, d, id); A::mul_one(nn);
    assert(A::mul(A::mul(n0, A::mul(dn, idn)), id) == A::mul(n0, id));
    assert(A::mul(A::mul(A::mul(n0, dn), idn), id) == A::mul(A::mul(n0, dn), A::mul(idn, id)));
}


// ---- consistency model: the two-element field proves every axiom of `Fld` (vacuity guard) ----
pub struct F2;
impl Fld for F2 {
    type S = bool;
    open spec fn zero() -> bool { false }
    open spec fn one() -> bool { true }
    open spec fn add(a: bool, b: bool) -> bool { a != b }
    open spec fn neg(a: bool) -> bool { a }
    open spec fn mul(a: bool, b: bool) -> bool { a && b }
    open spec fn inv(a: bool) -> bool { a }
    proof fn add_comm(a: bool, b: bool) {}
    proof fn add_assoc(a: bool, b: bool, c: bool) {}
    proof fn add_zero(a: bool) {}
    proof fn add_neg(a: bool) {}
    proof fn mul_comm(a: bool, b: bool) {}
    proof fn mul_assoc(a: bool, b: bool, c: bool) {}
    proof fn mul_one(a: bool) {}
    proof fn distrib(a: bool, b: bool, c: bool) {}
    proof fn mul_inv(a: bool) {}
    proof fn one_ne_zero() {}
}
} // verus!
}
