// lemmas/vspec_agg.rs -- specification vocabulary for signature aggregation (RFC 9591 5.3) with the implementation's
// refusals in guard order (default world), and for the stand-alone share verification.  Written from RFC 9591 and the
// statements of C01/C03/C04/C05.  Re-exported through `crate::vspec`.
pub mod vspec_agg {
#[allow(unused_imports)] use vstd::prelude::*;
#[allow(unused_imports)] use crate::traits::*;
#[allow(unused_imports)] use crate::*;
#[allow(unused_imports)] use crate::vspec::*;
#[allow(unused_imports)] use crate::keys::*;
verus! {
//@module_serves C01 C03 C04 C05

pub type ShareMap<C> = Map<Identifier<C>, crate::round2::SignatureShare<C>>;

// z = sum of the shares over the first n identifiers (ascending identifier order)
pub open spec fn spec_z_sum<C: Ciphersuite>(keys: Seq<Identifier<C>>, shares: ShareMap<C>, n: int) -> Scalar<C> decreases n
{ if n <= 0 { s0::<C>() } else { sadd::<C>(spec_z_sum::<C>(keys, shares, n - 1), shares[keys[n - 1]].share.0) } }

// the refusals of the coordinator before anything is computed, in guard order.  `detect` = cheater detection is not disabled.
pub open spec fn agg_guard_err<C: Ciphersuite>(sp: SigningPackage<C>, shares: ShareMap<C>, pk: PublicKeyPackage<C>, detect: bool) -> Option<Error<C>> {
    let vk = pk.verifying_key.element.0;
    if sp.signing_commitments@.dom().len() != shares.dom().len() { Some(Error::UnknownIdentifier) }
    else if pk.min_signers is Some && shares.dom().len() < pk.min_signers->Some_0 { Some(Error::IncorrectNumberOfShares) }
    else if exists|id: Identifier<C>| #[trigger] sp.signing_commitments@.contains_key(id) && !(shares.contains_key(id) && (detect ==> pk.verifying_shares@.contains_key(id)))
        { Some(Error::UnknownIdentifier) }
    else if vk == e0::<C>() || items_have_identity::<C>(sp_items::<C>(sp)) { Some(Error::GroupError(GroupError::InvalidIdentityElement)) }
    else { None }
}

// the aggregate: (R, z) with R the session's group commitment and z the sum of the submitted shares
pub open spec fn agg_sig<C: Ciphersuite>(sp: SigningPackage<C>, shares: ShareMap<C>, vk: Element<C>) -> Signature<C>
{ Signature::<C> { R: sp_R::<C>(sp, vk), z: spec_z_sum::<C>(sorted_seq(shares.dom()), shares, shares.dom().len() as int) } }

// the participants (ascending) whose share fails the RFC 9591 5.3 share check in the session (sp, vk)
pub open spec fn agg_culprits<C: Ciphersuite>(sp: SigningPackage<C>, shares: ShareMap<C>, pk: PublicKeyPackage<C>) -> Seq<Identifier<C>>
{ spec_culprits::<C>(sorted_seq(shares.dom()), sp, sp_rho_map::<C>(sp, pk.verifying_key.element.0), shares, pk.verifying_shares@,
      sp_c::<C>(sp, pk.verifying_key.element.0), shares.dom().len() as int) }

// what `aggregate_custom` returns (C04): refusals first; otherwise the aggregate if it verifies under the group key; otherwise
// an error that names nobody (detection disabled, or nobody's share fails its check), the lowest-identifier participant whose
// share fails (`first`), or all of them.  The culprit list is a Vec, hence a relation instead of an equation.
pub open spec fn agg_result_is<C: Ciphersuite>(res: Result<Signature<C>, Error<C>>, sp: SigningPackage<C>, shares: ShareMap<C>, pk: PublicKeyPackage<C>, detect: bool, first: bool) -> bool {
    let vk = pk.verifying_key.element.0;
    let sig = agg_sig::<C>(sp, shares, vk);
    let ver = spec_verify::<C>(pk.verifying_key, sp.message@, sig);
    let cu = agg_culprits::<C>(sp, shares, pk);
    if agg_guard_err::<C>(sp, shares, pk, detect) is Some { res is Err && res->Err_0 == agg_guard_err::<C>(sp, shares, pk, detect)->Some_0 }
    else if ver is Ok { res == Ok::<Signature<C>, Error<C>>(sig) }
    else if !detect { res is Err && res->Err_0 == ver->Err_0 }
    else if sp_R::<C>(sp, vk) == e0::<C>() { res is Err && res->Err_0 == Error::<C>::GroupError(GroupError::InvalidIdentityElement) }
    else if cu.len() == 0 { res is Err && res->Err_0 == Error::<C>::InvalidSignature }
    else if first { res is Err && res->Err_0 is InvalidSignatureShare && (res->Err_0->culprits)@ == seq![cu[0]] }
    else { res is Err && res->Err_0 is InvalidSignatureShare && (res->Err_0->culprits)@ == cu }
}

// finite sets: equal size and inclusion give equality (the coordinator's first and third guard together)
pub proof fn lemma_same_ids<C: Ciphersuite>(a: Set<Identifier<C>>, b: Set<Identifier<C>>)
    requires a.finite(), b.finite(), a.len() == b.len(), forall|id: Identifier<C>| #[trigger] a.contains(id) ==> b.contains(id)
    ensures a == b
{
    assert(a.subset_of(b));
    vstd::set_lib::lemma_subset_equality(a, b);
}

// stand-alone verification of one share (RFC 9591 5.3 verify_signature_share), default world: the refusals that do not depend
// on the share, in the order in which the implementation meets them; otherwise the verdict is `sp_share_ok`
pub open spec fn vshare_session_err<C: Ciphersuite>(id: Identifier<C>, sp: SigningPackage<C>, vk: Element<C>) -> Option<Error<C>> {
    if vk == e0::<C>() || items_have_identity::<C>(sp_items::<C>(sp)) { Some(Error::GroupError(GroupError::InvalidIdentityElement)) }
    else if sp_R::<C>(sp, vk) == e0::<C>() { Some(Error::GroupError(GroupError::InvalidIdentityElement)) }
    else if sp.signing_commitments@.dom().len() == 0 { Some(Error::IncorrectNumberOfIdentifiers) }
    else if !sp.signing_commitments@.contains_key(id) { Some(Error::UnknownIdentifier) }
    else { None }
}

} // verus!
}
