// lemmas/vprops_single.rs -- C02 (last sentence): a signature made with an unshared key through the single-signer entry point
// (SigningKey::sign -> single_sign hook -> default_sign, contracts in contracts/sign.vc and contracts/hooks.vc) is an ordinary
// signature of the scheme: it passes RFC 9591 verification under G * key.  No assume/admit/external_body.
pub mod vprops_single {
#[allow(unused_imports)] use vstd::prelude::*;
#[allow(unused_imports)] use crate::traits::*;
#[allow(unused_imports)] use crate::*;
#[allow(unused_imports)] use crate::vspec::*;
#[allow(unused_imports)] use crate::serialization::SerializableElement;
verus! {

// (x + y) - y == x
//@serves C02
pub proof fn lemma_eadd_sub<C: Ciphersuite>(x: Element<C>, y: Element<C>)
    ensures esub::<C>(eadd::<C>(x, y), y) == x
{
    GG::<C>::ax_eadd_assoc(x, y, GG::<C>::e_neg(y));
    GG::<C>::ax_eadd_neg(y);
    GG::<C>::ax_eadd_id(x);
}

//@serves C02
pub proof fn thm_single_sign_verifies<C: Ciphersuite>(sk: SigningKey<C>, stream: spec_fn(nat) -> u8, pos: nat, msg: Seq<u8>)
    requires sk.scalar != s0::<C>(), spec_rnz_ok::<C>(stream, pos),
    ensures spec_verify::<C>(VerifyingKey::<C> { element: SerializableElement(gmul::<C>(sk.scalar)) }, msg, spec_default_single_sign::<C>(sk, stream, pos, msg)) is Ok,
{
    use_id_order::<C>();
    lemma_rnz_props::<C>(stream, pos);
    let k = spec_rnz_val::<C>(stream, pos);
    let s = sk.scalar;
    let vk = VerifyingKey::<C> { element: SerializableElement(gmul::<C>(s)) };
    let r = gmul::<C>(k);
    GG::<C>::ax_gen_ne_id();
    GG::<C>::ax_smul_cancel(eg::<C>(), k);
    GG::<C>::ax_smul_cancel(eg::<C>(), s);
    assert(C::spec_generate_nonce(stream, pos) == (k, r, spec_rnz_end::<C>(stream, pos)));
    let c = C::spec_hook_challenge(r, vk, msg)->Ok_0;
    assert(C::spec_hook_challenge(r, vk, msg) is Ok);
    let sig = spec_default_single_sign::<C>(sk, stream, pos, msg);
    assert(sig.R == r && sig.z == sadd::<C>(k, smul::<C>(c, s)));
    assert(spec_rfc_challenge::<C>(r, vk, msg) == Ok::<Challenge<C>, Error<C>>(Challenge(c)));
    // z*G = k*G + (c*s)*G ;  (s*G)*c = (s*c)*G = (c*s)*G
    GG::<C>::ax_smul_add(eg::<C>(), k, smul::<C>(c, s));
    GG::<C>::ax_smul_mul(eg::<C>(), s, c);
    FF::<C>::ax_mul_comm(c, s);
    let y = emul::<C>(gmul::<C>(s), c);
    assert(gmul::<C>(sig.z) == eadd::<C>(r, y));
    lemma_eadd_sub::<C>(r, y);
    lemma_esub_self::<C>(r);
    assert(spec_delta::<C>(vk, Challenge(c), sig) == e0::<C>());
    lemma_smul_id::<C>(GG::<C>::s_cofactor());
}

} // verus!
}
