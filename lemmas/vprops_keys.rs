// lemmas/vprops_keys.rs -- property-level theorems about dealer key generation (C06, C03) over the contracts'
// spec functions.  Each theorem is tagged with the properties it serves.
pub mod vprops_keys {
#[allow(unused_imports)] use vstd::prelude::*;
#[allow(unused_imports)] use crate::traits::*;
#[allow(unused_imports)] use crate::vspec::*;
#[allow(unused_imports)] use crate::vfield::*;
#[allow(unused_imports)] use crate::keys::*;
#[allow(unused_imports)] use crate::serialization::*;
#[allow(unused_imports)] use crate::*;
verus! {

// VSS completeness:  G * (pw * a(x))  ==  sum_k (a_k G) * (x^k pw)
//@serves C06 C07 C08 C09 C10
pub proof fn lemma_vss_complete<C: Ciphersuite>(a: Seq<Scalar<C>>, x: Scalar<C>, pw: Scalar<C>)
    ensures gmul::<C>(smul::<C>(pw, poly::<AL<C>>(a, x))) == spec_vss::<C>(comm_vals::<C>(spec_commitment::<C>(a)), x, pw)
    decreases a.len()
{
    let g = eg::<C>();
    let cv = comm_vals::<C>(spec_commitment::<C>(a));
    if a.len() == 0 {
        lemma_mul_zero::<AL<C>>(pw); lemma_smul_zero::<C>(g);
    } else {
        let rest = a.drop_first(); let h = poly::<AL<C>>(rest, x);
        lemma_vss_complete::<C>(rest, x, smul::<C>(x, pw));
        assert(cv.drop_first() =~= comm_vals::<C>(spec_commitment::<C>(rest)));
        assert(cv[0] == gmul::<C>(a[0]));
        FF::<C>::ax_distrib(pw, a[0], smul::<C>(h, x));
        FF::<C>::ax_mul_comm(h, x); FF::<C>::ax_mul_assoc(pw, x, h); FF::<C>::ax_mul_comm(pw, x);
        GG::<C>::ax_smul_add(g, smul::<C>(pw, a[0]), smul::<C>(pw, smul::<C>(h, x)));
        FF::<C>::ax_mul_comm(pw, a[0]); GG::<C>::ax_smul_mul(g, a[0], pw);
    }
}

// C06 (completeness): every share the dealer hands out passes verification and converts into a key package whose
// verifying share is G * signing share, whose group key is G * a_0 and whose threshold is the number of coefficients
//@serves C06 C10
pub proof fn thm_dealer_share_verifies<C: Ciphersuite>(sh: SecretShare<C>, id: Identifier<C>, a: Seq<Scalar<C>>)
    requires spec_is_share::<C>(sh, id, a), a.len() >= 1
    ensures
        spec_share_ok::<C>(sh) is Ok,
        spec_key_package_try_from::<C>(sh) is Ok,
        (spec_key_package_try_from::<C>(sh)->Ok_0).identifier == id,
        (spec_key_package_try_from::<C>(sh)->Ok_0).signing_share.0.0 == poly::<AL<C>>(a, id.0.0),
        (spec_key_package_try_from::<C>(sh)->Ok_0).verifying_share == VerifyingShare::<C>(SerializableElement(gmul::<C>(poly::<AL<C>>(a, id.0.0)))),
        (spec_key_package_try_from::<C>(sh)->Ok_0).verifying_key == (VerifyingKey::<C> { element: SerializableElement(gmul::<C>(a[0])) }),
        (spec_key_package_try_from::<C>(sh)->Ok_0).min_signers == a.len() as u16,
{
    lemma_vss_complete::<C>(a, id.0.0, s1::<C>());
    lemma_one_mul::<AL<C>>(poly::<AL<C>>(a, id.0.0));
    assert(sh.commitment.0@.len() == a.len());
    assert(sh.commitment.0@[0].0.0 == gmul::<C>(a[0]));
}

// C06: what `split` returns is consistent for every participant (same group key, recorded threshold t,
// public package entry == verifying share derived by the participant)
//@serves C06
pub proof fn thm_dealer_output_consistent<C: Ciphersuite>(shares: Map<Identifier<C>, SecretShare<C>>, pk: PublicKeyPackage<C>,
        ids: Seq<Identifier<C>>, a: Seq<Scalar<C>>, t: u16, id: Identifier<C>)
    requires spec_dealer_output::<C>(shares, pk, ids, a, t), a.len() == t, t >= 1, ids.contains(id)
    ensures
        spec_key_package_try_from::<C>(shares[id]) is Ok,
        (spec_key_package_try_from::<C>(shares[id])->Ok_0).verifying_share == pk.verifying_shares@[id],
        (spec_key_package_try_from::<C>(shares[id])->Ok_0).verifying_share.0.0 == gmul::<C>((spec_key_package_try_from::<C>(shares[id])->Ok_0).signing_share.0.0),
        (spec_key_package_try_from::<C>(shares[id])->Ok_0).verifying_key == pk.verifying_key,
        (spec_key_package_try_from::<C>(shares[id])->Ok_0).min_signers == t,
        pk.min_signers == Some(t),
        pk.verifying_key.element.0 == gmul::<C>(a[0]),
{
    thm_dealer_share_verifies::<C>(shares[id], id, a);
}

// C06/C03: any set of at least t=|a| packages with distinct identifiers whose shares lie on the polynomial
// interpolates to a_0 (the key that was split) -- what `reconstruct` returns
//@serves C06 C03
pub proof fn thm_reconstruct<C: Ciphersuite>(kps: Seq<KeyPackage<C>>, a: Seq<Scalar<C>>)
    requires
        kp_ids::<C>(kps).no_duplicates(), 1 <= a.len() <= kps.len(),
        forall|k: int| 0 <= k < kps.len() ==> (#[trigger] kps[k]).signing_share.0.0 == poly::<AL<C>>(a, kps[k].identifier.0.0),
    ensures spec_interpolate0::<C>(kps, sorted_seq(kp_ids::<C>(kps).to_set()), kps.len() as nat) == a[0]
{
    use_id_order::<C>();
    let ids = kp_ids::<C>(kps);
    let srt = sorted_seq(ids.to_set());
    // the sorted sequence exists: ids itself need not be sorted, but a sorted permutation exists because the set is finite
    lemma_sorted_exists::<C>(ids.to_set());
    let g = lag_term::<C>(srt, a, s0::<C>());
    srt.unique_seq_to_set(); ids.unique_seq_to_set();
    lemma_interpolate_at::<C>(srt, a, s0::<C>());
    lemma_poly_at_zero::<C>(a);
    lemma_id_sum_perm::<C>(ids, srt, g);
    lemma_interp0_as_id_sum::<C>(kps, srt, a, kps.len() as nat);
    assert(ids.take(kps.len() as int) =~= ids);
}

//@serves C06 C03
pub proof fn lemma_interp0_as_id_sum<C: Ciphersuite>(kps: Seq<KeyPackage<C>>, srt: Seq<Identifier<C>>, a: Seq<Scalar<C>>, n: nat)
    requires n <= kps.len(),
        forall|k: int| 0 <= k < kps.len() ==> (#[trigger] kps[k]).signing_share.0.0 == poly::<AL<C>>(a, kps[k].identifier.0.0),
    ensures spec_interpolate0::<C>(kps, srt, n) == id_sum::<C>(kp_ids::<C>(kps).take(n as int), lag_term::<C>(srt, a, s0::<C>()))
    decreases n
{
    if n > 0 {
        let ids = kp_ids::<C>(kps);
        lemma_interp0_as_id_sum::<C>(kps, srt, a, (n - 1) as nat);
        assert(ids.take(n as int).drop_last() =~= ids.take(n - 1));
        assert(ids.take(n as int).last() == kps[n - 1].identifier);
        let i = kps[n - 1].identifier;
        lemma_lag0::<AL<C>>(scalars::<C>(srt), i.0.0);
        FF::<C>::ax_mul_comm(spec_lagrange::<C>(srt, None, i), kps[n - 1].signing_share.0.0);
    }
}

// C06 (soundness, value): a share whose secret value was altered is rejected
//@serves C06 C08
pub proof fn thm_tampered_value_rejected<C: Ciphersuite>(sh: SecretShare<C>, id: Identifier<C>, a: Seq<Scalar<C>>, bad: SecretShare<C>)
    requires spec_is_share::<C>(sh, id, a), a.len() >= 1,
        bad.identifier == sh.identifier, bad.commitment == sh.commitment, bad.signing_share.0.0 != sh.signing_share.0.0,
    ensures spec_share_ok::<C>(bad) is Err, spec_share_ok::<C>(bad)->Err_0 == (Error::<C>::InvalidSecretShare { culprit: None })
{
    thm_dealer_share_verifies::<C>(sh, id, a);
    if gmul::<C>(bad.signing_share.0.0) == gmul::<C>(sh.signing_share.0.0) { lemma_gen_inj::<C>(bad.signing_share.0.0, sh.signing_share.0.0); }
}

pub open spec fn spow<C: Ciphersuite>(x: Scalar<C>, k: nat) -> Scalar<C> decreases k
{ if k == 0 { s1::<C>() } else { smul::<C>(x, spow::<C>(x, (k - 1) as nat)) } }

// changing coefficient k of a commitment by d changes the VSS right-hand side by d * (x^k pw)
//@serves C06 C08
pub proof fn lemma_vss_update<C: Ciphersuite>(c: Seq<Element<C>>, x: Scalar<C>, pw: Scalar<C>, k: int, d: Element<C>)
    requires 0 <= k < c.len()
    ensures spec_vss::<C>(c.update(k, eadd::<C>(c[k], d)), x, pw) == eadd::<C>(spec_vss::<C>(c, x, pw), emul::<C>(d, smul::<C>(spow::<C>(x, k as nat), pw)))
    decreases c.len()
{
    let c2 = c.update(k, eadd::<C>(c[k], d));
    let rest = spec_vss::<C>(c.drop_first(), x, smul::<C>(x, pw));
    if k == 0 {
        assert(c2.drop_first() =~= c.drop_first());
        GG::<C>::ax_smul_eadd(c[0], d, pw);
        lemma_one_mul::<AL<C>>(pw);
        // (c0 pw + d pw) + rest == (c0 pw + rest) + d pw
        GG::<C>::ax_eadd_assoc(emul::<C>(c[0], pw), emul::<C>(d, pw), rest);
        GG::<C>::ax_eadd_comm(emul::<C>(d, pw), rest);
        GG::<C>::ax_eadd_assoc(emul::<C>(c[0], pw), rest, emul::<C>(d, pw));
    } else {
        lemma_vss_update::<C>(c.drop_first(), x, smul::<C>(x, pw), k - 1, d);
        assert(c2.drop_first() =~= c.drop_first().update(k - 1, eadd::<C>(c.drop_first()[k - 1], d)));
        assert(c2[0] == c[0]);
        // x^(k-1) * (x pw) == x^k * pw
        let p1 = spow::<C>(x, (k - 1) as nat);
        FF::<C>::ax_mul_assoc(p1, x, pw); FF::<C>::ax_mul_comm(p1, x);
        GG::<C>::ax_eadd_assoc(emul::<C>(c[0], pw), rest, emul::<C>(d, smul::<C>(smul::<C>(x, p1), pw)));
    }
}

//@serves C06 C08
pub proof fn lemma_spow_nonzero<C: Ciphersuite>(x: Scalar<C>, k: nat)
    requires x != s0::<C>()
    ensures spow::<C>(x, k) != s0::<C>()
    decreases k
{
    FF::<C>::ax_one_ne_zero();
    if k > 0 { lemma_spow_nonzero::<C>(x, (k - 1) as nat); lemma_nozero::<AL<C>>(x, spow::<C>(x, (k - 1) as nat)); }
}

// C06 (soundness, commitment): altering any single coefficient of the commitment makes the share fail
//@serves C06 C08
pub proof fn thm_tampered_commitment_rejected<C: Ciphersuite>(sh: SecretShare<C>, id: Identifier<C>, a: Seq<Scalar<C>>, bad: SecretShare<C>, k: int)
    requires spec_is_share::<C>(sh, id, a), a.len() >= 1, id.0.0 != s0::<C>(),
        bad.identifier == sh.identifier, bad.signing_share == sh.signing_share, 0 <= k < a.len(),
        bad.commitment.0@.len() == a.len(),
        forall|j: int| 0 <= j < a.len() && j != k ==> bad.commitment.0@[j] == sh.commitment.0@[j],
        bad.commitment.0@[k].0.0 != sh.commitment.0@[k].0.0,
    ensures spec_share_ok::<C>(bad) is Err, spec_share_ok::<C>(bad)->Err_0 == (Error::<C>::InvalidSecretShare { culprit: None })
{
    thm_dealer_share_verifies::<C>(sh, id, a);
    let c = comm_vals::<C>(sh.commitment.0@); let c2 = comm_vals::<C>(bad.commitment.0@);
    let d = esub::<C>(c2[k], c[k]);
    // c2[k] == c[k] + d
    GG::<C>::ax_eadd_comm(c2[k], GG::<C>::e_neg(c[k])); GG::<C>::ax_eadd_assoc(c[k], GG::<C>::e_neg(c[k]), c2[k]);
    GG::<C>::ax_eadd_neg(c[k]); lemma_eid_add::<C>(c2[k]);
    assert(c2 =~= c.update(k, eadd::<C>(c[k], d)));
    lemma_vss_update::<C>(c, id.0.0, s1::<C>(), k, d);
    lemma_esub_zero::<C>(c2[k], c[k]);
    let e = smul::<C>(spow::<C>(id.0.0, k as nat), s1::<C>());
    lemma_spow_nonzero::<C>(id.0.0, k as nat); FF::<C>::ax_mul_one(spow::<C>(id.0.0, k as nat));
    GG::<C>::ax_smul_cancel(d, e);
    let v = spec_vss::<C>(c, id.0.0, s1::<C>());
    if eadd::<C>(v, emul::<C>(d, e)) == v { GG::<C>::ax_eadd_id(v); lemma_eadd_cancel::<C>(v, emul::<C>(d, e), e0::<C>()); }
}

} // verus!
}
