// lemmas/vgroup.rs -- derived facts about the abstract prime-order group with scalar action (from the axioms
// in prelude/traits.rs only; no assume/admit/external_body).
pub mod vgroup {
#[allow(unused_imports)] use vstd::prelude::*;
#[allow(unused_imports)] use crate::traits::*;
#[allow(unused_imports)] use crate::vspec::*;
#[allow(unused_imports)] use crate::vfield::*;
verus! {
//@module_serves ALL

pub proof fn lemma_eid_add<C: Ciphersuite>(a: Element<C>)
    ensures eadd::<C>(e0::<C>(), a) == a
{ GG::<C>::ax_eadd_comm(e0::<C>(), a); GG::<C>::ax_eadd_id(a); }

// a + x == a + y ==> x == y
pub proof fn lemma_eadd_cancel<C: Ciphersuite>(a: Element<C>, x: Element<C>, y: Element<C>)
    requires eadd::<C>(a, x) == eadd::<C>(a, y)
    ensures x == y
{
    let na = GG::<C>::e_neg(a);
    GG::<C>::ax_eadd_neg(a); GG::<C>::ax_eadd_comm(a, na);
    GG::<C>::ax_eadd_assoc(na, a, x); GG::<C>::ax_eadd_assoc(na, a, y);
    lemma_eid_add::<C>(x); lemma_eid_add::<C>(y);
}

pub proof fn lemma_smul_zero<C: Ciphersuite>(a: Element<C>)
    ensures emul::<C>(a, s0::<C>()) == e0::<C>()
{
    let z = emul::<C>(a, s0::<C>());
    FF::<C>::ax_add_zero(s0::<C>());
    GG::<C>::ax_smul_add(a, s0::<C>(), s0::<C>());
    GG::<C>::ax_eadd_id(z);
    lemma_eadd_cancel::<C>(z, z, e0::<C>());
}

pub proof fn lemma_smul_id<C: Ciphersuite>(k: Scalar<C>)
    ensures emul::<C>(e0::<C>(), k) == e0::<C>()
{
    let z = emul::<C>(e0::<C>(), k);
    GG::<C>::ax_eadd_id(e0::<C>());
    GG::<C>::ax_smul_eadd(e0::<C>(), e0::<C>(), k);
    GG::<C>::ax_eadd_id(z);
    lemma_eadd_cancel::<C>(z, z, e0::<C>());
}

// (-a) is the unique inverse
pub proof fn lemma_eneg_unique<C: Ciphersuite>(a: Element<C>, b: Element<C>)
    requires eadd::<C>(a, b) == e0::<C>()
    ensures b == GG::<C>::e_neg(a)
{ GG::<C>::ax_eadd_neg(a); lemma_eadd_cancel::<C>(a, b, GG::<C>::e_neg(a)); }

pub proof fn lemma_smul_neg<C: Ciphersuite>(a: Element<C>, k: Scalar<C>)
    ensures emul::<C>(a, FF::<C>::s_neg(k)) == GG::<C>::e_neg(emul::<C>(a, k))
{
    GG::<C>::ax_smul_add(a, k, FF::<C>::s_neg(k));
    FF::<C>::ax_add_neg(k);
    lemma_smul_zero::<C>(a);
    lemma_eneg_unique::<C>(emul::<C>(a, k), emul::<C>(a, FF::<C>::s_neg(k)));
}

pub proof fn lemma_esub_self<C: Ciphersuite>(a: Element<C>)
    ensures esub::<C>(a, a) == e0::<C>()
{ GG::<C>::ax_eadd_neg(a); }

// a - b == 0  <==>  a == b
pub proof fn lemma_esub_zero<C: Ciphersuite>(a: Element<C>, b: Element<C>)
    ensures (esub::<C>(a, b) == e0::<C>()) == (a == b)
{
    if esub::<C>(a, b) == e0::<C>() {
        // a = a + 0 = a + (-b + b) = (a - b) + b = b
        let nb = GG::<C>::e_neg(b);
        GG::<C>::ax_eadd_neg(b); GG::<C>::ax_eadd_comm(b, nb);
        GG::<C>::ax_eadd_assoc(a, nb, b);
        GG::<C>::ax_eadd_id(a);
        lemma_eid_add::<C>(b);
    } else if a == b {
        lemma_esub_self::<C>(a);
    }
}

// prime order: k*G is injective in k
pub proof fn lemma_gen_inj<C: Ciphersuite>(a: Scalar<C>, b: Scalar<C>)
    requires gmul::<C>(a) == gmul::<C>(b)
    ensures a == b
{
    let g = eg::<C>();
    let d = ssub::<C>(a, b);
    // (a - b) G = aG - bG = 0
    GG::<C>::ax_smul_add(g, a, FF::<C>::s_neg(b));
    lemma_smul_neg::<C>(g, b);
    lemma_esub_self::<C>(gmul::<C>(a));
    GG::<C>::ax_smul_cancel(g, d);
    GG::<C>::ax_gen_ne_id();
    if a != b { lemma_sub_nonzero::<AL<C>>(a, b); }
}

// a*P == b*P and P != 0  ==>  a == b
pub proof fn lemma_smul_inj<C: Ciphersuite>(p: Element<C>, a: Scalar<C>, b: Scalar<C>)
    requires emul::<C>(p, a) == emul::<C>(p, b), p != e0::<C>()
    ensures a == b
{
    let d = ssub::<C>(a, b);
    GG::<C>::ax_smul_add(p, a, FF::<C>::s_neg(b));
    lemma_smul_neg::<C>(p, b);
    lemma_esub_self::<C>(emul::<C>(p, a));
    GG::<C>::ax_smul_cancel(p, d);
    if a != b { lemma_sub_nonzero::<AL<C>>(a, b); }
}

} // verus!
}
