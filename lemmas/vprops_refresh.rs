// lemmas/vprops_refresh.rs -- property-level theorems about share refresh (C10) over the contracts' spec functions
// (trusted-dealer variant: lemmas/vspec.rs "share refresh"; distributed variant: lemmas/vspec_refresh.rs).
pub mod vprops_refresh {
#[allow(unused_imports)] use vstd::prelude::*;
#[allow(unused_imports)] use crate::traits::*;
#[allow(unused_imports)] use crate::vspec::*;
#[allow(unused_imports)] use crate::vspec_refresh::*;
#[allow(unused_imports)] use crate::vfield::*;
#[allow(unused_imports)] use crate::keys::*;
#[allow(unused_imports)] use crate::serialization::*;
#[allow(unused_imports)] use crate::vprops_keys::*;
#[allow(unused_imports)] use crate::*;
verus! {

} // verus!
}
