// lemmas/vprops_refresh.rs -- property-level theorems about share refresh (C10) over the contracts' spec functions
// (trusted-dealer variant: lemmas/vspec.rs "share refresh"; distributed variant: lemmas/vspec_refresh.rs).
pub mod vprops_refresh {
#[allow(unused_imports)] use vstd::prelude::*;
#[allow(unused_imports)] use crate::traits::*;
#[allow(unused_imports)] use crate::vspec::*;
#[allow(unused_imports)] use crate::vspec_refresh::*;
#[allow(unused_imports)] use crate::vfield::*;
#[allow(unused_imports)] use crate::keys::*;
#[allow(unused_imports)] use crate::serialization::*;
#[allow(unused_imports)] use crate::vprops_keys::*;
#[allow(unused_imports)] use crate::*;
verus! {

// ===================================================================================================
// algebra used below

// (a + b) + (x + y) == (a + x) + (b + y)
//@serves C10
pub proof fn lemma_add4<C: Ciphersuite>(a: Scalar<C>, b: Scalar<C>, x: Scalar<C>, y: Scalar<C>)
    ensures sadd::<C>(sadd::<C>(a, b), sadd::<C>(x, y)) == sadd::<C>(sadd::<C>(a, x), sadd::<C>(b, y))
{
    FF::<C>::ax_add_assoc(a, b, sadd::<C>(x, y)); FF::<C>::ax_add_assoc(b, x, y); FF::<C>::ax_add_comm(b, x);
    FF::<C>::ax_add_assoc(x, b, y); FF::<C>::ax_add_assoc(a, x, sadd::<C>(b, y));
}

// coefficient-wise sum of two polynomials of the same length
pub open spec fn padd<C: Ciphersuite>(a: Seq<Scalar<C>>, b: Seq<Scalar<C>>) -> Seq<Scalar<C>>
{ Seq::new(a.len(), |i: int| sadd::<C>(a[i], b[i])) }

// (a + b)(x) == a(x) + b(x)
//@serves C10
pub proof fn lemma_poly_add<C: Ciphersuite>(a: Seq<Scalar<C>>, b: Seq<Scalar<C>>, x: Scalar<C>)
    requires a.len() == b.len()
    ensures poly::<AL<C>>(padd::<C>(a, b), x) == sadd::<C>(poly::<AL<C>>(a, x), poly::<AL<C>>(b, x))
    decreases a.len()
{
    if a.len() == 0 {
        FF::<C>::ax_add_zero(s0::<C>());
    } else {
        let a1 = a.drop_first(); let b1 = b.drop_first();
        lemma_poly_add::<C>(a1, b1, x);
        assert(padd::<C>(a, b).drop_first() =~= padd::<C>(a1, b1));
        let pa = poly::<AL<C>>(a1, x); let pb = poly::<AL<C>>(b1, x);
        // (pa + pb) * x == pa * x + pb * x
        FF::<C>::ax_mul_comm(sadd::<C>(pa, pb), x); FF::<C>::ax_distrib(x, pa, pb); FF::<C>::ax_mul_comm(x, pa); FF::<C>::ax_mul_comm(x, pb);
        lemma_add4::<C>(a[0], b[0], smul::<C>(pa, x), smul::<C>(pb, x));
    }
}

// G * 0 is the identity: the commitment to a zero constant term is the entry that refresh strips and re-inserts
//@serves C10
pub proof fn lemma_recompleted_commitment<C: Ciphersuite>(r: Seq<Scalar<C>>)
    requires r.len() >= 1, r[0] == s0::<C>()
    ensures spec_with_identity::<C>(spec_stripped_commitment::<C>(r)) == spec_commitment::<C>(r),
        spec_with_identity::<C>(spec_commitment::<C>(r).drop_first()) == spec_commitment::<C>(r)
{
    lemma_smul_zero::<C>(eg::<C>());
    assert(spec_commitment::<C>(r)[0] == identity_cc::<C>());
    assert(spec_with_identity::<C>(spec_commitment::<C>(r).drop_first()) =~= spec_commitment::<C>(r));
}

// ===================================================================================================
// (i) refresh by a trusted dealer: compute_refreshing_shares (contract: spec_refresh_output) followed by refresh_share (spec_refresh_share)

// C10: the group verifying key, the threshold and the header are unchanged; the refreshed public key package lists exactly the
// identifiers that take part (a participant that is left out is REMOVED from the package)
//@serves C10
pub proof fn thm_dealer_refresh_group_key_unchanged<C: Ciphersuite>(out: Seq<SecretShare<C>>, npk: PublicKeyPackage<C>, pk: PublicKeyPackage<C>,
        ids: Seq<Identifier<C>>, r: Seq<Scalar<C>>)
    requires spec_refresh_output::<C>(out, npk, pk, ids, r)
    ensures npk.verifying_key == pk.verifying_key, npk.min_signers == pk.min_signers, npk.header == pk.header,
        npk.verifying_shares@.dom() == ids.to_set(), out.len() == ids.len(),
        forall|id: Identifier<C>| !ids.contains(id) ==> !npk.verifying_shares@.contains_key(id),
{
    assert(ids.take(ids.len() as int) =~= ids);
}

// C10: for EVERY participant k of the refresh, refresh_share applied to the share the dealer made for it and to its current (consistent)
// key package succeeds, and the refreshed key package has the same identifier, threshold and group key, the signing share
// old + r(id), a verifying share equal to G * (new signing share) AND to its entry in the refreshed public key package
//@serves C10
pub proof fn thm_dealer_refresh_package_relinked<C: Ciphersuite>(out: Seq<SecretShare<C>>, npk: PublicKeyPackage<C>, pk: PublicKeyPackage<C>,
        ids: Seq<Identifier<C>>, r: Seq<Scalar<C>>, k: int, cur: KeyPackage<C>)
    requires spec_refresh_output::<C>(out, npk, pk, ids, r), 1 <= r.len() <= 65535, r[0] == s0::<C>(), 0 <= k < ids.len(),
        // the participant's current package is the one the old public key package describes
        cur.identifier == ids[k], cur.min_signers == r.len(), cur.verifying_key == pk.verifying_key,
        cur.verifying_share.0.0 == gmul::<C>(cur.signing_share.0.0), pk.verifying_shares@[ids[k]] == cur.verifying_share,
    ensures
        spec_refresh_share::<C>(out[k], cur) is Ok,
        (spec_refresh_share::<C>(out[k], cur)->Ok_0).identifier == cur.identifier,
        (spec_refresh_share::<C>(out[k], cur)->Ok_0).min_signers == cur.min_signers,
        (spec_refresh_share::<C>(out[k], cur)->Ok_0).verifying_key == cur.verifying_key,
        (spec_refresh_share::<C>(out[k], cur)->Ok_0).verifying_key == npk.verifying_key,
        (spec_refresh_share::<C>(out[k], cur)->Ok_0).header == cur.header,
        (spec_refresh_share::<C>(out[k], cur)->Ok_0).signing_share.0.0 == sadd::<C>(poly::<AL<C>>(r, ids[k].0.0), cur.signing_share.0.0),
        (spec_refresh_share::<C>(out[k], cur)->Ok_0).verifying_share.0.0 == gmul::<C>((spec_refresh_share::<C>(out[k], cur)->Ok_0).signing_share.0.0),
        (spec_refresh_share::<C>(out[k], cur)->Ok_0).verifying_share == npk.verifying_shares@[ids[k]],
{
    let id = ids[k];
    let sh = out[k];
    assert(spec_is_refreshing_share::<C>(sh, id, r));
    lemma_recompleted_commitment::<C>(r);
    // VSS check of r(id) against the re-completed commitment G*r
    lemma_vss_complete::<C>(r, id.0.0, s1::<C>());
    lemma_one_mul::<AL<C>>(poly::<AL<C>>(r, id.0.0));
    assert(spec_commitment::<C>(r).len() == r.len());
    // G*(r(id) + s) == G*r(id) + G*s == entry of the refreshed public key package
    GG::<C>::ax_smul_add(eg::<C>(), poly::<AL<C>>(r, id.0.0), cur.signing_share.0.0);
}

// C10: a refreshing share whose re-completed commitment does not have exactly the participant's threshold many entries is refused with
// InvalidMinSigners (a refresh cannot change the threshold)
//@serves C10
pub proof fn thm_refresh_share_threshold_change_rejected<C: Ciphersuite>(rs: SecretShare<C>, cur: KeyPackage<C>)
    requires spec_refresh_share_ok::<C>(rs.identifier, rs.signing_share.0.0, rs.commitment.0@) is Ok,
        ((rs.commitment.0@.len() + 1) as u16) != cur.min_signers
    ensures spec_refresh_share::<C>(rs, cur) == Err::<KeyPackage<C>, Error<C>>(Error::InvalidMinSigners)
{
    assert(spec_with_identity::<C>(rs.commitment.0@).len() == rs.commitment.0@.len() + 1);
}

// C10 (both variants): against the published (stripped) commitment of a polynomial a, re-completed with the identity, the scalar f is
// accepted at identifier `own` exactly when  f == a(own) - a_0.  So the honest share a(own) is accepted iff the constant term a_0 is ZERO:
// a refreshing contribution with a non-zero constant term is rejected with InvalidSecretShare
//@serves C10
pub proof fn thm_refresh_share_accepted_iff<C: Ciphersuite>(own: Identifier<C>, f: Scalar<C>, a: Seq<Scalar<C>>)
    requires a.len() >= 1
    ensures (spec_refresh_share_ok::<C>(own, f, spec_stripped_commitment::<C>(a)) is Ok) == (sadd::<C>(a[0], f) == poly::<AL<C>>(a, own.0.0)),
        sadd::<C>(a[0], f) != poly::<AL<C>>(a, own.0.0)
            ==> spec_refresh_share_ok::<C>(own, f, spec_stripped_commitment::<C>(a)) == Err::<(), Error<C>>(Error::InvalidSecretShare { culprit: None }),
{
    // a' = a with the constant term replaced by zero: the re-completed commitment is the commitment of a'
    let a1 = seq![s0::<C>()] + a.drop_first();
    assert(a1.drop_first() =~= a.drop_first());
    assert(spec_commitment::<C>(a1).drop_first() =~= spec_commitment::<C>(a).drop_first());
    lemma_recompleted_commitment::<C>(a1);
    let x = own.0.0;
    lemma_vss_complete::<C>(a1, x, s1::<C>());
    lemma_one_mul::<AL<C>>(poly::<AL<C>>(a1, x));
    assert(spec_commitment::<C>(a1).len() == a1.len());
    let t = smul::<C>(poly::<AL<C>>(a.drop_first(), x), x);
    // a'(x) == 0 + t,  a(x) == a_0 + t
    lemma_zero_add::<AL<C>>(t);
    assert(poly::<AL<C>>(a1, x) == t);
    assert(poly::<AL<C>>(a, x) == sadd::<C>(a[0], t));
    if gmul::<C>(f) == gmul::<C>(t) { lemma_gen_inj::<C>(f, t); }
    if sadd::<C>(a[0], f) == sadd::<C>(a[0], t) { lemma_add_cancel::<AL<C>>(a[0], f, t); }
}

// C10: the share of a polynomial with NON-ZERO constant term is rejected by refresh_share (trusted dealer) ...
//@serves C10
pub proof fn thm_nonzero_constant_rejected<C: Ciphersuite>(rs: SecretShare<C>, cur: KeyPackage<C>, a: Seq<Scalar<C>>)
    requires a.len() >= 1, a[0] != s0::<C>(),
        rs.signing_share.0.0 == poly::<AL<C>>(a, rs.identifier.0.0), rs.commitment.0@ == spec_stripped_commitment::<C>(a)
    ensures spec_refresh_share::<C>(rs, cur) == Err::<KeyPackage<C>, Error<C>>(Error::InvalidSecretShare { culprit: None }),
        // ... and by refresh_dkg_shares (distributed), whoever the recipient `rs.identifier` is
        spec_refresh_share_ok::<C>(rs.identifier, poly::<AL<C>>(a, rs.identifier.0.0), spec_stripped_commitment::<C>(a)) == Err::<(), Error<C>>(Error::InvalidSecretShare { culprit: None }),
{
    let f = poly::<AL<C>>(a, rs.identifier.0.0);
    thm_refresh_share_accepted_iff::<C>(rs.identifier, f, a);
    if sadd::<C>(a[0], f) == f { lemma_zero_add::<AL<C>>(f); FF::<C>::ax_add_comm(a[0], f); FF::<C>::ax_add_comm(s0::<C>(), f); lemma_add_cancel::<AL<C>>(f, a[0], s0::<C>()); }
}

// ===================================================================================================
// "any t refreshed participants can sign": the refreshed shares are again evaluations of ONE polynomial of degree t-1 with the SAME constant
// term (old polynomial + refreshing polynomial), so any >= t of them interpolate to the same secret (what `reconstruct` returns and what
// the Lagrange-weighted signature shares of `sign` add up to: C01)

//@serves C10
pub proof fn thm_refreshed_shares_reconstruct<C: Ciphersuite>(kps: Seq<KeyPackage<C>>, f: Seq<Scalar<C>>, r: Seq<Scalar<C>>)
    requires
        kp_ids::<C>(kps).no_duplicates(), f.len() == r.len(), 1 <= f.len() <= kps.len(), r[0] == s0::<C>(),
        // every package holds  r(id) + f(id)  (the value spec_refresh_share / spec_refresh_new_share computes from the old share f(id))
        forall|k: int| 0 <= k < kps.len() ==> (#[trigger] kps[k]).signing_share.0.0
            == sadd::<C>(poly::<AL<C>>(r, kps[k].identifier.0.0), poly::<AL<C>>(f, kps[k].identifier.0.0)),
    ensures spec_interpolate0::<C>(kps, sorted_seq(kp_ids::<C>(kps).to_set()), kps.len() as nat) == f[0]
{
    let g = padd::<C>(r, f);
    assert forall|k: int| 0 <= k < kps.len() implies (#[trigger] kps[k]).signing_share.0.0 == poly::<AL<C>>(g, kps[k].identifier.0.0) by {
        lemma_poly_add::<C>(r, f, kps[k].identifier.0.0);
    }
    thm_reconstruct::<C>(kps, g);
    lemma_zero_add::<AL<C>>(f[0]);
}

// ===================================================================================================
// "a signer set mixing pre-refresh and post-refresh shares, or including a removed participant, fails" -- the algebraic core.
// Interpolation is linear in the shares:

//@serves C10
pub proof fn lemma_interpolate0_add<C: Ciphersuite>(kps: Seq<KeyPackage<C>>, base: Seq<KeyPackage<C>>, err: Seq<KeyPackage<C>>, srt: Seq<Identifier<C>>, n: nat)
    requires n <= kps.len(), kps.len() == base.len(), kps.len() == err.len(),
        forall|k: int| 0 <= k < kps.len() ==> (#[trigger] kps[k]).identifier == base[k].identifier && kps[k].identifier == err[k].identifier
            && kps[k].signing_share.0.0 == sadd::<C>(base[k].signing_share.0.0, err[k].signing_share.0.0),
    ensures spec_interpolate0::<C>(kps, srt, n) == sadd::<C>(spec_interpolate0::<C>(base, srt, n), spec_interpolate0::<C>(err, srt, n))
    decreases n
{
    if n == 0 {
        FF::<C>::ax_add_zero(s0::<C>());
    } else {
        lemma_interpolate0_add::<C>(kps, base, err, srt, (n - 1) as nat);
        let l = spec_lagrange::<C>(srt, None, kps[n - 1].identifier);
        let b = base[n - 1].signing_share.0.0; let e = err[n - 1].signing_share.0.0;
        assert(kps[n - 1].identifier == base[n - 1].identifier && kps[n - 1].identifier == err[n - 1].identifier);
        FF::<C>::ax_distrib(l, b, e);
        lemma_add4::<C>(spec_interpolate0::<C>(base, srt, (n - 1) as nat), spec_interpolate0::<C>(err, srt, (n - 1) as nat), smul::<C>(l, b), smul::<C>(l, e));
    }
}

// C10 (mixing): take >= t distinct participants; `base` holds their PRE-refresh shares f(id); `kps` holds what they actually use, namely
// pre-refresh share + err, where err is r(id) for a participant that uses its refreshed share and 0 for one that uses its old share (a
// REMOVED participant only has an old share).  Then the value the set interpolates to (the key its signature shares add up to) is
//        secret  +  sum_{k} lambda_k(0) * err_k
// so the set recovers the group secret IF AND ONLY IF the Lagrange-weighted sum of the refresh values over the refreshed members vanishes.
// For an all-refreshed set that sum is r(0) = 0 (thm_refreshed_shares_reconstruct); for a mixed set it is a non-trivial linear combination
// of the fresh random coefficients of r (zero only with probability 1/q over the dealer's draws -- that last step is probabilistic and
// not decided here).
//@serves C10
pub proof fn thm_mixed_shares_miss_the_secret<C: Ciphersuite>(kps: Seq<KeyPackage<C>>, base: Seq<KeyPackage<C>>, err: Seq<KeyPackage<C>>, f: Seq<Scalar<C>>)
    requires kp_ids::<C>(kps).no_duplicates(), 1 <= f.len() <= kps.len(), kps.len() == base.len(), kps.len() == err.len(),
        forall|k: int| 0 <= k < kps.len() ==> (#[trigger] kps[k]).identifier == base[k].identifier && kps[k].identifier == err[k].identifier
            && base[k].signing_share.0.0 == poly::<AL<C>>(f, kps[k].identifier.0.0)
            && kps[k].signing_share.0.0 == sadd::<C>(base[k].signing_share.0.0, err[k].signing_share.0.0),
    ensures ({
        let srt = sorted_seq(kp_ids::<C>(kps).to_set());
        let got = spec_interpolate0::<C>(kps, srt, kps.len() as nat);
        let deviation = spec_interpolate0::<C>(err, srt, kps.len() as nat);
        got == sadd::<C>(f[0], deviation) && ((got == f[0]) == (deviation == s0::<C>()))
    })
{
    let srt = sorted_seq(kp_ids::<C>(kps).to_set());
    let n = kps.len() as nat;
    lemma_interpolate0_add::<C>(kps, base, err, srt, n);
    assert(kp_ids::<C>(base) =~= kp_ids::<C>(kps));
    assert forall|k: int| 0 <= k < base.len() implies (#[trigger] base[k]).signing_share.0.0 == poly::<AL<C>>(f, base[k].identifier.0.0) by {
        assert(kps[k].identifier == base[k].identifier);
    }
    thm_reconstruct::<C>(base, f);
    let deviation = spec_interpolate0::<C>(err, srt, n);
    FF::<C>::ax_add_zero(f[0]);
    if sadd::<C>(f[0], deviation) == f[0] { lemma_add_cancel::<AL<C>>(f[0], deviation, s0::<C>()); }
}

// ===================================================================================================
// (iii) distributed refresh: refresh_dkg_part2 (spec_refresh_part2_err / _ok) and refresh_dkg_shares (spec_refresh_dkg_err / _output)

// C10: refresh_dkg_part2 refuses a round-1 package whose re-completed commitment does not have exactly t entries (a participant trying to
// refresh with another threshold), with the exact error, once the package count is right
//@serves C10
pub proof fn thm_refresh_part2_rejects_wrong_threshold<C: Ciphersuite>(sp: crate::keys::dkg::round1::SecretPackage<C>,
        r1: Map<Identifier<C>, crate::keys::dkg::round1::Package<C>>, id: Identifier<C>)
    requires r1.dom().len() == sp.max_signers - 1, r1.contains_key(id), r1[id].commitment.0@.len() + 1 != sp.min_signers
    ensures spec_refresh_part2_err::<C>(sp, r1) == Some(Error::<C>::IncorrectNumberOfCommitments)
{
    assert(spec_with_identity::<C>(r1[id].commitment.0@).len() == r1[id].commitment.0@.len() + 1);
}

// C10: the round-2 share an honest participant (polynomial r with ZERO constant term, published commitment = stripped commitment of r)
// sends to `own` passes the check refresh_dkg_shares makes
//@serves C10
pub proof fn thm_refresh_honest_share_accepted<C: Ciphersuite>(own: Identifier<C>, r: Seq<Scalar<C>>)
    requires r.len() >= 1, r[0] == s0::<C>()
    ensures spec_refresh_share_ok::<C>(own, poly::<AL<C>>(r, own.0.0), spec_stripped_commitment::<C>(r)) is Ok
{
    thm_refresh_share_accepted_iff::<C>(own, poly::<AL<C>>(r, own.0.0), r);
    lemma_zero_add::<AL<C>>(poly::<AL<C>>(r, own.0.0));
}

// C10: a refresh that would change the threshold is rejected by refresh_dkg_shares, whatever else is passed
//@serves C10
pub proof fn thm_refresh_dkg_threshold_change_rejected<C: Ciphersuite>(s2: crate::keys::dkg::round2::SecretPackage<C>,
        r1: Map<Identifier<C>, crate::keys::dkg::round1::Package<C>>, r2: Map<Identifier<C>, crate::keys::dkg::round2::Package<C>>,
        old_pk: PublicKeyPackage<C>, old_kp: KeyPackage<C>)
    requires s2.min_signers != old_kp.min_signers
    ensures spec_refresh_dkg_err::<C>(s2, r1, r2, old_pk, old_kp) == Some(Error::<C>::InvalidMinSigners)
{}

// C10: a refresh that names a participant (a sender of the run, or the caller itself) the old public key package does not know is rejected
//@serves C10
pub proof fn thm_refresh_dkg_unknown_participant_rejected<C: Ciphersuite>(s2: crate::keys::dkg::round2::SecretPackage<C>,
        r1: Map<Identifier<C>, crate::keys::dkg::round1::Package<C>>, r2: Map<Identifier<C>, crate::keys::dkg::round2::Package<C>>,
        old_pk: PublicKeyPackage<C>, old_kp: KeyPackage<C>, id: Identifier<C>)
    requires id == s2.identifier || r1.contains_key(id), !old_pk.verifying_shares@.contains_key(id)
    ensures spec_refresh_dkg_err::<C>(s2, r1, r2, old_pk, old_kp) is Some,
        // no key material is produced; if every earlier step passes, the error is exactly UnknownIdentifier
        spec_refresh_shares_guard_err::<C>(s2, r1, r2, old_kp) is None
            && spec_refresh_first_share_err::<C>(sorted_seq(r2.dom()), r1, r2, s2.identifier, 0) is None
            && spec_dkg_group_commitment::<C>(spec_refresh_commitments::<C>(s2, r1)) is Ok
            ==> spec_refresh_dkg_err::<C>(s2, r1, r2, old_pk, old_kp) == Some(Error::<C>::UnknownIdentifier),
{
    assert(r1.dom().insert(s2.identifier).contains(id));
    assert(spec_refresh_unknown::<C>(s2, r1, old_pk));
}

// every error of the share check is InvalidSecretShare (the re-completed commitment is never empty)
//@serves C10
pub proof fn lemma_refresh_share_err_kind<C: Ciphersuite>(own: Identifier<C>, f: Scalar<C>, stripped: Seq<CoefficientCommitment<C>>)
    ensures spec_refresh_share_ok::<C>(own, f, stripped) is Err ==> spec_refresh_share_ok::<C>(own, f, stripped)->Err_0 == (Error::<C>::InvalidSecretShare { culprit: None })
{
    assert(spec_with_identity::<C>(stripped).len() == stripped.len() + 1);
}

//@serves C10
pub proof fn lemma_refresh_first_share_err_some<C: Ciphersuite>(keys: Seq<Identifier<C>>, r1: Map<Identifier<C>, crate::keys::dkg::round1::Package<C>>,
        r2: Map<Identifier<C>, crate::keys::dkg::round2::Package<C>>, own: Identifier<C>, from: int, w: int)
    requires 0 <= from <= w < keys.len(), spec_refresh_share_ok::<C>(own, r2[keys[w]].signing_share.0.0, r1[keys[w]].commitment.0@) is Err
    ensures spec_refresh_first_share_err::<C>(keys, r1, r2, own, from) == Some(Error::<C>::InvalidSecretShare { culprit: None })
    decreases w - from
{
    lemma_refresh_share_err_kind::<C>(own, r2[keys[from]].signing_share.0.0, r1[keys[from]].commitment.0@);
    if from < w { lemma_refresh_first_share_err_some::<C>(keys, r1, r2, own, from + 1, w); }
}

//@serves C10
pub proof fn lemma_refresh_first_share_err_none_all<C: Ciphersuite>(keys: Seq<Identifier<C>>, r1: Map<Identifier<C>, crate::keys::dkg::round1::Package<C>>,
        r2: Map<Identifier<C>, crate::keys::dkg::round2::Package<C>>, own: Identifier<C>, from: int)
    requires 0 <= from, spec_refresh_first_share_err::<C>(keys, r1, r2, own, from) is None
    ensures forall|k: int| from <= k < keys.len() ==> spec_refresh_share_ok::<C>(own, r2[#[trigger] keys[k]].signing_share.0.0, r1[keys[k]].commitment.0@) is Ok
    decreases keys.len() - from
{
    if from < keys.len() { lemma_refresh_first_share_err_none_all::<C>(keys, r1, r2, own, from + 1); }
}

// C10: a sender whose refreshing polynomial has a NON-ZERO constant term (share a(own), published commitment = stripped commitment of a) makes
// refresh_dkg_shares fail with InvalidSecretShare once the structural guards pass
//@serves C10
pub proof fn thm_refresh_dkg_nonzero_constant_rejected<C: Ciphersuite>(s2: crate::keys::dkg::round2::SecretPackage<C>,
        r1: Map<Identifier<C>, crate::keys::dkg::round1::Package<C>>, r2: Map<Identifier<C>, crate::keys::dkg::round2::Package<C>>,
        old_pk: PublicKeyPackage<C>, old_kp: KeyPackage<C>, sender: Identifier<C>, a: Seq<Scalar<C>>)
    requires r2.dom().finite(), spec_refresh_shares_guard_err::<C>(s2, r1, r2, old_kp) is None, r2.contains_key(sender),
        a.len() >= 1, a[0] != s0::<C>(),
        r1[sender].commitment.0@ == spec_stripped_commitment::<C>(a), r2[sender].signing_share.0.0 == poly::<AL<C>>(a, s2.identifier.0.0),
    ensures spec_refresh_dkg_err::<C>(s2, r1, r2, old_pk, old_kp) == Some(Error::<C>::InvalidSecretShare { culprit: None })
{
    let own = s2.identifier;
    let keys = sorted_seq(r2.dom());
    lemma_sorted_exists::<C>(r2.dom());
    assert(keys.to_set().contains(sender));
    let w = choose|w: int| 0 <= w < keys.len() && keys[w] == sender;
    let f = poly::<AL<C>>(a, own.0.0);
    thm_refresh_share_accepted_iff::<C>(own, f, a);
    if sadd::<C>(a[0], f) == f { lemma_zero_add::<AL<C>>(f); FF::<C>::ax_add_comm(a[0], f); FF::<C>::ax_add_comm(s0::<C>(), f); lemma_add_cancel::<AL<C>>(f, a[0], s0::<C>()); }
    lemma_refresh_first_share_err_some::<C>(keys, r1, r2, own, 0, w);
}

// C10: whatever refresh_dkg_shares returns: the group verifying key of BOTH new packages is the old public key package's, the identifier is
// the round-2 secret package's, the threshold is unchanged, the verifying share is G * (new signing share), and the new signing share is
// old share + received refreshing shares + own refreshing share
//@serves C10
pub proof fn thm_refresh_dkg_output_relinked<C: Ciphersuite>(kp: KeyPackage<C>, pk: PublicKeyPackage<C>, s2: crate::keys::dkg::round2::SecretPackage<C>,
        r1: Map<Identifier<C>, crate::keys::dkg::round1::Package<C>>, r2: Map<Identifier<C>, crate::keys::dkg::round2::Package<C>>,
        old_pk: PublicKeyPackage<C>, old_kp: KeyPackage<C>)
    requires spec_refresh_dkg_err::<C>(s2, r1, r2, old_pk, old_kp) is None, spec_refresh_dkg_output::<C>(kp, pk, s2, r1, r2, old_pk, old_kp)
    ensures pk.verifying_key == old_pk.verifying_key, kp.verifying_key == old_pk.verifying_key, pk.header == old_pk.header,
        kp.identifier == s2.identifier, kp.min_signers == old_kp.min_signers, pk.min_signers == Some(old_kp.min_signers),
        kp.verifying_share.0.0 == gmul::<C>(kp.signing_share.0.0),
        kp.signing_share.0.0 == spec_refresh_new_share::<C>(s2, r2, old_kp),
        pk.verifying_shares@.dom() == r1.dom().insert(s2.identifier),
        forall|id: Identifier<C>| #[trigger] pk.verifying_shares@.contains_key(id) ==> old_pk.verifying_shares@.contains_key(id),
{
    assert forall|id: Identifier<C>| #[trigger] pk.verifying_shares@.contains_key(id) implies old_pk.verifying_shares@.contains_key(id) by {
        assert(r1.dom().insert(s2.identifier).contains(id));
        assert(!spec_refresh_unknown::<C>(s2, r1, old_pk));
    }
}

// C10: the refreshed public key package is a function of the re-completed commitments and the old public key package only: all participants
// that complete the refresh on the same round-one set (each holding its own round-2 secret package) end up with the same public key package
//@serves C10
pub proof fn thm_refresh_dkg_same_public_package<C: Ciphersuite>(kp1: KeyPackage<C>, pk1: PublicKeyPackage<C>, kp2: KeyPackage<C>, pk2: PublicKeyPackage<C>,
        s2a: crate::keys::dkg::round2::SecretPackage<C>, r1a: Map<Identifier<C>, crate::keys::dkg::round1::Package<C>>, r2a: Map<Identifier<C>, crate::keys::dkg::round2::Package<C>>, old_kpa: KeyPackage<C>,
        s2b: crate::keys::dkg::round2::SecretPackage<C>, r1b: Map<Identifier<C>, crate::keys::dkg::round1::Package<C>>, r2b: Map<Identifier<C>, crate::keys::dkg::round2::Package<C>>, old_kpb: KeyPackage<C>,
        old_pk: PublicKeyPackage<C>)
    requires spec_refresh_dkg_output::<C>(kp1, pk1, s2a, r1a, r2a, old_pk, old_kpa), spec_refresh_dkg_output::<C>(kp2, pk2, s2b, r1b, r2b, old_pk, old_kpb),
        spec_refresh_commitments::<C>(s2a, r1a) == spec_refresh_commitments::<C>(s2b, r1b), s2a.min_signers == s2b.min_signers
    ensures pk1.verifying_shares@ =~= pk2.verifying_shares@, pk1.verifying_key == pk2.verifying_key, pk1.min_signers == pk2.min_signers, pk1.header == pk2.header
{
    let m = spec_refresh_commitments::<C>(s2a, r1a);
    assert forall|id: Identifier<C>| pk1.verifying_shares@.contains_key(id) implies pk1.verifying_shares@[id] == pk2.verifying_shares@[id] by { assert(m.dom().contains(id)); }
}

// ---------------------------------------------------------------------------------------------------
// linearity of the VSS right-hand side (evaluate_vss) over the column-wise sum of commitments (sum_commitments)

// (a + b) + (x + y) == (a + x) + (b + y) in the group
//@serves C10
pub proof fn lemma_eadd4<C: Ciphersuite>(a: Element<C>, b: Element<C>, x: Element<C>, y: Element<C>)
    ensures eadd::<C>(eadd::<C>(a, b), eadd::<C>(x, y)) == eadd::<C>(eadd::<C>(a, x), eadd::<C>(b, y))
{
    GG::<C>::ax_eadd_assoc(a, b, eadd::<C>(x, y)); GG::<C>::ax_eadd_assoc(b, x, y); GG::<C>::ax_eadd_comm(b, x);
    GG::<C>::ax_eadd_assoc(x, b, y); GG::<C>::ax_eadd_assoc(a, x, eadd::<C>(b, y));
}

pub open spec fn eseq_add<C: Ciphersuite>(a: Seq<Element<C>>, b: Seq<Element<C>>) -> Seq<Element<C>>
{ Seq::new(a.len(), |i: int| eadd::<C>(a[i], b[i])) }

//@serves C10
pub proof fn lemma_vss_add<C: Ciphersuite>(a: Seq<Element<C>>, b: Seq<Element<C>>, x: Scalar<C>, pw: Scalar<C>)
    requires a.len() == b.len()
    ensures spec_vss::<C>(eseq_add::<C>(a, b), x, pw) == eadd::<C>(spec_vss::<C>(a, x, pw), spec_vss::<C>(b, x, pw))
    decreases a.len()
{
    if a.len() == 0 {
        GG::<C>::ax_eadd_id(e0::<C>());
    } else {
        let a1 = a.drop_first(); let b1 = b.drop_first(); let pw1 = smul::<C>(x, pw);
        lemma_vss_add::<C>(a1, b1, x, pw1);
        assert(eseq_add::<C>(a, b).drop_first() =~= eseq_add::<C>(a1, b1));
        GG::<C>::ax_smul_eadd(a[0], b[0], pw);
        lemma_eadd4::<C>(emul::<C>(a[0], pw), emul::<C>(b[0], pw), spec_vss::<C>(a1, x, pw1), spec_vss::<C>(b1, x, pw1));
    }
}

//@serves C10
pub proof fn lemma_vss_identity<C: Ciphersuite>(n: nat, x: Scalar<C>, pw: Scalar<C>)
    ensures spec_vss::<C>(Seq::new(n, |i: int| e0::<C>()), x, pw) == e0::<C>()
    decreases n
{
    if n > 0 {
        lemma_vss_identity::<C>((n - 1) as nat, x, smul::<C>(x, pw));
        assert(Seq::new(n, |i: int| e0::<C>()).drop_first() =~= Seq::new((n - 1) as nat, |i: int| e0::<C>()));
        lemma_smul_id::<C>(pw); GG::<C>::ax_eadd_id(e0::<C>());
    }
}

// the first `upto` commitments summed column by column (what sum_commitments accumulates), as group elements
pub open spec fn colsums<C: Ciphersuite>(cs: Seq<Seq<CoefficientCommitment<C>>>, len: nat, upto: int) -> Seq<Element<C>>
{ Seq::new(len, |i: int| spec_col_sum::<C>(cs, i, upto)) }

// sum over the first `upto` commitments of their VSS right-hand sides
pub open spec fn vss_sum<C: Ciphersuite>(cs: Seq<Seq<CoefficientCommitment<C>>>, x: Scalar<C>, pw: Scalar<C>, upto: int) -> Element<C> decreases upto
{ if upto <= 0 { e0::<C>() } else { eadd::<C>(vss_sum::<C>(cs, x, pw, upto - 1), spec_vss::<C>(comm_vals::<C>(cs[upto - 1]), x, pw)) } }

// evaluate_vss(sum of commitments) == sum of evaluate_vss(commitment), for commitments of equal length
//@serves C10
pub proof fn lemma_vss_colsums<C: Ciphersuite>(cs: Seq<Seq<CoefficientCommitment<C>>>, len: nat, x: Scalar<C>, pw: Scalar<C>, upto: int)
    requires 0 <= upto <= cs.len(), forall|j: int| 0 <= j < upto ==> (#[trigger] cs[j]).len() == len
    ensures spec_vss::<C>(colsums::<C>(cs, len, upto), x, pw) == vss_sum::<C>(cs, x, pw, upto)
    decreases upto
{
    if upto == 0 {
        assert(colsums::<C>(cs, len, 0) =~= Seq::new(len, |i: int| e0::<C>()));
        lemma_vss_identity::<C>(len, x, pw);
    } else {
        lemma_vss_colsums::<C>(cs, len, x, pw, upto - 1);
        assert(cs[upto - 1].len() == len);
        assert(colsums::<C>(cs, len, upto) =~= eseq_add::<C>(colsums::<C>(cs, len, upto - 1), comm_vals::<C>(cs[upto - 1])));
        lemma_vss_add::<C>(colsums::<C>(cs, len, upto - 1), comm_vals::<C>(cs[upto - 1]), x, pw);
    }
}

// if the j-th commitment verifies the scalar g(srt[j]) at x, the sum of the VSS right-hand sides is G * (sum of the scalars)
//@serves C10
pub proof fn lemma_vss_sum_shares<C: Ciphersuite>(cs: Seq<Seq<CoefficientCommitment<C>>>, srt: Seq<Identifier<C>>, g: spec_fn(Identifier<C>) -> Scalar<C>, x: Scalar<C>, upto: int)
    requires 0 <= upto <= srt.len(), srt.len() == cs.len(),
        forall|j: int| 0 <= j < upto ==> gmul::<C>(g(#[trigger] srt[j])) == spec_vss::<C>(comm_vals::<C>(cs[j]), x, s1::<C>())
    ensures vss_sum::<C>(cs, x, s1::<C>(), upto) == gmul::<C>(id_sum::<C>(srt.take(upto), g))
    decreases upto
{
    if upto == 0 {
        lemma_smul_zero::<C>(eg::<C>());
    } else {
        lemma_vss_sum_shares::<C>(cs, srt, g, x, upto - 1);
        assert(srt.take(upto).drop_last() =~= srt.take(upto - 1));
        assert(srt.take(upto).last() == srt[upto - 1]);
        GG::<C>::ax_smul_add(eg::<C>(), id_sum::<C>(srt.take(upto - 1), g), g(srt[upto - 1]));
    }
}

//@serves C10
pub proof fn lemma_r2_sum_as_id_sum<C: Ciphersuite>(keys: Seq<Identifier<C>>, r2: Map<Identifier<C>, crate::keys::dkg::round2::Package<C>>, n: int)
    requires 0 <= n <= keys.len()
    ensures spec_r2_sum::<C>(keys, r2, n) == id_sum::<C>(keys.take(n), |id: Identifier<C>| r2[id].signing_share.0.0)
    decreases n
{
    if n > 0 {
        lemma_r2_sum_as_id_sum::<C>(keys, r2, n - 1);
        assert(keys.take(n).drop_last() =~= keys.take(n - 1));
        assert(keys.take(n).last() == keys[n - 1]);
    }
}

// C10 (distributed, honest run): the refreshed key package's verifying share EQUALS the participant's entry in the refreshed public key
// package.  Premises beyond "refresh_dkg_shares succeeded": the caller is not among the senders, its own round-2 secret package is
// consistent (own refreshing share matches own commitment -- what refresh_dkg_part2 hands out), all commitments have the same length
// (refresh_dkg_part2 enforces t entries on the set it sees) and the OLD packages were consistent (old entry == G * old share).
//@serves C10
pub proof fn thm_refresh_dkg_entry_matches<C: Ciphersuite>(kp: KeyPackage<C>, pk: PublicKeyPackage<C>, s2: crate::keys::dkg::round2::SecretPackage<C>,
        r1: Map<Identifier<C>, crate::keys::dkg::round1::Package<C>>, r2: Map<Identifier<C>, crate::keys::dkg::round2::Package<C>>,
        old_pk: PublicKeyPackage<C>, old_kp: KeyPackage<C>)
    requires r1.dom().finite(), r2.dom().finite(),
        spec_refresh_dkg_err::<C>(s2, r1, r2, old_pk, old_kp) is None, spec_refresh_dkg_output::<C>(kp, pk, s2, r1, r2, old_pk, old_kp),
        !r1.contains_key(s2.identifier),
        spec_refresh_share_ok::<C>(s2.identifier, s2.secret_share.0, s2.commitment.0@) is Ok,
        forall|id: Identifier<C>| r1.contains_key(id) ==> (#[trigger] r1[id]).commitment.0@.len() == s2.commitment.0@.len(),
        old_pk.verifying_shares@[s2.identifier].0.0 == gmul::<C>(old_kp.signing_share.0.0),
    ensures pk.verifying_shares@[s2.identifier] == kp.verifying_share
{
    let own = s2.identifier;
    let m = spec_refresh_commitments::<C>(s2, r1);
    lemma_part3_same_keys::<C>(r1, r2);
    let keys = sorted_seq(r2.dom());
    lemma_sorted_exists::<C>(r2.dom());
    lemma_sorted_exists::<C>(m.dom());
    let srt = sorted_seq(m.dom());
    let n = srt.len() as int;
    let cs = spec_dkg_commitment_list::<C>(m);
    let len = (s2.commitment.0@.len() + 1) as nat;
    assert(m.dom().contains(own));
    assert(srt.to_set().contains(own));
    assert(n > 0);
    // every commitment of the run has `len` entries
    assert forall|j: int| 0 <= j < n implies (#[trigger] cs[j]).len() == len by {
        assert(srt.contains(srt[j])); assert(m.dom().contains(srt[j]));
        assert(spec_with_identity::<C>(s2.commitment.0@).len() == len);
        if srt[j] != own { assert(r1.contains_key(srt[j])); assert(spec_with_identity::<C>(r1[srt[j]].commitment.0@).len() == r1[srt[j]].commitment.0@.len() + 1); }
    }
    assert(cs[0].len() == len);
    let gc = spec_dkg_group_commitment::<C>(m)->Ok_0;
    assert(comm_vals::<C>(gc) =~= colsums::<C>(cs, len, n));
    // every commitment verifies the scalar its owner contributed at `own`
    let g = |id: Identifier<C>| if id == own { s2.secret_share.0 } else { r2[id].signing_share.0.0 };
    lemma_refresh_first_share_err_none_all::<C>(keys, r1, r2, own, 0);
    assert forall|j: int| 0 <= j < n implies gmul::<C>(g(#[trigger] srt[j])) == spec_vss::<C>(comm_vals::<C>(cs[j]), own.0.0, s1::<C>()) by {
        assert(srt.contains(srt[j])); assert(m.dom().contains(srt[j]));
        if srt[j] != own {
            assert(r2.dom().contains(srt[j])); assert(keys.to_set().contains(srt[j]));
            let w = choose|w: int| 0 <= w < keys.len() && keys[w] == srt[j];
            assert(spec_refresh_share_ok::<C>(own, r2[keys[w]].signing_share.0.0, r1[keys[w]].commitment.0@) is Ok);
        }
    }
    lemma_vss_colsums::<C>(cs, len, own.0.0, s1::<C>(), n);
    lemma_vss_sum_shares::<C>(cs, srt, g, own.0.0, n);
    assert(srt.take(n) =~= srt);
    // reorder the sum:  sorted(all participants)  ->  sorted(senders) ++ [own]
    let p = keys.push(own);
    assert(!keys.contains(own)) by { if keys.contains(own) { assert(keys.to_set().contains(own)); } }
    assert(p.no_duplicates());
    assert(p.to_set() =~= srt.to_set()) by {
        assert forall|x: Identifier<C>| p.to_set().contains(x) <==> srt.to_set().contains(x) by {
            if p.contains(x) { let w = choose|w: int| 0 <= w < p.len() && p[w] == x; if w < keys.len() { assert(keys.contains(keys[w])); assert(keys.to_set().contains(x)); } }
            if m.dom().contains(x) { if x == own { assert(p[keys.len() as int] == x); } else { assert(keys.to_set().contains(x)); let w = choose|w: int| 0 <= w < keys.len() && keys[w] == x; assert(p[w] == x); } }
        }
    }
    lemma_id_sum_perm::<C>(srt, p, g);
    assert(p.drop_last() =~= keys);
    assert(p.last() == own);
    let h = |id: Identifier<C>| r2[id].signing_share.0.0;
    assert forall|k: int| 0 <= k < keys.len() implies g(#[trigger] keys[k]) == h(keys[k]) by { assert(keys.contains(keys[k])); }
    lemma_id_sum_ext::<C>(keys, g, h);
    lemma_r2_sum_as_id_sum::<C>(keys, r2, keys.len() as int);
    assert(keys.take(keys.len() as int) =~= keys);
    let sum = sadd::<C>(spec_r2_sum::<C>(keys, r2, keys.len() as int), s2.secret_share.0);
    assert(id_sum::<C>(srt, g) == sum);
    // G*sum + G*old == G*(sum + old)
    GG::<C>::ax_smul_add(eg::<C>(), sum, old_kp.signing_share.0.0);
}

// ---------------------------------------------------------------------------------------------------
// distributed variant: "any t refreshed participants can sign"

// the value participant l's refreshing polynomial rs(l) takes at x
pub open spec fn refresh_term<C: Ciphersuite>(rs: spec_fn(Identifier<C>) -> Seq<Scalar<C>>, x: Scalar<C>) -> spec_fn(Identifier<C>) -> Scalar<C>
{ |l: Identifier<C>| poly::<AL<C>>(rs(l), x) }

// coefficient-wise sum of the refreshing polynomials of the participants in `parts`
pub open spec fn psum<C: Ciphersuite>(parts: Seq<Identifier<C>>, rs: spec_fn(Identifier<C>) -> Seq<Scalar<C>>, len: nat) -> Seq<Scalar<C>> decreases parts.len()
{ if parts.len() == 0 { Seq::new(len, |i: int| s0::<C>()) } else { padd::<C>(psum::<C>(parts.drop_last(), rs, len), rs(parts.last())) } }

//@serves C10
pub proof fn lemma_poly_zero<C: Ciphersuite>(len: nat, x: Scalar<C>)
    ensures poly::<AL<C>>(Seq::new(len, |i: int| s0::<C>()), x) == s0::<C>()
    decreases len
{
    if len > 0 {
        lemma_poly_zero::<C>((len - 1) as nat, x);
        assert(Seq::new(len, |i: int| s0::<C>()).drop_first() =~= Seq::new((len - 1) as nat, |i: int| s0::<C>()));
        lemma_mul_zero::<AL<C>>(x); FF::<C>::ax_add_zero(s0::<C>());
    }
}

// the sum of zero-constant polynomials of length `len` is a zero-constant polynomial of length `len` whose value is the sum of the values
//@serves C10
pub proof fn lemma_psum<C: Ciphersuite>(parts: Seq<Identifier<C>>, rs: spec_fn(Identifier<C>) -> Seq<Scalar<C>>, len: nat, x: Scalar<C>)
    requires len >= 1, forall|k: int| 0 <= k < parts.len() ==> rs(#[trigger] parts[k]).len() == len && rs(parts[k])[0] == s0::<C>()
    ensures psum::<C>(parts, rs, len).len() == len, psum::<C>(parts, rs, len)[0] == s0::<C>(),
        poly::<AL<C>>(psum::<C>(parts, rs, len), x) == id_sum::<C>(parts, refresh_term::<C>(rs, x))
    decreases parts.len()
{
    if parts.len() == 0 {
        lemma_poly_zero::<C>(len, x);
    } else {
        let p1 = parts.drop_last();
        assert forall|k: int| 0 <= k < p1.len() implies rs(#[trigger] p1[k]).len() == len && rs(p1[k])[0] == s0::<C>() by { assert(p1[k] == parts[k]); }
        lemma_psum::<C>(p1, rs, len, x);
        assert(parts.last() == parts[parts.len() - 1]);
        lemma_poly_add::<C>(psum::<C>(p1, rs, len), rs(parts.last()), x);
        FF::<C>::ax_add_zero(s0::<C>());
    }
}

// C10 (distributed): let `all` be the participants of a refresh run, rs(l) participant l's refreshing polynomial (t coefficients, constant term
// ZERO) and f the old sharing polynomial.  If every package k holds  (sum over all participants l, in ANY order parts(k), of rs(l)(id_k)) + f(id_k)
// -- what refresh_dkg_shares computes, see thm_refresh_dkg_new_share_on_polynomials -- then any >= t of the packages interpolate to the OLD
// secret f(0): the refreshed shares lie on f + sum_l rs(l), a polynomial of the same degree with the same constant term
//@serves C10
pub proof fn thm_refresh_dkg_shares_reconstruct<C: Ciphersuite>(kps: Seq<KeyPackage<C>>, f: Seq<Scalar<C>>, all: Set<Identifier<C>>,
        parts: spec_fn(int) -> Seq<Identifier<C>>, rs: spec_fn(Identifier<C>) -> Seq<Scalar<C>>)
    requires kp_ids::<C>(kps).no_duplicates(), 1 <= f.len() <= kps.len(), all.finite(),
        forall|l: Identifier<C>| all.contains(l) ==> (#[trigger] rs(l)).len() == f.len() && rs(l)[0] == s0::<C>(),
        forall|k: int| 0 <= k < kps.len() ==> (#[trigger] parts(k)).no_duplicates() && parts(k).to_set() == all
            && kps[k].signing_share.0.0 == sadd::<C>(id_sum::<C>(parts(k), refresh_term::<C>(rs, kps[k].identifier.0.0)), poly::<AL<C>>(f, kps[k].identifier.0.0)),
    ensures spec_interpolate0::<C>(kps, sorted_seq(kp_ids::<C>(kps).to_set()), kps.len() as nat) == f[0]
{
    let canon = sorted_seq(all);
    lemma_sorted_exists::<C>(all);
    let len = f.len();
    let big = psum::<C>(canon, rs, len);
    assert forall|k: int| 0 <= k < canon.len() implies rs(#[trigger] canon[k]).len() == len && rs(canon[k])[0] == s0::<C>() by {
        assert(canon.contains(canon[k])); assert(all.contains(canon[k]));
    }
    lemma_psum::<C>(canon, rs, len, s0::<C>());
    assert forall|k: int| 0 <= k < kps.len() implies (#[trigger] kps[k]).signing_share.0.0
            == sadd::<C>(poly::<AL<C>>(big, kps[k].identifier.0.0), poly::<AL<C>>(f, kps[k].identifier.0.0)) by {
        let x = kps[k].identifier.0.0;
        assert(parts(k).no_duplicates() && parts(k).to_set() == all);
        lemma_id_sum_perm::<C>(parts(k), canon, refresh_term::<C>(rs, x));
        lemma_psum::<C>(canon, rs, len, x);
    }
    thm_refreshed_shares_reconstruct::<C>(kps, f, big);
}

// the order refresh_dkg_shares adds in:  ((received shares, ascending senders) + own share) + old share  ==  (sum over senders ++ [own]) + old share
//@serves C10
pub proof fn lemma_refresh_new_share_as_id_sum<C: Ciphersuite>(s2: crate::keys::dkg::round2::SecretPackage<C>,
        r2: Map<Identifier<C>, crate::keys::dkg::round2::Package<C>>, old_kp: KeyPackage<C>, g: spec_fn(Identifier<C>) -> Scalar<C>)
    requires r2.dom().finite(), !r2.contains_key(s2.identifier), g(s2.identifier) == s2.secret_share.0,
        forall|l: Identifier<C>| r2.contains_key(l) ==> #[trigger] g(l) == r2[l].signing_share.0.0
    ensures spec_refresh_new_share::<C>(s2, r2, old_kp) == sadd::<C>(id_sum::<C>(sorted_seq(r2.dom()).push(s2.identifier), g), old_kp.signing_share.0.0),
        sorted_seq(r2.dom()).push(s2.identifier).no_duplicates(), sorted_seq(r2.dom()).push(s2.identifier).to_set() == r2.dom().insert(s2.identifier)
{
    let own = s2.identifier;
    let keys = sorted_seq(r2.dom());
    lemma_sorted_exists::<C>(r2.dom());
    let p = keys.push(own);
    assert(!keys.contains(own)) by { if keys.contains(own) { assert(keys.to_set().contains(own)); } }
    assert(p.no_duplicates());
    assert(p.to_set() =~= r2.dom().insert(own)) by {
        assert forall|x: Identifier<C>| p.to_set().contains(x) <==> r2.dom().insert(own).contains(x) by {
            if p.contains(x) { let w = choose|w: int| 0 <= w < p.len() && p[w] == x; if w < keys.len() { assert(keys.contains(keys[w])); assert(keys.to_set().contains(x)); } }
            if x == own { assert(p[keys.len() as int] == x); }
            if r2.dom().contains(x) { assert(keys.to_set().contains(x)); let w = choose|w: int| 0 <= w < keys.len() && keys[w] == x; assert(p[w] == x); }
        }
    }
    assert(p.drop_last() =~= keys);
    assert(p.last() == own);
    let h = |id: Identifier<C>| r2[id].signing_share.0.0;
    assert forall|k: int| 0 <= k < keys.len() implies g(#[trigger] keys[k]) == h(keys[k]) by { assert(keys.contains(keys[k])); assert(r2.dom().contains(keys[k])); }
    lemma_id_sum_ext::<C>(keys, g, h);
    lemma_r2_sum_as_id_sum::<C>(keys, r2, keys.len() as int);
    assert(keys.take(keys.len() as int) =~= keys);
}

// C10 (distributed, honest senders): if refresh_dkg_shares succeeds and every sender l published the stripped commitment of a zero-constant
// polynomial rs(l) (and the caller's own share is rs(own)(own)), then the ACCEPTED shares are exactly the evaluations rs(l)(own) -- the VSS
// check leaves no other possibility -- so the new signing share is  (sum over senders ++ [own] of rs(l)(own)) + old share,
// the premise of thm_refresh_dkg_shares_reconstruct
//@serves C10
pub proof fn thm_refresh_dkg_new_share_on_polynomials<C: Ciphersuite>(s2: crate::keys::dkg::round2::SecretPackage<C>,
        r1: Map<Identifier<C>, crate::keys::dkg::round1::Package<C>>, r2: Map<Identifier<C>, crate::keys::dkg::round2::Package<C>>,
        old_pk: PublicKeyPackage<C>, old_kp: KeyPackage<C>, rs: spec_fn(Identifier<C>) -> Seq<Scalar<C>>)
    requires r1.dom().finite(), r2.dom().finite(), spec_refresh_dkg_err::<C>(s2, r1, r2, old_pk, old_kp) is None, !r1.contains_key(s2.identifier),
        forall|l: Identifier<C>| r1.contains_key(l) ==> (#[trigger] rs(l)).len() >= 1 && rs(l)[0] == s0::<C>() && r1[l].commitment.0@ == spec_stripped_commitment::<C>(rs(l)),
        s2.secret_share.0 == poly::<AL<C>>(rs(s2.identifier), s2.identifier.0.0),
    ensures spec_refresh_new_share::<C>(s2, r2, old_kp)
            == sadd::<C>(id_sum::<C>(sorted_seq(r2.dom()).push(s2.identifier), refresh_term::<C>(rs, s2.identifier.0.0)), old_kp.signing_share.0.0),
        sorted_seq(r2.dom()).push(s2.identifier).no_duplicates(),
        sorted_seq(r2.dom()).push(s2.identifier).to_set() == r1.dom().insert(s2.identifier),
{
    let own = s2.identifier;
    lemma_part3_same_keys::<C>(r1, r2);
    let keys = sorted_seq(r2.dom());
    lemma_sorted_exists::<C>(r2.dom());
    lemma_refresh_first_share_err_none_all::<C>(keys, r1, r2, own, 0);
    let g = refresh_term::<C>(rs, own.0.0);
    assert forall|l: Identifier<C>| r2.contains_key(l) implies #[trigger] g(l) == r2[l].signing_share.0.0 by {
        assert(keys.to_set().contains(l));
        let w = choose|w: int| 0 <= w < keys.len() && keys[w] == l;
        assert(spec_refresh_share_ok::<C>(own, r2[keys[w]].signing_share.0.0, r1[keys[w]].commitment.0@) is Ok);
        assert(r1.contains_key(l));
        thm_refresh_share_accepted_iff::<C>(own, r2[l].signing_share.0.0, rs(l));
        lemma_zero_add::<AL<C>>(r2[l].signing_share.0.0);
    }
    lemma_refresh_new_share_as_id_sum::<C>(s2, r2, old_kp, g);
}

} // verus!
}
