// lemmas/vprops_refresh.rs -- property-level theorems about share refresh (C10) over the contracts' spec functions
// (trusted-dealer variant: lemmas/vspec.rs "share refresh"; distributed variant: lemmas/vspec_refresh.rs).
pub mod vprops_refresh {
#[allow(unused_imports)] use vstd::prelude::*;
#[allow(unused_imports)] use crate::traits::*;
#[allow(unused_imports)] use crate::vspec::*;
#[allow(unused_imports)] use crate::vspec_refresh::*;
#[allow(unused_imports)] use crate::vfield::*;
#[allow(unused_imports)] use crate::keys::*;
#[allow(unused_imports)] use crate::serialization::*;
#[allow(unused_imports)] use crate::vprops_keys::*;
#[allow(unused_imports)] use crate::*;
verus! {

// ===================================================================================================
// algebra used below

// (a + b) + (x + y) == (a + x) + (b + y)
//@serves C10
pub proof fn lemma_add4<C: Ciphersuite>(a: Scalar<C>, b: Scalar<C>, x: Scalar<C>, y: Scalar<C>)
    ensures sadd::<C>(sadd::<C>(a, b), sadd::<C>(x, y)) == sadd::<C>(sadd::<C>(a, x), sadd::<C>(b, y))
{
    FF::<C>::ax_add_assoc(a, b, sadd::<C>(x, y)); FF::<C>::ax_add_assoc(b, x, y); FF::<C>::ax_add_comm(b, x);
    FF::<C>::ax_add_assoc(x, b, y); FF::<C>::ax_add_assoc(a, x, sadd::<C>(b, y));
}

// coefficient-wise sum of two polynomials of the same length
pub open spec fn padd<C: Ciphersuite>(a: Seq<Scalar<C>>, b: Seq<Scalar<C>>) -> Seq<Scalar<C>>
{ Seq::new(a.len(), |i: int| sadd::<C>(a[i], b[i])) }

// (a + b)(x) == a(x) + b(x)
//@serves C10
pub proof fn lemma_poly_add<C: Ciphersuite>(a: Seq<Scalar<C>>, b: Seq<Scalar<C>>, x: Scalar<C>)
    requires a.len() == b.len()
    ensures poly::<AL<C>>(padd::<C>(a, b), x) == sadd::<C>(poly::<AL<C>>(a, x), poly::<AL<C>>(b, x))
    decreases a.len()
{
    if a.len() == 0 {
        FF::<C>::ax_add_zero(s0::<C>());
    } else {
        let a1 = a.drop_first(); let b1 = b.drop_first();
        lemma_poly_add::<C>(a1, b1, x);
        assert(padd::<C>(a, b).drop_first() =~= padd::<C>(a1, b1));
        let pa = poly::<AL<C>>(a1, x); let pb = poly::<AL<C>>(b1, x);
        // (pa + pb) * x == pa * x + pb * x
        FF::<C>::ax_mul_comm(sadd::<C>(pa, pb), x); FF::<C>::ax_distrib(x, pa, pb); FF::<C>::ax_mul_comm(x, pa); FF::<C>::ax_mul_comm(x, pb);
        lemma_add4::<C>(a[0], b[0], smul::<C>(pa, x), smul::<C>(pb, x));
    }
}

// G * 0 is the identity: the commitment to a zero constant term is the entry that refresh strips and re-inserts
//@serves C10
pub proof fn lemma_recompleted_commitment<C: Ciphersuite>(r: Seq<Scalar<C>>)
    requires r.len() >= 1, r[0] == s0::<C>()
    ensures spec_with_identity::<C>(spec_stripped_commitment::<C>(r)) == spec_commitment::<C>(r),
        spec_with_identity::<C>(spec_commitment::<C>(r).drop_first()) == spec_commitment::<C>(r)
{
    lemma_smul_zero::<C>(eg::<C>());
    assert(spec_commitment::<C>(r)[0] == identity_cc::<C>());
    assert(spec_with_identity::<C>(spec_commitment::<C>(r).drop_first()) =~= spec_commitment::<C>(r));
}

// ===================================================================================================
// (i) refresh by a trusted dealer: compute_refreshing_shares (contract: spec_refresh_output) followed by refresh_share (spec_refresh_share)

// C10: the group verifying key, the threshold and the header are unchanged; the refreshed public key package lists exactly the
// identifiers that take part (a participant that is left out is REMOVED from the package)
//@serves C10
pub proof fn thm_dealer_refresh_group_key_unchanged<C: Ciphersuite>(out: Seq<SecretShare<C>>, npk: PublicKeyPackage<C>, pk: PublicKeyPackage<C>,
        ids: Seq<Identifier<C>>, r: Seq<Scalar<C>>)
    requires spec_refresh_output::<C>(out, npk, pk, ids, r)
    ensures npk.verifying_key == pk.verifying_key, npk.min_signers == pk.min_signers, npk.header == pk.header,
        npk.verifying_shares@.dom() == ids.to_set(), out.len() == ids.len(),
        forall|id: Identifier<C>| !ids.contains(id) ==> !npk.verifying_shares@.contains_key(id),
{
    assert(ids.take(ids.len() as int) =~= ids);
}

// C10: for EVERY participant k of the refresh, refresh_share applied to the share the dealer made for it and to its current (consistent)
// key package succeeds, and the refreshed key package has the same identifier, threshold and group key, the signing share
// old + r(id), a verifying share equal to G * (new signing share) AND to its entry in the refreshed public key package
//@serves C10
pub proof fn thm_dealer_refresh_package_relinked<C: Ciphersuite>(out: Seq<SecretShare<C>>, npk: PublicKeyPackage<C>, pk: PublicKeyPackage<C>,
        ids: Seq<Identifier<C>>, r: Seq<Scalar<C>>, k: int, cur: KeyPackage<C>)
    requires spec_refresh_output::<C>(out, npk, pk, ids, r), 1 <= r.len() <= 65535, r[0] == s0::<C>(), 0 <= k < ids.len(),
        // the participant's current package is the one the old public key package describes
        cur.identifier == ids[k], cur.min_signers == r.len(), cur.verifying_key == pk.verifying_key,
        cur.verifying_share.0.0 == gmul::<C>(cur.signing_share.0.0), pk.verifying_shares@[ids[k]] == cur.verifying_share,
    ensures
        spec_refresh_share::<C>(out[k], cur) is Ok,
        (spec_refresh_share::<C>(out[k], cur)->Ok_0).identifier == cur.identifier,
        (spec_refresh_share::<C>(out[k], cur)->Ok_0).min_signers == cur.min_signers,
        (spec_refresh_share::<C>(out[k], cur)->Ok_0).verifying_key == cur.verifying_key,
        (spec_refresh_share::<C>(out[k], cur)->Ok_0).verifying_key == npk.verifying_key,
        (spec_refresh_share::<C>(out[k], cur)->Ok_0).header == cur.header,
        (spec_refresh_share::<C>(out[k], cur)->Ok_0).signing_share.0.0 == sadd::<C>(poly::<AL<C>>(r, ids[k].0.0), cur.signing_share.0.0),
        (spec_refresh_share::<C>(out[k], cur)->Ok_0).verifying_share.0.0 == gmul::<C>((spec_refresh_share::<C>(out[k], cur)->Ok_0).signing_share.0.0),
        (spec_refresh_share::<C>(out[k], cur)->Ok_0).verifying_share == npk.verifying_shares@[ids[k]],
{
    let id = ids[k];
    let sh = out[k];
    assert(spec_is_refreshing_share::<C>(sh, id, r));
    lemma_recompleted_commitment::<C>(r);
    // VSS check of r(id) against the re-completed commitment G*r
    lemma_vss_complete::<C>(r, id.0.0, s1::<C>());
    lemma_one_mul::<AL<C>>(poly::<AL<C>>(r, id.0.0));
    assert(spec_commitment::<C>(r).len() == r.len());
    // G*(r(id) + s) == G*r(id) + G*s == entry of the refreshed public key package
    GG::<C>::ax_smul_add(eg::<C>(), poly::<AL<C>>(r, id.0.0), cur.signing_share.0.0);
}

// C10: a refreshing share whose re-completed commitment does not have exactly the participant's threshold many entries is refused with
// InvalidMinSigners (a refresh cannot change the threshold)
//@serves C10
pub proof fn thm_refresh_share_threshold_change_rejected<C: Ciphersuite>(rs: SecretShare<C>, cur: KeyPackage<C>)
    requires spec_refresh_share_ok::<C>(rs.identifier, rs.signing_share.0.0, rs.commitment.0@) is Ok,
        ((rs.commitment.0@.len() + 1) as u16) != cur.min_signers
    ensures spec_refresh_share::<C>(rs, cur) == Err::<KeyPackage<C>, Error<C>>(Error::InvalidMinSigners)
{
    assert(spec_with_identity::<C>(rs.commitment.0@).len() == rs.commitment.0@.len() + 1);
}

// C10 (both variants): against the published (stripped) commitment of a polynomial a, re-completed with the identity, the scalar f is
// accepted at identifier `own` exactly when  f == a(own) - a_0.  So the honest share a(own) is accepted iff the constant term a_0 is ZERO:
// a refreshing contribution with a non-zero constant term is rejected with InvalidSecretShare
//@serves C10
pub proof fn thm_refresh_share_accepted_iff<C: Ciphersuite>(own: Identifier<C>, f: Scalar<C>, a: Seq<Scalar<C>>)
    requires a.len() >= 1
    ensures (spec_refresh_share_ok::<C>(own, f, spec_stripped_commitment::<C>(a)) is Ok) == (sadd::<C>(a[0], f) == poly::<AL<C>>(a, own.0.0)),
        sadd::<C>(a[0], f) != poly::<AL<C>>(a, own.0.0)
            ==> spec_refresh_share_ok::<C>(own, f, spec_stripped_commitment::<C>(a)) == Err::<(), Error<C>>(Error::InvalidSecretShare { culprit: None }),
{
    // a' = a with the constant term replaced by zero: the re-completed commitment is the commitment of a'
    let a1 = seq![s0::<C>()] + a.drop_first();
    assert(a1.drop_first() =~= a.drop_first());
    assert(spec_commitment::<C>(a1).drop_first() =~= spec_commitment::<C>(a).drop_first());
    lemma_recompleted_commitment::<C>(a1);
    let x = own.0.0;
    lemma_vss_complete::<C>(a1, x, s1::<C>());
    lemma_one_mul::<AL<C>>(poly::<AL<C>>(a1, x));
    assert(spec_commitment::<C>(a1).len() == a1.len());
    let t = smul::<C>(poly::<AL<C>>(a.drop_first(), x), x);
    // a'(x) == 0 + t,  a(x) == a_0 + t
    lemma_zero_add::<AL<C>>(t);
    assert(poly::<AL<C>>(a1, x) == t);
    assert(poly::<AL<C>>(a, x) == sadd::<C>(a[0], t));
    if gmul::<C>(f) == gmul::<C>(t) { lemma_gen_inj::<C>(f, t); }
    if sadd::<C>(a[0], f) == sadd::<C>(a[0], t) { lemma_add_cancel::<AL<C>>(a[0], f, t); }
}

// C10: the share of a polynomial with NON-ZERO constant term is rejected by refresh_share (trusted dealer) ...
//@serves C10
pub proof fn thm_nonzero_constant_rejected<C: Ciphersuite>(rs: SecretShare<C>, cur: KeyPackage<C>, a: Seq<Scalar<C>>)
    requires a.len() >= 1, a[0] != s0::<C>(),
        rs.signing_share.0.0 == poly::<AL<C>>(a, rs.identifier.0.0), rs.commitment.0@ == spec_stripped_commitment::<C>(a)
    ensures spec_refresh_share::<C>(rs, cur) == Err::<KeyPackage<C>, Error<C>>(Error::InvalidSecretShare { culprit: None }),
        // ... and by refresh_dkg_shares (distributed), whoever the recipient `rs.identifier` is
        spec_refresh_share_ok::<C>(rs.identifier, poly::<AL<C>>(a, rs.identifier.0.0), spec_stripped_commitment::<C>(a)) == Err::<(), Error<C>>(Error::InvalidSecretShare { culprit: None }),
{
    let f = poly::<AL<C>>(a, rs.identifier.0.0);
    thm_refresh_share_accepted_iff::<C>(rs.identifier, f, a);
    if sadd::<C>(a[0], f) == f { lemma_zero_add::<AL<C>>(f); FF::<C>::ax_add_comm(a[0], f); FF::<C>::ax_add_comm(s0::<C>(), f); lemma_add_cancel::<AL<C>>(f, a[0], s0::<C>()); }
}

// ===================================================================================================
// "any t refreshed participants can sign": the refreshed shares are again evaluations of ONE polynomial of degree t-1 with the SAME constant
// term (old polynomial + refreshing polynomial), so any >= t of them interpolate to the same secret (what `reconstruct` returns and what
// the Lagrange-weighted signature shares of `sign` add up to: C01)

//@serves C10
pub proof fn thm_refreshed_shares_reconstruct<C: Ciphersuite>(kps: Seq<KeyPackage<C>>, f: Seq<Scalar<C>>, r: Seq<Scalar<C>>)
    requires
        kp_ids::<C>(kps).no_duplicates(), f.len() == r.len(), 1 <= f.len() <= kps.len(), r[0] == s0::<C>(),
        // every package holds  r(id) + f(id)  (the value spec_refresh_share / spec_refresh_new_share computes from the old share f(id))
        forall|k: int| 0 <= k < kps.len() ==> (#[trigger] kps[k]).signing_share.0.0
            == sadd::<C>(poly::<AL<C>>(r, kps[k].identifier.0.0), poly::<AL<C>>(f, kps[k].identifier.0.0)),
    ensures spec_interpolate0::<C>(kps, sorted_seq(kp_ids::<C>(kps).to_set()), kps.len() as nat) == f[0]
{
    let g = padd::<C>(r, f);
    assert forall|k: int| 0 <= k < kps.len() implies (#[trigger] kps[k]).signing_share.0.0 == poly::<AL<C>>(g, kps[k].identifier.0.0) by {
        lemma_poly_add::<C>(r, f, kps[k].identifier.0.0);
    }
    thm_reconstruct::<C>(kps, g);
    lemma_zero_add::<AL<C>>(f[0]);
}

// ===================================================================================================
// "a signer set mixing pre-refresh and post-refresh shares, or including a removed participant, fails" -- the algebraic core.
// Interpolation is linear in the shares:

//@serves C10
pub proof fn lemma_interpolate0_add<C: Ciphersuite>(kps: Seq<KeyPackage<C>>, base: Seq<KeyPackage<C>>, err: Seq<KeyPackage<C>>, srt: Seq<Identifier<C>>, n: nat)
    requires n <= kps.len(), kps.len() == base.len(), kps.len() == err.len(),
        forall|k: int| 0 <= k < kps.len() ==> (#[trigger] kps[k]).identifier == base[k].identifier && kps[k].identifier == err[k].identifier
            && kps[k].signing_share.0.0 == sadd::<C>(base[k].signing_share.0.0, err[k].signing_share.0.0),
    ensures spec_interpolate0::<C>(kps, srt, n) == sadd::<C>(spec_interpolate0::<C>(base, srt, n), spec_interpolate0::<C>(err, srt, n))
    decreases n
{
    if n == 0 {
        FF::<C>::ax_add_zero(s0::<C>());
    } else {
        lemma_interpolate0_add::<C>(kps, base, err, srt, (n - 1) as nat);
        let l = spec_lagrange::<C>(srt, None, kps[n - 1].identifier);
        let b = base[n - 1].signing_share.0.0; let e = err[n - 1].signing_share.0.0;
        assert(kps[n - 1].identifier == base[n - 1].identifier && kps[n - 1].identifier == err[n - 1].identifier);
        FF::<C>::ax_distrib(l, b, e);
        lemma_add4::<C>(spec_interpolate0::<C>(base, srt, (n - 1) as nat), spec_interpolate0::<C>(err, srt, (n - 1) as nat), smul::<C>(l, b), smul::<C>(l, e));
    }
}

// C10 (mixing): take >= t distinct participants; `base` holds their PRE-refresh shares f(id); `kps` holds what they actually use, namely
// pre-refresh share + err, where err is r(id) for a participant that uses its refreshed share and 0 for one that uses its old share (a
// REMOVED participant only has an old share).  Then the value the set interpolates to (the key its signature shares add up to) is
//        secret  +  sum_{k} lambda_k(0) * err_k
// so the set recovers the group secret IF AND ONLY IF the Lagrange-weighted sum of the refresh values over the refreshed members vanishes.
// For an all-refreshed set that sum is r(0) = 0 (thm_refreshed_shares_reconstruct); for a mixed set it is a non-trivial linear combination
// of the fresh random coefficients of r (zero only with probability 1/q over the dealer's draws -- that last step is probabilistic and
// not decided here).
//@serves C10
pub proof fn thm_mixed_shares_miss_the_secret<C: Ciphersuite>(kps: Seq<KeyPackage<C>>, base: Seq<KeyPackage<C>>, err: Seq<KeyPackage<C>>, f: Seq<Scalar<C>>)
    requires kp_ids::<C>(kps).no_duplicates(), 1 <= f.len() <= kps.len(), kps.len() == base.len(), kps.len() == err.len(),
        forall|k: int| 0 <= k < kps.len() ==> (#[trigger] kps[k]).identifier == base[k].identifier && kps[k].identifier == err[k].identifier
            && base[k].signing_share.0.0 == poly::<AL<C>>(f, kps[k].identifier.0.0)
            && kps[k].signing_share.0.0 == sadd::<C>(base[k].signing_share.0.0, err[k].signing_share.0.0),
    ensures ({
        let srt = sorted_seq(kp_ids::<C>(kps).to_set());
        let got = spec_interpolate0::<C>(kps, srt, kps.len() as nat);
        let deviation = spec_interpolate0::<C>(err, srt, kps.len() as nat);
        got == sadd::<C>(f[0], deviation) && ((got == f[0]) == (deviation == s0::<C>()))
    })
{
    let srt = sorted_seq(kp_ids::<C>(kps).to_set());
    let n = kps.len() as nat;
    lemma_interpolate0_add::<C>(kps, base, err, srt, n);
    assert(kp_ids::<C>(base) =~= kp_ids::<C>(kps));
    assert forall|k: int| 0 <= k < base.len() implies (#[trigger] base[k]).signing_share.0.0 == poly::<AL<C>>(f, base[k].identifier.0.0) by {
        assert(kps[k].identifier == base[k].identifier);
    }
    thm_reconstruct::<C>(base, f);
    let deviation = spec_interpolate0::<C>(err, srt, n);
    FF::<C>::ax_add_zero(f[0]);
    if sadd::<C>(f[0], deviation) == f[0] { lemma_add_cancel::<AL<C>>(f[0], deviation, s0::<C>()); }
}

} // verus!
}
