"""Parser for sidecar contract files (contracts/*.vc).

Format (indentation based, '#' starts a comment line only at line start after optional blanks):

fn <file> :: <impl key> :: <name>          (or  fn <file> :: <name>  for free functions)
  serves C01 C04
  mode verified|assumed|external|drop
  ret res                                   (name of the return value, default `res`)
  requires
      <verus expression lines, one clause per `requires` directive or comma separated>
  ensures <name>
      <expr>
  loop <k> iter <suffix>                    (E5: text appended to the iterable, e.g. `.iter()`)
  loop <k> ghost                            (statements placed between iterator creation and `loop`)
  loop <k> invariant <name>
  loop <k> ensures <name>
  loop <k> decreases
  loop <k> body_entry                       (placed right after the `next()` binding / at loop-body start)
  loop <k> body_exit
  loop <k> after                            (placed right after the loop)
  entry                                     (function entry)
  exit                                      (function exit: the body's value is bound to the return name, then these ghost statements run)
  at "<source line>" [#n]                   (placed before the n-th (default 1st) line equal to the text)
  after "<source line>" [#n]
  outline <NAME>
      expr: <expression text, matched modulo whitespace>
      sig: <generics>(<params>) -> (<r>: <T>)
      call: <replacement call text>
      requires: ...
      ensures: ...
      tail: <text appended inside the helper body after the outlined text, e.g. the variable a multi-statement outline binds>
      optional: yes   (if the expression is absent nothing is outlined -- and nothing assumed --, the body is verified as it stands)
  extra                                     (raw Verus items emitted after the function's enclosing item)
  attr <attribute text>
end
"""
import re

DIRECTIVES = ('call_ensures', 'tail', 'hook_spec', 'hook_ensures', 'hook_requires', 'nohints', 'closure', 'serves', 'mode', 'ret', 'requires', 'ensures', 'loop', 'entry', 'exit', 'at', 'after', 'outline', 'extra',
              'attr', 'recommends', 'decreases', 'sig', 'nounwind', 'specimpl', 'replace_sig')


class Clause:
    def __init__(self, kind, name, text, loop=None, srcline=0, file=''):
        self.kind = kind
        self.name = name
        self.text = text
        self.loop = loop
        self.srcline = srcline
        self.file = file


class Outline:
    def __init__(self, name):
        self.name = name
        self.fields = {}


class Contract:
    def __init__(self, key, file, line):
        self.key = key
        self.file = file
        self.line = line
        self.serves = []
        self.mode = 'verified'
        self.ret = 'res'
        self.requires = []       # Clause
        self.ensures = []        # Clause
        self.recommends = []
        self.decreases = None
        self.closures = {}       # k -> dict(params=str, ret=str, requires=[Clause], ensures=[Clause])
        self.loops = {}          # k -> dict(iter=str, ghost=[], invariant=[Clause], ensures=[Clause], decreases=str, body_entry=[], body_exit=[], after=[])
        self.entry = []
        self.exit = []           # ghost statements at the normal exit (the value of the body is bound to the return name first)
        self.at = []             # (text, n, stmts, where 'before'|'after')
        self.outlines = []
        self.extra = []
        self.attrs = []
        self.sig = None
        self.used = False
        self.nohints = False
        self.tail = None
        self.call_ensures = []
        self.hook_spec = []
        self.hook_ensures = []
        self.hook_requires = []

    def loop(self, k):
        return self.loops.setdefault(k, dict(iter=None, ghost=[], invariant=[], ensures=[], decreases=None,
                                             body_entry=[], body_exit=[], after=[]))

    def text_hash_material(self):
        parts = [self.key, self.mode]
        for c in self.requires + self.ensures:
            parts.append(c.kind + ':' + c.name + ':' + re.sub(r'\s+', ' ', c.text))
        return '\n'.join(parts)


def parse_sidecar(path):
    contracts = []
    cur = None
    lines = open(path).read().split('\n')
    i = 0
    n = len(lines)

    def block(j):
        """collect body lines (indent >= 4 or blank) starting at j; returns (text, next index)"""
        buf = []
        while j < n:
            ln = lines[j]
            if ln.strip() == '':
                buf.append('')
                j += 1
                continue
            ind = len(ln) - len(ln.lstrip(' '))
            if ind < 4:
                break
            buf.append(ln[4:])
            j += 1
        while buf and buf[-1] == '':
            buf.pop()
        return '\n'.join(buf), j

    while i < n:
        ln = lines[i]
        s = ln.strip()
        if not s or s.startswith('#'):
            i += 1
            continue
        ind = len(ln) - len(ln.lstrip(' '))
        if ind == 0:
            if s.startswith('impl '):
                # `impl <file> :: <impl header>`: items (directive `extra`) emitted INSIDE that impl block
                key = 'impl ' + ' :: '.join(p.strip() for p in s[5:].split(' :: '))
                cur = Contract(key, path, i + 1)
                contracts.append(cur)
                i += 1
                continue
            if s.startswith('fn '):
                key = ' :: '.join(p.strip() for p in s[3:].split(' :: '))
                cur = Contract(key, path, i + 1)
                contracts.append(cur)
                i += 1
                continue
            if s == 'end':
                cur = None
                i += 1
                continue
            raise SyntaxError('%s:%d: unexpected top-level line %r' % (path, i + 1, s))
        if cur is None:
            raise SyntaxError('%s:%d: directive outside fn block' % (path, i + 1))
        if ind != 2:
            raise SyntaxError('%s:%d: bad indentation (directives are indented by 2, bodies by >= 4)' % (path, i + 1))
        m = re.match(r'(\w+)\s*(.*)$', s)
        d, rest = m.group(1), m.group(2).strip()
        if d not in DIRECTIVES:
            raise SyntaxError('%s:%d: unknown directive %r' % (path, i + 1, d))
        here = i + 1
        if d == 'nohints':
            cur.nohints = True
            i += 1
        elif d == 'serves':
            cur.serves = rest.split()
            i += 1
        elif d == 'mode':
            cur.mode = rest
            i += 1
        elif d == 'ret':
            cur.ret = rest
            i += 1
        elif d == 'attr':
            cur.attrs.append(rest)
            i += 1
        elif d == 'sig':
            cur.sig, i = block(i + 1)
        elif d in ('requires', 'ensures', 'recommends'):
            txt, i = block(i + 1)
            name = rest or ('%s%d' % (d[:3], len(getattr(cur, d)) + 1))
            getattr(cur, d).append(Clause(d, name, txt, None, here, path))
        elif d == 'tail':
            mm = re.match(r'"(.*)"\s*$', rest)
            if not mm:
                raise SyntaxError('%s:%d: tail needs the quoted first line of the tail expression' % (path, i + 1))
            txt, i = block(i + 1)
            cur.tail = (mm.group(1), txt)
        elif d == 'hook_spec':
            txt, i = block(i + 1)
            cur.hook_spec.append(txt)
        elif d == 'call_ensures':
            txt, i = block(i + 1)
            cur.call_ensures.append(Clause(d, rest or ('c%d' % (len(cur.call_ensures) + 1)), txt, None, here, path))
        elif d in ('hook_ensures', 'hook_requires'):
            txt, i = block(i + 1)
            getattr(cur, d).append(Clause(d, rest or ('h%d' % (len(getattr(cur, d)) + 1)), txt, None, here, path))
        elif d == 'decreases':
            cur.decreases, i = block(i + 1)
        elif d == 'entry':
            txt, i = block(i + 1)
            cur.entry.append(txt)
        elif d == 'exit':
            txt, i = block(i + 1)
            cur.exit.append(txt)
        elif d in ('at', 'after'):
            mm = re.match(r'"(.*)"\s*(?:#(\d+))?$', rest)
            if not mm:
                raise SyntaxError('%s:%d: at/after needs a quoted source line' % (path, i + 1))
            txt, i = block(i + 1)
            cur.at.append((mm.group(1), int(mm.group(2) or 1), txt, 'before' if d == 'at' else 'after'))
        elif d == 'loop':
            mm = re.match(r'(\d+)\s+(\w+)\s*(.*)$', rest)
            if not mm:
                raise SyntaxError('%s:%d: bad loop directive' % (path, i + 1))
            k, what, arg = int(mm.group(1)), mm.group(2), mm.group(3).strip()
            L = cur.loop(k)
            if what == 'iter':
                L['iter'] = arg
                i += 1
            elif what in ('invariant', 'ensures'):
                txt, i = block(i + 1)
                name = arg or ('%s%d' % (what[:3], len(L[what]) + 1))
                L[what].append(Clause('loop_' + what, name, txt, k, here, path))
            elif what == 'decreases':
                L['decreases'], i = block(i + 1)
            elif what in ('ghost', 'body_entry', 'body_exit', 'after'):
                txt, i = block(i + 1)
                L[what].append(txt)
            else:
                raise SyntaxError('%s:%d: unknown loop directive %r' % (path, i + 1, what))
        elif d == 'closure':
            mm = re.match(r'(\d+)\s+(\w+)\s*(.*)$', rest)
            if not mm:
                raise SyntaxError('%s:%d: bad closure directive' % (path, i + 1))
            k, what, arg = int(mm.group(1)), mm.group(2), mm.group(3).strip()
            K = cur.closures.setdefault(k, dict(params=None, ret=None, requires=[], ensures=[], adaptor=None))
            if what == 'adaptor':
                K['adaptor'] = arg
                i += 1
                continue
            txt, i = block(i + 1)
            if what in ('params', 'ret'):
                K[what] = txt.strip()
            elif what in ('requires', 'ensures'):
                K[what].append(Clause('closure_' + what, arg or ('%s%d' % (what[:3], len(K[what]) + 1)), txt, k, here, path))
            else:
                raise SyntaxError('%s:%d: unknown closure directive %r' % (path, i + 1, what))
        elif d == 'outline':
            o = Outline(rest)
            txt, i = block(i + 1)
            curf = None
            for bl in txt.split('\n'):
                fm = re.match(r"\s*(expr|sig|call|requires|ensures|attr|tail|optional):\s?(.*)$", bl)
                if fm:
                    curf = fm.group(1)
                    o.fields[curf] = fm.group(2)
                elif curf:
                    o.fields[curf] += '\n' + bl
            cur.outlines.append(o)
        elif d == 'extra':
            txt, i = block(i + 1)
            cur.extra.append(txt)
        else:
            raise SyntaxError('%s:%d: unhandled directive %r' % (path, i + 1, d))
    return contracts
