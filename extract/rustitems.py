"""Item-level parsing of (comment-stripped, rustfmt-formatted) Rust source for the extractor."""
import re
from rustlex import (find_block_open, find_matching, find_angle_close, find_depth0, scan_depth0, split_depth0, norm_ws,
                     line_of, read_attr, LexError, skip_literal)

VIS = re.compile(r'pub(\s*\(\s*(crate|super|self|in [\w:]+)\s*\))?\s+')
KIND = re.compile(r'(?:(?:const|async|unsafe|extern\s+"[^"]*")\s+)*(use|mod|struct|enum|union|impl|fn|trait|type|const|static|extern crate|macro_rules!)\b')


class Item:
    def __init__(self, attrs, text, off, src):
        self.attrs = attrs        # list of attribute strings
        self.text = text          # item text without attributes
        self.off = off            # offset of text in file
        self.line = line_of(src, off)
        self.end_line = line_of(src, off + len(text))
        t = text
        m = VIS.match(t)
        self.vis = m.group(0).strip() if m else ''
        rest = t[m.end():] if m else t
        k = KIND.match(rest)
        self.kind = k.group(1) if k else 'other'
        self.name = None
        if self.kind in ('struct', 'enum', 'union', 'fn', 'trait', 'type', 'const', 'static', 'mod'):
            mm = re.match(r'\s*(?:unsafe\s+)?(\w+)', rest[k.end():])
            if mm:
                self.name = mm.group(1)

    def attr_names(self):
        return [a for a in self.attrs]


def split_items(s, start=0, end=None):
    """Split s[start:end] into items (with their leading attributes)."""
    items = []
    i = start
    n = len(s) if end is None else end
    while True:
        while i < n and s[i].isspace():
            i += 1
        if i >= n:
            break
        attrs = []
        while s.startswith('#[', i) or s.startswith('#![', i):
            j = read_attr(s, i)
            attrs.append(s[i:j])
            i = j
            while i < n and s[i].isspace():
                i += 1
        if i >= n:
            break
        # item extends to ';' at depth 0 or to the '}' closing the first '{' at depth 0
        j = i
        endpos = None
        if re.match(r'(?:pub(?:\s*\([^)]*\))?\s+)?use\b', s[i:i + 40]):
            endpos = find_depth0(s, ';', i, n) + 1
            j = n
        while j < n:
            c = s[j]
            if c in '"\'br':
                e = skip_literal(s, j)
                if e is not None:
                    j = e
                    continue
            if c in '([':
                j = find_matching(s, j) + 1
                continue
            if c == '{':
                endpos = find_matching(s, j) + 1
                break
            if c == ';':
                endpos = j + 1
                break
            j += 1
        if endpos is None:
            raise LexError('unterminated item at offset %d: %r' % (i, s[i:i + 60]))
        # a tuple struct / macro with trailing `;` after `}`? (e.g. `struct A {..}` never has; fine)
        items.append(Item(attrs, s[i:endpos], i, s))
        i = endpos
    return items


# ----------------------------------------------------------------------------------------------------
def parse_generics(t, i):
    """t[i] may be '<': return (generics_text_including_brackets, index_after)"""
    j = i
    while j < len(t) and t[j].isspace():
        j += 1
    if j < len(t) and t[j] == '<':
        k = find_angle_close(t, j)
        return t[j:k + 1], k + 1
    return '', i


def generic_args(generics):
    """'<C: Ciphersuite, R: CryptoRng, 'a>' -> '<C, R, 'a>'"""
    if not generics:
        return ''
    inner = generics[1:-1]
    names = []
    for p in split_depth0(inner, ',', angle=True):
        p = p.strip()
        if not p:
            continue
        p = re.sub(r'^const\s+', '', p)
        names.append(re.split(r'[:=\s]', p, 1)[0])
    return '<' + ', '.join(names) + '>'


class FnInfo:
    pass


def parse_fn(text):
    """Parse a fn item text (attributes removed).  Returns FnInfo with spans relative to text."""
    f = FnInfo()
    m = re.search(r'\bfn\s+(\w+)', text)
    f.name = m.group(1)
    f.prefix = text[:m.start()]            # visibility, const, etc.
    f.generics, i = parse_generics(text, m.end())
    while text[i].isspace():
        i += 1
    assert text[i] == '(', text[:80]
    pe = find_matching(text, i)
    f.params = text[i + 1:pe]
    f.params_span = (i, pe + 1)
    # body start: first '{' at depth 0 after params (or ';' for declarations)
    body = find_block_open(text, pe + 1)
    if body < 0:
        body = None
    else:
        semi = find_depth0(text, ';', pe + 1, body)
        if semi >= 0:
            body = None
    f.has_body = body is not None
    sig_end = body if body is not None else text.rindex(';')
    tail = text[pe + 1:sig_end]
    # return type and where clause
    w = find_depth0(tail, 'where', angle=True, word=True)
    f.where = tail[w:].strip() if w >= 0 else ''
    rt = tail[:w] if w >= 0 else tail
    a = rt.find('->')
    f.ret = rt[a + 2:].strip() if a >= 0 else ''
    f.body_span = (body, find_matching(text, body) + 1) if body is not None else None
    f.body = text[body:f.body_span[1]] if body is not None else None
    return f


class ImplInfo:
    pass


def parse_impl(text):
    im = ImplInfo()
    m = re.match(r'\s*(unsafe\s+)?impl\b', text)
    im.generics, i = parse_generics(text, m.end())
    b = find_block_open(text, i)
    hdr = text[i:b]
    w = find_depth0(hdr, 'where', angle=True, word=True)
    im.where = hdr[w:].strip() if w >= 0 else ''
    head = hdr[:w] if w >= 0 else hdr
    f = find_depth0(head, ' for ', angle=True)
    if f >= 0:
        im.trait = norm_ws(head[:f])
        im.ty = norm_ws(head[f + 5:])
    else:
        im.trait = None
        im.ty = norm_ws(head)
    im.body_span = (b, find_matching(text, b) + 1)
    im.items = split_items(text, b + 1, im.body_span[1] - 1)
    im.key = (im.trait + ' for ' + im.ty) if im.trait else im.ty
    return im


class Field:
    pass


class StructInfo:
    pass


def parse_struct(text):
    st = StructInfo()
    m = re.search(r'\bstruct\s+(\w+)', text)
    st.name = m.group(1)
    st.generics, i = parse_generics(text, m.end())
    rest = text[i:]
    st.fields = []
    st.where = ''
    # tuple struct: '(' comes before any '{' / ';'
    j = 0
    while rest[j].isspace():
        j += 1
    if rest[j] == '(':
        st.tuple = True
        e = find_matching(rest, j)
        body = rest[j + 1:e]
        tail = rest[e + 1:]
        w = find_depth0(tail, 'where', angle=True, word=True)
        if w >= 0:
            st.where = tail[w:].rstrip().rstrip(';').strip()
        raw = split_depth0(body, ',', angle=True)
    elif rest[j] == ';':
        st.tuple = True
        raw = []
    else:
        st.tuple = False
        b = find_block_open(rest)
        hdr = rest[:b]
        w = find_depth0(hdr, 'where', angle=True, word=True)
        if w >= 0:
            st.where = hdr[w:].strip()
        e = find_matching(rest, b)
        raw = split_depth0(rest[b + 1:e], ',', angle=True)
    idx = 0
    for r in raw:
        r = r.strip()
        if not r:
            continue
        fl = Field()
        fl.attrs = []
        while r.startswith('#['):
            k = read_attr(r, 0)
            fl.attrs.append(r[:k])
            r = r[k:].lstrip()
        vm = VIS.match(r)
        fl.vis = vm.group(0).strip() if vm else ''
        if vm:
            r = r[vm.end():]
        if st.tuple:
            fl.name = str(idx)
            fl.ty = norm_ws(r)
        else:
            nm, ty = r.split(':', 1)
            fl.name = nm.strip()
            fl.ty = norm_ws(ty)
        idx += 1
        st.fields.append(fl)
    return st


def strip_inner_attrs(text, keep=lambda a: False, drop_cfg=lambda a: False):
    """Remove attributes inside an item body.  An attribute for which drop_cfg(attr) is true removes the
    whole following element (field / variant / statement / item) as well."""
    out = []
    i = 0
    n = len(text)
    while i < n:
        c = text[i]
        if c in '"\'br':
            e = skip_literal(text, i)
            if e is not None:
                out.append(text[i:e])
                i = e
                continue
        if c == '#' and (text.startswith('#[', i) or text.startswith('#![', i)):
            j = read_attr(text, i)
            a = text[i:j]
            i = j
            if drop_cfg(a):
                # skip further attributes, then the element
                while True:
                    while i < n and text[i].isspace():
                        i += 1
                    if text.startswith('#[', i):
                        i = read_attr(text, i)
                        continue
                    break
                while i < n:
                    ch = text[i]
                    if ch in '"\'br':
                        e = skip_literal(text, i)
                        if e is not None:
                            i = e
                            continue
                    if ch in '([':
                        i = find_matching(text, i) + 1
                        continue
                    if ch == '{':
                        i = find_matching(text, i) + 1
                        break
                    if ch in ';,':
                        i += 1
                        break
                    if ch == '}':
                        break
                    i += 1
                continue
            if keep(a):
                out.append(a)
            continue
        out.append(c)
        i += 1
    return ''.join(out)
