#!/usr/bin/env python3
"""Mechanical extractor: /repo sources  ->  one self-contained Verus file per unit (DESIGN.md section 2.1).

The source text of every function is copied byte-for-byte; only the rules E0..E11 alter anything, and every
application is counted (`meta['rules']`) and attributed to the function it touched (`meta['functions']`).
"""
import hashlib
import json
import os
import re
import sys

sys.path.insert(0, os.path.dirname(os.path.abspath(__file__)))
from rustlex import (find_block_open, strip_comments, find_matching, find_depth0, scan_depth0, split_depth0, norm_ws, line_of,
                     skip_literal, LexError)
from rustitems import (split_items, parse_fn, parse_impl, parse_struct, strip_inner_attrs, generic_args, Item)
import sidecar
from sidecar import parse_sidecar, Contract


class ExtractError(Exception):
    """Lost anchor / construct outside the rules: the caller turns this into exit code 2 (undecided)."""


def sha(t):
    return hashlib.sha256(t.encode()).hexdigest()[:16]


def lemma_canary(text):
    """vacuity guard for the lemma library: inject `assert(false);` at the start of the body of every `proof fn` that has one
    (axioms and trait declarations have none).  Every such proof fn must then FAIL (dev/canary.py --lemmas)."""
    out = []
    i = 0
    orig = text
    text = strip_comments(text)          # same offsets, comments blanked
    for m in re.finditer(r'\bproof\s+fn\s+(\w+)', text):
        if m.start() < i:
            continue
        # find the end of the signature: the first `{` or `;` at depth 0 after the parameter list
        j = text.find('(', m.end())
        if j < 0:
            continue
        try:
            k = find_matching(text, j)
        except Exception:
            continue
        depth = 0
        p = k + 1
        body = -1
        while p < len(text):
            ch = text[p]
            if ch in '([':
                depth += 1
            elif ch in ')]':
                depth -= 1
            elif ch == ';' and depth == 0:
                break
            elif ch == '{' and depth == 0:
                # a `{` that opens the body: preceded by the end of requires/ensures/decreases or the signature, not by `==>`/`by`/`implies`
                pre = text[max(0, p - 300):p].rstrip()
                if re.search(r'(\bmatch\s+[^{};]*|\bif\s+[^{};]*|\belse)$', pre):
                    q = find_matching(text, p)
                    p = q + 1
                    continue
                body = p
                break
            p += 1
        if body < 0:
            continue
        out.append(orig[i:body + 1] + ' assert(false); /*@LCANARY %s*/ ' % m.group(1))
        i = body + 1
    out.append(orig[i:])
    return ''.join(out)


def norm_sha(t):
    """hash of source text modulo comments and white space (trusted-text lock: assumed functions, files outside the units)"""
    return sha(re.sub(r'\s+', ' ', strip_comments(t)).strip())


DROP_TRAIT_IMPLS = re.compile(
    r'^(?:core::fmt::|fmt::)?Debug$|^FromHex$|^(?:core::hash::)?Hash$|^Zeroize$|^ZeroizeOnDrop$|^DefaultIsZeroes$|^Drop$'
    r'|^serde::|^Serialize<|^Deserialize<|^(?:serde::)?(?:Serialize|Deserialize)\b')
DEBUG_TRAIT = re.compile(r'^(?:core::fmt::|fmt::)?Debug$')
ZEROIZE_TRAIT = re.compile(r'^(?:Zeroize|Drop)$')

DEFAULT_ENTRY_HINTS = 'broadcast use crate::vstdx::group_cow;\nproof { crate::vspec::use_algebra::<C>(); crate::vspec::use_id_order::<C>(); }\n'

STD_USE = ('#[allow(unused_imports)] use vstd::prelude::*; #[allow(unused_imports)] use crate::vprel::*; '
           '#[allow(unused_imports)] use crate::vspec::*;')

# one glob-importable module with everything the dropped external `use` lines provided (rule E0)
VPREL = '''pub mod vprel {
    pub use vstd::std_specs::ops::*; pub use vstd::std_specs::cmp::*; pub use vstd::std_specs::iter::IteratorSpec;
    pub use vstd::std_specs::btree::*; pub use vstd::std_specs::convert::*;
    pub use std::collections::{BTreeMap, BTreeSet}; pub use std::vec::Vec; pub use core::ops::{Add, Mul, Sub};
    pub use std::borrow::Cow; pub use core::marker::PhantomData; pub use core::iter; pub use core::fmt::{self, Debug};
    pub use std::string::ToString; pub use crate::vstdx::*; pub use crate::traits::{CryptoRng, Bytes};
    // type names used by contracts (glob imports never conflict with a module's own explicit imports)
    pub use crate::traits::{Ciphersuite, Field, Group, Scalar, Element};
    pub use crate::serialization::{SerializableElement, SerializableScalar};
    pub use crate::{Header, Identifier, Error, FieldError, GroupError, Signature, SigningKey, VerifyingKey, Challenge, BindingFactor,
                    BindingFactorList, SigningPackage, GroupCommitment, CheaterDetection};
    pub use crate::keys::{SigningShare, VerifyingShare, CoefficientCommitment, VerifiableSecretSharingCommitment, SecretShare,
                          KeyPackage, PublicKeyPackage, IdentifierList};
    pub use crate::round1::{Nonce, NonceCommitment, SigningNonces, SigningCommitments, GroupCommitmentShare};
    pub use crate::round2::SignatureShare;
    pub use crate::keys::repairable::{Delta, Sigma};
}
'''



class Unit:
    def __init__(self, cfg, contracts):
        self.cfg = cfg
        self.contracts = {c.key: c for c in contracts}
        self.rules = {}            # rule -> count
        self.functions = []        # per-function metadata
        self.dropped = []          # dropped items (file, line, what, why)
        self.local_mods = set(m[0].split('::')[0] for m in cfg['modules'] if m[0]) | set(cfg.get('prelude_modules', {}).keys())
        self.mod_opts = {}         # options of the module being processed (see `module_entry`)
        self.types = {}
        self.downgraded = set()    # keys emitted `assumed` here although their sidecar block says `verified` (E9)
        # cfg['strip_clauses'] = {function key: [clause names] | '*'}: clauses that do not hold in this unit's world are NOT emitted (the
        # function stays verified against the rest; callers learn nothing from a stripped clause).  '*' removes the whole block.
        # cfg['force_assumed'] = [key regex]: functions verified in ANOTHER unit against the identical (world-independent) contract and only
        # assumed here (E9), because their body cannot be compiled in this unit
        for k, c in self.contracts.items():
            if any(re.search(rx, k) for rx in cfg.get('force_assumed', ())):
                c.mode = 'assumed'
                c.outlines = []
        for k, names in cfg.get('strip_clauses', {}).items():
            c = self.contracts.get(k)
            if c is None:
                raise ExtractError('strip_clauses: no sidecar block for %s' % k)
            if getattr(c, 'overrides', None):
                continue      # the unit's own override block is taken as written
            if names == '*':
                c.used = True
                del self.contracts[k]
                continue
            have = set(cl.name for cl in c.ensures)
            for nm in names:
                if nm not in have:
                    raise ExtractError('strip_clauses: %s has no ensures clause %r' % (k, nm))
            c.ensures = [cl for cl in c.ensures if cl.name not in names]
            c.stripped = list(names)

    def rule(self, name, n=1):
        self.rules[name] = self.rules.get(name, 0) + n

    def read_verif_file(self, rel):
        """a hand-written prelude/lemma file, with the unit's `prelude_rewrites` [(file, old, new)] applied (exact text, each must
        match exactly once: fail closed)"""
        txt = open(os.path.join(self.cfg['verif_root'], rel)).read()
        for rw in self.cfg.get('prelude_rewrites', ()):
            f, old, new = rw[:3]
            want = rw[3] if len(rw) > 3 else 1
            if f == rel:
                if txt.count(old) != want:
                    raise ExtractError('prelude rewrite of %s: text %r occurs %d times (expected %d)' % (rel, old[:60], txt.count(old), want))
                txt = txt.replace(old, new)
                self.rule('E14.prelude_rewrite')
        return txt

    # ------------------------------------------------------------------------------------------
    def cfg_dropped(self, attrs):
        for a in attrs:
            if re.match(r'#\[cfg\(', a):
                m = re.match(r'#\[cfg\(\s*feature\s*=\s*"([\w-]+)"\s*\)\]$', norm_ws(a))
                if m and m.group(1) in self.cfg.get('features', ()):
                    continue      # the unit is built with this cargo feature of the crate enabled (e.g. `internals`, which the Taproot crate needs)
                return a
            if re.match(r'#\[macro_use', a):
                return a
        return None

    def keep_use(self, text):
        m = re.match(r'(?:pub(?:\([^)]*\))?\s+)?use\s+(?:::)?([\w]+)', text)
        if not m:
            return False
        first = m.group(1)
        if first in ('crate', 'super', 'self'):
            return True
        return first in self.local_mods

    # ------------------------------------------------------------------------------------------
    @staticmethod
    def module_entry(m):
        """A `modules` entry is `(modpath, file)` (file relative to cfg['root'], keys prefixed by cfg['repo_prefix']) or
        `(modpath, file, opts)` for a module taken from ANOTHER crate root: opts = dict(root=<dir>, repo_prefix=<repo-relative dir>,
        path_rewrites=[(regex, replacement), ...]).  The rewrites (rule E0.path_rewrite, counted) are applied to the comment-stripped
        text of that file before it is split into items; they exist to re-root paths of a dependency that is flattened into the
        same Verus crate (`frost_core::` -> `crate::`)."""
        return (m[0], m[1], (m[2] if len(m) > 2 else {}))

    def read_module(self, relpath, opts):
        path = os.path.join(opts.get('root', self.cfg['root']), relpath)
        src = strip_comments(open(path).read())
        for pat, repl in opts.get('path_rewrites', ()):
            src, n = re.subn(pat, repl, src)
            if n:
                self.rule('E0.path_rewrite', n)
        return src

    def is_foreign(self):
        """the module being processed comes from another crate root than the unit's own crate"""
        return self.mod_opts.get('repo_prefix', self.cfg['repo_prefix']) != self.cfg['repo_prefix']

    def process_file(self, relpath, modpath, opts=None):
        self.mod_opts = opts or {}
        # module opts `use` / `entry_hints`: the `use` header and the injected entry hints of this module (a module of another crate that
        # defines its own `Identifier`, `Error`, ... aliases cannot glob-import the contract vocabulary)
        self.std_use = self.mod_opts.get('use', STD_USE)
        self.entry_hints = self.mod_opts.get('entry_hints', DEFAULT_ENTRY_HINTS)
        raw = src = self.read_module(relpath, self.mod_opts)
        # inner attributes / module docs at file top
        items = split_items(src)
        return self.process_items(items, src, raw, relpath, modpath)

    def process_items(self, items, src, raw, relpath, modpath):
        """Returns (verus_text, plain_text): items placed inside `verus!{}` and plain-Rust items."""
        V = []   # inside verus!
        P = []   # outside
        repo_rel = os.path.join(self.mod_opts.get('repo_prefix', self.cfg['repo_prefix']), relpath)
        for it in items:
            why = self.cfg_dropped(it.attrs)
            if why:
                self.rule('E1.cfg_item_dropped')
                self.dropped.append((repo_rel, it.line, norm_ws(it.text)[:70], norm_ws(why)))
                continue
            if any(a.startswith('#![') for a in it.attrs):
                # crate-level inner attributes glued to the first item: ignore the attributes only
                pass
            k = it.kind
            if k == 'use':
                if self.keep_use(it.text):
                    t = re.sub(r'^pub\([^)]*\)', 'pub', it.text)
                    P.append('#[allow(unused_imports)] ' + t)
                else:
                    self.rule('E0.external_use_dropped')
                continue
            if k == 'extern crate':
                self.rule('E0.external_use_dropped')
                continue
            if k == 'mod':
                if it.text.rstrip().endswith(';'):
                    continue      # file modules are laid out by the unit configuration
                b = find_block_open(it.text)
                e = find_matching(it.text, b)
                inner_items = split_items(it.text, b + 1, e)
                # offsets of inner items are relative to it.text; fix their line numbers
                for ii in inner_items:
                    ii.line = it.line + it.text.count('\n', 0, ii.off)
                    ii.end_line = ii.line + ii.text.count('\n')
                sub_mod = (modpath + '::' if modpath else '') + it.name
                self.inline_mods = getattr(self, 'inline_mods', []) + [it.name]
                v, p = self.process_items(inner_items, it.text, raw, relpath, sub_mod)
                self.inline_mods = self.inline_mods[:-1]
                V.append('} // verus!\npub mod %s {\n%s\nverus! {\n%s\n} // verus!\n%s\n} // mod %s\nverus! {' % (it.name, self.std_use, v, p, it.name))
                continue
            if k in ('struct', 'enum'):
                # the full text of a type definition INCLUDING its attributes (derives, serde / zeroize / getter field attributes, which rules
                # E1/E2 drop or replace by their documented expansion) is recorded so that a changed attribute is noticed (driver: type lock)
                self.types[repo_rel + ' :: ' + (modpath + '::' if modpath else '') + str(it.name)] = norm_sha(' '.join(it.attrs) + ' ' + it.text)
                v, p = self.process_type(it, repo_rel, modpath)
                V.append(v)
                P.append(p)
                continue
            if k == 'impl':
                v, p = self.process_impl(it, repo_rel, modpath)
                V.append(v)
                P.append(p)
                continue
            if k == 'fn':
                v, p, extra = self.process_fn(it, None, repo_rel, modpath)
                V.append(v)
                V.append(extra)
                P.append(p)
                continue
            if k in ('const', 'static', 'type'):
                V.append(re.sub(r'^pub\([^)]*\)', 'pub', it.text))
                continue
            if k == 'trait':
                V.append(self.process_trait(it, repo_rel, modpath))
                continue
            self.dropped.append((repo_rel, it.line, norm_ws(it.text)[:70], 'unclassified item'))
            self.rule('E1.other_item_dropped')
        return '\n'.join(x for x in V if x), '\n'.join(x for x in P if x)

    # ------------------------------------------------------------------------------------------
    def process_trait(self, it, repo_rel, modpath):
        """E14: a trait definition outside the prelude whose methods have NO default bodies is emitted as it stands (made `pub`, E3).
        A sidecar block `fn <file> :: trait <Name> :: <method>` may give the method declaration a contract (`requires`/`ensures`) and
        trait-level spec functions (`hook_spec`); such a contract is an ASSUMPTION about every implementation outside the unit and
        an obligation for every impl inside it (Verus checks impls against the trait contract).  Default bodies are refused."""
        b = find_block_open(it.text)
        e = find_matching(it.text, b)
        hdr = it.text[:b].strip()
        if not re.match(r'pub\b', hdr):
            hdr = 'pub ' + hdr
        out = []
        for sub in split_items(it.text, b + 1, e):
            sub.line = it.line + it.text.count('\n', 0, sub.off)
            sub.end_line = sub.line + sub.text.count('\n')
            if self.cfg_dropped(sub.attrs):
                self.rule('E1.cfg_item_dropped')
                self.dropped.append((repo_rel, sub.line, it.name + ' :: ' + norm_ws(sub.text)[:50], 'cfg'))
                continue
            if sub.kind != 'fn':
                out.append('    ' + sub.text)
                continue
            f = parse_fn(sub.text)
            if f.has_body:
                raise ExtractError('%s:%d: trait %s: default method body outside the prelude is not covered by the rules' % (repo_rel, sub.line, it.name))
            key = '%s :: trait %s :: %s' % (repo_rel, it.name, f.name)
            c = self.contracts.get(key)
            ctext = ''
            retname = 'res'
            if c is not None:
                c.used = True
                retname = c.ret
                for hs in c.hook_spec:
                    out.append('    ' + hs.strip())
                ctext = self.contract_text(c)
            ret = (' -> (%s: %s)' % (retname, f.ret)) if f.ret else ''
            where = ('\n    ' + f.where) if f.where else ''
            vname = '::'.join([x for x in [self.cfg.get('crate_name', 'unit'), modpath] if x]) + '::' + it.name + '::' + f.name
            self.functions.append(dict(key=key, verus_name=vname, file=repo_rel, lines=[sub.line, sub.end_line], sha256_source=sha(sub.text),
                                       sha256_emitted=sha(sub.text), mode='assumed' if c is not None else 'declared', serves=(c.serves if c else []),
                                       rules=['E14'], contract_file=(os.path.relpath(c.file, self.cfg['verif_root']) if c else None)))
            out.append('    /*@FN %s*/\n    %sfn %s%s(%s)%s%s%s;\n    /*@ENDFN*/' % (key, re.sub(r'\bfn\s*$', '', f.prefix), f.name, f.generics, f.params, ret, where, ctext))
            self.rule('E14.trait_declaration')
        return hdr + ' {\n' + '\n'.join(out) + '\n}'

    # ------------------------------------------------------------------------------------------
    def derives(self, attrs):
        ds = []
        for a in attrs:
            m = re.match(r'#\[derive\((.*)\)\]$', a, re.S)
            if m:
                ds += [d.strip() for d in m.group(1).split(',') if d.strip()]
        return ds

    def process_type(self, it, repo_rel, modpath):
        ds = self.derives(it.attrs)
        P = []
        V = []
        text = it.text

        def drop_cfg(a):
            return bool(re.match(r'#\[cfg\(', a))
        if it.kind == 'enum':
            body = strip_inner_attrs(text, drop_cfg=drop_cfg)
            body = re.sub(r'^pub\([^)]*\)', 'pub', body)
            if not body.startswith('pub'):
                body = 'pub ' + body
            keep = [d for d in ds if d in ('Clone', 'Copy')]
            self.rule('E2.derive_filtered')
            V.append(('#[derive(%s)]\n' % ', '.join(keep) if keep else '') + body)
            # thiserror #[from] -> From impls
            for m in re.finditer(r'(\w+)\s*\(\s*#\[from\]\s*([\w:<>]+)\s*\)', text):
                var, ty = m.group(1), m.group(2)
                hdr = re.search(r'enum\s+(\w+)\s*(<[^{]*>)?', text)
                gen = hdr.group(2) or ''
                args = generic_args(gen)
                V.append('impl%s From<%s> for %s%s { fn from(e: %s) -> (r: Self) { %s::%s(e) } }' % (gen, ty, it.name, args, ty, it.name, var))
                V.append('impl%s FromSpecImpl<%s> for %s%s { open spec fn obeys_from_spec() -> bool { true } open spec fn from_spec(e: %s) -> Self { %s::%s(e) } }'
                         % (gen, ty, it.name, args, ty, it.name, var))
                self.rule('E2.thiserror_from')
            if 'Debug' in ds:
                P.append(self.debug_stub(it.name, re.search(r'enum\s+\w+\s*(<[^{]*?>)?\s*(?:\{|where)', text).group(1) or '', ''))
            return '\n'.join(V), '\n'.join(P)
        st = parse_struct(text)
        gen = st.generics
        args = generic_args(gen)
        where = (' ' + st.where) if st.where else ''
        # E3: all fields public; field attributes stripped (E1)
        if st.tuple:
            fields = ', '.join('pub ' + f.ty for f in st.fields)
            decl = 'pub struct %s%s(%s)%s;' % (st.name, gen, fields, where)
        else:
            fields = '\n'.join('    pub %s: %s,' % (f.name, f.ty) for f in st.fields)
            decl = 'pub struct %s%s%s {\n%s\n}' % (st.name, gen, where, fields)
        self.rule('E3.visibility')
        keep = []
        if 'Copy' in ds:
            keep.append('Copy')
        clone_manual = False
        clone_assumed = False
        if 'Clone' in ds:
            if 'Copy' in ds:
                clone_manual = True
            else:
                clone_assumed = True
        V.append(('#[derive(%s)]\n' % ', '.join(keep) if keep else '') + decl)
        if clone_manual:
            V.append('impl%s Clone for %s%s%s { fn clone(&self) -> (r: Self) ensures r == *self { *self } }' % (gen, st.name, args, where))
            self.rule('E2.clone_of_copy')
        if clone_assumed:
            # Verus attaches no specification to a derived Clone of a non-Copy type: the derive's documented expansion
            # (field-wise clone) is emitted with the assumed postcondition `r == *self` (trusted base: derived Clone)
            if st.tuple:
                bodyc = 'Self(' + ', '.join('self.%s.clone()' % f.name for f in st.fields) + ')'
            else:
                bodyc = 'Self { ' + ', '.join('%s: self.%s.clone()' % (f.name, f.name) for f in st.fields) + ' }'
            V.append('impl%s Clone for %s%s%s { #[verifier::external_body] fn clone(&self) -> (r: Self) ensures r == *self { %s } }' % (gen, st.name, args, where, bodyc))
            self.rule('E2.clone_derived_assumed')
        if 'PartialEq' in ds:
            cmpf = [f for f in st.fields if f.ty != '()' and not f.ty.startswith('PhantomData')]
            has_eq = True
            acc = lambda f, o: ('%s.%s' % (o, f.name))
            if st.name in self.noeq:
                # no spec can be attached (vstd gives none for containers): kept only so that the crate compiles
                ex = ' && '.join('%s == %s' % (acc(f, 'self'), acc(f, 'other')) for f in cmpf) or 'true'
                V.append('impl%s PartialEqSpecImpl for %s%s%s { open spec fn obeys_eq_spec() -> bool { false } open spec fn eq_spec(&self, other: &Self) -> bool { true } }'
                         % (gen, st.name, args, where))
                V.append('impl%s PartialEq for %s%s%s { #[verifier::external_body] fn eq(&self, other: &Self) -> (r: bool) { %s } }' % (gen, st.name, args, where, ex))
                self.rule('E2.partialeq_unspecified_container')
            else:
                acc = lambda f, o: ('%s.%s' % (o, f.name))
                spec = ' && '.join('PartialEqSpec::eq_spec(&%s, &%s)' % (acc(f, 'self'), acc(f, 'other')) for f in cmpf) or 'true'
                ex = ' && '.join('%s == %s' % (acc(f, 'self'), acc(f, 'other')) for f in cmpf) or 'true'
                hint = 'proof { crate::vspec::use_algebra::<C>(); } ' if re.search(r'\bC\b', gen) else ''
                V.append('impl%s PartialEqSpecImpl for %s%s%s { open spec fn obeys_eq_spec() -> bool { true } open spec fn eq_spec(&self, other: &Self) -> bool { %s } }'
                         % (gen, st.name, args, where, spec))
                V.append('impl%s PartialEq for %s%s%s { fn eq(&self, other: &Self) -> (r: bool) { %s%s } }' % (gen, st.name, args, where, hint, ex))
                self.rule('E2.partialeq_explicit')
            if 'Eq' in ds and has_eq:
                V.append('impl%s Eq for %s%s%s {}' % (gen, st.name, args, where))
        if 'Debug' in ds:
            P.append(self.debug_stub(st.name, gen, where))
        if 'Getters' in ds:
            gs = []
            for f in st.fields:
                fa = ' '.join(f.attrs)
                if re.search(r'getter\(\s*skip\s*\)', fa):
                    continue
                if re.search(r'getter\(\s*copy\s*\)', fa):
                    gs.append('    pub fn %s(&self) -> (r: %s) ensures r == self.%s { self.%s }' % (f.name, f.ty, f.name, f.name))
                else:
                    gs.append('    pub fn %s(&self) -> (r: &%s) ensures *r == self.%s { &self.%s }' % (f.name, f.ty, f.name, f.name))
                self.rule('E4.getter')
            if gs:
                V.append('impl%s %s%s%s {\n%s\n}' % (gen, st.name, args, where, '\n'.join(gs)))
        for d in ds:
            if d not in ('Clone', 'Copy', 'PartialEq', 'Eq', 'Debug', 'Getters'):
                self.rule('E2.derive_dropped.' + d)
        return '\n'.join(V), '\n'.join(P)

    def debug_stub(self, name, gen, where):
        self.rule('E2.debug_stub')
        return ('impl%s core::fmt::Debug for %s%s%s { fn fmt(&self, _f: &mut core::fmt::Formatter<\'_>) -> core::fmt::Result { Ok(()) } }'
                % (gen, name, generic_args(gen), (' ' + where) if where and not where.startswith(' ') else where))

    # ------------------------------------------------------------------------------------------
    def process_impl(self, it, repo_rel, modpath):
        im = parse_impl(it.text)
        where = (' ' + im.where) if im.where else ''
        if im.trait and DEBUG_TRAIT.match(im.trait):
            return '', self.debug_stub(im.ty.split('<')[0], im.generics, im.where) if False else self._debug_stub_for(im)
        if im.trait and (DROP_TRAIT_IMPLS.search(im.trait) or any(re.search(rx, im.trait) for rx in self.cfg.get('drop_trait_impls', ()))):
            self.rule('E2.trait_impl_dropped.' + re.sub(r'\W.*', '', im.trait.split('::')[-1]))
            self.dropped.append((repo_rel, it.line, 'impl ' + im.key, 'trait impl outside the Verus unit'))
            return '', ''
        V = []
        P = []
        X = []
        # sidecar `impl <file> :: <impl header>` block: items the prelude trait requires on top of the repo's methods (definitions of the
        # trait's spec functions, the T3 axioms as external_body proof fns)
        ic = self.contracts.get('impl ' + repo_rel + ' :: ' + im.key)
        if ic is not None:
            ic.used = True
            V.append('\n'.join(ic.extra))
            self.rule('E11.impl_spec_items')
        if im.trait == 'Ciphersuite' and self.is_foreign():
            return self.process_ciphersuite_impl(it, im, repo_rel, modpath, V)
        for sub in im.items:
            why = self.cfg_dropped(sub.attrs)
            if why:
                self.rule('E1.cfg_item_dropped')
                self.dropped.append((repo_rel, it.line, im.key + ' :: ' + norm_ws(sub.text)[:50], norm_ws(why)))
                continue
            sub.line = it.line + it.text.count('\n', 0, sub.off)
            sub.end_line = sub.line + sub.text.count('\n')
            if sub.kind == 'fn':
                v, p, extra = self.process_fn(sub, im, repo_rel, modpath)
                if v:
                    V.append(v)
                if p:
                    P.append(p)
                if extra:
                    X.append(extra)
            else:
                t = sub.text
                if not im.trait:
                    t = re.sub(r'^pub\([^)]*\)', 'pub', t)
                V.append(t)
        hdr = 'impl%s %s%s' % (im.generics, im.key, where)
        out_v = ''
        out_p = ''
        if V or (im.trait and not P):
            out_v = hdr + ' {\n' + '\n'.join(V) + '\n}'
        if P:
            if im.trait and V:
                raise ExtractError('%s:%d: trait impl `%s` mixes external and verified methods' % (repo_rel, it.line, im.key))
            out_p = hdr + ' {\n' + '\n'.join(P) + '\n}'
        if X:
            out_v += '\n' + '\n'.join(X)
        return out_v, out_p

    def qualify_trait_names(self, t):
        """type names in a signature copied from the prelude trait -> crate-absolute paths (the suite's module has other names in scope).
        The table is read from the `use crate::{..}` block of the prelude traits file."""
        tab = getattr(self, '_trait_names', None)
        if tab is None:
            tab = {}
            src = open(os.path.join(self.cfg['verif_root'], self.cfg['traits_prelude'])).read()
            m = re.search(r'use crate::\{(.*?)\n\};', src, re.S)

            def walk(txt, prefix):
                for part in split_depth0(txt, ',', angle=False):
                    part = part.strip()
                    if not part:
                        continue
                    g = re.match(r'([\w:]+)::\{(.*)\}$', part, re.S)
                    if g:
                        walk(g.group(2), prefix + '::' + g.group(1))
                    elif part == 'self':
                        tab[prefix.split('::')[-1]] = prefix
                    else:
                        tab[part.split('::')[-1]] = prefix + '::' + part
            if m:
                walk(m.group(1), 'crate')
            self._trait_names = tab
        for nm, full in tab.items():
            t = re.sub(r'(?<![\w:])%s\b' % nm, full, t)
        return t

    @staticmethod
    def param_names(params):
        out = []
        for prm in split_depth0(params, ',', angle=True):
            prm = prm.strip()
            if prm:
                out.append(re.sub(r'^mut\s+', '', prm.split(':')[0].strip()))
        return out

    def process_ciphersuite_impl(self, it, im, repo_rel, modpath, V):
        """E10b: `impl Ciphersuite for X` of a concrete suite.  Verus rejects a trait-impl method that calls a function generic over
        the trait at the implementing type ("cyclic self-reference": method -> f::<X> -> impl -> method), which every hook does.  So,
        as for the default bodies (E10), each method body is emitted as a free function `hook_<name>` (text unchanged except
        `Self` -> X) and VERIFIED there against (i) the trait-level contract of the hook (`hook_ensures` and `call_ensures` of
        contracts/hooks.vc with Self -> X, parameters renamed positionally) and (ii) its own sidecar block; the impl method is the
        delegation `{ hook_<name>(args) }` (external_body: its inherited trait contract is exactly what was verified).  A hook the suite
        does not override gets the body `default_<name>::<X>(args)` -- the meaning of "not overridden" -- and is verified the same way, so
        the impl-level definitions of the trait spec functions are CHECKED against the behaviour for every hook.  `const ID` is dropped
        (the prelude trait omits it: only serde code uses it)."""
        ty = im.ty

        def deself(t):
            t = re.sub(r'\bSelf\s*::\s*(Group|HashOutput|SignatureSerialization)\b', r'<%s as Ciphersuite>::\1' % ty, t)
            return re.sub(r'\bSelf\b', ty, t)
        F = []
        have = set()
        subs = []
        for sub in im.items:
            why = self.cfg_dropped(sub.attrs)
            if why:
                self.rule('E1.cfg_item_dropped')
                continue
            sub.line = it.line + it.text.count('\n', 0, sub.off)
            sub.end_line = sub.line + sub.text.count('\n')
            if sub.kind == 'const' and sub.name == 'ID':
                self.rule('E11.const_id_dropped')
                continue
            if sub.kind != 'fn':
                V.append(sub.text)
                continue
            subs.append(sub)
            have.add(sub.name)
        hook_info = getattr(self, 'hook_info', {})
        for name, h in hook_info.items():
            if name in have:
                continue
            args = ', '.join(self.param_names(h['params']))
            ntp = len([g for g in (h['generics'][1:-1].split(',') if h['generics'] else []) if g.strip() and not g.strip().startswith("'")])
            text = 'fn %s%s(%s)%s %s {\n    crate::traits_defaults::default_%s::<Self%s>(%s)\n}' % (
                name, h['generics'], self.qualify_trait_names(h['params']), (' -> ' + self.qualify_trait_names(h['ret'])) if h['ret'] else '',
                self.qualify_trait_names(h['where']), name, ', _' * ntp, args)
            sub = Item([], text, 0, text)
            sub.line, sub.end_line = it.line, it.line
            sub.synth = True
            subs.append(sub)
            self.rule('E10b.hook_not_overridden_uses_default')
        for sub in subs:
            f = parse_fn(sub.text)
            key = repo_rel + ' :: ' + im.key + ' :: ' + f.name
            h = hook_info.get(f.name)
            inject = []
            if h and h['contract'] is not None:
                hc = h['contract']
                ren = dict(zip(self.param_names(h['params']), self.param_names(f.params)))

                def adapt(t):
                    t = deself(self.qualify_trait_names(t))
                    for a, b in ren.items():
                        if a != b:
                            t = re.sub(r'(?<![\w.])%s\b' % re.escape(a), b, t)
                    return t
                for cl in hc.hook_requires + hc.hook_ensures + hc.call_ensures:
                    inject.append((cl.kind, cl.name, adapt(cl.text)))
            free = Item(sub.attrs, deself(re.sub(r'\bfn\s+%s\b' % f.name, 'fn hook_%s' % f.name, sub.text, 1)), sub.off, sub.text)
            free.line, free.end_line = sub.line, sub.end_line
            v, p, extra = self.process_fn(free, None, repo_rel, modpath, key=key, inject=inject, src_text=sub.text)
            F.append(v)
            if extra:
                F.append(extra)
            ret = (' -> %s' % f.ret) if f.ret else ''
            where = ('\n    ' + f.where) if f.where else ''
            V.append('#[verifier::external_body]\nfn %s%s(%s)%s%s\n{ hook_%s(%s) }' % (f.name, f.generics, f.params, ret, where, f.name, ', '.join(self.param_names(f.params))))
            self.rule('E10b.hook_body_to_free_fn')
        hdr = 'impl%s %s%s' % (im.generics, im.key, (' ' + im.where) if im.where else '')
        return hdr + ' {\n' + '\n'.join(V) + '\n}\n' + '\n'.join(F), ''

    def _debug_stub_for(self, im):
        self.rule('E2.debug_stub')
        where = (' ' + im.where) if im.where else ''
        return 'impl%s core::fmt::Debug for %s%s { fn fmt(&self, _f: &mut core::fmt::Formatter<\'_>) -> core::fmt::Result { Ok(()) } }' % (im.generics, im.ty, where)

    # ------------------------------------------------------------------------------------------
    def process_fn(self, it, im, repo_rel, modpath, key=None, inject=(), src_text=None):
        """Returns (verus_text, plain_text, extra_items_text)."""
        f = parse_fn(it.text)
        inl = ''.join(m + ' :: ' for m in getattr(self, 'inline_mods', []))
        key = key or (repo_rel + ' :: ' + inl + ((im.key + ' :: ') if im else '') + f.name)
        c = self.contracts.get(key)
        if c is not None:
            c.used = True
            mode = self.downgrade(c.mode, key)
        else:
            mode = self.cfg.get('default_mode', 'assumed')
            if key in self.cfg.get('external', ()):
                mode = 'external'
            if key in self.cfg.get('drop', ()):
                mode = 'drop'
            if mode == 'assumed' and key not in self.cfg.get('no_inline', ()) and not inject and self.transparent_body(f) \
                    and not any(re.search(rx, key) for rx in self.cfg.get('elide_body', ())):
                mode = 'transparent'
        tybase = ''
        if im is not None:
            tybase = re.sub(r'<.*$', '', im.ty.strip().lstrip('&').strip()).split('::')[-1] + '::'
        vname = '::'.join([x for x in [self.cfg.get('crate_name', 'unit'), modpath.replace('::', '::')] if x]) + '::' + tybase + f.name
        if inject and mode != 'verified':
            if c is not None or any(re.search(rx, key) for rx in self.cfg.get('elide_body', ())):
                mode = 'assumed'      # an explicit `mode assumed` block, or a body outside the model (elided below)
            else:
                mode = 'verified'     # a hook without a sidecar block is still verified against the trait-level contract
        meta = dict(key=key, verus_name=vname, file=repo_rel, lines=[it.line, it.end_line], sha256_source=sha(src_text or it.text), norm_sha=norm_sha(src_text or it.text), modpath=modpath, fn_pattern=tybase + f.name, mode=mode,
                    serves=(c.serves if c else []), rules=[], contract_file=(os.path.relpath(c.file, self.cfg['verif_root']) if c else None))
        self.functions.append(meta)
        if key in self.downgraded:
            meta['rules'].append('E9')
        if mode == 'drop':
            self.rule('E1.fn_dropped')
            meta['sha256_emitted'] = None
            return '', '', ''
        in_trait_impl = im is not None and im.trait is not None
        prefix = f.prefix
        if not in_trait_impl:
            prefix = re.sub(r'pub\s*\([^)]*\)\s*', 'pub ', prefix)
            if not re.search(r'\bpub\b', prefix):
                prefix = 'pub ' + prefix
                meta['rules'].append('E3')
        if mode == 'external':
            meta['sha256_emitted'] = sha(it.text)
            t = prefix + it.text[len(f.prefix):]
            return '', t, ''
        body = f.body
        ret = ''
        retname = c.ret if c else 'res'
        if f.ret:
            ret = ' -> (%s: %s)' % (retname, f.ret)
        where = ('\n    ' + f.where) if f.where else ''
        contract_txt = ''
        attrs = []
        extra = ''
        if c is not None:
            contract_txt = self.contract_text(c, inject=inject, key=key)
            attrs += c.attrs
            extra = '\n'.join(c.extra)
        elif inject:
            contract_txt = self.contract_text(None, inject=inject, key=key)
        if mode == 'assumed':
            attrs.append('#[verifier::external_body]')
            new_body = body
            if any(re.search(rx, key) for rx in self.cfg.get('elide_body', ())):
                # the body uses an external API outside the unit's model (it would not even type-check here); only the signature and the
                # assumed contract are emitted
                new_body = '{ unimplemented!() }'
                self.rule('E9.assumed_body_elided')
                meta['rules'].append('E9:body_elided')
        elif mode == 'transparent':
            # E12: a body that is one constructor/field expression is its own specification (inlining)
            new_body = body
            contract_txt = '\n    ensures /*@CL %s|ensures|transparent|%d*/ (%s == (%s)),' % (key, body.strip().count('\n'), retname, body.strip()[1:-1].strip())
            self.rule('E12.transparent_body')
            meta['rules'].append('E12')
            if any(key.startswith(p) for p in self.cfg.get('assume_prefixes', ())):
                # E9: checked against its own text in the unit that verifies this crate; here `res == <body>` is assumed
                attrs.append('#[verifier::external_body]')
                meta['mode'] = 'assumed'
                meta['rules'].append('E9')
                self.rule('E9.assumed_here_verified_elsewhere')
            if im is not None and im.trait and re.match(r'^From<', im.trait) and f.name == 'from':
                src_ty = im.trait[5:-1]
                extra = ('impl%s FromSpecImpl<%s> for %s%s { open spec fn obeys_from_spec() -> bool { true } open spec fn from_spec(%s) -> Self { %s } }'
                         % (im.generics, src_ty, im.ty, (' ' + im.where) if im.where else '', f.params.strip().rstrip(','), body.strip()[1:-1].strip()))
        elif mode == 'verified':
            new_body = self.transform_body(body, c, key, meta, f)
        else:
            raise ExtractError('%s: unknown mode %r' % (key, mode))
        params = f.params
        sig = '%sfn %s%s(%s)%s%s' % (prefix, f.name, f.generics, params, ret, where)
        out = '/*@FN %s*/\n%s%s%s\n%s\n/*@ENDFN*/' % (key, ''.join(a + '\n' for a in attrs), sig, contract_txt, new_body)
        meta['sha256_emitted'] = sha(new_body)
        meta['body_unchanged'] = (new_body == body)
        return out, '', extra

    def downgrade(self, mode, key):
        """E9: a unit may list key prefixes (`assume_prefixes`) whose functions are verified in ANOTHER unit: here they are emitted
        `assumed` (external_body + the character-identical contract), so that callers see contracts, not bodies."""
        if mode == 'verified' and any(key.startswith(p) for p in self.cfg.get('assume_prefixes', ())):
            self.rule('E9.assumed_here_verified_elsewhere')
            self.downgraded.add(key)      # its body is emitted untransformed: no outlined helpers are generated for it
            return 'assumed'
        return mode

    def transparent_body(self, f):
        if not f.has_body or not f.ret:
            return False
        e = f.body.strip()[1:-1].strip()
        if not e or not re.match(r'^[\w\s.&*():<>,{}]+$', e):
            return False
        if f.ret.startswith('&[') or '::<' in e:
            return False      # (a turbofish call `f::<T>(..)` is not a constructor)
        for m in re.finditer(r'(\w+)\s*\(', e):
            if not (m.group(1)[0].isupper()):
                return False
        if re.search(r'\b(let|if|match|loop|while|for|return|as|mut)\b', e):
            return False
        return True

    def contract_text(self, c, inject=(), key=None):
        parts = []
        key = key or c.key

        def clauses(kind, lst):
            if not lst:
                return
            parts.append('\n    %s' % kind)
            for cl in lst:
                txt = cl.text.strip().rstrip(',')
                parts.append('\n        /*@CL %s|%s|%s|%d*/ (%s),' % (key, cl.kind, cl.name, txt.count('\n'), txt))
        from sidecar import Clause
        # E10b: trait-level clauses of a hook (kind hook_requires / hook_ensures / call_ensures) are assumed resp. verified on the concrete suite's body
        clauses('requires', (c.requires if c else []) + [Clause(k, n, t) for (k, n, t) in inject if k.endswith('requires')])
        clauses('ensures', (c.ensures if c else []) + [Clause(k, n, t) for (k, n, t) in inject if not k.endswith('requires')])
        if c and c.decreases:
            parts.append('\n    decreases %s' % c.decreases.strip())
        return ''.join(parts)

    # ------------------------------------------------------------------------------------------
    def transform_body(self, body, c, key, meta, f):
        t = body
        # --- shape lock: loop/closure annotations are addressed by ordinal, so they are only trusted while the function has the
        # number of loops and closures it had when the contract was written (contracts/shape.lock.json, dev/mklock.py).  An edit that
        # adds or removes a loop/closure would silently shift the annotations onto other constructs: that is a lost anchor
        # (undecided), never a verdict.
        loops0 = self.find_loops(t)
        clos0 = self.find_closures(t)
        heads = []
        for (lp, w) in loops0:
            try:
                heads.append(norm_ws(t[lp:find_block_open(t, lp)]))
            except Exception:
                heads.append('?')
        cheads = [norm_ws(t[a:pe]) for (a, pe, bs, be, isb) in clos0]
        shape = [len(loops0), len(clos0), sha('\n'.join(heads)), sha('\n'.join(cheads))]
        meta['shape'] = shape
        lock = self.shape_lock()
        if c and (c.loops or c.closures) and lock is not None and key in lock:
            want = list(lock[key])
            if want[:2] != shape[:2]:
                raise ExtractError('%s: lost anchor: the function now has %d loops / %d closures, the contract was written for %d / %d'
                                   % (key, shape[0], shape[1], want[0], want[1]))
            if len(want) >= 4 and c.loops and want[2] != shape[2]:
                raise ExtractError('%s: lost anchor: a loop header changed (the loop invariants were written for other loops): now %s' % (key, ' ; '.join(heads)[:200]))
            if len(want) >= 4 and c.closures and want[3] != shape[3]:
                raise ExtractError('%s: lost anchor: a closure header changed (the closure contracts were written for other closures): now %s' % (key, ' ; '.join(cheads)[:200]))
        # --- statement anchors are located on the pristine text and marked; the ghost text is spliced in at the very end
        anchors = []
        if c:
            for ai, (line_text, nth, stmts, where) in enumerate(c.at):
                t = self.mark_anchor(t, line_text, nth, where, key, ai)
                anchors.append(stmts)
        # --- hook calls with call-site contracts (see process_traits)
        for hn in getattr(self, 'hookcall_names', []):
            t2 = re.sub(r'(?:<\s*C\s*>|\bC)\s*::\s*%s\s*\(' % hn, 'crate::traits_hookcalls::call_%s::<C>(' % hn, t)
            if t2 != t:
                self.rule('E7.hook_call_routed')
                meta['rules'].append('E7:call_' + hn)
                t = t2
        # --- E13: bind the tail expression (`EXPR` -> `let __res = EXPR; <ghost> __res`) so that exit hints can name the result
        if c and c.tail:
            t = self.bind_tail(t, c.tail[0], c.tail[1], key, meta)
        # --- E7 outlining (before anything else: expression text must match the source)
        if c:
            for o in c.outlines:
                t = self.apply_outline(t, o, key, meta)
        # --- E8 closure contracts (ghost annotations on the k-th closure)
        if c and c.closures:
            t = self.transform_closures(t, c, key, meta)
        # --- E5 loops
        t = self.transform_loops(t, c, key, meta)
        # --- E5b fold
        t = self.transform_fold(t, c, key, meta)
        # --- anchors: splice the ghost text in
        for ai, stmts in enumerate(anchors):
            mk = '/*@A%d*/' % ai
            if mk not in t:
                raise ExtractError('%s: lost anchor marker %d' % (key, ai))
            t = t.replace(mk, '\n' + stmts + '\n')
            self.rule('E8.statement_anchor')
        # --- E6 closures
        t2 = re.sub(r'\|\s*_\s*\|', '|_e|', t)
        if t2 != t:
            self.rule('E6.closure_wildcard', len(re.findall(r'\|\s*_\s*\|', t)))
            meta['rules'].append('E6')
            t = t2
        # --- exit (E8, structural anchor "function exit"): `{ B }` -> `{ let res: T = { B }; <ghost>; res }`.  Only the normal exit
        # (the value of the body block) passes the ghost statements; `return`/`?` leave the function as before.
        if c and c.exit and f.ret:
            ret_ty = re.sub(r'\bSelf\b', 'C', f.ret) if ' :: Ciphersuite :: ' in key else f.ret   # E10 bodies are free functions
            t = '{\nlet %s: %s = %s;\n%s\n%s\n}' % (c.ret, ret_ty, t, '\n'.join(c.exit), c.ret)
            self.rule('E8.exit_anchor')
            meta['rules'].append('E8:exit')
        # --- entry
        entry = ''
        if c and c.entry:
            entry = '\n'.join(c.entry)
        gen_c = re.search(r'\bC\b', (f.generics or '')) or True
        if self.cfg.get('auto_algebra', True) and not (c and c.nohints):
            hints = getattr(self, 'entry_hints', DEFAULT_ENTRY_HINTS)
            if self.cfg.get('second_opinion'):
                hints = re.sub(r'crate::vspec::use_id_order::<([^;]*?)>\(\); \}',
                               lambda m: 'crate::vspec::use_id_order::<%s>(); crate::vspec::use_ac%d::<%s>(); }' % (m.group(1), int(self.cfg.get('second_opinion')), m.group(1)), hints)
            entry = hints + entry
        if self.cfg.get('canary'):
            # vacuity guard (DESIGN 2.7): with this flag every verified function must FAIL
            entry = entry + '\nassert(false); /*@CANARY*/'
        if entry:
            t = '{\n' + entry + '\n' + t[1:]
        return t

    def apply_outline(self, t, o, key, meta):
        expr = o.fields.get('expr')
        if expr is None:
            raise ExtractError('%s: outline %s has no expr' % (key, o.name))
        pat = re.sub(r'\s+', '', expr)
        # index map over the whitespace-free body
        idx = [i for i, ch in enumerate(t) if not ch.isspace()]
        flat = ''.join(t[i] for i in idx)
        call = o.fields.get('call')
        if call is None:
            raise ExtractError('%s: outline %s has no call' % (key, o.name))
        holes = re.findall(r'\$\$?(\w+)', pat)
        if holes:
            # E7 with operand holes: `$x` in `expr:` matches one operand (an identifier or field path); the same `$x` in
            # `call:` is replaced by the matched text, and the helper body is the idiom with the operands renamed to the
            # helper's parameters `x`.  The assumed `ensures` is then a statement about the idiom for ARBITRARY operands, and
            # exchanging/renaming operands in the source stays decidable (it changes the call, not the assumed helper).
            # `$$x` matches an operand EXPRESSION: optional `&`, a path, optionally one call with plain arguments, optionally `?`
            # (`&encode_group_commitments(signing_commitments)?`); the matched text stays in the caller (so does its `?`).
            if len(set(holes)) != len(holes):
                raise ExtractError('%s: outline %s: a hole may occur only once in expr' % (key, o.name))
            rx = re.escape(pat)
            for h in sorted(holes, key=len, reverse=True):
                if ('$$' + h) in pat:
                    rx = rx.replace(re.escape('$$' + h), r'(?P<%s>&?[A-Za-z_][\w.:]*(?:\([\w.:,&*]*\))?\??)' % h, 1)
                else:
                    rx = rx.replace(re.escape('$' + h), r'(?P<%s>[A-Za-z_][\w.]*|\d+)' % h, 1)      # an operand: identifier / field path / integer literal
            m = re.search(rx, flat)
            if not m or (idx[m.start()] > 0 and (t[idx[m.start()] - 1].isalnum() or t[idx[m.start()] - 1] in '_.')):
                if o.fields.get('optional'):
                    # `optional: yes`: the idiom is absent, nothing is outlined and nothing assumed; the body is verified as it stands
                    o.skipped = True
                    self.rule('E7.optional_outline_absent')
                    return t
                raise ExtractError('%s: lost anchor: outlined expression `%s` not found' % (key, norm_ws(expr)[:80]))
            p, plen = m.start(), m.end() - m.start()
            for h in sorted(holes, key=len, reverse=True):
                call = call.replace('$$' + h, m.group(h)).replace('$' + h, m.group(h))
            o.body = re.sub(r'\$\$?(\w+)', r'\1', expr)
            self.rule('E7.outlined_idiom_operand_holes')
        else:
            p, plen = flat.find(pat), len(pat)
            if p < 0:
                if o.fields.get('optional'):
                    o.skipped = True
                    self.rule('E7.optional_outline_absent')
                    return t
                raise ExtractError('%s: lost anchor: outlined expression `%s` not found' % (key, norm_ws(expr)[:80]))
        a, b = idx[p], idx[p + plen - 1] + 1
        self.rule('E7.outlined_idiom')
        meta['rules'].append('E7:' + o.name)
        o.original = t[a:b]
        return t[:a] + call.strip() + t[b:]

    def outline_items(self, c):
        out = []
        for o in c.outlines:
            if getattr(o, 'skipped', False):
                continue
            sig = o.fields.get('sig', '').strip()
            req = o.fields.get('requires')
            ens = o.fields.get('ensures')
            txt = '#[verifier::external_body]\npub fn __outl_%s%s' % (o.name, sig)
            if req:
                # named, so that a caller violating it (e.g. a changed offset: the std call would panic) is reported on `outline_requires[<name>]`
                txt += '\n    requires /*@CL %s|outline_requires|%s|%d*/ (%s),' % (c.key, o.name, req.strip().count('\n'), req.strip().rstrip(','))
            if ens:
                txt += '\n    ensures %s' % ens.strip().rstrip(',') + ','
            # `tail:` (multi-statement outlines): text appended after the outlined statements so that the helper returns a value
            tail = o.fields.get('tail')
            txt += '\n{ %s%s }' % ((getattr(o, 'body', None) or getattr(o, 'original', o.fields['expr'])), ('\n' + tail.strip()) if tail else '')
            out.append(txt)
        return '\n'.join(out)

    def find_closures(self, t):
        """(start, params_end, body_start, body_end, is_block) of closures in source order"""
        res = []
        i = 0
        n = len(t)
        while i < n:
            ch = t[i]
            if ch in '"\'br':
                e = skip_literal(t, i)
                if e is not None:
                    i = e
                    continue
            if ch == '|':
                j = i - 1
                while j >= 0 and t[j].isspace():
                    j -= 1
                prev = t[j] if j >= 0 else '('
                is_move = t[max(0, j - 3):j + 1] == 'move'
                if prev in '(,=' or is_move:
                    pe = t.find('|', i + 1)
                    if pe > 0:
                        bs = pe + 1
                        while bs < n and t[bs].isspace():
                            bs += 1
                        if t[bs] == '{':
                            be = find_matching(t, bs) + 1
                            res.append((i, pe + 1, bs, be, True))
                        else:
                            k = bs
                            while k < n:
                                c2 = t[k]
                                if c2 in '"\'br':
                                    e = skip_literal(t, k)
                                    if e is not None:
                                        k = e
                                        continue
                                if c2 in '([{':
                                    k = find_matching(t, k) + 1
                                    continue
                                if c2 in ')]},;':
                                    break
                                k += 1
                            res.append((i, pe + 1, bs, k, False))
                        i = pe + 1
                        continue
            i += 1
        return res

    def transform_closures(self, t, c, key, meta):
        cls = self.find_closures(t)
        for k in sorted(c.closures.keys(), reverse=True):
            if k >= len(cls):
                raise ExtractError('%s: lost anchor: contract refers to closure %d but the function has %d closures' % (key, k, len(cls)))
            (a, pe, bs, be, is_block) = cls[k]
            K = c.closures[k]
            params = t[a + 1:pe - 1]
            e6_prefix = ''
            if K['params']:
                if params.strip().startswith('('):
                    # E6: a tuple pattern as closure parameter becomes a variable plus a destructuring `let` (same binding modes)
                    pname = K['params'].split(':')[0].strip()
                    e6_prefix = 'let %s = %s; ' % (params.strip(), pname)
                    self.rule('E6.closure_tuple_param')
                    meta['rules'].append('E6:closure%d' % k)
                params = K['params']
            spec = ''
            if K['ret']:
                spec += ' -> (%s)' % K['ret']
            if K['requires']:
                spec += '\n    requires'
                for cl in K['requires']:
                    spec += '\n        /*@CL %s|closure%d_requires|%s|%d*/ (%s),' % (key, k, cl.name, cl.text.strip().count('\n'), cl.text.strip().rstrip(','))
            if K['ensures']:
                spec += '\n    ensures'
                for cl in K['ensures']:
                    spec += '\n        /*@CL %s|closure%d_ensures|%s|%d*/ (%s),' % (key, k, cl.name, cl.text.strip().count('\n'), cl.text.strip().rstrip(','))
            body = t[bs:be]
            if not is_block:
                body = '{ ' + e6_prefix + body + ' }'
            elif e6_prefix:
                body = '{ ' + e6_prefix + body[1:]
            clo = '|' + params + '|' + spec + '\n' + body
            self.rule('E8.closure_contract')
            meta['rules'].append('E8:closure%d' % k)
            if K.get('adaptor'):
                # E7 (structural form): RECV.METHOD(CLOSURE)[.collect()]  ->  HELPER(RECV, CLOSURE); the helper's body
                # is literally `it.METHOD(f)[.collect()]` (prelude/vstdx.rs), only its std semantics is assumed
                j = a - 1
                while j >= 0 and t[j].isspace():
                    j -= 1
                if t[j] != '(':
                    raise ExtractError('%s: closure %d is not a method argument' % (key, k))
                mm = re.search(r'\.\s*(\w+)\s*$', t[:j])
                if not mm:
                    raise ExtractError('%s: closure %d: cannot find the adaptor method' % (key, k))
                ms = mm.start()
                rs = self.recv_start(t, ms)
                recv = t[rs:ms].strip()
                e2 = be
                while t[e2].isspace():
                    e2 += 1
                if t[e2] != ')':
                    raise ExtractError('%s: closure %d is not the only argument of .%s()' % (key, k, mm.group(1)))
                e2 += 1
                helper = K['adaptor'].split()[0]
                suffix = ''.join(K['adaptor'].split()[1:])
                if suffix:
                    # the text after `)` must equal the given suffix modulo whitespace
                    n2 = e2
                    got = ''
                    while n2 < len(t) and len(got) < len(suffix):
                        if not t[n2].isspace():
                            got += t[n2]
                        n2 += 1
                    if got != suffix:
                        raise ExtractError('%s: lost anchor: closure %d is not followed by `%s`' % (key, k, suffix))
                    e2 = n2
                else:
                    cm = re.match(r'\s*\.\s*collect\s*(::\s*<[^()]*>)?\s*\(\s*\)', t[e2:])
                    if cm:
                        e2 += cm.end()
                t = t[:rs] + 'crate::vstdx::%s(%s, %s)' % (helper, recv, clo) + t[e2:]
                self.rule('E7.adaptor_helper.' + helper)
                meta['rules'].append('E7:' + helper)
            else:
                t = t[:a] + clo + t[be:]
        return t

    @staticmethod
    def recv_start(t, j):
        """start index of the postfix-expression chain that ends just before index j"""
        depth = 0
        k = j - 1
        while k >= 0:
            ch = t[k]
            if ch in ')]':
                depth += 1
            elif ch in '([':
                if depth == 0:
                    break
                depth -= 1
            elif depth == 0:
                if ch.isspace():
                    # whitespace belongs to the chain only in front of a `.method` continuation line
                    n2 = k
                    while n2 < len(t) and t[n2].isspace():
                        n2 += 1
                    if n2 >= len(t) or t[n2] != '.':
                        break
                elif not (ch.isalnum() or ch in '_.:<>&*?'):
                    break
            k -= 1
        s0 = k + 1
        while s0 < j and t[s0].isspace():
            s0 += 1
        return s0

    def shape_lock(self):
        if not hasattr(self, '_shape_lock'):
            path = self.cfg.get('shape_lock')
            self._shape_lock = json.load(open(path)) if path and os.path.exists(path) else None
        return self._shape_lock

    def find_loops(self, t):
        """positions of loop keywords (for/while/loop) in statement position, in source order"""
        res = []
        i = 0
        n = len(t)
        while i < n:
            ch = t[i]
            if t.startswith('/*@', i):
                # clause markers injected by earlier passes carry the function key, which may contain `for` (`Trait for Type`)
                i = t.index('*/', i) + 2
                continue
            if ch in '"\'br':
                e = skip_literal(t, i)
                if e is not None:
                    i = e
                    continue
            if ch.isalpha() or ch == '_':
                m = re.compile(r'[A-Za-z_]\w*').match(t, i)
                w = m.group(0)
                if w in ('for', 'while', 'loop') and (i == 0 or not (t[i - 1].isalnum() or t[i - 1] == '_' or t[i - 1] == '.')):
                    rest = t[m.end():m.end() + 1]
                    if w == 'for' and rest == '<':
                        pass
                    elif w == 'loop' and not re.match(r'\s*\{', t[m.end():]):
                        pass
                    else:
                        res.append((i, w))
                i = m.end()
                continue
            i += 1
        return res

    def transform_loops(self, t, c, key, meta):
        loops = self.find_loops(t)
        used = set()
        for k in range(len(loops) - 1, -1, -1):
            pos, w = loops[k]
            L = c.loops.get(k) if c else None
            if L is not None:
                used.add(k)
            b = find_block_open(t, pos)
            e = find_matching(t, b)
            inner = t[b + 1:e]
            spec = ''
            if L:
                if L['invariant']:
                    spec += '\n    invariant'
                    for cl in L['invariant']:
                        spec += '\n        /*@CL %s|loop%d_invariant|%s|%d*/ (%s),' % (key, k, cl.name, cl.text.strip().count('\n'), cl.text.strip().rstrip(','))
                if L['ensures']:
                    spec += '\n    ensures'
                    for cl in L['ensures']:
                        spec += '\n        /*@CL %s|loop%d_ensures|%s|%d*/ (%s),' % (key, k, cl.name, cl.text.strip().count('\n'), cl.text.strip().rstrip(','))
                if L['decreases']:
                    spec += '\n    decreases %s,' % L['decreases'].strip().rstrip(',')
            entry = ('\n' + '\n'.join(L['body_entry'])) if L and L['body_entry'] else ''
            exit_ = ('\n' + '\n'.join(L['body_exit']) + '\n') if L and L['body_exit'] else ''
            after = ('\n' + '\n'.join(L['after'])) if L and L['after'] else ''
            ghost = ('\n' + '\n'.join(L['ghost'])) if L and L['ghost'] else ''
            if w == 'for':
                hdr = t[pos + 3:b]
                inpos = find_depth0(hdr, ' in ')
                if inpos < 0:
                    raise ExtractError('%s: cannot parse `for` header %r' % (key, norm_ws(hdr)))
                pat = hdr[:inpos].strip()
                iterable = hdr[inpos + 4:].strip()
                suffix = (L['iter'] if L and L['iter'] is not None else None)
                if suffix is None:
                    suffix = self.default_iter_suffix(iterable)
                it = '__it%d' % k
                if suffix:
                    itexpr = '(%s)%s' % (iterable, suffix) if not re.match(r'^[\w.]+$', iterable) else iterable + suffix
                else:
                    itexpr = iterable
                new = ('{ let mut %s = %s;%s\nloop%s\n{\n let ghost __rem%d = %s.remaining();\n let %s = match %s.next() { None => break, Some(__v) => __v };%s%s%s}%s\n}'
                       % (it, itexpr, ghost, spec, k, it, pat, it, entry, inner, exit_, after))
                self.rule('E5.for_desugared')
                meta['rules'].append('E5:loop%d%s' % (k, (':' + suffix) if suffix else ''))
            elif w == 'loop':
                new = '%s\nloop%s\n{%s%s%s}%s' % (ghost, spec, entry, inner, exit_, after)
            else:
                cond = t[pos + 5:b]
                new = '%s\nwhile %s%s\n{%s%s%s}%s' % (ghost, cond.strip(), spec, entry, inner, exit_, after)
            t = t[:pos] + new + t[e + 1:]
        if c:
            for k in c.loops:
                if k not in used and k != 1000:
                    raise ExtractError('%s: lost anchor: contract refers to loop %d but the function has %d loops' % (key, k, len(loops)))
        return t

    def default_iter_suffix(self, iterable):
        """E5 variants: an expression that is already an iterator is used as is."""
        s = iterable.strip()
        if re.search(r'\.(iter|iter_mut|into_iter|values|keys|rev|skip\([^)]*\)|take\([^)]*\)|enumerate|chars|bytes)\(\)?\s*$', s) or re.search(r'\)\s*$', s) and '.' in s:
            return ''
        if re.match(r'^\(?\s*[\w.]+\s*\.\.=?', s):
            return ''
        return '.into_iter()'

    def transform_fold(self, t, c, key, meta):
        """E5b: `I.fold(init, |acc, x| B)`  ->  block with an E5-style loop.  Only the closure form with a
        two-parameter closure whose first parameter is a tuple or identifier is handled."""
        m = re.search(r'\.fold\s*\(', t)
        if not m:
            return t
        if c is None or 'fold' not in c.__dict__.get('flags', {'fold'}):
            pass
        # receiver: walk back over the method chain
        open_p = t.index('(', m.start())
        close_p = find_matching(t, open_p)
        args = t[open_p + 1:close_p]
        parts = split_depth0(args, ',', angle=False)
        # first arg = init, rest joined = closure
        init = parts[0]
        clo = ','.join(parts[1:]).strip()
        cm = re.match(r'\|\s*(\([^|]*\)|\w+)\s*,\s*(\w+)\s*\|\s*(.*)$', clo, re.S)
        if not cm:
            raise ExtractError('%s: E5b cannot parse fold closure' % key)
        accpat, x, cbody = cm.group(1), cm.group(2), cm.group(3).strip().rstrip(',').strip()
        # receiver start: scan backwards to the start of the postfix chain
        j = m.start()
        recv_start = self.recv_start(t, j)
        recv = t[recv_start:j].strip()
        L = c.loops.get('fold') if c else None
        Lf = c.loops.get(1000) if c else None   # loop index 1000 = the fold loop
        spec = ''
        ghost = entry = after = ''
        if Lf:
            if Lf['invariant']:
                spec += '\n    invariant'
                for cl in Lf['invariant']:
                    spec += '\n        /*@CL %s|fold_invariant|%s|%d*/ (%s),' % (key, cl.name, cl.text.strip().count('\n'), cl.text.strip().rstrip(','))
            if Lf['ensures']:
                spec += '\n    ensures'
                for cl in Lf['ensures']:
                    spec += '\n        /*@CL %s|fold_ensures|%s|%d*/ (%s),' % (key, cl.name, cl.text.strip().count('\n'), cl.text.strip().rstrip(','))
            if Lf['decreases']:
                spec += '\n    decreases %s,' % Lf['decreases'].strip().rstrip(',')
            ghost = ('\n' + '\n'.join(Lf['ghost'])) if Lf['ghost'] else ''
            entry = ('\n' + '\n'.join(Lf['body_entry'])) if Lf['body_entry'] else ''
            after = ('\n' + '\n'.join(Lf['after'])) if Lf['after'] else ''
        new = ('{ let mut __acc = %s; let mut __itf = %s;%s\nloop%s\n{\n let ghost __remf = __itf.remaining();\n let %s = match __itf.next() { None => break, Some(__v) => __v };%s\n let %s = __acc;\n __acc = %s;\n}%s\n __acc }'
               % (init.strip(), recv, ghost, spec, x, entry, accpat, cbody, after))
        self.rule('E5b.fold_desugared')
        meta['rules'].append('E5b')
        return t[:recv_start] + new + t[close_p + 1:]

    def bind_tail(self, t, first_line, stmts, key, meta):
        want = norm_ws(first_line)
        lines = t.split('\n')
        idx = None
        for i in range(len(lines) - 1, -1, -1):
            if norm_ws(lines[i]) == want:
                idx = i
                break
        if idx is None:
            raise ExtractError('%s: lost anchor: tail expression line `%s` not found' % (key, first_line))
        start = sum(len(l) + 1 for l in lines[:idx])
        end = t.rindex('}')
        expr = t[start:end].rstrip()
        if expr.endswith(';'):
            raise ExtractError('%s: `%s` does not start the tail expression' % (key, first_line))
        # the expression must be balanced and at depth 1 of the body
        try:
            depth = 0
            for ch in t[:start]:
                pass
        except Exception:
            pass
        self.rule('E13.tail_bound')
        meta['rules'].append('E13')
        return t[:start] + 'let __res = ' + expr.lstrip() + ';\n' + stmts + '\n__res\n' + t[end:]

    def mark_anchor(self, t, line_text, nth, where, key, ai):
        want = norm_ws(line_text)
        lines = t.split('\n')
        cnt = 0
        for i, ln in enumerate(lines):
            if norm_ws(re.sub(r'/\*@A\d+\*/', '', ln)) == want:
                cnt += 1
                if cnt == nth:
                    if where == 'before':
                        ind = len(ln) - len(ln.lstrip())
                        lines[i] = ln[:ind] + '/*@A%d*/' % ai + ln[ind:]
                    else:
                        lines[i] = ln + '/*@A%d*/' % ai
                    return '\n'.join(lines)
        raise ExtractError('%s: lost anchor: source line `%s` (#%d) not found' % (key, line_text, nth))

    def apply_anchor(self, t, line_text, nth, stmts, where, key):
        want = norm_ws(line_text)
        lines = t.split('\n')
        cnt = 0
        for i, ln in enumerate(lines):
            if norm_ws(ln) == want:
                cnt += 1
                if cnt == nth:
                    if where == 'before':
                        lines.insert(i, stmts)
                    else:
                        lines.insert(i + 1, stmts)
                    self.rule('E8.statement_anchor')
                    return '\n'.join(lines)
        raise ExtractError('%s: lost anchor: source line `%s` (#%d) not found' % (key, line_text, nth))

    # ------------------------------------------------------------------------------------------
    def process_traits(self):
        """E10: the prelude declares the traits; the optional `Ciphersuite` methods (signature text taken from
        the repo) are spliced into the prelude with their hook contracts, and their default bodies become free
        functions `default_<name><C: Ciphersuite>` verified against the same contract."""
        cfg = self.cfg
        rel = cfg['traits_file']
        repo_rel = os.path.join(cfg['repo_prefix'], rel)
        src = strip_comments(open(os.path.join(cfg['root'], rel)).read())
        items = split_items(src)
        traits = {}
        for it in items:
            if it.kind == 'trait':
                b = find_block_open(it.text)
                e = find_matching(it.text, b)
                subs = split_items(it.text, b + 1, e)
                for sub in subs:
                    sub.line = it.line + it.text.count('\n', 0, sub.off)
                    sub.end_line = sub.line + sub.text.count('\n')
                traits[it.name] = (it, subs)
        expect = cfg.get('trait_shape', {})
        for tname, names in expect.items():
            if tname not in traits:
                raise ExtractError('%s: trait %s not found' % (repo_rel, tname))
            have = sorted((sub.kind + ' ' + (sub.name or '?')) for sub in traits[tname][1])
            if have != sorted(names):
                raise ExtractError('%s: trait %s changed shape (prelude/traits.rs must be re-derived): %s vs expected %s'
                                   % (repo_rel, tname, have, sorted(names)))
        hooks = []
        defaults = []
        self.hookcalls = []
        self.hookcall_names = [k.split(' :: ')[-1] for k, cc in self.contracts.items()
                               if k.startswith(repo_rel + ' :: Ciphersuite :: ') and cc.call_ensures]
        skip = set(cfg.get('trait_required_in_prelude', ()))
        for sub in traits['Ciphersuite'][1]:
            if sub.kind != 'fn' or sub.name in skip:
                continue
            f = parse_fn(sub.text)
            if not f.has_body:
                continue
            key = repo_rel + ' :: Ciphersuite :: ' + f.name
            c = self.contracts.get(key)
            if c is not None:
                c.used = True
            retname = c.ret if c else 'res'
            ret = (' -> (%s: %s)' % (retname, f.ret)) if f.ret else ''
            where = ('\n    ' + f.where) if f.where else ''
            ctext = self.contract_text(c) if c else ''
            # the hook declaration inside the trait: its contract may only use trait-level vocabulary (a spec fn generic over
            # `C: Ciphersuite` inside `trait Ciphersuite` is a cyclic self-reference for Verus), so every hook gets an abstract
            # trait-level spec function (`hook_spec`) and `hook_ensures` clauses phrased with it; which function it *is* is
            # fixed per "world" (lemmas/vworld.rs: default world = the default bodies below)
            htext = ''
            if c:
                for hs in c.hook_spec:
                    hooks.append('    ' + hs.strip())
                parts = []
                if c.hook_requires:
                    parts.append('\n    requires')
                    for cl in c.hook_requires:
                        parts.append('\n        /*@HCL %s|hook_requires|%s|%d*/ (%s),' % (key, cl.name, cl.text.strip().count('\n'), cl.text.strip().rstrip(',')))
                if c.hook_ensures:
                    parts.append('\n    ensures')
                    for cl in c.hook_ensures:
                        parts.append('\n        /*@HCL %s|hook_ensures|%s|%d*/ (%s),' % (key, cl.name, cl.text.strip().count('\n'), cl.text.strip().rstrip(',')))
                htext = ''.join(parts)
            hooks.append('    fn %s%s(%s)%s%s%s;' % (f.name, f.generics, f.params, ret, where, htext))
            self.hook_info = getattr(self, 'hook_info', {})
            self.hook_info[f.name] = dict(generics=f.generics, params=f.params, ret=f.ret, where=f.where, contract=c)
            if c and c.call_ensures:
                # hooks whose contract cannot be stated inside the trait (a `Cow<T>` result needs `T: Clone`, whose impl depends on the
                # trait: cyclic): every call `<C>::hook(..)` in verified code is routed through this wrapper, whose body is exactly that
                # call and whose `ensures` (the hook contract, phrased with the trait-level spec fn) is ASSUMED at the call site
                subst2 = lambda t: re.sub(r'\bSelf\b', 'C', t)
                gen3 = '<' + ', '.join([g.strip() for g in (f.generics[1:-1].split(',') if f.generics else []) if g.strip().startswith("'")] +
                                       ['C: Ciphersuite'] + [g.strip() for g in (f.generics[1:-1].split(',') if f.generics else []) if g.strip() and not g.strip().startswith("'")]) + '>'
                argnames = []
                for prm in split_depth0(f.params, ',', angle=True):
                    prm = prm.strip()
                    if prm:
                        argnames.append(re.sub(r'^mut\s+', '', prm.split(':')[0].strip()))
                ens = ''.join('\n        /*@HCL %s|call_ensures|%s|%d*/ (%s),' % (key, cl.name, cl.text.strip().count('\n'), subst2(cl.text.strip().rstrip(','))) for cl in (c.call_ensures + c.hook_ensures))
                self.hookcalls.append('#[verifier::external_body]\npub fn call_%s%s(%s)%s%s\n    ensures%s\n{ <C>::%s(%s) }'
                                      % (f.name, gen3, subst2(f.params), subst2(ret), subst2(where), ens, f.name, ', '.join(argnames)))
                self.rule('E7.hook_call_wrapper')
            # default body as a free function
            subst = lambda t: re.sub(r'\bSelf\b', 'C', t)
            gen = f.generics
            gen2 = '<C: Ciphersuite' + ((', ' + gen[1:-1]) if gen else '') + '>'
            dkey = key
            mode = self.downgrade(c.mode, key) if c else cfg.get('default_mode', 'assumed')
            meta = dict(key=dkey, verus_name=cfg.get('crate_name', 'unit') + '::traits_defaults::default_' + f.name, file=repo_rel, lines=[sub.line, sub.end_line], sha256_source=sha(sub.text), mode=mode,
                        serves=(c.serves if c else []), rules=['E10'], contract_file=(os.path.relpath(c.file, cfg['verif_root']) if c else None))
            self.functions.append(meta)
            body = subst(f.body)
            attrs = list(c.attrs) if c else []
            if mode == 'verified':
                body = self.transform_body(body, c, dkey, meta, f)
            else:
                attrs.append('#[verifier::external_body]')
            meta['sha256_emitted'] = sha(body)
            self.rule('E10.default_body_to_free_fn')
            defaults.append('/*@FN %s*/\n%spub fn default_%s%s(%s)%s%s%s\n%s\n/*@ENDFN*/'
                            % (dkey, ''.join(a + '\n' for a in attrs), f.name, gen2, subst(f.params), subst(ret), subst(where), subst(ctext), body))
            if c and c.extra:
                defaults.append('\n'.join(c.extra))
        prelude = self.read_verif_file(cfg['traits_prelude'])
        if '//@HOOKS' not in prelude:
            raise ExtractError('prelude traits file lacks the //@HOOKS marker')
        prelude = prelude.replace('//@HOOKS', '\n'.join(hooks))
        dmod = ('pub mod traits_defaults {\n' + STD_USE + '\n#[allow(unused_imports)] use crate::*;\n#[allow(unused_imports)] use crate::traits::*;\n'
                '#[allow(unused_imports)] use crate::keys::{KeyPackage, PublicKeyPackage, SecretShare, VerifyingShare};\n'
                '#[allow(unused_imports)] use crate::round1::{self, SigningNonces};\n#[allow(unused_imports)] use crate::round2::{self, SignatureShare};\n'
                'verus! {\n' + '\n'.join(defaults) + '\n} // verus!\n}\n')
        hmod = ('pub mod traits_hookcalls {\n' + STD_USE + '\n#[allow(unused_imports)] use crate::*;\n#[allow(unused_imports)] use crate::traits::*;\n'
                '#[allow(unused_imports)] use crate::keys::{KeyPackage, PublicKeyPackage, SecretShare, VerifyingShare};\n'
                '#[allow(unused_imports)] use crate::round1::{self, SigningNonces};\n#[allow(unused_imports)] use crate::round2::{self, SignatureShare};\n'
                'verus! {\n' + '\n'.join(self.hookcalls) + '\n} // verus!\n}\n')
        self.pending_default_bodies = None
        return prelude + '\n' + dmod + '\n' + hmod

    # ------------------------------------------------------------------------------------------
    def emit(self):
        cfg = self.cfg
        out = []
        out.append(cfg.get('header', ''))
        # `vprel_extra`: further `pub use` lines for the glob-imported name module (types / spec modules a unit adds)
        out.append(VPREL.replace('\n}\n', '\n' + cfg.get('vprel_extra', '') + '\n}\n') if cfg.get('vprel_extra') else VPREL)
        # prelude (crate root level text, already containing its own verus! blocks)
        for p in cfg.get('prelude_files', []):
            out.append('// ===== prelude: %s =====' % p)
            lt = self.read_verif_file(p)
            out.append(lemma_canary(lt) if cfg.get('lemma_canary') and p.startswith('lemmas/') else lt)
        if cfg.get('traits_file'):
            out.append('// ===== traits (prelude + E10) =====')
            out.append(self.process_traits())
        # pre-pass (E2): types whose derived PartialEq cannot be given a spec (contain Vec/BTreeMap/BTreeSet, transitively)
        structs = {}
        mods = [self.module_entry(m) for m in cfg['modules']]
        for modpath, rel, opts in mods:
            src0 = strip_comments(open(os.path.join(opts.get('root', cfg['root']), rel)).read())
            for m in re.finditer(r'\bstruct\s+(\w+)[^;{]*?(\{[^}]*\}|\([^;]*\)\s*(?:where[^;]*)?;)', src0, re.S):
                structs.setdefault(m.group(1), '')
                structs[m.group(1)] += m.group(2)
        noeq = set(n for n, b in structs.items() if re.search(r'\b(Vec|BTreeMap|BTreeSet)\s*<', b))
        changed = True
        while changed:
            changed = False
            for n, b in structs.items():
                if n not in noeq and any(re.search(r'\b%s\b' % re.escape(x), b) for x in noeq):
                    noeq.add(n)
                    changed = True
        self.noeq = noeq
        # module tree
        tree = {}
        for modpath, rel, opts in mods:
            v, p = self.process_file(rel, modpath, opts)
            tree[modpath] = (v, p)
        # outlined helpers + extra go to the crate root `vhelpers`? -> emitted in the module of their function (handled inline)

        mod_use = dict((mp, o.get('use')) for mp, _, o in mods if o.get('use'))

        def emit_mod(modpath, depth):
            v, p = tree[modpath]
            STD_USE = mod_use.get(modpath, globals()['STD_USE'])
            children = [m for m in tree if m and (m.rsplit('::', 1)[0] if '::' in m else '') == modpath and m != modpath]
            s = ''
            if modpath:
                s += 'pub mod %s {\n' % modpath.split('::')[-1]
            s += STD_USE + '\n'
            s += 'verus! {\n' + v + '\n} // verus!\n' + p + '\n'
            for ch in children:
                s += emit_mod(ch, depth + 1)
            if modpath:
                s += '} // mod %s\n' % modpath
            return s
        out.append('// ===== extracted crate =====')
        out.append(emit_mod('', 0))
        # outlined helper functions
        helpers = [self.outline_items(c) for c in self.contracts.values() if c.used and c.outlines and c.key not in self.downgraded]
        if helpers:
            out.append('pub mod voutl {\n' + STD_USE + '\n#[allow(unused_imports)] use crate::*;\nverus! {\n' + '\n'.join(helpers) + '\n} // verus!\n}')
        for p in cfg.get('postlude_files', []):
            out.append('// ===== postlude: %s =====' % p)
            lt = self.read_verif_file(p)
            out.append(lemma_canary(lt) if cfg.get('lemma_canary') else lt)
        out.append('fn main() {}')
        text = '\n'.join(out)
        prefixes = [cfg['repo_prefix']] + [o['repo_prefix'] for _, _, o in mods if o.get('repo_prefix')]
        unused = [c.key for c in self.contracts.values() if not c.used and any(re.sub(r'^impl ', '', c.key).startswith(p) for p in prefixes)]
        if unused:
            raise ExtractError('lost anchor: sidecar blocks without a matching function: ' + '; '.join(unused))
        return text

    # ------------------------------------------------------------------------------------------
    @staticmethod
    def line_map(text):
        fns = []     # (start, end, key)
        clauses = []  # (line, key, kind, name)
        cur = None
        for i, ln in enumerate(text.split('\n'), 1):
            for m in re.finditer(r'/\*@(FN|ENDFN|CL|HCL) ?([^*]*)\*/', ln):
                tag, arg = m.group(1), m.group(2)
                if tag == 'FN':
                    cur = [i, None, arg.strip()]
                elif tag == 'ENDFN' and cur:
                    cur[1] = i
                    fns.append(tuple(cur))
                    cur = None
                elif tag in ('CL', 'HCL'):
                    k, kind, name, nl = arg.split('|')
                    clauses.append((i, k.strip(), kind, name, int(nl)))
        return fns, clauses


def load_contracts(dirs):
    """A block in a LATER directory replaces the block with the same key of an earlier one (unit-specific overrides, e.g. the
    world-generic contracts of the Taproot unit); two blocks for one key inside the same directory are an error."""
    merged = {}
    for d in dirs:
        keys = {}
        for fn in sorted(os.listdir(d)):
            if fn.endswith('.vc'):
                for c in parse_sidecar(os.path.join(d, fn)):
                    if c.key in keys:
                        raise SyntaxError('duplicate sidecar block for %s (%s and %s)' % (c.key, keys[c.key].file, c.file))
                    keys[c.key] = c
        for k, c in keys.items():
            if k in merged:
                c.overrides = merged[k].file
            merged[k] = c
    return list(merged.values())


def build_unit(cfg):
    contracts = load_contracts(cfg['contract_dirs'])
    u = Unit(cfg, contracts)
    text = u.emit()
    fns, clauses = Unit.line_map(text)
    meta = dict(unit=cfg['name'], rules=u.rules, functions=u.functions, dropped=u.dropped, types=u.types,
                fn_lines=fns, clause_lines=clauses,
                contracts={c.key: dict(serves=c.serves, mode=c.mode, hash=sha(c.text_hash_material()),
                                       clauses=[(cl.kind, cl.name) for cl in c.requires + c.ensures]) for c in contracts if c.used})
    return text, meta


if __name__ == '__main__':
    import importlib.util
    spec = importlib.util.spec_from_file_location('unitcfg', sys.argv[1])
    mod = importlib.util.module_from_spec(spec)
    spec.loader.exec_module(mod)
    try:
        text, meta = build_unit(mod.CFG)
    except (ExtractError, LexError, SyntaxError) as e:
        print('UNDECIDED extractor: %s' % e, file=sys.stderr)
        sys.exit(2)
    outp = sys.argv[2]
    open(outp, 'w').write(text)
    json.dump(meta, open(outp + '.meta.json', 'w'), indent=1)
    print('wrote %s (%d lines, %d functions, rules %s)' % (outp, text.count('\n'), len(meta['functions']), meta['rules']))
