"""Minimal Rust lexical utilities for the extractor (comment/string/char/lifetime aware).

Everything works on *comment-stripped* text in which comments were replaced by blanks, so that byte
offsets and line numbers equal those of the original file.
"""
import re

OPEN = '([{'
CLOSE = ')]}'
PAIR = {'(': ')', '[': ']', '{': '}'}


class LexError(Exception):
    pass


def _skip_string(s, i):
    """s[i] == '"' : return index just after the closing quote."""
    n = len(s)
    j = i + 1
    while j < n:
        c = s[j]
        if c == '\\':
            j += 2
            continue
        if c == '"':
            return j + 1
        j += 1
    raise LexError('unterminated string at %d' % i)


_RAW = re.compile(r'b?r(#*)"')
_CHAR = re.compile(r"b?'(\\x[0-9a-fA-F]{2}|\\u\{[0-9a-fA-F_]+\}|\\.|[^\\'\n])'")


def skip_literal(s, i):
    """If a string/char literal starts at i return the index after it, else None.  A lifetime
    (`'a`) is not a literal: returns None and the caller just steps over the quote."""
    c = s[i]
    if c == '"':
        return _skip_string(s, i)
    if c in 'br':
        m = _RAW.match(s, i)
        if m and (i == 0 or not (s[i - 1].isalnum() or s[i - 1] == '_')):
            end = '"' + m.group(1)
            j = s.find(end, m.end())
            if j < 0:
                raise LexError('unterminated raw string at %d' % i)
            return j + len(end)
        if c == 'b' and i + 1 < len(s) and s[i + 1] == '"' and (i == 0 or not (s[i - 1].isalnum() or s[i - 1] == '_')):
            return _skip_string(s, i + 1)
        if c == 'b' and i + 1 < len(s) and s[i + 1] == "'" and (i == 0 or not (s[i - 1].isalnum() or s[i - 1] == '_')):
            m = _CHAR.match(s, i)
            if m:
                return m.end()
        return None
    if c == "'":
        m = _CHAR.match(s, i)
        if m:
            return m.end()
        return None
    return None


def strip_comments(s):
    """Replace comments by blanks (newlines kept) so offsets/lines are preserved."""
    out = []
    i = 0
    n = len(s)
    while i < n:
        c = s[i]
        if c == '/' and i + 1 < n and s[i + 1] == '/':
            j = s.find('\n', i)
            if j < 0:
                j = n
            out.append(' ' * (j - i))
            i = j
            continue
        if c == '/' and i + 1 < n and s[i + 1] == '*':
            depth = 1
            j = i + 2
            while j < n and depth:
                if s.startswith('/*', j):
                    depth += 1
                    j += 2
                elif s.startswith('*/', j):
                    depth -= 1
                    j += 2
                else:
                    j += 1
            out.append(''.join(ch if ch == '\n' else ' ' for ch in s[i:j]))
            i = j
            continue
        e = skip_literal(s, i) if c in '"\'br' else None
        if e is not None:
            out.append(s[i:e])
            i = e
            continue
        out.append(c)
        i += 1
    return ''.join(out)


def find_matching(s, i):
    """s[i] is an opener; return the index of its matching closer."""
    assert s[i] in OPEN, (s[i], i)
    stack = [s[i]]
    j = i + 1
    n = len(s)
    while j < n:
        c = s[j]
        if c in '"\'br':
            e = skip_literal(s, j)
            if e is not None:
                j = e
                continue
        if c in OPEN:
            stack.append(c)
        elif c in CLOSE:
            o = stack.pop()
            if PAIR[o] != c:
                raise LexError('mismatched %s%s at %d' % (o, c, j))
            if not stack:
                return j
        j += 1
    raise LexError('unbalanced from %d' % i)


def find_angle_close(s, i):
    """s[i] == '<' opening a generic list; return index of the matching '>' (handles ->, nested <>, brackets)."""
    assert s[i] == '<'
    depth = 0
    j = i
    n = len(s)
    while j < n:
        c = s[j]
        if c in OPEN:
            j = find_matching(s, j) + 1
            continue
        if c == '<':
            depth += 1
        elif c == '>':
            if j > 0 and s[j - 1] == '-':
                j += 1
                continue
            depth -= 1
            if depth == 0:
                return j
        j += 1
    raise LexError('unbalanced <> from %d' % i)


def scan_depth0(s, start=0, end=None, angle=False):
    """Yield (index, char) for characters at bracket depth 0 (literals skipped).  With angle=True,
    generic angle brackets are tracked too (only safe in type/signature context)."""
    j = start
    n = len(s) if end is None else end
    adepth = 0
    while j < n:
        c = s[j]
        if c in '"\'br':
            e = skip_literal(s, j)
            if e is not None:
                j = e
                continue
        if c in OPEN:
            j = find_matching(s, j) + 1
            continue
        if angle:
            if c == '<':
                adepth += 1
            elif c == '>' and not (j > 0 and s[j - 1] in '-='):
                adepth -= 1
                j += 1
                continue
        if not angle or adepth == 0:
            yield j, c
        j += 1


def find_block_open(s, start=0, end=None):
    """Index of the first '{' at paren/bracket depth 0 (literals skipped), or -1."""
    j = start
    n = len(s) if end is None else end
    while j < n:
        c = s[j]
        if c in '"\'br':
            e = skip_literal(s, j)
            if e is not None:
                j = e
                continue
        if c in '([':
            j = find_matching(s, j) + 1
            continue
        if c == '{':
            return j
        j += 1
    return -1


def find_depth0(s, needle, start=0, end=None, angle=False, word=False):
    """Index of first occurrence of `needle` at depth 0, or -1."""
    L = len(needle)
    for j, c in scan_depth0(s, start, end, angle):
        if c == needle[0] and s.startswith(needle, j):
            if word:
                if j > 0 and (s[j - 1].isalnum() or s[j - 1] == '_'):
                    continue
                k = j + L
                if k < len(s) and (s[k].isalnum() or s[k] == '_'):
                    continue
            return j
    return -1


def split_depth0(s, sep=',', angle=True):
    parts = []
    last = 0
    for j, c in scan_depth0(s, 0, None, angle):
        if c == sep:
            parts.append(s[last:j])
            last = j + 1
    parts.append(s[last:])
    return parts


def norm_ws(t):
    return re.sub(r'\s+', ' ', t).strip()


def line_of(s, off):
    return s.count('\n', 0, off) + 1


def read_attr(s, i):
    """s[i:] starts with '#[' or '#![': return index after the closing ']'."""
    j = s.index('[', i)
    return find_matching(s, j) + 1
