"""Run Verus on an extracted unit and turn its output into named obligations."""
import json
import os
import re
import subprocess
import time

VERUS = os.environ.get('VERIF_VERUS', 'verus')

VERDICT_MSGS = (
    'postcondition not satisfied', 'precondition not satisfied', 'invariant not satisfied', 'assertion failed',
    'possible arithmetic underflow/overflow', 'possible division by zero', 'index out of bounds',
    'loop invariant not preserved', 'decreases not satisfied', 'possible bit shift underflow/overflow',
    'recommendation not met', 'failed to satisfy', 'unreachable', 'cannot show', 'might', 'not satisfied',
    'possible', 'could not prove', 'unable to prove', 'constructed value may fail to meet its declared type invariant',
)
UNDECIDED_MSGS = ('rlimit', 'resource limit', 'timed out', 'timeout', 'out of memory')


class VerusResult:
    def __init__(self):
        self.rc = None
        self.wall_s = 0.0
        self.cmd = ''
        self.json = None
        self.diags = []          # parsed rustc-style diagnostics (dicts)
        self.raw_stderr = ''
        self.fn_status = {}      # verus fn name -> dict(success, time_us, rlimit)
        self.obligations = {}    # verus fn name -> number of AIR assert nodes
        self.verified = 0
        self.errors = 0
        self.compile_errors = []  # diagnostics that are not verification verdicts
        self.smt_ms = 0


# Verus stops looking for further failing obligations of a function after this many.  The property-level rule of the driver ("only exact
# clauses fail, every p_* clause holds -> undecided") is only sound if a failing p_* clause cannot be hidden behind that cap: a function has at
# most ~10 exact clauses x a few return sites, so the cap is set well above that, and driver_main refuses to downgrade a function that reached it.
MULTIPLE_ERRORS = int(os.environ.get('VERIF_MULTIPLE_ERRORS', '40'))


def run_verus(unit_path, logdir, rlimit=None, threads=None, extra=(), timeout=1800):
    r = VerusResult()
    cmd = [VERUS, os.path.basename(unit_path), '--output-json', '--time', '--error-format=json',
           '--log', 'air', '--log-dir', logdir, '--multiple-errors', str(MULTIPLE_ERRORS)]
    if rlimit:
        cmd += ['--rlimit', str(rlimit)]
    if threads:
        cmd += ['--num-threads', str(threads)]
    cmd += list(extra)
    r.cmd = ' '.join(cmd)
    t0 = time.time()
    try:
        p = subprocess.run(cmd, cwd=os.path.dirname(unit_path), capture_output=True, text=True, timeout=timeout)
        r.rc = p.returncode
        out, err = p.stdout, p.stderr
    except subprocess.TimeoutExpired as e:
        r.rc = -9
        out = (e.stdout or b'').decode() if isinstance(e.stdout, bytes) else (e.stdout or '')
        err = (e.stderr or b'').decode() if isinstance(e.stderr, bytes) else (e.stderr or '')
        err += '\nverus timed out after %ds' % timeout
    r.wall_s = time.time() - t0
    r.raw_stderr = err
    try:
        a = out.index('{')
        r.json = json.loads(out[a:])
    except Exception:
        r.json = None
    for ln in err.split('\n'):
        ln = ln.strip()
        if ln.startswith('{') and '"$message_type"' in ln:
            try:
                d = json.loads(ln)
            except Exception:
                continue
            if d.get('$message_type') == 'diagnostic':
                r.diags.append(d)
    if r.json:
        vr = r.json.get('verification-results', {})
        r.verified = vr.get('verified', 0)
        r.errors = vr.get('errors', 0)
        smt = r.json.get('times-ms', {}).get('smt', {})
        r.smt_ms = smt.get('total', 0)
        for m in smt.get('smt-run-module-times', []):
            for f in m.get('function-breakdown', []):
                nm = f['function']
                st = r.fn_status.setdefault(nm, dict(success=True, time_us=0, rlimit=0, queries=0))
                st['success'] = st['success'] and bool(f.get('success'))
                st['time_us'] += f.get('time-micros', 0)
                st['rlimit'] += f.get('rlimit', 0)
                st['queries'] += 1
    # obligations: AIR assert nodes per Function-Def
    if os.path.isdir(logdir):
        for fn in os.listdir(logdir):
            if not fn.endswith('.air'):
                continue
            cur = None
            with open(os.path.join(logdir, fn), errors='replace') as fh:
                for ln in fh:
                    if ln.startswith(';; Function-'):
                        m = re.match(r';; Function-(Def|Decl|Specs|Axioms|Recommend|Expand-Errors\S*)\s+(\S+)', ln)
                        cur = m.group(2) if (m and m.group(1) == 'Def') else None
                    elif cur and '(assert' in ln:
                        r.obligations[cur] = r.obligations.get(cur, 0) + ln.count('(assert')
    return r


def resolve_name(r, vname):
    """Verus names a trait-impl method after the module that defines the *type*; fall back to a unique suffix match."""
    if vname in r.fn_status or vname in r.obligations:
        return vname
    parts = vname.split('::')
    suffix = '::' + '::'.join(parts[-2:])
    cands = [k for k in set(list(r.fn_status.keys()) + list(r.obligations.keys())) if k.endswith(suffix)]
    if len(cands) == 1:
        return cands[0]
    return vname


class Failure:
    def __init__(self):
        self.message = ''
        self.fn_key = None        # key of the function whose proof fails ('' = prelude/lemma by verus name)
        self.unit_line = None
        self.clause = None        # (fn_key, kind, name) of the named clause involved, if any
        self.obligation = ''      # printable obligation name
        self.rendered = ''
        self.verdict = True       # definite verifier verdict (False => undecided)
        self.span_text = ''


def _in_ranges(line, fns):
    for (a, b, key) in fns:
        if a <= line <= b:
            return key
    return None


def _clause_at(line, clauses):
    for (l, key, kind, name, n) in clauses:
        if l <= line <= l + n:
            return (key, kind, name)
    return None


def classify(r, unit_file, fns, clauses):
    """-> (failures, compile_errors).  `clauses` entries: (line, key, kind, name, nlines)."""
    failures = []
    compile_errors = []
    base = os.path.basename(unit_file)
    for d in r.diags:
        if d.get('level') != 'error':
            continue
        msg = d.get('message', '')
        if msg.startswith('aborting due to'):
            continue
        spans = [s for s in d.get('spans', [])]
        for ch in d.get('children', []):
            spans += ch.get('spans', [])
        unit_spans = [s for s in spans if os.path.basename(s.get('file_name', '')) == base]
        low = msg.lower()
        is_verdict = any(m in low for m in VERDICT_MSGS) and d.get('code') is None
        is_undecided = any(m in low for m in UNDECIDED_MSGS)
        if not is_verdict and not is_undecided:
            compile_errors.append(d)
            continue
        f = Failure()
        f.message = msg
        f.rendered = d.get('rendered') or msg
        f.verdict = is_verdict and not is_undecided
        prim = [s for s in unit_spans if s.get('is_primary')] or unit_spans
        fn_key = None
        for s in prim + unit_spans:
            k = _in_ranges(s['line_start'], fns)
            if k:
                fn_key = k
                f.unit_line = s['line_start']
                f.span_text = (s.get('text') or [{}])[0].get('text', '').strip()
                break
        # for `precondition not satisfied` the primary span is the call site: that is the failing function
        cl = None
        for s in prim + unit_spans:
            c = _clause_at(s['line_start'], clauses)
            if c:
                cl = c
                break
        f.fn_key = fn_key
        f.clause = cl
        if f.unit_line is None and unit_spans:
            f.unit_line = unit_spans[0]['line_start']
        if cl and (fn_key is None or cl[0] == fn_key):
            f.fn_key = cl[0]
            f.obligation = '%s :: %s[%s]' % (short(cl[0]), cl[1], cl[2])
        elif cl:
            f.obligation = '%s :: call %s.%s[%s]' % (short(fn_key), short(cl[0]), cl[1], cl[2])
        else:
            where = short(fn_key) if fn_key else ('unit line %s' % f.unit_line)
            f.obligation = '%s :: %s' % (where, msg)
        failures.append(f)
    return failures, compile_errors


def short(key):
    if not key:
        return '?'
    parts = [p.strip() for p in key.split(' :: ')]
    if len(parts) >= 2:
        # files of crates other than frost-core carry the crate directory (`frost-rerandomized/lib::aggregate` vs `lib::aggregate`)
        crate = parts[0].split('/')[0]
        pre = '' if crate in ('frost-core', parts[0]) else crate + '/'
        return pre + os.path.basename(parts[0]).replace('.rs', '') + '::' + '::'.join(parts[1:])
    return key
