"""Concrete replay search (rt/run_rt.py): executes the REAL crates of the tree under check on generated inputs with oracles taken
from the property statements.  It is not the deciding step.  The driver uses it (a) after a deductive violation, to attach a failing
input that replays on the real code, and (b) when the verifier could not decide (lost anchor, unsupported construct): a concrete
failing input is then a genuine violation; finding none leaves the verdict undecided (exit 2), never OK."""
import json
import os
import subprocess
import sys

VERIF = os.path.dirname(os.path.dirname(os.path.abspath(__file__)))
REPO = os.environ.get('VERIF_REPO', '/repo')
RUNNER = os.path.join(VERIF, 'rt', 'run_rt.py')


def available():
    return os.path.exists(RUNNER) and not os.environ.get('VERIF_NO_RT')


def search(pid, obligation, seed, budget_s=None, out_dir=None):
    """-> dict(found=bool, case=..., cases=n, cmd=..., file=path) or None when the runner is unavailable / could not run."""
    if not available():
        return None
    budget_s = budget_s or int(os.environ.get('VERIF_RT_BUDGET', '45'))
    out_dir = out_dir or os.path.join(VERIF, 'build')
    os.makedirs(out_dir, exist_ok=True)
    out = os.path.join(out_dir, 'rt-%s-%d.json' % (pid, os.getpid()))
    if os.path.exists(out):
        os.remove(out)
    cmd = [sys.executable, RUNNER, pid, '--repo', REPO, '--seed', str(seed), '--budget-s', str(budget_s), '--out', out,
           '--target-dir', os.path.join(VERIF, 'build', 'rt-target')]
    try:
        p = subprocess.run(cmd, capture_output=True, text=True, timeout=budget_s + 1500)
    except subprocess.TimeoutExpired:
        return dict(found=False, error='rt runner timed out', cmd=' '.join(cmd))
    res = dict(found=False, cmd=' '.join(cmd), rc=p.returncode, stdout_tail=p.stdout[-1500:], stderr_tail=p.stderr[-800:])
    # finding probes: deviations from the literal property text that exist on the unchanged tree are reported by the runner as RT-FINDING
    # lines (never as failures); the driver matches them against known_findings.txt
    import re as _re
    res['findings'] = []
    for ln in p.stdout.split('\n'):
        m = _re.match(r'RT-FINDING property=(\S+) key=(\S+)(?: suite=(\S+))?(?: detail="(.*)")?', ln.strip())
        if m:
            res['findings'].append(dict(property=m.group(1), key=m.group(2), suite=m.group(3), detail=(m.group(4) or '')[:400]))
    if p.returncode == 1 and os.path.exists(out):
        try:
            res['case'] = json.load(open(out))
            res['found'] = True
            res['file'] = out
        except Exception as e:
            res['error'] = 'unreadable rt output: %s' % e
    elif p.returncode == 2 and 'no-scenarios-for-this-property' in p.stdout:
        pass
    elif p.returncode == 2:
        res['error'] = 'rt runner undecided: ' + (p.stdout.strip().split('\n') or [''])[-1][:300]
    return res


def replay(rep):
    """Re-execute the concrete input of a replay file against the REAL code of the current tree.  -> True when the violation is reproduced."""
    ci = rep.get('concrete_input')
    pid = rep['property']
    if isinstance(ci, dict) and isinstance(ci.get('property'), str) and ci['property'].startswith('C'):
        pid = ci['property']        # a case found through an included property replays under that property's scenarios
    if isinstance(ci, dict) and (ci.get('scenario') or ci.get('suite') or ci.get('ciphersuite')):
        tmp = os.path.join(VERIF, 'build', 'replay-%s-%d.json' % (pid, os.getpid()))
        os.makedirs(os.path.dirname(tmp), exist_ok=True)
        json.dump(ci, open(tmp, 'w'))
        cmd = [sys.executable, RUNNER, pid, '--repo', REPO, '--replay', tmp, '--target-dir', os.path.join(VERIF, 'build', 'rt-target')]
        p = subprocess.run(cmd, capture_output=True, text=True, timeout=3600)
        sys.stderr.write(p.stdout[-1500:])
        return p.returncode == 1
    if isinstance(ci, dict) and ci.get('name') or (isinstance(rep.get('obligation'), str) and rep['obligation'].startswith('kani :: ')):
        # a Kani counterexample: re-run the harness on the current tree (its concrete playback test is stored in the replay file)
        name = rep['obligation'].split('kani :: ', 1)[1]
        out = os.path.join(VERIF, 'build', 'replay-kani-%d.json' % os.getpid())
        cmd = [sys.executable, os.path.join(VERIF, 'kani', 'run_kani.py'), '--harness', name, '--out', out]
        subprocess.run(cmd, capture_output=True, text=True, timeout=7200, env=dict(os.environ, VERIF_REPO=REPO))
        try:
            hs = json.load(open(out)).get('harnesses', [])
            return any(h['name'] == name and h['status'] == 'fail' for h in hs)
        except Exception:
            return False
    return False
