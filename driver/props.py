"""Per-property configuration of the checks (what is claimed, at which level, with which trusted base).

MANIFEST.json is generated from this table (`./check --manifest`) so the two cannot drift apart."""
import json
import os

VERIF = os.path.dirname(os.path.dirname(os.path.abspath(__file__)))

GLOBAL_TRUSTED = [
    'T1 Verus 0.2026.09.13 + bundled z3; rustc front end',
    'T2 extractor rules E0-E12 preserve semantics (audited through per-function source/emitted hashes and rule counts in this file)',
    'T3 each ciphersuite Field is a field and Group a prime-order group with the stated scalar action; exec + - * == are the mathematical operations (prelude/traits.rs axioms)',
    'T6 vstd specifications of Vec/slice/Option/Result/BTreeMap/BTreeSet (ascending iteration given obeys_cmp) and the assumed specs in prelude/vstdx.rs',
    'T7 Ord for Identifier is a total order consistent with == (assumed in Verus; checked by Kani on toy suites only)',
    'derived Clone returns an equal value (E2)',
]
GLOBAL_ASSUMPTIONS = [
    'external crates (curve25519-dalek, k256, p256, ed448-goldilocks, sha2/sha3, rand_core, postcard, serde, zeroize) are not verified',
    'machine arithmetic of the curve crates is treated as mathematical field/group arithmetic',
    'hash functions are deterministic functions of their input bytes; no collision resistance is used in any proof',
    'no hidden state: frost-core has no statics, interior mutability or threads (scanned by the extractor)',
]

# category: schema level; units: Verus units to extract+verify; kani: whether the Kani layer contributes
PROPS = {}


def prop(pid, **kw):
    kw.setdefault('category', 'proof')
    kw.setdefault('units', ['frost_core'])
    kw.setdefault('kani', False)
    kw.setdefault('claimed', True)
    kw.setdefault('engine', 'verus' + ('+kani' if kw.get('kani') else ''))
    kw.setdefault('technique', 'contract-based deductive verification (Verus) of mechanically extracted functions')
    PROPS[pid] = kw


NOT_APPLICABLE = {}


def write_manifest(path):
    props = [json.loads(l) for l in open(os.path.join(VERIF, 'properties.jsonl'))]
    checks = []
    na = []
    for p in props:
        pid = p['id']
        P = PROPS.get(pid)
        if P is None or not P.get('claimed'):
            na.append(dict(property_id=pid, reason=NOT_APPLICABLE.get(pid, 'check not built yet (framework under construction)')))
            continue
        c = dict(property_id=pid,
                 quick_cmd='./check %s --tier quick' % pid,
                 thorough_cmd='./check %s --tier thorough' % pid,
                 evidence_file='/verif/evidence/%s.json' % pid,
                 replay_cmd_template='./check replay {path}',
                 engine=P['engine'],
                 level_claimed=dict(category=P['category'], text=P['level_text'], design_ref=P.get('design_ref', 'DESIGN.md section 4 ' + pid)),
                 level_note=P['level_note'],
                 technique=P['technique'])
        checks.append(c)
    m = dict(version=1,
             setup_cmd='./check --setup',
             hooks=dict(guard='none (no source hooks: contracts live in /verif sidecar files; cfg(kani) exists only in scratch copies)',
                        enable='n/a (checks read /repo sources directly; Kani harnesses build a scratch copy with --cfg kani)',
                        baseline_off_cmd='cd /repo && cargo test --workspace --no-fail-fast --offline',
                        source_commits=[], add_only=True),
             engines=[dict(name='verus', path='/verif/extract + /verif/prelude + /verif/contracts + /verif/lemmas',
                           serves_properties=[c['property_id'] for c in checks if 'verus' in c['engine']],
                           kind_free_text='deductive verifier (Verus/z3) on functions extracted mechanically from /repo on every run, contracts injected from sidecar files'),
                      dict(name='kani', path='/verif/kani',
                           serves_properties=[c['property_id'] for c in checks if 'kani' in c['engine']],
                           kind_free_text='Kani/CBMC harnesses on the real frost-core monomorphised at toy ciphersuites (complete where loop-free/full-domain, otherwise labelled bounded)')],
             checks=checks,
             notes='See DESIGN.md. Exit 2 of a check means undecided (lost anchor / unsupported construct / solver limit), never a pass and never an alarm.',
             not_applicable=na)
    json.dump(m, open(path, 'w'), indent=1)


# =====================================================================================================
KANI_NOTE = 'Kani harnesses run the real frost-core at toy ciphersuites; complete where loop-free over full-domain inputs, otherwise bounded as labelled per harness'

prop('C06',
     level_text='For every ciphersuite (abstract field/group), every (n,t), identifier list, key and RNG stream: Verus proves the real text of '
                'split / generate_secret_shares / generate_secret_polynomial / evaluate_polynomial / evaluate_vss / SecretShare::verify / '
                'KeyPackage::try_from / reconstruct / validate_num_of_signers against contracts that state the whole result (exact error per refused '
                'parameter; shares = polynomial evaluations; commitment = G*coefficients; public package entries, group key, threshold), and '
                'the property-level theorems (every dealer share verifies and yields a package consistent with the public package; any >= t '
                'packages reconstruct the key; an altered share value or any single altered commitment coefficient is rejected) follow from '
                'those contracts by machine-checked lemmas (native Lagrange interpolation proof, VSS completeness/soundness).',
     level_note='Assumed (not proved here): generate_coefficients (closure over &mut rng inside repeat_with), default_identifiers and '
                'Identifier::try_from(u16) contracts (Kani-backed on toy suites, bounded); field characteristic > 65535 is needed for default '
                'identifiers to be distinct and is an explicit premise of split.ensures[value]; an altered *identifier* is rejected only unless '
                'the polynomial takes the same value there (probability <= (t-1)/q) -- stated, not decided; curve crates obey the field/group axioms.',
     assumptions=['generate_coefficients returns the next `size` draws of Field::random (assumed contract; Kani group coeffs, bounded size <= 4)',
                  'default_identifiers(n) = [1*1, ..., n*1] and Identifier::try_from(u16) = n*1 (assumed contracts; Kani group ident, complete over u16 on toy fields)',
                  'an altered identifier is rejected unless poly(a,i\') = poly(a,i): generic-position statement, not decided'],
     design_ref='DESIGN.md section 4 C06')
prop('C11',
     level_text='For every ciphersuite, group, helper list and participant identifier: Verus proves the real text of repair_share_part1 / '
                'compute_last_random_value / repair_share_part2 / repair_share_part3 (and compute_lagrange_coefficient at a general point) against '
                'contracts stating the exact refusal per guard (fewer than t helpers, caller not among the helpers, duplicate helpers, package without '
                'threshold) and the whole result (the first |H|-1 ascending helpers receive the fresh draws, the last the correcting value; sigma = sum '
                'of deltas; key package = (id, sum of sigmas, G*that, group key, threshold)); the theorem thm_repair composes them with the natively '
                'proved Lagrange interpolation at a general point and a Fubini lemma: the repaired share equals f(participant) for any >= t distinct '
                'helpers and any participant identifier (existing or new).',
     level_note='Assumed: generate_coefficients contract (RNG draws; Kani-backed, bounded), the outlined `helpers.iter().copied().zip(..).collect()` and '
                '`helpers.iter().cloned().collect()` idioms (statements about std; the zip closure `|v| Delta::new(*v)` sits inside the outlined text, so a '
                'change there is reported as undecided, not as a violation), BTreeSet::last = greatest element, T7 identifier order.',
     assumptions=['outlined std idioms in repairable.rs: zip+collect into BTreeMap pairs the k-th smallest helper with the k-th value; cloned+collect = set of elements',
                  'the verifying share equals the public package entry when the participant existed: follows from f(participant) and C06/C07 consistency of the package, not re-proved here'],
     design_ref='DESIGN.md section 4 C11')
DKG_FUNCS = ('part1 / compute_proof_of_knowledge / dkg::challenge / verify_proof_of_knowledge / part2 / part3 / SecretShare::verify / evaluate_vss / '
             'evaluate_polynomial / PublicKeyPackage::from_commitment / from_dkg_commitments')
DKG_ASSUMED = ('Assumed: sum_commitments (iter_mut().enumerate() with `?`; Kani group sumc, bounded), random_nonzero (rejection loop; being replaced by a '
               'verified contract), generate_coefficients (RNG draws), the outlined commitments-map idiom of part3 (`iter().map(..).chain(once(..)).collect()`), '
               'T7 identifier order, default world for the post_dkg hook (the Taproot suite overrides it: C18).')

prop('C07',
     level_text='For every ciphersuite in the default world, every n, t, identifier set and per-participant polynomial: Verus proves the real text of ' + DKG_FUNCS +
                ' against contracts stating the whole result of each part: part1 = ([fresh key][t-1 draws] polynomial, commitment G*coefficients, proof of knowledge '
                '(kG, k + a0*c) with c = HDKG(enc(id)||enc(a0 G)||enc(kG))); part2 = f(l) for every sender l in the map and f(own id) kept; part3 = signing share = sum of '
                'received shares + own share, verifying share = G*that, public package = evaluate_vss over the column-wise sum of ALL commitments (own included), group key = '
                'constant term of the sum, threshold recorded, then the post_dkg hook. Theorems: an honest proof of knowledge verifies (thm_pok_complete); a share is accepted iff '
                'it is f_l(own id) (thm_share_accepted_iff); the public package is a function of the commitment map, hence identical for all participants who complete on the same '
                'round-one set (thm_same_commitments_same_public_package); key package internally consistent (thm_part3_internal_consistency).',
     level_note=DKG_ASSUMED + ' Not yet machine-checked as one theorem: the composition "all honest => public package entry of i equals G * signing share of i and any t can sign" '
                '(needs linearity of evaluate_vss over the column sums; the per-function contracts it rests on are proved).',
     assumptions=['composition of the honest n-party run into one theorem is argued in DESIGN.md from the proved per-function contracts, not machine-checked',
                  'Taproot post_dkg tweak: C18'],
     design_ref='DESIGN.md section 4 C07')

prop('C08',
     level_text='Verus proves, for all inputs, the EXACT error and culprit of every guard of part2 and part3 in source order: wrong number of packages, own identifier present '
                '(UnknownIdentifier), commitment of the wrong length (IncorrectNumberOfCommitments), first (ascending) sender whose proof of knowledge fails '
                '(InvalidProofOfKnowledge{culprit: sender}, or the identity/unsupported-DKG errors of the challenge), round-2 map with own identifier / other size / missing sender, '
                'first (ascending) sender whose share does not match the commitment filed for that sender at the recipient identifier '
                '(InvalidSecretShare{culprit: Some(sender)}); no key material is returned on any of these paths (the result is exactly Err(..)). Theorems: an honest proof verifies; a '
                'share is accepted iff it equals f_sender(own id), so a share computed for another recipient or not matching the commitment is rejected unless it is that scalar; an altered '
                'commitment coefficient is rejected (thm_tampered_commitment_rejected).',
     level_note=DKG_ASSUMED + ' Not decided: "a proof made for another identifier / another commitment is rejected" needs HDKG to separate inputs (collision resistance); the contract '
                'pins that identifier, phi_0 and R all enter the challenge preimage.',
     assumptions=['rejection of a proof of knowledge made for another identifier or commitment: needs collision resistance of HDKG, not decided'],
     design_ref='DESIGN.md section 4 C08')

prop('C09',
     level_text='The library keeps no state between calls (scanned), so a delivery history is a choice of arguments; the part2/part3 contracts are universally quantified over '
                'those arguments (all n, t, not only n in {3,4}): every step either returns exactly the specified error or key material satisfying spec_part3_pre (verifying share = '
                'G*signing share, one group key in both packages, own threshold) -- thm_part3_internal_consistency; a round-two share is accepted iff it equals the evaluation at the '
                'recipient of the polynomial committed in the round-one package FILED UNDER THE SAME SENDER (contract of part3 + thm_share_accepted_iff); equal round-one commitment maps '
                'give equal public key packages (thm_same_commitments_same_public_package).',
     level_note=DKG_ASSUMED + ' part3 does not re-check commitment lengths: if a caller passes part3 a different round-one set than it passed part2, a longer commitment is silently '
                'truncated by sum_commitments and the public package entry of the participant can differ from its verifying share; the consistency statement therefore has the premise '
                '"all commitments have the same length" (enforced by part2 on the set it sees). Recorded in DESIGN.md section 5 as an observation, the docs require the same set.',
     assumptions=['absence of hidden state (no statics / interior mutability / threads in frost-core)',
                  'public-package entry == G*signing share needs equal commitment lengths (premise; enforced by part2 for the set it is given)'],
     design_ref='DESIGN.md section 4 C09')
prop('C15',
     level_text='For every ciphersuite (abstract field/group, H3 an arbitrary deterministic function), every signing share and every random '
                'source (ghost byte stream + position): Verus proves the real text of Nonce::new / nonce_generate_from_random_bytes / '
                'NonceCommitment::from(&Nonce|Nonce) / SigningCommitments::new / SigningNonces::from_nonces / SigningNonces::new / preprocess / commit '
                '(and SerializableScalar::serialize) against contracts stating the whole result and the exact consumption of the source: 32 bytes per '
                'nonce, 64 per pair (hiding from [p,p+32), binding from the 32 further bytes [p+32,p+64)), 64*k for preprocess(k) with pair j built from '
                'segment [p+64j,p+64j+64); nonce = H3(bytes || SerializeScalar(share)) in this order; commitments = (G*hiding, G*binding) and '
                'commitments[j] == SigningCommitments::from(&nonces[j]); commit == preprocess(1) and its two expect()s cannot panic. Lemmas: the H3 '
                'preimage is injective in (bytes, share); equal nonces from different (bytes, share) are an H3 collision; commitment is the identity '
                'iff the nonce is zero; different nonces have different commitments.',
     level_note='NOT decided: "nonces differ whenever bytes or share differ" beyond the preimage level and "no nonce/commitment is ever zero/identity" are '
                'statements about H3 (collision freeness / never hitting 0; the code does not check for a zero nonce) -- reduced by lemmas to exactly those '
                'hash statements, not proved; "independent" pairs is decided only as "disjoint, consecutive stream segments", not statistically. Assumed: '
                'the outlined idiom A.iter().chain(B.iter()).cloned().collect() == A ++ B (statement about std, operand holes: exchanging the operands IS '
                'decided), <[T]>::to_vec, the ghost-stream model of CryptoRng::fill_bytes (T9).',
     assumptions=['T9 ghost-stream model: fill_bytes(buf) writes stream[pos..pos+len) and advances pos by len; the stream is independent of library state',
                  'T4 scalar codec: spec_ser is canonical and of fixed length (used only by the injectivity lemma)',
                  'T5 H3 is a deterministic function of its input; nothing else about it is used',
                  'outlined std idiom chain+cloned+collect on byte slices equals concatenation'],
     design_ref='DESIGN.md section 4 C15')
prop('C19',
     level_text='For every ciphersuite (abstract field/group), every batch size, every mix of keys, messages and signatures and every RNG stream: '
                'Verus proves the real text of batch::Verifier::verify / new / default / queue, batch::Item::new / verify_single, '
                'VerifyingKey::verify_prehashed / verify, the free fn challenge and the default hooks pre_verify / challenge / verify_signature against '
                'contracts that state the whole result: verify_prehashed == Ok iff h*(z*G - c*A - R) == 0 (else InvalidSignature); challenge == '
                'H2(enc(R) || enc(A) || msg), GroupError exactly when R or A is the identity; Verifier::verify == Err(InvalidSignature) on the empty '
                'batch and otherwise Ok iff h * MSM([-(sum b_i z_i)] ++ [b_i c_i] ++ [b_i], [G] ++ [VK_i] ++ [R_i]) == 0 where b_i is the i-th '
                'Field::random draw from the caller\'s rng (one fresh blinder per item, drawn after the items are fixed: loop invariants '
                'fresh_blinders, p_coeff_acc, r_coeffs, rs, vk_coeffs, vks, covers_all_items).  Machine-checked theorems (lemmas/vprops_batch.rs): the '
                'check value equals -sum_i b_i*Delta_i with Delta_i = z_i G - c_i VK_i - R_i; a non-empty batch whose every item verifies is accepted '
                'for EVERY blinder vector / rng stream; the empty batch is rejected; Item::new(..).verify_single() equals ordinary verification of the '
                'same key, message and signature; a batch with exactly one invalid item, at any position, is rejected whenever that item\'s blinder is non-zero.',
     level_note='NOT decided: rejection of a batch with two or more invalid items (e.g. crafted so that their errors cancel) holds only except with '
                'probability about 1/q (128-bit blinders: 2^-128) over the verifier\'s blinders (Schwartz-Zippel); this is a probabilistic statement '
                'outside the logic.  The contracts pin its premises: one blinder per item, each a fresh Field::random draw from the caller\'s rng, '
                'drawn after the items are fixed, each item\'s error term scaled by its own blinder.  That Field::random is uniform / 128-bit is a '
                'property of the ciphersuite crates, not checked.  Assumed: the multiscalar-multiplication result (outlined chained-iterator call; '
                'body Kani-backed, bounded), `msg.as_ref()` returns a function of msg, default world (hooks not overridden; Taproot has its own unit).',
     assumptions=['vartime_multiscalar_mul over once(..).chain(..).chain(..) returns sum_i points_i*scalars_i (outlined, assumed; requires equal lengths, which is proved)',
                  'std: `?` converts GroupError with the generated From impl; `impl From<T> for T` is the identity (only needed by callers of queue)',
                  'soundness for >= 2 invalid items is probabilistic (Schwartz-Zippel) and not decided'],
     design_ref='DESIGN.md section 4 C19')

prop('C18', units=['frost_secp256k1_tr'],
     level_text='Unit frost_secp256k1_tr = the frost-core modules (verified WITHOUT the default-world axiom) + frost-secp256k1-tr/src/lib.rs extracted mechanically, against '
                'an opaque model of k256/sha2 (prelude/k256_model.rs).  For ALL inputs and all parities Verus proves the real text of the Taproot hooks (pre_sign, pre_aggregate, '
                'pre_verify, generate_nonce, challenge, compute_signature_share, verify_share, serialize_signature, deserialize_signature, post_dkg, H2, and the four hooks the suite '
                'leaves at their default), of the EvenY / Tweak impls for KeyPackage, PublicKeyPackage, VerifyingKey, GroupCommitment, Signature, of tweak / tagged_hash / '
                'hasher_to_scalar / negate_nonce(s) and of the sign / sign_with_tweak / aggregate / aggregate_with_tweak wrappers against contracts transcribed from BIP-340/341: challenge = '
                'int(hash_BIP0340/challenge(x(R)||x(P)||m)) mod n; t = int(hash_TapTweak(x(P)||root?)); into_even_y negates key, every verifying share and the signing share iff the '
                'key has odd Y; tweak = even-Y normalisation first, then +t*G / +t on key, every verifying share, signing share; nonces (signer) resp. commitment share (verifier) negated iff '
                'the group commitment has odd Y; 64-byte encoding x(R)||ser(z), decoding lifts to even Y; post_dkg = tweak(None) on both packages.  The impl DEFINES the trait-level hook '
                'spec functions as these, so the Taproot world (lemma_taproot_world) is proved, not assumed.  frost-core\'s sign / aggregate_custom / aggregate / detect_cheater / '
                'verify_signature_share_precomputed / VerifyingKey::verify / batch::Item::new are verified here against WORLD-GENERIC contracts (lemmas/vspec_w.rs: the hook spec functions '
                'threaded through exactly as the code calls the hooks).  Machine-checked theorems (lemmas/vprops_tr.rs): verify_share accepts exactly the share compute_signature_share '
                'produces, for both parities of the group commitment and of the group key (thm_tr_share_accepted_iff, thm_tr_hooks_share_parity, thm_tr_share_check_exact, '
                'thm_tr_key_parity_consistent); if every signer is honest and the key shares lie on a polynomial with constant term the group secret (C06/C07), aggregate returns Ok and the '
                '64-byte signature passes the transcribed BIP-340 Verify under the x-only key of the package, for all parities of key and R (thm_tr_aggregate_bip340); tweaking keeps the sharing and '
                'yields the BIP-341 output key lift_x(x(P)) + t*G on both packages (thm_tr_tweak_keeps_sharing, thm_tr_tweaked_packages), so the same holds under the output key with or without a '
                'script root; post_dkg returns the key-path-only tweak (thm_tr_dkg_key_path_only); verification under the UNTWEAKED key holds iff e*ev(Q) == e\'*ev(P) (thm_tr_untweaked_key_iff).',
     level_note='ASSUMED about k256/sha2/subtle (K1-K12, prelude/k256_model.rs): operators are the field/group operations; to_affine/x/y_is_odd are functions of the point; -P keeps x and (P != 0) flips the '
                'parity of y; a point != 0 is determined by x and the parity of y; x is 32 bytes; SEC1 compressed encoding = 02/03 by parity || x; Sha256 is a deterministic streaming hash; '
                'Scalar::reduce(U256::from_be_slice(b)) is a function of b.  T3/T4 for k256: 35 external_body proof fns in the impl Field / impl Group blocks (contracts_tr/tr_model.vc).  T6 addenda: a '
                'BTreeMap is determined by its view (needed because hooks.vc states pre_aggregate/post_dkg results as equations); AsRef<[u8]> for &[u8] is the identity.  One definitional axiom '
                '(tr_rnz).  NOT decided: independent verifiers (libsecp256k1, Python) are replaced by the transcribed BIP-340 Verify; "does not verify under the untweaked key" is reduced to a '
                'relation between two hash outputs, not excluded; BIP-341 rejects t >= n where the code reduces mod n (probability < 2^-127); single_sign, SigningKey::into_even_y, H1/H3/H4/H5/HDKG/HID, '
                'hash_to_array/hash_to_scalar and the Field/Group method bodies are assumed or without contract; frost::verify_signature_share has no world-generic contract (emitted without contract); '
                'the dealer path is NOT tweaked by the library (post_generate is not overridden) -- dealer keys are covered through sign_with_tweak/aggregate_with_tweak; theorem premise "the even-Y '
                'package exists" is witnessed by every execution of pre_aggregate (BTreeMap has no spec-level constructor).',
     assumptions=['K1-K12: model of k256 / sha2 / subtle (prelude/k256_model.rs), each an ensures or axiom fn there',
                  'T3/T4 for k256: field, group and codec laws as external_body proof fns in impl Field / impl Group (contracts_tr/tr_model.vc)',
                  'T6 addenda: BTreeMap extensionality (ax_btreemap_ext), AsRef<[u8]> for &[u8] (ax_asref_slice); vstd lacks range IndexMut on Vec: the two copy_from_slice statements of serialize_signature are outlined with operand holes',
                  'independent BIP-340 verifiers are replaced by the transcribed predicate bip340_verify',
                  'honest-run theorem premises: key shares on a polynomial with <= |signers| coefficients (C06/C07), group commitment != identity, the even-Y package exists'],
     design_ref='DESIGN.md section 4 C18')

prop('CDEV', level_text='dev', level_note='dev', claimed=False)
