"""Per-property configuration of the checks (what is claimed, at which level, with which trusted base).

MANIFEST.json is generated from this table (`./check --manifest`) so the two cannot drift apart."""
import json
import os

VERIF = os.path.dirname(os.path.dirname(os.path.abspath(__file__)))

GLOBAL_TRUSTED = [
    'T1 Verus 0.2026.09.13 + bundled z3; rustc front end',
    'T2 extractor rules E0-E12 preserve semantics (audited through per-function source/emitted hashes and rule counts in this file)',
    'T3 each ciphersuite Field is a field and Group a prime-order group with the stated scalar action; exec + - * == are the mathematical operations (prelude/traits.rs axioms)',
    'T6 vstd specifications of Vec/slice/Option/Result/BTreeMap/BTreeSet (ascending iteration given obeys_cmp) and the assumed specs in prelude/vstdx.rs',
    'T7 Ord for Identifier is a total order consistent with == (assumed in Verus; checked by Kani on toy suites only)',
    'derived Clone returns an equal value (E2)',
]
GLOBAL_ASSUMPTIONS = [
    'external crates (curve25519-dalek, k256, p256, ed448-goldilocks, sha2/sha3, rand_core, postcard, serde, zeroize) are not verified',
    'machine arithmetic of the curve crates is treated as mathematical field/group arithmetic',
    'hash functions are deterministic functions of their input bytes; no collision resistance is used in any proof',
    'no hidden state: frost-core has no statics, interior mutability or threads (scanned by the extractor)',
]

# category: schema level; units: Verus units to extract+verify; kani: whether the Kani layer contributes
PROPS = {}


def prop(pid, **kw):
    kw.setdefault('category', 'proof')
    kw.setdefault('units', ['frost_core'])
    kw.setdefault('kani', False)
    kw.setdefault('claimed', True)
    kw.setdefault('engine', 'verus' + ('+kani' if kw.get('kani') else ''))
    kw.setdefault('technique', 'contract-based deductive verification (Verus) of mechanically extracted functions')
    PROPS[pid] = kw


NOT_APPLICABLE = {}


def write_manifest(path):
    props = [json.loads(l) for l in open(os.path.join(VERIF, 'properties.jsonl'))]
    checks = []
    na = []
    for p in props:
        pid = p['id']
        P = PROPS.get(pid)
        if P is None or not P.get('claimed'):
            na.append(dict(property_id=pid, reason=NOT_APPLICABLE.get(pid, 'check not built yet (framework under construction)')))
            continue
        c = dict(property_id=pid,
                 quick_cmd='./check %s --tier quick' % pid,
                 thorough_cmd='./check %s --tier thorough' % pid,
                 evidence_file='/verif/evidence/%s.json' % pid,
                 replay_cmd_template='./check replay {path}',
                 engine=P['engine'],
                 level_claimed=dict(category=P['category'], text=P['level_text'], design_ref=P.get('design_ref', 'DESIGN.md section 4 ' + pid)),
                 level_note=P['level_note'],
                 technique=P['technique'])
        checks.append(c)
    m = dict(version=1,
             setup_cmd='./check --setup',
             hooks=dict(guard='none (no source hooks: contracts live in /verif sidecar files; cfg(kani) exists only in scratch copies)',
                        enable='n/a (checks read /repo sources directly; Kani harnesses build a scratch copy with --cfg kani)',
                        baseline_off_cmd='cd /repo && cargo test --workspace --no-fail-fast --offline',
                        source_commits=[], add_only=True),
             engines=[dict(name='verus', path='/verif/extract + /verif/prelude + /verif/contracts + /verif/lemmas',
                           serves_properties=[c['property_id'] for c in checks if 'verus' in c['engine']],
                           kind_free_text='deductive verifier (Verus/z3) on functions extracted mechanically from /repo on every run, contracts injected from sidecar files'),
                      dict(name='kani', path='/verif/kani',
                           serves_properties=[c['property_id'] for c in checks if 'kani' in c['engine']],
                           kind_free_text='Kani/CBMC harnesses on the real frost-core monomorphised at toy ciphersuites (complete where loop-free/full-domain, otherwise labelled bounded)')],
             checks=checks,
             notes='See DESIGN.md. Exit 2 of a check means undecided (lost anchor / unsupported construct / solver limit), never a pass and never an alarm.',
             not_applicable=na)
    json.dump(m, open(path, 'w'), indent=1)


# =====================================================================================================
prop('C11',
     level_text='placeholder',
     level_note='placeholder',
     claimed=False)
prop('CDEV', level_text='dev', level_note='dev', claimed=False)
