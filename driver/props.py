"""Per-property configuration of the checks (what is claimed, at which level, with which trusted base).

MANIFEST.json is generated from this table (`./check --manifest`) so the two cannot drift apart."""
import json
import os

VERIF = os.path.dirname(os.path.dirname(os.path.abspath(__file__)))

GLOBAL_TRUSTED = [
    'T1 Verus 0.2026.09.13 + bundled z3; rustc front end',
    'T2 extractor rules E0-E12 preserve semantics (audited through per-function source/emitted hashes and rule counts in this file)',
    'T3 each ciphersuite Field is a field and Group a prime-order group with the stated scalar action; exec + - * == are the mathematical operations (prelude/traits.rs axioms)',
    'T6 vstd specifications of Vec/slice/Option/Result/BTreeMap/BTreeSet (ascending iteration given obeys_cmp) and the assumed specs in prelude/vstdx.rs',
    'T7 Ord for Identifier is a total order consistent with == (assumed in Verus; checked by Kani on toy suites only)',
    'derived Clone returns an equal value (E2)',
]
GLOBAL_ASSUMPTIONS = [
    'external crates (curve25519-dalek, k256, p256, ed448-goldilocks, sha2/sha3, rand_core, postcard, serde, zeroize) are not verified',
    'machine arithmetic of the curve crates is treated as mathematical field/group arithmetic',
    'hash functions are deterministic functions of their input bytes; no collision resistance is used in any proof',
    'no hidden state: frost-core has no statics, interior mutability or threads (scanned by the extractor)',
]

# category: schema level; units: Verus units to extract+verify; kani: whether the Kani layer contributes
PROPS = {}


def prop(pid, **kw):
    kw.setdefault('category', 'proof')
    kw.setdefault('units', ['frost_core'])
    kw.setdefault('kani', False)
    kw.setdefault('claimed', True)
    kw.setdefault('engine', '+'.join(([] if kw.get('units') == [] else ['verus']) + (['kani'] if kw.get('kani') else []) + (['rt'] if kw.get('rt_always') else [])))
    kw.setdefault('technique', 'contract-based deductive verification (Verus) of mechanically extracted functions')
    PROPS[pid] = kw


NOT_APPLICABLE = {}


def write_manifest(path):
    props = [json.loads(l) for l in open(os.path.join(VERIF, 'properties.jsonl'))]
    checks = []
    na = []
    for p in props:
        pid = p['id']
        P = PROPS.get(pid)
        if P is None or not P.get('claimed'):
            na.append(dict(property_id=pid, reason=NOT_APPLICABLE.get(pid, 'check not built yet (framework under construction)')))
            continue
        c = dict(property_id=pid,
                 quick_cmd='./check %s --tier quick' % pid,
                 thorough_cmd='./check %s --tier thorough' % pid,
                 evidence_file='/verif/evidence/%s.json' % pid,
                 replay_cmd_template='./check replay {path}',
                 engine=P['engine'],
                 level_claimed=dict(category=P['category'], text=P['level_text'], design_ref=P.get('design_ref', 'DESIGN.md section 4 ' + pid)),
                 level_note=P['level_note'],
                 technique=P['technique'])
        checks.append(c)
    m = dict(version=1,
             setup_cmd='./check --setup',
             hooks=dict(guard='none (no source hooks: contracts live in /verif sidecar files; cfg(kani) exists only in scratch copies)',
                        enable='n/a (checks read /repo sources directly; Kani harnesses build a scratch copy with --cfg kani)',
                        baseline_off_cmd='cd /repo && cargo test --workspace --no-fail-fast --offline',
                        source_commits=[], add_only=True),
             engines=[dict(name='verus', path='/verif/extract + /verif/prelude + /verif/contracts + /verif/lemmas',
                           serves_properties=[c['property_id'] for c in checks if 'verus' in c['engine']],
                           kind_free_text='deductive verifier (Verus/z3) on functions extracted mechanically from /repo on every run, contracts injected from sidecar files'),
                      dict(name='kani', path='/verif/kani',
                           serves_properties=[c['property_id'] for c in checks if 'kani' in c['engine']],
                           kind_free_text='Kani/CBMC harnesses on the real frost-core monomorphised at toy ciphersuites (complete where loop-free/full-domain, otherwise labelled bounded)'),
                      dict(name='rt', path='/verif/rt',
                           serves_properties=[c['property_id'] for c in checks],
                           kind_free_text='concrete replay search on the six real ciphersuite crates (oracles from the property statements): never decides OK; supplies failing inputs for '
                                          'deductive violations, decides undecided verdicts when it finds one, validates assumed codec/serde contracts on every run of C12/C13, explores in the thorough tier')],
             checks=checks,
             notes='See DESIGN.md. Exit 2 of a check means undecided (lost anchor / unsupported construct / solver limit), never a pass and never an alarm.',
             not_applicable=na)
    json.dump(m, open(path, 'w'), indent=1)


# =====================================================================================================
KANI_NOTE = 'Kani harnesses run the real frost-core at toy ciphersuites; complete where loop-free over full-domain inputs, otherwise bounded as labelled per harness'

prop('C06',
     kani=True,
     level_text='For every ciphersuite (abstract field/group), every (n,t), identifier list, key and RNG stream: Verus proves the real text of '
                'split / generate_secret_shares / generate_secret_polynomial / evaluate_polynomial / evaluate_vss / SecretShare::verify / '
                'KeyPackage::try_from / reconstruct / validate_num_of_signers against contracts that state the whole result (exact error per refused '
                'parameter; shares = polynomial evaluations; commitment = G*coefficients; public package entries, group key, threshold), and '
                'the property-level theorems (every dealer share verifies and yields a package consistent with the public package; any >= t '
                'packages reconstruct the key; an altered share value or any single altered commitment coefficient is rejected) follow from '
                'those contracts by machine-checked lemmas (native Lagrange interpolation proof, VSS completeness/soundness).',
     level_note='Assumed (not proved here): generate_coefficients (closure over &mut rng inside repeat_with), default_identifiers and '
                'Identifier::try_from(u16) contracts (Kani-backed on toy suites, bounded); field characteristic > 65535 is needed for default '
                'identifiers to be distinct and is an explicit premise of split.ensures[value]; an altered *identifier* is rejected only unless '
                'the polynomial takes the same value there (probability <= (t-1)/q) -- stated, not decided; curve crates obey the field/group axioms.',
     assumptions=['generate_coefficients returns the next `size` draws of Field::random (assumed contract; Kani group coeffs, bounded size <= 4)',
                  'default_identifiers(n) = [1*1, ..., n*1] and Identifier::try_from(u16) = n*1 (assumed contracts; Kani group ident, complete over u16 on toy fields)',
                  'an altered identifier is rejected unless poly(a,i\') = poly(a,i): generic-position statement, not decided'],
     design_ref='DESIGN.md section 4 C06')
prop('C11',
     level_text='For every ciphersuite, group, helper list and participant identifier: Verus proves the real text of repair_share_part1 / '
                'compute_last_random_value / repair_share_part2 / repair_share_part3 (and compute_lagrange_coefficient at a general point) against '
                'contracts stating the exact refusal per guard (fewer than t helpers, caller not among the helpers, duplicate helpers, package without '
                'threshold) and the whole result (the first |H|-1 ascending helpers receive the fresh draws, the last the correcting value; sigma = sum '
                'of deltas; key package = (id, sum of sigmas, G*that, group key, threshold)); the theorem thm_repair composes them with the natively '
                'proved Lagrange interpolation at a general point and a Fubini lemma: the repaired share equals f(participant) for any >= t distinct '
                'helpers and any participant identifier (existing or new).',
     level_note='Assumed: generate_coefficients contract (RNG draws; Kani-backed, bounded), the outlined `helpers.iter().copied().zip(..).collect()` and '
                '`helpers.iter().cloned().collect()` idioms (statements about std; the zip closure `|v| Delta::new(*v)` sits inside the outlined text, so a '
                'change there is reported as undecided, not as a violation), BTreeSet::last = greatest element, T7 identifier order.',
     assumptions=['outlined std idioms in repairable.rs: zip+collect into BTreeMap pairs the k-th smallest helper with the k-th value; cloned+collect = set of elements',
                  'the verifying share equals the public package entry when the participant existed: follows from f(participant) and C06/C07 consistency of the package, not re-proved here'],
     design_ref='DESIGN.md section 4 C11')
DKG_FUNCS = ('part1 / compute_proof_of_knowledge / dkg::challenge / verify_proof_of_knowledge / part2 / part3 / SecretShare::verify / evaluate_vss / '
             'evaluate_polynomial / PublicKeyPackage::from_commitment / from_dkg_commitments')
DKG_ASSUMED = ('Assumed: sum_commitments (iter_mut().enumerate() with `?`; Kani group sumc, bounded), random_nonzero (rejection loop; being replaced by a '
               'verified contract), generate_coefficients (RNG draws), the outlined commitments-map idiom of part3 (`iter().map(..).chain(once(..)).collect()`), '
               'T7 identifier order, default world for the post_dkg hook (the Taproot suite overrides it: C18).')

prop('C07',
     kani=True,
     level_text='For every ciphersuite in the default world, every n, t, identifier set and per-participant polynomial: Verus proves the real text of ' + DKG_FUNCS +
                ' against contracts stating the whole result of each part: part1 = ([fresh key][t-1 draws] polynomial, commitment G*coefficients, proof of knowledge '
                '(kG, k + a0*c) with c = HDKG(enc(id)||enc(a0 G)||enc(kG))); part2 = f(l) for every sender l in the map and f(own id) kept; part3 = signing share = sum of '
                'received shares + own share, verifying share = G*that, public package = evaluate_vss over the column-wise sum of ALL commitments (own included), group key = '
                'constant term of the sum, threshold recorded, then the post_dkg hook. COMPOSITION (lemmas/vprops_dkg2.rs, machine-checked from those contracts, no new axiom): '
                'thm_honest_dkg -- if every participant of a finite identifier set got Ok from part1 (contract clause `value`: spec_part1), ran part2 on the broadcast packages of all '
                'others (spec_part2_ok; thm_honest_part2_no_error proves no guard of part2 fires and every proof of knowledge verifies) and is handed the round-two package every other '
                'participant made for it, then at EVERY participant no guard of part3 fires, every share passes its VSS check and the commitments sum up (thm_honest_part3_no_error), '
                'part3 returns Ok((kp_i, pk_i)) (thm_honest_dkg_part3_returns: `value` clause of the part3 contract + default world), and with F = sum_l f_l the coefficient-wise sum '
                'of the polynomials drawn in part1 (t coefficients): kp_i.signing_share = F(i) = sum_l f_l(i); kp_i.verifying_share = G*F(i) = pk_i.verifying_shares[i]; '
                'pk_i.verifying_shares[j] = G*F(j) for every participant j; group key of both packages = G*F(0) with F(0) = sum of the constant terms = column-0 sum of the '
                'commitments in ascending identifier order; threshold t in both packages; domain of the public package = the identifier set (thm_honest_dkg_output; the group commitment '
                'is the commitment G*F of the sum polynomial: lemma_honest_group_commitment); all participants hold the same public key package (thm_honest_dkg_same_public_package); '
                'the key material satisfies honest_keys(F, ..), the premise of the signing theorems, so any signer set of >= t participants with honest commitments aggregates to a '
                'verifying signature (thm_honest_dkg_then_sign, composing with thm_honest_aggregate_succeeds of C01) and any >= t key packages interpolate to F(0) '
                '(thm_honest_dkg_reconstruct). Further theorems: an honest proof of knowledge verifies (thm_pok_complete); a share is accepted iff it is f_l(own id) '
                '(thm_share_accepted_iff); the public package is a function of the commitment map (thm_same_commitments_same_public_package).',
     level_note=DKG_ASSUMED + ' The composition theorems are statements about the contracts\' spec functions: they hold for the code because every function of the chain is verified '
                'against (or, for the items listed as assumed, trusted to satisfy) its contract; "delivery" is modelled as equality of the maps passed to part2/part3 with the maps the '
                'senders\' calls returned (r1_view / r2_view). part1 returning Ok is a premise (it fails only if the suite has no HDKG or a commitment/nonce is the identity). n >= t is '
                'not needed by the composition (validate_num_of_signers enforces it in part1). The group key G*F(0) may be the identity with probability 1/q (sum of the secrets zero): '
                'the signing bridge has the premise "group key != identity", as C01 has. Taproot post_dkg tweak: C18.',
     assumptions=['default world: post_dkg returns its arguments (premise default_world of thm_honest_dkg / thm_honest_dkg_part3_returns; Taproot: C18)',
                  'part1 returned Ok at every participant (premise; the error cases are decided by the part1 contract)',
                  'sum_commitments and the outlined commitments-map idiom of part3 satisfy their assumed contracts (Kani-backed, bounded)'],
     design_ref='DESIGN.md section 4 C07')

prop('C08',
     kani=True,
     level_text='Verus proves, for all inputs, the EXACT error and culprit of every guard of part2 and part3 in source order: wrong number of packages, own identifier present '
                '(UnknownIdentifier), commitment of the wrong length (IncorrectNumberOfCommitments), first (ascending) sender whose proof of knowledge fails '
                '(InvalidProofOfKnowledge{culprit: sender}, or the identity/unsupported-DKG errors of the challenge), round-2 map with own identifier / other size / missing sender, '
                'first (ascending) sender whose share does not match the commitment filed for that sender at the recipient identifier '
                '(InvalidSecretShare{culprit: Some(sender)}); no key material is returned on any of these paths (the result is exactly Err(..)). Theorems: an honest proof verifies; a '
                'share is accepted iff it equals f_sender(own id), so a share computed for another recipient or not matching the commitment is rejected unless it is that scalar; an altered '
                'commitment coefficient is rejected (thm_tampered_commitment_rejected).',
     level_note=DKG_ASSUMED + ' Not decided: "a proof made for another identifier / another commitment is rejected" needs HDKG to separate inputs (collision resistance); the contract '
                'pins that identifier, phi_0 and R all enter the challenge preimage.',
     assumptions=['rejection of a proof of knowledge made for another identifier or commitment: needs collision resistance of HDKG, not decided'],
     design_ref='DESIGN.md section 4 C08')

prop('C09',
     level_text='The library keeps no state between calls (scanned), so a delivery history is a choice of arguments; the part2/part3 contracts are universally quantified over '
                'those arguments (all n, t, not only n in {3,4}): every step either returns exactly the specified error or key material satisfying spec_part3_pre (verifying share = '
                'G*signing share, one group key in both packages, own threshold) -- thm_part3_internal_consistency; a round-two share is accepted iff it equals the evaluation at the '
                'recipient of the polynomial committed in the round-one package FILED UNDER THE SAME SENDER (contract of part3 + thm_share_accepted_iff); equal round-one commitment maps '
                'give equal public key packages (thm_same_commitments_same_public_package). Strong internal consistency (lemmas/vprops_dkg2.rs, NO assumption on the peers): for EVERY '
                'completed part3 (no guard fired, every share accepted) whose commitments all have the length of the own one and whose round-2 secret package is what part2 made from a '
                'part1 state (own share matches own commitment: lemma_own_state_consistent), the participant\'s entry in the public key package EQUALS its verifying share = G*signing '
                'share (thm_part3_entry_matches: every accepted share satisfies G*s = evaluate_vss(C_sender)(own), evaluate_vss is linear over the column sums); and if the summed '
                'commitment is the commitment G*a of a coefficient sequence a, the signing share is a(own id) and the package is honest_keys on a '
                '(thm_part3_completed_share_on_committed_polynomial), so all participants completing on ONE commitment map hold shares of ONE polynomial and one public key package: the '
                'premises of the signing theorems of C01. For the all-honest history the full composition is thm_honest_dkg (C07).',
     level_note=DKG_ASSUMED + ' part3 does not re-check commitment lengths: if a caller passes part3 a different round-one set than it passed part2, a longer commitment is silently '
                'truncated by sum_commitments and the public package entry of the participant can differ from its verifying share; thm_part3_entry_matches therefore has the premise '
                '"all commitments have the length of the own one" (enforced by part2 on the set it sees). Recorded in DESIGN.md section 5 as an observation, the docs require the same set. '
                '"Can sign together" for arbitrary (adversarial) commitments is proved under the premise that the summed commitment has a coefficient preimage a (true in a prime-order '
                'group, where every element is a multiple of G; that existence is not among the group axioms, so it is a premise, not a derived fact).',
     assumptions=['absence of hidden state (no statics / interior mutability / threads in frost-core)',
                  'public-package entry == G*signing share needs equal commitment lengths (premise of thm_part3_entry_matches; enforced by part2 for the set it is given)',
                  'existence of discrete logarithms of the summed commitment (premise of thm_part3_completed_share_on_committed_polynomial; not axiomatised)'],
     design_ref='DESIGN.md section 4 C09')
prop('C10',
     rt_always=True, rt_budget=8,   # finding probe (known_findings.txt: mixed-refresh-set-cancels) + refresh scenarios on the real suites
     level_text='For every ciphersuite (abstract field/group), every (n,t), identifier set, remaining subset, old key material and RNG stream: Verus proves the real text of '
                'compute_refreshing_shares / refresh_share / refresh_dkg_part1 / refresh_dkg_part2 / refresh_dkg_shares (and of generate_secret_polynomial / generate_secret_shares / '
                'SecretShare::verify / KeyPackage::try_from / PublicKeyPackage::from_dkg_commitments / evaluate_vss they call) against contracts that state the WHOLE result and the EXACT error of '
                'every guard in source order.  Dealer: no recorded threshold / fewer than t identifiers (InvalidMinSigners), identifier not in the old public key package (UnknownIdentifier), '
                'duplicates; else shares of r = [0] ++ (t-1 fresh draws) with the commitment published WITHOUT its identity entry, new public package entry = G*r(i) + old entry, same group key, '
                'threshold and header, domain = the identifiers given.  refresh_share: identity re-inserted, VSS check, re-completed length == current threshold (InvalidMinSigners), result = '
                'current package with share r(i)+s_i and verifying share G*(r(i)+s_i).  refresh_dkg_part1: polynomial [0] ++ (t-1 draws), stripped commitment, proof-of-knowledge nonce drawn AFTER '
                'the coefficients (disjoint stream segments).  refresh_dkg_part2: package count, re-completed length == t for every sender (IncorrectNumberOfCommitments), round-2 share for l = r(l), '
                'own r(i) kept, commitment handed on stripped again.  refresh_dkg_shares: threshold equality (InvalidMinSigners), package counts and sender sets, first (ascending) sender whose share '
                'fails VSS against its RE-COMPLETED commitment (InvalidSecretShare), commitment length mismatch, participant unknown to the old public package (UnknownIdentifier); else signing share = '
                '((sum of received shares) + own share) + old share, verifying share = G*that, public package = old entries + evaluate_vss(column sum of all re-completed commitments), old group key, '
                'old header, threshold recorded.  Machine-checked theorems over these contracts (lemmas/vprops_refresh.rs): group key / threshold / header unchanged and left-out participants removed '
                'from the package; for EVERY participant the dealer-refreshed key package has the same identifier, threshold and group key and verifying share == G*new share == its entry in the '
                'refreshed public package (conclusions re-establish the premises, so repeated refreshes follow by induction); the same for the distributed variant (entry == G*share by linearity of '
                'evaluate_vss over the column sums, proved here; equal round-one sets give equal public packages); refreshed shares lie on old polynomial + refreshing polynomial(s) with the SAME '
                'constant term -- in the distributed variant the accepted shares are forced by the VSS check to be the evaluations of the committed zero-constant polynomials -- hence any >= t '
                'refreshed packages interpolate to the old secret (native Lagrange proof); a threshold change, an unknown participant and a refreshing polynomial with NON-ZERO constant term are rejected with the '
                'exact error (a share is accepted against a re-completed commitment iff it equals a(i) - a_0); a signer set mixing old and new shares (or containing a removed participant, who only '
                'has an old share) interpolates to secret + sum_k lambda_k(0)*err_k and recovers the secret iff that Lagrange-weighted sum of refresh values vanishes.',
     level_note='NOT decided: (1) that the deviation sum_k lambda_k(0)*r(id_k) of a MIXED old/new signer set is non-zero: it is a non-trivial linear form in the t-1 fresh random coefficients of the '
                'refreshing polynomial, zero with probability 1/q over the draws -- probabilistic, outside the logic; the theorem pins the exact deviation and the iff.  (2) "can sign"/"fails" at the '
                'level of signatures: decided here as "the Lagrange-weighted shares add up to the group secret / to secret + deviation"; that this makes aggregate accept resp. reject is C01/C04.  '
                'Premises of the consistency theorems (stated explicitly, not enforced by the code): the current key package is the one the old public package describes; in the distributed variant the '
                'caller is not among the senders, its own round-2 secret package is consistent, and all commitments have t-1 entries (enforced by refresh_dkg_part2 on the set it sees; '
                'refresh_dkg_shares itself does not re-check lengths and, unlike dkg::part2/part3, neither function refuses a map that contains the caller\'s own identifier; refresh_dkg_shares takes '
                'identifier from the round-2 secret package and group key from the old PUBLIC package without comparing them with the old key package -- observations, see report).  refresh_dkg_part2 / '
                'refresh_dkg_shares need max_signers >= 1 (u16 subtraction) and a non-empty coefficient vector, as dkg::part2/part3 do: preconditions, true for every package part1 produces.  '
                'Assumed: generate_coefficients (RNG draws; Kani-backed), sum_commitments (Kani-backed), the outlined std idioms of refresh.rs (Vec::into_iter().chain(Vec).collect() = concatenation; '
                'iter().map().chain(once()).collect() into a BTreeMap; by-value iteration of a BTreeMap yields its pairs in ascending key order -- vstd has no btree_map::IntoIter model; Vec<Scalar>::clone '
                'returns equal scalars), T7 identifier order.',
     assumptions=['a mixed old/new signer set misses the secret unless sum_k lambda_k(0)*r(id_k) == 0: probability 1/q over the refresh randomness, not decided',
                  'signature-level consequence of "shares add up to the secret / to secret + deviation" is C01 / C04, not re-proved here',
                  'consistency theorems assume consistent inputs (current package described by the old public package; own identifier not among the senders; commitments of equal length)',
                  'outlined std idioms in refresh.rs: chain+collect = concatenation; map+chain(once)+collect into BTreeMap (later key wins); BTreeMap by-value iteration in ascending key order; Clone of a field scalar is the identity',
                  'generate_coefficients returns the next `size` draws of Field::random; sum_commitments = column-wise sum (assumed contracts, Kani-backed, bounded)'],
     design_ref='DESIGN.md section 4 C10')
prop('C15',
     level_text='For every ciphersuite (abstract field/group, H3 an arbitrary deterministic function), every signing share and every random '
                'source (ghost byte stream + position): Verus proves the real text of Nonce::new / nonce_generate_from_random_bytes / '
                'NonceCommitment::from(&Nonce|Nonce) / SigningCommitments::new / SigningNonces::from_nonces / SigningNonces::new / preprocess / commit '
                '(and SerializableScalar::serialize) against contracts stating the whole result and the exact consumption of the source: 32 bytes per '
                'nonce, 64 per pair (hiding from [p,p+32), binding from the 32 further bytes [p+32,p+64)), 64*k for preprocess(k) with pair j built from '
                'segment [p+64j,p+64j+64); nonce = H3(bytes || SerializeScalar(share)) in this order; commitments = (G*hiding, G*binding) and '
                'commitments[j] == SigningCommitments::from(&nonces[j]); commit == preprocess(1) and its two expect()s cannot panic. Lemmas: the H3 '
                'preimage is injective in (bytes, share); equal nonces from different (bytes, share) are an H3 collision; commitment is the identity '
                'iff the nonce is zero; different nonces have different commitments.',
     level_note='NOT decided: "nonces differ whenever bytes or share differ" beyond the preimage level and "no nonce/commitment is ever zero/identity" are '
                'statements about H3 (collision freeness / never hitting 0; the code does not check for a zero nonce) -- reduced by lemmas to exactly those '
                'hash statements, not proved; "independent" pairs is decided only as "disjoint, consecutive stream segments", not statistically. Assumed: '
                'the outlined idiom A.iter().chain(B.iter()).cloned().collect() == A ++ B (statement about std, operand holes: exchanging the operands IS '
                'decided), <[T]>::to_vec, the ghost-stream model of CryptoRng::fill_bytes (T9).',
     assumptions=['T9 ghost-stream model: fill_bytes(buf) writes stream[pos..pos+len) and advances pos by len; the stream is independent of library state',
                  'T4 scalar codec: spec_ser is canonical and of fixed length (used only by the injectivity lemma)',
                  'T5 H3 is a deterministic function of its input; nothing else about it is used',
                  'outlined std idiom chain+cloned+collect on byte slices equals concatenation'],
     design_ref='DESIGN.md section 4 C15')
prop('C19',
     units=['frost_core', 'frost_secp256k1_tr'],   # the Taproot unit re-verifies Item::new / VerifyingKey::verify hook-generically (pre_verify is not the identity there)
     level_text='For every ciphersuite (abstract field/group), every batch size, every mix of keys, messages and signatures and every RNG stream: '
                'Verus proves the real text of batch::Verifier::verify / new / default / queue, batch::Item::new / verify_single, '
                'VerifyingKey::verify_prehashed / verify, the free fn challenge and the default hooks pre_verify / challenge / verify_signature against '
                'contracts that state the whole result: verify_prehashed == Ok iff h*(z*G - c*A - R) == 0 (else InvalidSignature); challenge == '
                'H2(enc(R) || enc(A) || msg), GroupError exactly when R or A is the identity; Verifier::verify == Err(InvalidSignature) on the empty '
                'batch and otherwise Ok iff h * MSM([-(sum b_i z_i)] ++ [b_i c_i] ++ [b_i], [G] ++ [VK_i] ++ [R_i]) == 0 where b_i is the i-th '
                'Field::random draw from the caller\'s rng (one fresh blinder per item, drawn after the items are fixed: loop invariants '
                'fresh_blinders, p_coeff_acc, r_coeffs, rs, vk_coeffs, vks, covers_all_items).  Machine-checked theorems (lemmas/vprops_batch.rs): the '
                'check value equals -sum_i b_i*Delta_i with Delta_i = z_i G - c_i VK_i - R_i; a non-empty batch whose every item verifies is accepted '
                'for EVERY blinder vector / rng stream; the empty batch is rejected; Item::new(..).verify_single() equals ordinary verification of the '
                'same key, message and signature; a batch with exactly one invalid item, at any position, is rejected whenever that item\'s blinder is non-zero.',
     level_note='NOT decided: rejection of a batch with two or more invalid items (e.g. crafted so that their errors cancel) holds only except with '
                'probability about 1/q (128-bit blinders: 2^-128) over the verifier\'s blinders (Schwartz-Zippel); this is a probabilistic statement '
                'outside the logic.  The contracts pin its premises: one blinder per item, each a fresh Field::random draw from the caller\'s rng, '
                'drawn after the items are fixed, each item\'s error term scaled by its own blinder.  That Field::random is uniform / 128-bit is a '
                'property of the ciphersuite crates, not checked.  Assumed: the multiscalar-multiplication result (outlined chained-iterator call; '
                'body Kani-backed, bounded), `msg.as_ref()` returns a function of msg, default world (hooks not overridden; Taproot has its own unit).',
     assumptions=['vartime_multiscalar_mul over once(..).chain(..).chain(..) returns sum_i points_i*scalars_i (outlined, assumed; requires equal lengths, which is proved)',
                  'std: `?` converts GroupError with the generated From impl; `impl From<T> for T` is the identity (only needed by callers of queue)',
                  'soundness for >= 2 invalid items is probabilistic (Schwartz-Zippel) and not decided'],
     design_ref='DESIGN.md section 4 C19')

SIGN_FUNCS = ('round2::sign / compute_signature_share / SignatureShare::verify / encode_group_commitments / binding_factor_preimages / compute_binding_factor_list / '
              'derive_interpolating_value / compute_lagrange_coefficient / compute_group_commitment / aggregate / aggregate_custom / detect_cheater / '
              'verify_signature_share / verify_signature_share_precomputed / VerifyingKey::verify / verify_prehashed / challenge and the default hook bodies')
SIGN_ASSUMED = ('Assumed: the multiscalar multiplication result inside compute_group_commitment (outlined call, requires equal lengths -- proved; body Kani-backed, bounded), '
                'BTreeMap::from([(k, v)]) is the one-entry map, the outlined `keys().cloned().collect()` idiom, T7 identifier order (Identifier::cmp is the numeric order: assumed in Verus, checked by the complete Kani harnesses ident_ord_wide32 / ident_ord_toy251 for all pairs of 32-byte scalars), default world (hooks not overridden; the '
                'Taproot suite is decided in its own unit: C18).')
prop('C01',
     kani=True,
     level_text='For every ciphersuite in the default world (abstract field/group, H1..H5 arbitrary functions), every (n,t), identifier assignment, signer set and message: Verus proves the '
                'real text of ' + SIGN_FUNCS + ' against contracts that state the WHOLE result: sign == spec_sign (z_i = d_i + e_i*rho_i + lambda_i*s_i*c with rho, lambda, R, c '
                'computed from the package in ascending identifier order), aggregate_custom satisfies agg_result_is (refusals in guard order; else (R, sum z_i) if it passes RFC 9591 '
                'verification under the group key; else the cheater report), verify_signature_share == the RFC 9591 5.3 check. Property theorems (lemmas/vprops_sign.rs): for keys on a '
                'degree t-1 polynomial (what C06/C07 establish: lemma_dealer_keys_honest, thm_honest_dkg) and any >= t signers with honest commitments, every honest share passes the share check and the aggregate verifies, '
                'so aggregation returns the signature.',
     level_note=SIGN_ASSUMED + ' Ordinary single-signer verification of the concrete suites (ed25519-dalek verify_strict, BIP-340) is outside the unit: the proof ends at the RFC 9591 '
                'verification equation h*(z*B - c*A - R) == 0 with c = H2(enc(R)||enc(A)||msg) (VerifyingKey::verify); that the concrete suites implement this equation and the encodings '
                'is T3/T4. The session must not hit the identity (vk, commitments, R != identity): the contract returns exactly GroupError in those cases.',
     assumptions=['honest nonces: commitments are G*d, G*e of the nonces used (C15 proves commit() produces such pairs)',
                  'keys are shares of one polynomial of degree t-1 with verifying shares G*s_i and group key G*s: PROVED for dealer keys (C06, lemma_dealer_keys_honest) and for keys from an honest '
                  'distributed key generation (C07: thm_honest_dkg / thm_honest_dkg_output give honest_keys on the sum polynomial; thm_honest_dkg_then_sign composes it with '
                  'thm_honest_aggregate_succeeds), so this is a premise only for keys of other origin',
                  'interoperability with external verifiers (dalek / libsecp256k1) is not decided here'],
     units=['frost_core', 'frost_rerandomized'],
     include=['C06', 'C07', 'C17'],   # "keys from the trusted dealer or from distributed key generation": the key-generation contracts and theorems count for C01
     design_ref='DESIGN.md section 4 C01')
prop('C03',
     units=['frost_core', 'frost_rerandomized'], include=['C17'],   # the re-randomized entry points (C17: "cheater identification and threshold enforcement hold unchanged under randomization") count here too
     kani=True,
     level_text='Verus proves for all inputs: sign returns exactly Err(IncorrectNumberOfCommitments) when the package lists fewer than key_package.min_signers participants (first guard of '
                'spec_sign); aggregate/aggregate_custom return exactly Err(IncorrectNumberOfShares) when fewer than public_key_package.min_signers shares are submitted (second guard '
                'of agg_guard_err, after the size-mismatch guard); reconstruct returns Err(IncorrectNumberOfShares) below the smallest recorded threshold (contract in contracts/keys.vc); the '
                'sharing polynomial has exactly min_signers coefficients of which all but the constant term are fresh draws (generate_secret_polynomial / generate_coefficients contracts).',
     level_note='NOT decided: "shares from fewer than t holders never aggregate into a verifying signature" is an unforgeability statement (computational, discrete log) and "interpolating '
                'fewer than t shares does not yield the secret" is information-theoretic (holds for all but a 1/q fraction of polynomials): outside a program logic. What is machine-checked is '
                'the algebraic core where stated in lemmas/vprops_sign.rs (two polynomials of degree t-1 with different constant terms agree on any t-1 identifiers) if present, and the refusals above. '
                + SIGN_ASSUMED,
     assumptions=['unforgeability below the threshold is a cryptographic assumption, not decided',
                  'generate_coefficients draws (assumed contract; Kani-backed, bounded)'],
     design_ref='DESIGN.md section 4 C03')
prop('C04',
     units=['frost_core', 'frost_rerandomized'], include=['C17'],   # the re-randomized entry points (C17: "cheater identification and threshold enforcement hold unchanged under randomization") count here too
     kani=True,
     level_text='Verus proves for all inputs that aggregate_custom satisfies agg_result_is: a returned signature is exactly (R, sum z_i) AND passes RFC 9591 verification under the group key for '
                'the package message (ensures released_signatures_verify); if the sum does not verify the result is an error: with detection disabled the verification error (InvalidSignature) '
                'naming nobody; otherwise InvalidSignatureShare whose culprit list is, in first-cheater mode, exactly [the lowest identifier whose share fails the RFC 9591 5.3 share check] and, in '
                'all-cheaters mode, exactly the ascending list of all identifiers whose share fails it (detect_cheater loop invariant `culprits` + lemma_culprits_prefix); InvalidSignature if '
                'nobody fails. Theorems (lemmas/vprops_sign.rs): the share check accepts z iff z equals the honest share for that session, so the named set is exactly the set of participants whose '
                'share differs from the honest one and an honest participant is never named; shares whose errors cancel give a sum that verifies, which is released (never a wrong accusation).',
     level_note=SIGN_ASSUMED + ' Error::culprits() (the accessor) is under contract as well (error.rs).',
     assumptions=['"honest share" is defined relative to verifying shares that are G*s_i and commitments that are G*d_i, G*e_i'],
     design_ref='DESIGN.md section 4 C04')
prop('C05',
     units=['frost_core', 'frost_rerandomized'], include=['C17'],   # the re-randomized entry points (C17: "cheater identification and threshold enforcement hold unchanged under randomization") count here too
     level_text='Verus proves for all inputs: sign returns exactly Err(MissingCommitment) when the signer has no entry in the package and Err(IncorrectCommitment) when the entry differs from the '
                'commitments stored with the nonces (guards 2 and 3 of spec_sign, before any use of the nonces); a package containing an identity commitment is rejected by sign, aggregate '
                'and verify_signature_share (exact error GroupError(InvalidIdentityElement)); share verification recomputes rho_i = H1(enc(vk)||H4(msg)||H5(enc(commitment list))||enc(id)), R, '
                'c = H2(enc(R)||enc(vk)||msg) and lambda_i from the package it is given (contracts state these preimages byte for byte, in ascending identifier order), and accepts z iff '
                'z*G == D_i + rho_i*E_i + lambda_i*c*Y_i. Theorems: acceptance iff z equals the honest share OF THAT SESSION; the hashed encodings are injective in (group key, message, commitment '
                'list with identifiers, identifier).',
     level_note='NOT decided: that a share for session A is rejected in a different session B additionally needs H1/H2/H4/H5 to separate the (provably different) preimages, i.e. collision '
                'resistance, and that the resulting scalars do not coincide by accident (probability 1/q) -- outside the logic; reduced by the injectivity lemmas to exactly that. ' + SIGN_ASSUMED,
     assumptions=['collision resistance of H1, H2, H4, H5 (cross-session rejection is decided only up to it)'],
     design_ref='DESIGN.md section 4 C05')
prop('C17', units=['frost_rerandomized'],
     level_text='For every RandomizedCiphersuite in the default world (abstract field/group; hash_randomizer an arbitrary deterministic function that may refuse), every group key, '
                'key package, public key package, signing package, seed / rng stream and explicit randomizer (zero included): Verus proves the real text of '
                'frost-rerandomized/src/lib.rs -- RandomizedParams::from_randomizer / regenerate_from_seed_and_commitments / new_from_commitments, '
                'Randomizer::regenerate_from_seed_and_commitments / new_from_commitments, Randomize for KeyPackage and for PublicKeyPackage, sign, '
                'sign_with_randomizer_seed, aggregate, aggregate_custom -- against contracts that state the whole result: randomizer == '
                'hash_randomizer(seed || encode_group_commitment_list(commitments)) (GroupError when a commitment is the identity, SerializationError when the hash refuses); '
                'parameters == (alpha, alpha*G, Y + alpha*G); the coordinator draws exactly Ns bytes and returns the SAME function of (seed, commitments) a participant '
                'regenerates; key package -> (s_i + alpha, Y_i + alpha*G, Y + alpha*G, same identifier and threshold); public key package -> every share + alpha*G, key '
                'Y + alpha*G, same threshold; sign / sign_with_randomizer_seed == frost-core round2::sign (spec_sign) on the randomized key package; aggregate / '
                'aggregate_custom == frost-core aggregate / aggregate_custom (agg_result_is: refusals, released signature verifies, culprit list) on the randomized '
                'public key package, and a released signature verifies under Y + alpha*G.  Machine-checked theorems (lemmas/vprops_rerand.rs): regenerated parameters '
                'equal the coordinator\'s for every stream and commitment set; the randomized shares lie on f + alpha with group key (f + alpha)(0)*G, participant and '
                'coordinator agree on every shifted share; Y + alpha*G != Y iff alpha != 0; with one challenge c != 0 and alpha != 0 no (R, z) satisfies the verification '
                'equation under both keys; thresholds are enforced unchanged (sign refuses < t commitments, aggregate refuses < t shares); an honest randomized share '
                'passes the coordinator\'s check against the shifted verifying share, and the culprits are exactly the frost-core culprits on the shifted keys; the '
                'preimage seed || enc(list) is injective in (seed, signer set, every commitment) for seeds of one length, so equal randomizers from different inputs are a '
                'collision of hash_randomizer.',
     level_note='Scope: decided for the five default-world suites (ed25519, ed448, p256, ristretto255, secp256k1): the frost-core contracts this unit imports (round2::sign, '
                'aggregate, aggregate_custom, encode_group_commitments, constructors) are proved in unit frost_core under default_world::<C>() (lemmas/vworld.rs: the suite does '
                'not override the optional Ciphersuite hooks).  The Taproot suite overrides those hooks and also implements RandomizedCiphersuite: Taproot + rerandomization is '
                'NOT covered by this proof.  NOT decided: "changing the seed or the commitment set changes the randomizer" and "the signature does not verify under the original '
                'key" with each key\'s own challenge are statements about hash_randomizer / H2 separating inputs (collision freeness); they are reduced by machine-checked lemmas '
                'to exactly those hash statements (equal randomizers from different equal-length inputs = a hash_randomizer collision; validity under both keys forces '
                'h*(c\'*(Y + alpha*G)) == h*(c*Y) for the two H2 outputs c\', c), not proved.  The preimage layout is NOT injective across seeds of different lengths (a longer seed can '
                'absorb whole encoded items); new_from_commitments always draws Ns bytes, regenerate accepts any length.  "signing and aggregation succeed for any valid signer '
                'set" is decided as: the randomized key set is a consistent key set for f + alpha (so the frost-core correctness statement C01 applies verbatim) and every honest '
                'randomized share passes its check; the end-to-end composition lives with C01.  Not covered: the deprecated, cfg(feature = "serialization") functions '
                'Randomizer::new / from_randomizer_and_signing_package / RandomizedParams::new (SigningPackage-based derivation through the serde codec; dropped by rule E1), '
                'Randomizer::serialize / deserialize.  Assumed: the outlined std idiom [a, b].concat() == a ++ b (operand holes: which operands, in which order, is decided), '
                'map+collect into a BTreeMap (vstdx helper), T9 ghost-stream model of fill_bytes, vstd specs of vec![0; n] and BTreeMap::clone / iter.',
     trusted_base=['hash_randomizer is a deterministic function of its input bytes (uninterpreted spec_hash_randomizer; no injectivity or range property is assumed)',
                   'frost-core contracts used as assumptions here and proved in unit frost_core (default world): round2::sign, aggregate, aggregate_custom, '
                   'round1::encode_group_commitments, KeyPackage::new, PublicKeyPackage::new_internal, VerifyingShare::new/to_element, SigningShare::new/to_scalar, VerifyingKey::new/to_element',
                   'extraction of frost-rerandomized/src/lib.rs: path rewrites frost_core:: -> crate::, alloc:: -> std::, `pub use frost_core;` removed; cfg(feature)/cfg(test) items dropped (units/frost_rerandomized.py)',
                   'outlined std idiom `[a, b].concat()` on byte slices equals concatenation in order (assumed, operand holes)'],
     assumptions=['default world: the ciphersuite does not override the optional frost-core hooks (excludes frost-secp256k1-tr: Taproot + rerandomization is not covered)',
                  'T5 hash_randomizer / H2 are deterministic functions of their input; collision freeness is NOT assumed, so "different inputs give different randomizers" and '
                  '"not valid under the original key" are reduced to hash statements, not decided',
                  'T4 scalar/element codecs are canonical and of fixed length (used only by the preimage-injectivity lemmas)',
                  'T9 ghost-stream model of the coordinator\'s rng (fill_bytes writes stream[pos..pos+len))',
                  'end-to-end "any valid signer set produces a verifying signature" rests on the frost-core correctness statement (C01) applied to the key set for f + alpha'],
     design_ref='DESIGN.md section 4 C17')

prop('C14',
     kani=True,
     all_functions=True, units=['frost_core', 'frost_rerandomized', 'frost_secp256k1_tr'],
     level_text='Verus proves every function of the frost_core unit that is emitted in verified mode (all protocol steps that consume material from other parties: sign, aggregate, '
                'aggregate_custom, verify_signature_share, detect_cheater, SecretShare::verify, KeyPackage::try_from, reconstruct, dkg part1/part2/part3, refresh_share, '
                'compute_refreshing_shares, repair parts 1-3, batch verification, and the byte-level decoders Signature::default_deserialize, SerializableScalar/Element::deserialize, '
                'VerifiableSecretSharingCommitment::deserialize framing, Header checks; the frost-rerandomized entry points in their unit) free of every panic the language can raise in them: '
                'arithmetic overflow/underflow, division by zero, slice/Vec index out of bounds, unwrap()/expect() on None/Err, explicit panics and unreachable code -- for ALL inputs, '
                'because the only preconditions of the entry points are on the caller\'s OWN secret state (dkg part2/part3: max_signers >= 1 and a non-empty coefficient vector, as '
                'produced by part1), exactly the proviso of the property. Each call site is checked against the callee\'s precondition, so the internal helpers with preconditions '
                '(evaluate_polynomial / from_coefficients: non-empty coefficients; compute_last_random_value: lengths; detect_cheater: identifiers known) are only reached with them established.',
     level_note='Outside the Verus unit (not proved panic-free here): the serde/postcard layer of serialize()/deserialize() for whole packages (feature-gated code is dropped by rule E1; '
                'Kani harnesses over toy suites, bounded, where listed), the ciphersuite crates (curve arithmetic, hash-to-field), frost-core/src/scalar_mul.rs (Kani-backed, bounded), '
                'and every function listed as assumed in the evidence. Memory exhaustion, stack overflow and non-termination are not panics in this sense and not covered (loops have '
                'decreases clauses except the rejection-sampling loop random_nonzero, T11).',
     assumptions=['functions emitted in assumed mode (listed under trusted_base in the evidence) are not proved panic-free here',
                  'vstd preconditions model the panics of the std functions used (unwrap, expect, indexing, slicing, copy_from_slice, chunks_exact)',
                  'the ciphersuite trait methods (Field/Group/hash functions) do not panic: T3'],
     design_ref='DESIGN.md section 4 C14')

prop('C12',
     kani=True,
     rt_always=True, rt_budget=12,
     rt_what='codec sweep on the six real suites: for valid scalar/element/composite encodings every value at bytes 0,1,n/2,n-2,n-1, every single-bit flip, random/0xff/zero strings, wrong '
             'lengths, special points (identity, small/mixed order, SEC1 tags), out-of-range scalars, wrong header version / ciphersuite id; oracle: decode Ok ==> re-encode == input',
     level_text='Verus proves, for an abstract ciphersuite and ALL values / ALL byte strings, the real text of the fixed-size codecs of frost-core (serialize/deserialize of '
                'SerializableScalar, SerializableElement, Identifier, SigningKey, SigningShare, VerifyingShare, VerifyingKey, CoefficientCommitment, NonceCommitment, Nonce, SignatureShare, '
                'Delta, Sigma, BindingFactor, Signature::default_(de)serialize and the (de)serialize_signature hooks, VerifiableSecretSharingCommitment::(de)serialize(_whole)) against '
                'contracts that fix `res is Ok <==> dec_X(bytes) is Some` with the exact error per refusal (wrong length before the suite is called, zero identifier / zero signing key, '
                'identity element, malformed primitive) and `serialize(x) == enc_X(x)`; theorems (lemmas/vprops_codec.rs): dec(enc(x)) == x for every valid x, dec(b) == x ==> enc(x) == b '
                '(no two byte strings denote the same value) for every framing, given the same two facts for the suite\'s primitive scalar/element codec (T4); executable compositions rt_* / '
                'canon_* verify deserialize(&serialize(x)) == Ok(x) from the contracts alone.',
     level_note='T4 (canonicity of each suite\'s PRIMITIVE scalar/element codec: frost-*/src/lib.rs Field::deserialize / Group::deserialize over the curve crates) cannot be brought within '
                'the verifier\'s reach (external curve arithmetic). It is VALIDATED ON EVERY RUN by a sampled concrete sweep over the six real suites (rt/, labelled sampled, never counted as '
                'proved). That sweep found two genuine defects (SEC1 compact tag 0x05 accepted by the P-256/secp256k1 suites; non-canonical Ed448 scalars), both repaired in /repo '
                '(known_findings.txt: fixed) and reported again if they return. The serde/postcard encodings of whole packages and the JSON form are feature-gated code outside the Verus unit: '
                'covered only by that concrete sweep (round trips, header version / ciphersuite id rejection) and by bounded Kani harnesses on toy suites where listed.',
     assumptions=['T4: primitive scalar/element codecs of the six suites are canonical and reject identity / out-of-range / non-prime-order inputs (sampled validation on every run, not a proof)',
                  'serde + postcard + serde_json derive output for whole packages is not verified (sampled round trips only)'],
     design_ref='DESIGN.md section 4 C12')
prop('C02',
     kani=True,
     include=['C15'],
     level_text='The contracts of the signing path are written from RFC 9591 (sections 4.1-4.6, 5.1-5.3) and fix every intermediate value byte for byte / scalar for scalar, for ALL inputs: '
                'nonce = H3(random_bytes || SerializeScalar(share)) (C15 contracts); commitments = G*nonce; encode_group_commitment_list = concatenation of enc(id)||enc(D)||enc(E) in '
                'ascending identifier order; binding factor preimage = enc(vk)||H4(msg)||H5(encoded list)||enc(id) and rho_i = H1 of it; group commitment = sum D_i + sum rho_i*E_i; '
                'challenge = H2(enc(R)||enc(vk)||msg); lambda_i = the Lagrange coefficient at 0 over the package\'s identifiers; z_i = d_i + e_i*rho_i + lambda_i*s_i*c; signature bytes = '
                'enc(R)||enc(z). Verus proves the real text of those functions against them. The single-signer entry point (SigningKey::sign -> single_sign hook -> default_sign) returns '
                '(kG, k + c*s) and thm_single_sign_verifies shows it passes RFC 9591 verification under G*s.',
     level_note='H1..H5 and the scalar/element encodings are the suites\' (T4/T5: abstract functions here); that they are the RFC\'s hash-to-field constructions and encodings, and the BIP-340 '
                'variants for Taproot (C18 unit), is not decided by this check -- the repo\'s RFC test vectors exercise them. Identifier::try_from(u16) == n*1 is an assumed contract '
                '(Kani-backed on toy fields). "An independent implementation computes the same bytes" is decided as "equals the RFC formulas written as spec functions".',
     assumptions=['T5: H1..H5 of each suite are the RFC 9591 / BIP-340 hash functions (abstract functions in the proof)',
                  'T4: element/scalar encodings of each suite are the RFC encodings',
                  'Identifier::try_from(u16) (assumed contract)'],
     design_ref='DESIGN.md section 4 C02')
prop('C16',
     kani=True,
     level_text='The random source is modelled as a ghost byte stream with a position (T9); Field::random(stream, pos) is an abstract function of the bytes it consumes and consumes at least one. '
                'Verus proves the real text of generate_secret_polynomial / generate_secret_shares / split / generate_with_dealer, SigningKey::new / random_nonzero (rejection loop, partial '
                'correctness), dkg part1 / compute_proof_of_knowledge, repair_share_part1, compute_refreshing_shares, batch Verifier::verify, the nonce functions (C15), the generate_nonce and '
                'single_sign hooks and SigningKey::sign against contracts that state (a) the WHOLE output as a function of (stream, entry position, other arguments) -- hence bit-for-bit '
                'reproducibility with the same source output; (b) the exit position; (c) which draw feeds which value: key = first non-zero draw, coefficient j = draw j after it, proof nonce '
                '= first non-zero draw after the coefficients, repair deltas = |H|-1 consecutive draws, one blinder per batch item, 32+32 bytes per nonce pair. Lemmas (lemmas/vspec_nonce.rs): '
                'draws are read at pairwise different, increasing positions (no draw is used twice within a call).',
     level_note='NOT decided: "with a different source output every one of those values changes" and "no two of them coincide" are statements about Field::random / H3 being injective on what '
                'they read (collision-freeness), reduced by the lemmas to distinct stream positions. generate_coefficients (closure over &mut rng inside repeat_with) is an ASSUMED contract '
                '(Kani-backed, bounded size) -- a change there is not seen by the Verus part. The randomizer seed (frost-rerandomized) is decided in C17\'s unit.',
     assumptions=['T9 ghost-stream model of CryptoRng', 'generate_coefficients == the next `size` Field::random draws (assumed; Kani bounded)',
                  'distinct stream positions give distinct values only up to collisions of Field::random / H3'],
     design_ref='DESIGN.md section 4 C16')

prop('C20',
     category='other', units=[], kani=True, kani_required=True, rt_always=True, rt_budget=10,
     rt_what='the six real suites: Debug output scanned for encodings of the secret scalars, zeroize() leaves zero, drop path inspected in place (drop_in_place) and through a '
             'global-allocator hook that scans every freed block for the secret coefficients (heap buffers, which CBMC cannot inspect after free)',
     technique='bounded/complete model checking (Kani/CBMC) of the real zeroize / drop / Debug code of frost-core at toy ciphersuites; no deductive contract can express "no copy is left in the '
               'storage it occupied" (Verus erases Drop and has no memory model for deallocated storage)',
     level_text='Kani harnesses over the REAL frost-core code monomorphised at toy ciphersuites: for every secret-bearing type (SigningKey, SigningShare, Nonce, SecretShare, KeyPackage, '
                'SigningNonces, dkg round1/round2 SecretPackage, dkg round2 Package) zeroize() leaves every secret scalar equal to zero and drop_in_place leaves zeros in the slot the value '
                'occupied (inline storage; ManuallyDrop/forgotten negative controls must FAIL), for ALL values of the toy scalar type; the manual Debug impls are checked not to format the secret. '
                'Complete harnesses (no loops / width-bounded) cover the full toy domain; harnesses with Vec fields are bounded to the stated lengths. In addition the concrete '
                'scenarios on the six REAL suites run on every check (sampled): Debug output scanned for every encoding of the secret scalars, zeroize() leaves zero, the drop path '
                'inspected in place and through a global-allocator hook that scans every freed block (the heap buffer of the DKG coefficients, which CBMC cannot inspect after free).',
     level_note='This is model checking of a monomorphic instance, not a proof for all ciphersuites: the zeroize code is generic and does not branch on the suite, but that is an argument, not a '
                'theorem. Heap buffers freed by Vec (coefficients of dkg::round1::SecretPackage) are checked through the zeroize-before-free glue running, not by inspecting freed memory (CBMC has no '
                'model of freed storage); the concrete replay search (rt/ C20, sampled) inspects the real allocator blocks. Copies made by the compiler (moves, spills) are outside any source-level check.',
     assumptions=['toy ciphersuite stands for all suites (the code under check is generic and suite-independent)', 'zeroize::optimization_barrier stubbed (no semantic effect)',
                  'compiler-introduced copies of Copy scalars (moves, register spills) are not visible at source level'],
     design_ref='DESIGN.md section 4 C20')
prop('C13',
     kani=True, rt_always=True, rt_budget=15,
     rt_what='persist-and-resume on the six real suites: at every round boundary (after dkg part1 / part2, refresh part1 / part2, commit, key generation) the secret state is serialized, '
             'deserialized and used for the remaining steps; oracle: byte-identical later outputs and no refusal',
     level_text='Two halves. (1) Every step after a round boundary is a FUNCTION of the values it is given: Verus proves dkg part2 / part3, the refresh steps, round2::sign and aggregate against contracts '
                'of the form `result == spec(arguments)` (or a relation fixing every field), and the library keeps no state between calls (no statics / interior mutability: scanned), so a '
                'decoded copy that is equal to the stored value yields exactly the same outputs. (2) decode(encode(x)) == x for the state types (dkg round1/round2 SecretPackage, SigningNonces, '
                'KeyPackage, PublicKeyPackage): the serde/postcard code is feature-gated and outside the Verus unit; Kani proves serialize(x) == enc(x) and deserialize(enc(x)) == Ok(x) on toy suites '
                '(complete for KeyPackage, bounded lengths otherwise), and the concrete persist-and-resume run on the six real suites is executed on EVERY check run (sampled).',
     level_note='Half (2) is bounded/sampled, not proved for all values. The own-state preconditions of part2/part3 (max_signers >= 1, non-empty coefficients) are what a decoded package must still '
                'satisfy: a corrupted store is outside the property (honestly generated state).',
     assumptions=['serde + postcard derive output (bounded Kani on toy suites + sampled concrete runs)', 'PartialEq on the state types is structural equality (E2)'],
     design_ref='DESIGN.md section 4 C13')

prop('C18', units=['frost_secp256k1_tr'],
     level_text='Unit frost_secp256k1_tr = the frost-core modules (verified WITHOUT the default-world axiom) + frost-secp256k1-tr/src/lib.rs extracted mechanically, against '
                'an opaque model of k256/sha2 (prelude/k256_model.rs).  For ALL inputs and all parities Verus proves the real text of the Taproot hooks (pre_sign, pre_aggregate, '
                'pre_verify, single_sign, generate_nonce, challenge, compute_signature_share, verify_share, serialize_signature, deserialize_signature, post_dkg, H2, and the four hooks the suite '
                'leaves at their default), of the EvenY / Tweak impls for KeyPackage, PublicKeyPackage, VerifyingKey, GroupCommitment, Signature, of tweak / tagged_hash / '
                'hasher_to_scalar / negate_nonce(s) and of the sign / sign_with_tweak / aggregate / aggregate_with_tweak wrappers against contracts transcribed from BIP-340/341: challenge = '
                'int(hash_BIP0340/challenge(x(R)||x(P)||m)) mod n; t = int(hash_TapTweak(x(P)||root?)); into_even_y negates key, every verifying share and the signing share iff the '
                'key has odd Y; tweak = even-Y normalisation first, then +t*G / +t on key, every verifying share, signing share; nonces (signer) resp. commitment share (verifier) negated iff '
                'the group commitment has odd Y; 64-byte encoding x(R)||ser(z), decoding lifts to even Y; post_dkg = tweak(None) on both packages.  The impl DEFINES the trait-level hook '
                'spec functions as these, so the Taproot world (lemma_taproot_world) is proved, not assumed.  frost-core\'s sign / aggregate_custom / aggregate / detect_cheater / '
                'verify_signature_share_precomputed / VerifyingKey::verify / SigningKey::sign / default_sign / batch::Item::new are verified here against WORLD-GENERIC contracts (lemmas/vspec_w.rs: the hook spec functions '
                'threaded through exactly as the code calls the hooks).  Machine-checked theorems (lemmas/vprops_tr.rs): verify_share accepts exactly the share compute_signature_share '
                'produces, for both parities of the group commitment and of the group key (thm_tr_share_accepted_iff, thm_tr_hooks_share_parity, thm_tr_share_check_exact, '
                'thm_tr_key_parity_consistent); if every signer is honest and the key shares lie on a polynomial with constant term the group secret (C06/C07), aggregate returns Ok and the '
                '64-byte signature passes the transcribed BIP-340 Verify under the x-only key of the package, for all parities of key and R (thm_tr_aggregate_bip340); tweaking keeps the sharing and '
                'yields the BIP-341 output key lift_x(x(P)) + t*G on both packages (thm_tr_tweak_keeps_sharing, thm_tr_tweaked_packages), so the same holds under the output key with or without a '
                'script root; post_dkg returns the key-path-only tweak (thm_tr_dkg_key_path_only); verification under the UNTWEAKED key holds iff e*ev(Q) == e\'*ev(P) (thm_tr_untweaked_key_iff).',
     level_note='ASSUMED about k256/sha2/subtle (K1-K12, prelude/k256_model.rs): operators are the field/group operations; to_affine/x/y_is_odd are functions of the point; -P keeps x and (P != 0) flips the '
                'parity of y; a point != 0 is determined by x and the parity of y; x is 32 bytes; SEC1 compressed encoding = 02/03 by parity || x; Sha256 is a deterministic streaming hash; '
                'Scalar::reduce(U256::from_be_slice(b)) is a function of b.  T3/T4 for k256: 33 external_body proof fns in the impl Field / impl Group blocks (contracts_tr/tr_model.vc).  T6 addenda: a '
                'BTreeMap is determined by its view (needed because hooks.vc states pre_aggregate/post_dkg results as equations); AsRef<[u8]> for &[u8] is the identity.  One definitional axiom '
                '(tr_rnz).  NOT decided: independent verifiers (libsecp256k1, Python) are replaced by the transcribed BIP-340 Verify; "does not verify under the untweaked key" is reduced to a '
                'relation between two hash outputs, not excluded; BIP-341 rejects t >= n where the code reduces mod n (probability < 2^-127); SigningKey::into_even_y (assumed: it panics on the zero key and Verus allows no precondition on a trait-impl method), H1/H3/H4/H5/HDKG/HID, '
                'hash_to_array/hash_to_scalar and the Field/Group method bodies are assumed or without contract; frost::verify_signature_share has no world-generic contract (emitted without contract); '
                'the dealer path is NOT tweaked by the library (post_generate is not overridden) -- dealer keys are covered through sign_with_tweak/aggregate_with_tweak; theorem premise "the even-Y '
                'package exists" is witnessed by every execution of pre_aggregate (BTreeMap has no spec-level constructor).',
     assumptions=['K1-K12: model of k256 / sha2 / subtle (prelude/k256_model.rs), each an ensures or axiom fn there',
                  'T3/T4 for k256: field, group and codec laws as external_body proof fns in impl Field / impl Group (contracts_tr/tr_model.vc)',
                  'T6 addenda: BTreeMap extensionality (ax_btreemap_ext), AsRef<[u8]> for &[u8] (ax_asref_slice); vstd lacks range IndexMut on Vec: the two copy_from_slice statements of serialize_signature are outlined with operand holes',
                  'independent BIP-340 verifiers are replaced by the transcribed predicate bip340_verify',
                  'honest-run theorem premises: key shares on a polynomial with <= |signers| coefficients (C06/C07), group commitment != identity, the even-Y package exists'],
     design_ref='DESIGN.md section 4 C18')

prop('CDEV', level_text='dev', level_note='dev', claimed=False)
