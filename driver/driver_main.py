import hashlib
import importlib.util
import json
import os
import re
import shutil
import subprocess
import sys
import time

VERIF = os.path.dirname(os.path.dirname(os.path.abspath(__file__)))
OUT = os.environ.get('VERIF_OUT') or VERIF   # dev/seedtest.sh redirects evidence and replay files of scratch runs
sys.path.insert(0, os.path.join(VERIF, 'extract'))
sys.path.insert(0, os.path.join(VERIF, 'driver'))

import extract as EX          # noqa: E402
from rustlex import LexError  # noqa: E402
import verus_run as VR        # noqa: E402
import props as PR            # noqa: E402

REPO = os.environ.get('VERIF_REPO', '/repo')


def log(*a):
    print(*a, flush=True)


def load_unit_cfg(name):
    spec = importlib.util.spec_from_file_location('unitcfg_' + name, os.path.join(VERIF, 'units', name + '.py'))
    mod = importlib.util.module_from_spec(spec)
    spec.loader.exec_module(mod)
    return mod.CFG


def lemma_tags(cfg):
    """`//@serves C01 C06` comment lines in prelude/lemma files tag the next fn; `//@module_serves ...` the whole module."""
    tags = {}
    bodies = {}
    crate = cfg.get('crate_name', 'unit')
    files = list(cfg.get('prelude_files', [])) + list(cfg.get('postlude_files', []))
    for rel in files:
        txt = open(os.path.join(VERIF, rel)).read()
        mod = None
        modserves = []
        pending = None
        cur = None
        for ln in txt.split('\n'):
            m = re.match(r'\s*pub mod (\w+)\s*\{', ln)
            if m and mod is None:
                mod = m.group(1)
            m = re.match(r'\s*//@module_serves\s+(.*)$', ln)
            if m:
                modserves = m.group(1).split()
            m = re.match(r'\s*//@serves\s+(.*)$', ln)
            if m:
                pending = m.group(1).split()
                continue
            m = re.match(r'\s*(?:pub\s+)?(?:broadcast\s+)?(?:proof\s+|exec\s+)?fn\s+(\w+)', ln)
            if m and mod:
                nm = '%s::%s::%s' % (crate, mod, m.group(1))
                tags[nm] = dict(serves=sorted(set((pending or []) + modserves)), file=rel)
                pending = None
                cur = nm
                bodies[cur] = []
            if mod and cur:
                bodies[cur].append(ln)
    # a theorem rests on the lemmas it calls: a lemma serves every property that a (transitive) caller serves
    short = {}
    for nm in tags:
        short.setdefault(nm.split('::')[-1], []).append(nm)
    calls = {}
    for nm, lines in bodies.items():
        body = '\n'.join(lines[1:])
        calls[nm] = set()
        for w in set(re.findall(r'\b(\w+)\s*(?:::<[^;{}()]*>)?\s*\(', body)):
            for tgt in short.get(w, []):
                if tgt != nm:
                    calls[nm].add(tgt)
    changed = True
    while changed:
        changed = False
        for nm, tg in calls.items():
            sv = set(tags[nm]['serves']) - {'ALL'}
            for t in tg:
                if not sv <= set(tags[t]['serves']):
                    tags[t]['serves'] = sorted(set(tags[t]['serves']) | sv)
                    changed = True
    return tags


def known_findings():
    path = os.path.join(VERIF, 'known_findings.txt')
    out = []
    if os.path.exists(path):
        for ln in open(path):
            ln = ln.strip()
            if not ln or ln.startswith('#') or ln.startswith('fixed:'):
                continue
            m = re.match(r'property=(\S+)\s+obligation=(.*?)\s+::\s+(.*)$', ln)
            if m:
                out.append(dict(property=m.group(1), obligation=m.group(2).strip(), what=m.group(3).strip()))
            m = re.match(r'property=(\S+)\s+finding=(\S+)\s+::\s+(.*)$', ln)
            if m:
                out.append(dict(property=m.group(1), obligation='finding :: ' + m.group(2).strip(), finding=m.group(2).strip(), what=m.group(3).strip()))
    return out


def scan_trusted(text):
    """mechanical scan of the emitted unit for unchecked assumptions (DESIGN 2.7)"""
    counts = {}
    for pat, nm in ((r'\bassume\s*\(', 'assume('), (r'\badmit\s*\(', 'admit('), (r'external_body', 'external_body'),
                    (r'assume_specification', 'assume_specification'), (r'\baxiom\s+fn\b', 'axiom fn'),
                    (r'#\[verifier::external\]', 'verifier::external')):
        counts[nm] = len(re.findall(pat, text))
    return counts


def check_property(pid, tier, seed, keep=False):
    t0 = time.time()
    P = PR.PROPS.get(pid)
    if P is None:
        log('UNDECIDED property=%s reason=no check registered for this property' % pid)
        return 2
    bdir = os.path.join(VERIF, 'build', 'run-%s-%d' % (pid, os.getpid()))
    shutil.rmtree(bdir, ignore_errors=True)
    os.makedirs(bdir)
    os.makedirs(os.path.join(OUT, 'evidence'), exist_ok=True)
    os.makedirs(os.path.join(OUT, 'replay'), exist_ok=True)
    ev = dict(property_id=pid, tier=tier, seed=seed, level=P['category'], coverage={}, assumptions=[], wall_s=0.0, violations=0)
    cov = ev['coverage']
    rc = 0
    try:
        rc = _check(pid, P, tier, seed, bdir, ev)
    except (EX.ExtractError, LexError, SyntaxError) as e:
        cov.setdefault('explanation', 'undecided: extractor: %s' % e)
        cov['undecided'] = ['extractor: %s' % e]
        if concrete_fallback(pid, seed, ev, cov['undecided']):
            rc = 1
        else:
            log('UNDECIDED property=%s reason=extractor: %s' % (pid, e))
            rc = 2
    finally:
        ev['wall_s'] = round(time.time() - t0, 2)
        write_evidence(pid, ev, rc)
        if not keep and not os.environ.get('VERIF_KEEP'):
            shutil.rmtree(bdir, ignore_errors=True)
    return rc


def write_evidence(pid, ev, rc):
    cov = ev['coverage']
    cov.setdefault('obligations', 0)
    cov.setdefault('discharged', 0)
    cov.setdefault('checker_cmd', 'n/a')
    cov.setdefault('trusted_base', [])
    cov.setdefault('samples', [])
    cov['exit_code'] = rc
    path = os.path.join(OUT, 'evidence', pid + '.json')
    json.dump(ev, open(path, 'w'), indent=1)


def _check(pid, P, tier, seed, bdir, ev):
    cov = ev['coverage']
    failures_all = []
    undecided = []
    known = [k for k in known_findings() if k['property'] == pid]
    fn_report = []
    cmds = []
    total_obl = 0
    total_dis = 0
    trusted = []
    samples = []
    extraction = {}
    solver_ms = 0
    pclauses = {}
    probs, suites_seen = scan_suite_overrides()
    cov['suite_overrides_scan'] = dict(problems=probs, defined={k: len(v) for k, v in suites_seen.items()})
    undecided.extend(probs)
    for uname in P.get('units', ['frost_core']):
        cfg = load_unit_cfg(uname)
        cfg['crate_name'] = 'unit'
        text, meta = EX.build_unit(cfg)
        unit_path = os.path.join(bdir, 'unit.rs') if len(P.get('units', [1])) == 1 else os.path.join(bdir, 'unit_%s' % uname, 'unit.rs')
        os.makedirs(os.path.dirname(unit_path), exist_ok=True)
        open(unit_path, 'w').write(text)
        logdir = os.path.join(os.path.dirname(unit_path), 'vlog')
        r = VR.run_verus(unit_path, logdir, rlimit=P.get('rlimit'), timeout=P.get('timeout', 1800))
        cmds.append('cd <build> && ' + r.cmd + '   # unit %s extracted from %s' % (uname, cfg['root']))
        solver_ms += r.smt_ms
        fns = meta['fn_lines']
        clauses = meta['clause_lines']
        failures, compile_errors = VR.classify(r, unit_path, fns, clauses)
        # second opinion: an obligation of a repo function that fails is re-checked once with the ring/module laws of T3 available as
        # quantified facts (lemmas/vspec.rs use_ac: instances of the axioms only, so a false obligation cannot pass).  A body that computes the
        # same value with the operands in another order is then not reported merely because the first attempt has no AC reasoning.
        vf = [x for x in failures if x.verdict and x.fn_key]
        if vf and not compile_errors and r.json is not None:
            vnames = {f['key']: VR.resolve_name(r, f['verus_name']) for f in meta['functions'] if f['key'] in set(x.fn_key for x in vf)}
            so = second_opinion(uname, unit_path, meta, sorted(set(x.fn_key for x in vf)), P, vnames)
            cov.setdefault('second_opinion', {})[uname] = so
            cleared = set(k for k, v in so.items() if v.get('verified'))
            if cleared:
                failures = [x for x in failures if x.fn_key not in cleared]
                for k in cleared:
                    st0 = r.fn_status.get(VR.resolve_name(r, [f for f in meta['functions'] if f['key'] == k][0]['verus_name']))
                    if st0:
                        st0['success'] = True
                if not failures and r.rc == 1:
                    r.rc = 0
        if r.json is None or compile_errors or r.rc not in (0, 1) or (r.rc != 0 and not failures and r.errors == 0):
            msg = '; '.join((d.get('message') or '')[:160] for d in compile_errors[:3]) or ('verus rc=%s, no verdict' % r.rc)
            loc = ''
            for d in compile_errors[:1]:
                for s in d.get('spans', []):
                    if s.get('is_primary'):
                        loc = ' at unit line %d (%s)' % (s['line_start'], VR.short(VR._in_ranges(s['line_start'], fns) or ''))
            undecided.append('unit %s: Verus rejected the unit (not a verification verdict): %s%s' % (uname, msg, loc))
            open(os.path.join(VERIF, 'build', 'last_undecided_%s.txt' % pid), 'w').write(r.raw_stderr[-20000:])
            continue
        # trusted text: assumed functions and files outside the units must be the text the contracts were written for
        tpath = os.path.join(VERIF, 'contracts', 'trusted_text.lock.json')
        tlock = json.load(open(tpath)) if os.path.exists(tpath) else None
        changed_assumed = set()
        if tlock:
            for f in meta['functions']:
                want = tlock['assumed_functions'].get(f['key'])
                if want and f['mode'] == 'assumed' and 'E9' not in f.get('rules', []) and f.get('norm_sha') != want:
                    changed_assumed.add(f['key'])
            for rel, plist in cfg.get('trusted_files', {}).items():
                if pid not in plist or rel not in tlock['files']:
                    continue
                try:
                    cur = EX.norm_sha(open(os.path.join(REPO, rel)).read())
                except Exception as e:
                    cur = 'unreadable: %s' % e
                if cur != tlock['files'][rel]:
                    undecided.append('trusted file %s changed (not verified by any unit; the proof of %s assumes its behaviour)' % (rel, pid))
        for ck, cc in meta.get('contracts', {}).items():
            pn = [n for (kd, n) in cc.get('clauses', []) if kd == 'ensures' and n.startswith('p_')]
            if pn:
                pclauses[ck] = pn
        # Evidence weighting by edit size.  A point edit (an operator, a constant, an identifier, a dropped call, an off-by-one: at most
        # EDIT_SIZE_LIMIT changed tokens in the failing function) that breaks a proof is a semantic change; harmless point edits such as
        # commuted operands are absorbed by the second opinion.  After a larger REWRITE of the function (an added defensive check, a cache,
        # reordered statements, normalise-then-compute instead of compute-then-normalise) a failed proof is ambiguous: the verifier may simply
        # lack the lemmas that show the new path agrees with the old one.  Then the failed proof alone is not reported: undecided, and the
        # concrete search over the real crates decides.  (The function's own text unchanged = the cause lies in a callee: verdict stands.)
        fpath = os.path.join(VERIF, 'contracts', 'fn_text.lock.json')
        if os.path.exists(fpath) and failures:
            import difflib
            from rustlex import strip_comments as _sc
            ftext = json.load(open(fpath))
            byk1 = {f['key']: f for f in meta['functions']}
            insdom = {}
            for fk in set(x.fn_key for x in failures if x.verdict and x.fn_key):
                f1 = byk1.get(fk)
                if not f1 or fk not in ftext:
                    continue
                try:
                    cur = '\n'.join(open(os.path.join(REPO, f1['file'])).read().split('\n')[f1['lines'][0] - 1:f1['lines'][1]])
                except Exception:
                    continue
                tok = lambda t: re.findall(r'\w+|[^\w\s]', t)
                a, b = tok(ftext[fk]), tok(re.sub(r'\s+', ' ', _sc(cur)).strip())
                ins = dele = 0
                for op, i1, i2, j1, j2 in difflib.SequenceMatcher(None, a, b, autojunk=False).get_opcodes():
                    if op in ('insert', 'replace'):
                        ins += j2 - j1
                    if op in ('delete', 'replace'):
                        dele += i2 - i1
                if ins + dele > EDIT_SIZE_LIMIT:
                    insdom[fk] = (ins, dele)
            for x in failures:
                if x.verdict and x.fn_key in insdom:
                    x.verdict = False
                    x.message = ('this function was REWRITTEN (%d tokens inserted, %d removed; a failed proof is reported on its own only for edits of at most %d tokens): '
                                 'the failed proof may be incompleteness, not reported without a concrete failing input: %s'
                                 % (insdom[x.fn_key][0], insdom[x.fn_key][1], EDIT_SIZE_LIMIT, x.message))
            if insdom:
                cov.setdefault('rewritten_functions', {})[uname] = {VR.short(k): v for k, v in insdom.items()}
        # functions that did not exist when the contracts were written have no contract: a caller that now delegates to one cannot be
        # proved, which is a lost anchor (undecided), not a violation
        if tlock and uname in tlock.get('known_functions', {}):
            known_f = set(tlock['known_functions'][uname])
            newf = [f for f in meta['functions'] if f['key'] not in known_f]
            if newf:
                cov.setdefault('new_functions', {})[uname] = [VR.short(f['key']) for f in newf][:20]
                byk0 = {f['key']: f for f in meta['functions']}
                for x in failures:
                    f0 = byk0.get(x.fn_key)
                    if not (x.verdict and f0):
                        continue
                    try:
                        src = '\n'.join(open(os.path.join(REPO, f0['file'])).read().split('\n')[f0['lines'][0] - 1:f0['lines'][1]])
                    except Exception:
                        continue
                    used = [nf for nf in newf if re.search(r'\b%s\s*(::<[^>]*>)?\s*\(' % re.escape(nf['key'].split(' :: ')[-1]), src)]
                    if used:
                        x.verdict = False
                        x.message = 'calls %s, a function that has no contract (it did not exist when the contracts were written): %s' % (
                            ', '.join(VR.short(nf['key']) for nf in used[:3]), x.message)
        # type lock: the attributes of a type definition (derives, serde / zeroize / getter attributes) are dropped or replaced by their documented
        # expansion (E1/E2), so a CHANGED definition is not seen by the verifier.  It concerns the codec / persistence / zeroize properties always,
        # and any other property whose serving functions mention the type.
        changed_types = []
        if tlock and tlock.get('types'):
            for tk, th in meta.get('types', {}).items():
                if tk in tlock['types'] and tlock['types'][tk] != th:
                    changed_types.append(tk)
        # which functions serve this property
        tags = lemma_tags(cfg)
        pids = set([pid] + list(P.get('include', [])))   # a property may rest on the functions/lemmas of others (e.g. C01 on key generation)
        serving = {}
        for f in meta['functions']:
            if (pids & set(f.get('serves', []))) or (P.get('all_functions') and (f['mode'] in ('verified', 'transparent') or (f['mode'] == 'assumed' and f.get('contract_file')))):
                serving[f['key']] = f
        # modular verification: a caller is proved against the CONTRACT of its callees, so every contracted function that a serving function
        # calls (transitively) is part of the property's proof.  Calls are resolved by name: `Type::f(` exactly; a bare or method name only
        # when a single contracted function bears it (ambiguous names such as `new`, `from`, `verify` are not followed).
        contracted = [f for f in meta['functions'] if f.get('contract_file') and f['mode'] in ('verified', 'assumed')]
        by_name, by_qual = {}, {}
        for f in contracted:
            parts = f['key'].split(' :: ')
            by_name.setdefault(parts[-1], []).append(f)
            if len(parts) >= 3:
                ty = re.sub(r'<.*$', '', parts[-2].split(' for ')[-1].strip())
                by_qual.setdefault(ty + '::' + parts[-1], []).append(f)
        src_cache = {}

        def fn_src(f):
            if f['key'] not in src_cache:
                try:
                    if f['file'] not in src_cache:
                        src_cache[f['file']] = open(os.path.join(REPO, f['file'])).read().split('\n')
                    src_cache[f['key']] = '\n'.join(src_cache[f['file']][f['lines'][0] - 1:f['lines'][1]])
                except Exception:
                    src_cache[f['key']] = ''
            return src_cache[f['key']]
        work = list(serving.values())
        added = 0
        while work:
            f = work.pop()
            src = fn_src(f)
            cands = []
            for q, fl in by_qual.items():
                if len(fl) == 1 and re.search(r'\b%s\s*(::<[^;(){}]*>)?\s*\(' % re.escape(q).replace('\\:\\:', r'\s*(?:::<[^;(){}]*>)?::\s*'), src):
                    cands.append(fl[0])
            for nme, fl in by_name.items():
                if len(fl) == 1 and re.search(r'(?<![\w])%s\s*(::<[^;(){}]*>)?\s*\(' % re.escape(nme), src):
                    cands.append(fl[0])
            for g in cands:
                if g['key'] not in serving and g['key'] != f['key']:
                    serving[g['key']] = g
                    work.append(g)
                    added += 1
        cov.setdefault('callee_closure', {})[uname] = added
        for tk in changed_types:
            tname = tk.split(' :: ')[-1].split('::')[-1]
            if pid in ('C12', 'C13', 'C20') or any(re.search(r'\b%s\b' % re.escape(tname), fn_src(f)) for f in serving.values()):
                undecided.append('the definition of type %s changed (attributes / fields: the extraction replaces derives and drops serde, zeroize and getter '
                                 'attributes, so the verifier does not see this change)' % tk)
        lemma_serving = {nm: t for nm, t in tags.items() if (pids & set(t['serves'])) or 'ALL' in t['serves']}
        # per-function accounting
        for key, f in sorted(serving.items()):
            vn = VR.resolve_name(r, f['verus_name'])
            st = r.fn_status.get(vn)
            nobl = r.obligations.get(vn, 0)
            ffails = [x for x in failures if x.fn_key == key]
            entry = dict(function=VR.short(key), repo='%s:%d-%d' % (f['file'], f['lines'][0], f['lines'][1]), mode=f['mode'],
                         sha256_source=f['sha256_source'], sha256_emitted=f.get('sha256_emitted'), rules=f.get('rules', []),
                         obligations=nobl, verus_ms=round((st or {}).get('time_us', 0) / 1000.0, 1), rlimit=(st or {}).get('rlimit', 0),
                         verified=(st or {}).get('success') if f['mode'] != 'assumed' else None,
                         contract=f.get('contract_file'))
            fn_report.append(entry)
            if f['mode'] in ('verified', 'transparent'):
                if st is None and nobl == 0:
                    # Verus generated no query for it at all: vacuity guard (a body with nothing to prove still appears with a query)
                    if f['mode'] == 'verified':
                        undecided.append('function %s produced no obligations (vacuity guard)' % VR.short(key))
                total_obl += nobl
                if st and st['success'] and not ffails:
                    total_dis += nobl
                else:
                    total_dis += max(0, nobl - max(1, len(ffails)))
            elif 'E9' in f.get('rules', []):
                trusted.append('contract assumed in unit %s, verified in the unit that owns the crate (E9): %s' % (uname, VR.short(key)))
            else:
                trusted.append('assumed contract (not verified here): %s' % VR.short(key))
                if key in changed_assumed:
                    undecided.append('the text of %s changed but its contract is only ASSUMED: no longer trusted' % VR.short(key))
        for nm, t in sorted(lemma_serving.items()):
            st = r.fn_status.get(nm)
            nobl = r.obligations.get(nm, 0)
            if st is None:
                continue
            total_obl += nobl
            if st['success']:
                total_dis += nobl
            fn_report.append(dict(function=nm, repo=t['file'], mode='lemma', obligations=nobl,
                                  verus_ms=round(st['time_us'] / 1000.0, 1), rlimit=st['rlimit'], verified=st['success']))
        # failures relevant to this property
        for x in failures:
            rel = False
            if x.fn_key and x.fn_key in serving:
                rel = True
            if not x.fn_key:
                # lemma / prelude failure: relevant if the enclosing verus fn serves the property
                rel = any((not st['success']) for nm, st in r.fn_status.items() if nm in lemma_serving)
            if rel:
                x.unit = uname
                x.unit_path = unit_path
                x.meta = serving.get(x.fn_key)
                failures_all.append(x)
        extraction[uname] = dict(rules=meta['rules'], functions_total=len(meta['functions']),
                                 dropped_items=len(meta['dropped']), unit_lines=text.count('\n'), unit_sha256=hashlib.sha256(text.encode()).hexdigest()[:16],
                                 trusted_scan=scan_trusted(text))
        # thorough tier: vacuity guards -- with `assert(false)` injected every serving function / lemma must FAIL (a contradictory
        # precondition, an assume that excludes everything or a body that is never checked would let it pass)
        if tier == 'thorough' and not failures:
            vac = {}
            for kind in ('canary', 'lemma_canary'):
                c2 = load_unit_cfg(uname)
                c2['crate_name'] = 'unit'
                c2[kind] = True
                t2, m2 = EX.build_unit(c2)
                p2 = os.path.join(os.path.dirname(unit_path), kind, 'unit.rs')
                os.makedirs(os.path.dirname(p2), exist_ok=True)
                open(p2, 'w').write(t2)
                r2 = VR.run_verus(p2, os.path.join(os.path.dirname(p2), 'vlog'), timeout=P.get('timeout', 1800))
                cmds.append('cd <build>/%s && %s   # vacuity guard' % (kind, r2.cmd))
                survivors = []
                n2 = 0
                if r2.json is None:
                    undecided.append('vacuity guard %s of unit %s did not run' % (kind, uname))
                    continue
                if kind == 'canary':
                    for f in m2['functions']:
                        if f['key'] in serving and f['mode'] == 'verified':
                            n2 += 1
                            st2 = r2.fn_status.get(VR.resolve_name(r2, f['verus_name']))
                            if st2 is None or st2['success']:
                                survivors.append(VR.short(f['key']))
                else:
                    for nm in re.findall(r'/\*@LCANARY (\w+)\*/', t2):
                        hits = [(k, st2) for k, st2 in r2.fn_status.items() if k.split('::')[-1] == nm]
                        if not any(k in lemma_serving for k, _ in hits) and hits:
                            continue
                        n2 += 1
                        if not hits or any(st2['success'] for k, st2 in hits):
                            survivors.append(nm)
                vac[kind] = dict(checked=n2, survivors=survivors)
                if survivors:
                    undecided.append('vacuity guard (%s) of unit %s: these verify even with assert(false) injected: %s' % (kind, uname, ', '.join(survivors[:8])))
            cov.setdefault('vacuity_guards', {})[uname] = vac
        # samples: the named obligations of the serving functions
        for (l, key, kind, name, n) in clauses:
            if key in serving and len(samples) < 40:
                samples.append('%s :: %s[%s]' % (VR.short(key), kind, name))
    # Kani part: harnesses over the REAL frost-core monomorphised at toy ciphersuites (kani/README.md).  `complete` harnesses (loop-free or
    # width-bounded loops, full input domain of the toy instantiation) count as obligations; `bounded` ones are stand-ins for assumed
    # contracts: reported, labelled bounded, never counted as proved.  A failing harness comes with Kani's concrete counterexample.
    kani = None
    if P.get('kani') and not os.environ.get('VERIF_NO_KANI'):
        kani = run_kani(pid, P, tier, bdir)
        cmds.append(kani['cmd'])
        kcomplete, kbounded, kincomplete = [], [], []
        for h in kani['harnesses']:
            brief = dict(name=h['name'], status=h['status'], expect=h.get('expect', 'pass'), kind=h.get('kind'), bound=h.get('bound'), checks_total=h.get('checks_total'),
                         wall_s=h.get('wall_s'), max_rss_mb=h.get('max_rss_mb'), backs=(h.get('backs') or '')[:300])
            if h.get('expect', 'pass') == 'pass':
                if h['status'] == 'pass':
                    if h.get('kind') == 'complete':
                        kcomplete.append(brief)
                        total_obl += h.get('checks_total', 0) or 1
                        total_dis += h.get('checks_total', 0) or 1
                    else:
                        kbounded.append(brief)
                elif h['status'] == 'fail':
                    f = VR.Failure()
                    fc = h.get('failed_checks') or []
                    f.message = 'Kani harness %s FAILED: %s' % (h['name'], '; '.join((c.get('description') if isinstance(c, dict) else str(c)) for c in fc[:3]))
                    f.obligation = 'kani :: %s' % h['name']
                    f.rendered = json.dumps(h, indent=1)[:8000]
                    f.fn_key = None
                    f.kani = h
                    failures_all.append(f)
                else:
                    kincomplete.append(brief)
            else:
                if h['status'] == 'pass':
                    undecided.append('kani negative control %s unexpectedly passed (vacuity guard)' % h['name'])
                elif h['status'] != 'fail':
                    kincomplete.append(brief)
        for b2 in (kcomplete + kbounded)[:30]:
            samples.append('kani :: %s [%s%s]' % (b2['name'], b2['kind'], (': ' + b2['bound']) if b2.get('bound') and b2['bound'] != '-' else ''))
        cov['kani'] = dict(complete=kcomplete, bounded_standins=kbounded, not_finished=kincomplete, error=kani.get('error'),
                           note='toy ciphersuites Toy251 / Toy65537 / Wide<N>; bounded stand-ins are NOT counted in obligations/discharged')
        if kani.get('error'):
            undecided.append('kani layer: ' + str(kani['error'])[:300])
        if kincomplete and (not P.get('units') or P.get('kani_required')):
            undecided.append('kani harnesses did not finish (timeout/error): %s' % ', '.join(b['name'] for b in kincomplete[:8]))
    # sampled validation of assumed contracts on the REAL ciphersuite crates (labelled as such, never counted as proved)
    if P.get('rt_always') or (tier == 'thorough' and not os.environ.get('VERIF_NO_RT')):
        import rtcheck
        res = rtcheck.search(pid, 'assumption validation', seed, budget_s=(P.get('rt_budget_thorough', 90) if tier == 'thorough' else P.get('rt_budget', 10))) if rtcheck.available() else None
        if res is None:
            undecided.append('concrete validation runner (rt/) unavailable')
        else:
            m = re.search(r'RT-OK property=\S+ cases=(\d+)', res.get('stdout_tail', ''))
            cov['concrete_validation'] = dict(what=P.get('rt_what', 'scenarios of rt/README.md for this property: real crates, all six suites, oracles from the property statement'), cmd=res.get('cmd'), found=res.get('found'), cases=int(m.group(1)) if m else None,
                                              label='sampled (not a proof)', tail=res.get('stdout_tail', '')[-400:])
            cmds.append(res.get('cmd', ''))
            seen_keys = set()
            for fd in res.get('findings', []):
                if fd['key'] in seen_keys:
                    continue
                seen_keys.add(fd['key'])
                f = VR.Failure()
                f.obligation = 'finding :: %s' % fd['key']
                f.message = 'the real code deviates from the literal property text: %s (%s)' % (fd['key'], fd.get('detail', ''))
                f.rendered = json.dumps(fd, indent=1)
                f.fn_key = None
                f.kani = dict(counterexample=fd)
                failures_all.append(f)
            cov['concrete_validation']['findings'] = sorted(seen_keys)
            if res.get('found'):
                f = VR.Failure()
                sc = res['case'].get('scenario', '?') if isinstance(res['case'], dict) else '?'
                f.obligation = 'concrete validation :: %s' % sc
                f.message = 'an assumed contract is violated by the real code on a concrete input'
                f.rendered = json.dumps(res['case'], indent=1)[:6000]
                f.fn_key = None
                f.kani = dict(counterexample=res['case'])
                failures_all.append(f)
            elif 'no-scenarios-for-this-property' in (res.get('stdout_tail') or ''):
                cov['concrete_validation']['label'] = 'no concrete scenarios exist for this property (nothing explored)'
            elif res.get('error') or res.get('rc') != 0:
                undecided.append('concrete validation: %s' % (res.get('error') or ('runner exit %s' % res.get('rc'))))
            else:
                cov['evaluations'] = cov['concrete_validation']['cases'] or 0
    # thorough tier: sensitivity self-test -- the stored independent seeded changes of this property (seeded/<ID>_k: each compiles, passes the
    # repo's test suite and breaks the property) are applied to scratch copies of the CURRENT tree and checked; recorded in the evidence only
    # (a check of the check: it never changes this run's verdict)
    if tier == 'thorough' and not os.environ.get('VERIF_SENSITIVITY_CHILD') and not failures_all:
        cov['sensitivity'] = sensitivity_selftest(pid)
    cov['obligations'] = total_obl
    cov['discharged'] = total_dis
    cov['checker_cmd'] = ' ;; '.join(cmds)
    cov['functions'] = fn_report
    cov['functions_under_contract'] = len([f for f in fn_report if f['mode'] in ('verified', 'transparent')])
    cov['extraction'] = extraction
    cov['solver'] = ('z3 (bundled with Verus 0.2026.09.13)' if P.get('units') else '') + ('; CBMC 6.11 + kissat via Kani 0.68' if kani else '')
    cov['solver_time_ms'] = solver_ms
    cov['samples'] = samples or ['(no named obligations)']
    cov['trusted_base'] = sorted(set(trusted + P.get('trusted_base', []) + PR.GLOBAL_TRUSTED))
    ev['assumptions'] = P.get('assumptions', []) + PR.GLOBAL_ASSUMPTIONS
    cov['explanation'] = P.get('level_text', '')
    # verdict
    new_viol = []
    # Property-level vs exact clauses.  A function whose contract has clauses named `p_*` states the PROPERTY there (what users rely on:
    # refusal / acceptance / the values the property fixes) and, in its other `ensures`, the exact result (error precedence, every field) that the
    # theorems are proved from.  If only exact `ensures` of such a function fail while all its `p_*` clauses, invariants and internal
    # obligations hold, the behaviour changed in a way the property does not fix (reordered guards, an additional refusal): the link
    # between code and theorems is lost -> undecided (the concrete search is consulted), not a violation.
    by_fn = {}
    for x in failures_all:
        if x.verdict and x.fn_key:
            by_fn.setdefault(x.fn_key, []).append(x)
    advisory = set()
    for fk, xs in by_fn.items():
        names = pclauses.get(fk)
        if not names:
            continue
        # Verus reports at most VR.MULTIPLE_ERRORS failing obligations per function: at the cap a failing p_* clause may simply not have been
        # reported, so "no p_* clause among the failures" proves nothing and the failures decide as they did before the rule existed.
        if len(xs) >= VR.MULTIPLE_ERRORS:
            continue
        if all(x.clause and x.clause[0] == fk and x.clause[1] == 'ensures' and not x.clause[2].startswith('p_') for x in xs):
            advisory.add(fk)
    for x in failures_all:
        if not x.verdict:
            undecided.append('undecided obligation %s: %s' % (x.obligation, x.message))
            continue
        if x.fn_key in advisory:
            undecided.append('exact-result clause %s fails while every property-level clause (%s) of the function holds: behaviour changed in a way the '
                             'property does not fix' % (x.obligation, ', '.join(sorted(pclauses[x.fn_key]))))
            continue
        k = [kf for kf in known if kf['obligation'] == x.obligation]
        if k:
            log('KNOWN-FINDING: property=%s %s (%s)' % (pid, x.obligation, k[0]['what']))
            continue
        new_viol.append(x)
    seen = set()
    rc = 0
    for x in new_viol:
        if x.obligation in seen:
            continue
        seen.add(x.obligation)
        path, found = write_replay(pid, x, seed)
        log('VIOLATION property=%s replay=%s obligation="%s"%s' % (pid, path, x.obligation, '' if found else ' no-failing-input-found'))
        rc = 1
    ev['violations'] = len(seen)
    cov['failed_obligations'] = sorted(seen)
    undecided = list(dict.fromkeys(undecided))
    if rc == 0 and undecided:
        if concrete_fallback(pid, seed, ev, undecided):
            cov['undecided'] = undecided
            return 1
        for u in undecided:
            log('UNDECIDED property=%s reason=%s' % (pid, u))
        cov['undecided'] = undecided
        rc = 2
    if rc == 0:
        if total_obl == 0:
            log('UNDECIDED property=%s reason=no obligations generated' % pid)
            return 2
        log('OK property=%s obligations=%d discharged=%d functions_under_contract=%d solver_ms=%d' %
            (pid, total_obl, total_dis, cov['functions_under_contract'], solver_ms))
    return rc


SUITE_BASE = ['ID', 'Group', 'HashOutput', 'SignatureSerialization', 'H1', 'H2', 'H3', 'H4', 'H5', 'HDKG', 'HID']
SUITES = {
    'frost-ed25519': SUITE_BASE, 'frost-ed448': SUITE_BASE, 'frost-p256': SUITE_BASE, 'frost-ristretto255': SUITE_BASE, 'frost-secp256k1': SUITE_BASE,
    'frost-secp256k1-tr': SUITE_BASE + ['single_sign', 'pre_sign', 'pre_aggregate', 'pre_verify', 'generate_nonce', 'challenge', 'compute_signature_share',
                                        'verify_share', 'serialize_signature', 'deserialize_signature', 'post_dkg'],
}


def scan_suite_overrides():
    """The generic theorems hold in the "default world" (lemmas/vworld.rs: a suite that does not override the optional hooks).  Read from
    source which items each `impl Ciphersuite for ..` defines and fail closed (undecided, never a pass) on anything unexpected."""
    from rustlex import strip_comments, find_matching
    problems = []
    seen = {}
    for crate, want in SUITES.items():
        path = os.path.join(REPO, crate, 'src', 'lib.rs')
        try:
            src = strip_comments(open(path).read())
            m = re.search(r'impl\s+Ciphersuite\s+for\s+(\w+)\s*\{', src)
            b = src.index('{', m.start())
            body = src[b + 1:find_matching(src, b)]
            names = []
            depth = 0
            for mm in re.finditer(r'[{}]|\bfn\s+(\w+)|\btype\s+(\w+)|\bconst\s+(\w+)', body):
                t = mm.group(0)
                if t == '{':
                    depth += 1
                elif t == '}':
                    depth -= 1
                elif depth == 0:
                    names.append(mm.group(1) or mm.group(2) or mm.group(3))
        except Exception as e:
            problems.append('%s: cannot read its `impl Ciphersuite` block (%s)' % (crate, e))
            continue
        seen[crate] = names
        if sorted(names) != sorted(want):
            extra = sorted(set(names) - set(want))
            missing = sorted(set(want) - set(names))
            problems.append('%s: `impl Ciphersuite` defines %s%s -- the default-world assumption (or the Taproot unit) was written for another set of overrides'
                            % (crate, ('additionally ' + ', '.join(extra)) if extra else '', (' and no longer ' + ', '.join(missing)) if missing else ''))
    return problems, seen


EDIT_SIZE_LIMIT = int(os.environ.get('VERIF_EDIT_SIZE_LIMIT', '24'))


def second_opinion(uname, unit_path, meta, keys, P, vnames=None):
    """Levels 1..3 add more of the T3 laws as quantified facts (1: commutativity + cancellation, 2: + associativity, 3: + distributivity);
    the richer the set the likelier the solver drowns, so the cheap levels are tried first and the first success counts."""
    out = {}
    byk = None
    for level in (1, 2, 3):
        todo = [k for k in keys[:6] if not out.get(k, {}).get('verified')]
        if not todo:
            break
        cfg = load_unit_cfg(uname)
        cfg['crate_name'] = 'unit'
        cfg['second_opinion'] = level
        try:
            text, m2 = EX.build_unit(cfg)
        except Exception as e:
            return {k: dict(verified=False, note='extraction failed: %s' % e) for k in keys}
        d = os.path.join(os.path.dirname(unit_path), 'second_opinion_%d' % level)
        os.makedirs(d, exist_ok=True)
        open(os.path.join(d, 'unit.rs'), 'w').write(text)
        byk = {f['key']: f for f in m2['functions']}
        for k in todo:
            f = byk.get(k)
            if not f or 'fn_pattern' not in f:
                out[k] = dict(verified=False, note='no pattern')
                continue
            # Verus names a trait-impl method after the module of the TYPE: use the name it reported in the first run (vnames) when known
            vn = (vnames or {}).get(k)
            tries = []
            modsel = ['--verify-only-module', f['modpath']] if f.get('modpath') else ['--verify-root']
            if vn:
                tries.append(modsel + ['--verify-function', vn])        # the full Verus name is a unique substring; the module is the SOURCE module
            tries.append((['--verify-only-module', f['modpath']] if f.get('modpath') else ['--verify-root']) + ['--verify-function', f['fn_pattern']])
            res_k = dict(verified=False, level=level)
            for sel in tries:
                cmd = [VR.VERUS, 'unit.rs', '--output-json', '--rlimit', '20'] + sel
                try:
                    pr = subprocess.run(cmd, cwd=d, capture_output=True, text=True, timeout=180)
                    js = json.loads(pr.stdout[pr.stdout.index('{'):]) if '{' in pr.stdout else {}
                    vr = js.get('verification-results', {})
                    if vr.get('verified', 0) + vr.get('errors', 0) == 0:
                        continue        # the selection matched nothing (or was ambiguous): try the next spelling
                    ok = pr.returncode == 0 and vr.get('errors', 1) == 0 and vr.get('verified', 0) == 1
                    res_k = dict(verified=bool(ok), level=level, cmd=' '.join(cmd), verified_items=vr.get('verified'), errors=vr.get('errors'))
                    break
                except Exception as e:
                    res_k = dict(verified=False, level=level, note=str(e)[:200])
            out[k] = res_k
    return out


def sensitivity_selftest(pid):
    import glob
    import tempfile
    out = []
    # the first-wave seeds only (three per property): each costs one complete quick check on a scratch tree; dev/seedmatrix.py runs all 120
    for d in sorted(glob.glob(os.path.join(VERIF, 'seeded', pid + '_*'))):
        patch = os.path.join(d, 'patch.diff')
        if not os.path.exists(patch):
            continue
        try:
            conf = json.load(open(os.path.join(d, 'confirm.json'))).get('confirmed')
        except Exception:
            conf = None
        scratch = tempfile.mkdtemp(prefix='verif-sens-', dir='/var/tmp')
        try:
            subprocess.run(['rsync', '-a', '--exclude', 'target', '--exclude', '.git', REPO.rstrip('/') + '/', scratch + '/'], check=True)
            pr = subprocess.run(['patch', '-p1', '-s', '-i', patch], cwd=scratch, capture_output=True, text=True)
            if pr.returncode != 0:
                out.append(dict(seed=os.path.basename(d), verdict='patch does not apply to the current tree'))
                continue
            env = dict(os.environ, VERIF_REPO=scratch, VERIF_OUT=os.path.join(scratch, '_out'), VERIF_SENSITIVITY_CHILD='1')
            pr = subprocess.run([os.path.join(VERIF, 'check'), pid, '--tier', 'quick'], capture_output=True, text=True, env=env, timeout=3600)
            lines = [l for l in pr.stdout.split('\n') if re.match(r'(OK|VIOLATION|UNDECIDED)', l)]
            out.append(dict(seed=os.path.basename(d), confirmed=conf, verdict=(lines[0].split()[0] if lines else 'ERROR'), line=(lines[0][:300] if lines else pr.stdout[-200:])))
        except Exception as e:
            out.append(dict(seed=os.path.basename(d), verdict='error: %s' % e))
        finally:
            shutil.rmtree(scratch, ignore_errors=True)
    return dict(seeds=out, caught=sum(1 for o in out if o.get('verdict') == 'VIOLATION'), total=len(out),
                note='independent seeded changes (see seeded/*/meta.json); VIOLATION = caught, UNDECIDED = not decided (exit 2), OK = missed')




def concrete_fallback(pid, seed, ev, undecided):
    """The verifier could not decide: a concrete failing input on the real code still is a violation (never the other way round)."""
    cov = ev['coverage']
    res = None
    try:
        import rtcheck
        # the scenarios of the property itself, then those of the properties it rests on (`include`: e.g. C02 rests on the nonce functions of C15)
        for q in [pid] + list((PR.PROPS.get(pid) or {}).get('include', [])):
            res = rtcheck.search(q, 'undecided', seed)
            if res and res.get('found'):
                break
    except Exception as e:
        cov['rtcheck_error'] = str(e)
    if res is not None:
        cov['concrete_search'] = {k: v for k, v in res.items() if k != 'case'}
    if res and res.get('found'):
        x = VR.Failure()
        sc = res['case'].get('scenario', '?') if isinstance(res['case'], dict) else '?'
        x.obligation = 'concrete replay :: %s' % sc
        x.message = ('the verifier was undecided (%s); the concrete search found an input on which the real code violates the property'
                     % '; '.join(undecided)[:600])
        x.rendered = json.dumps(res['case'], indent=1)[:6000]
        x.kani = dict(counterexample=res['case'])
        path, found = write_replay(pid, x, seed)
        log('VIOLATION property=%s replay=%s obligation="%s"' % (pid, path, x.obligation))
        ev['violations'] = 1
        cov['failed_obligations'] = [x.obligation]
        return True
    return False


def write_replay(pid, x, seed):
    name = re.sub(r'[^\w.\[\]-]+', '_', x.obligation)[:120]
    path = os.path.join(OUT, 'replay', '%s-%s.json' % (pid, re.sub(r'[^A-Za-z0-9_.-]+', '_', name).strip('_')))
    rep = dict(property=pid, obligation=x.obligation, verifier_message=x.message, verifier_output=x.rendered,
               function=VR.short(x.fn_key) if x.fn_key else None, concrete_input=None, seed=seed)
    m = getattr(x, 'meta', None)
    if m:
        rep['repo_location'] = '%s:%d-%d' % (m['file'], m['lines'][0], m['lines'][1])
        if x.span_text:
            # locate the offending line in the repository source
            try:
                src = open(os.path.join(REPO, m['file'])).read().split('\n')
                for i in range(m['lines'][0] - 1, min(len(src), m['lines'][1])):
                    if src[i].strip() and src[i].strip() == x.span_text:
                        rep['repo_line'] = '%s:%d' % (m['file'], i + 1)
                        break
            except Exception:
                pass
    found = False
    kh = getattr(x, 'kani', None)
    if kh and kh.get('counterexample'):
        rep['concrete_input'] = kh['counterexample']
        found = True
    else:
        try:
            import rtcheck
            res = rtcheck.search(pid, x.obligation, seed)
            if res is not None:
                rep['concrete_search'] = {k: v for k, v in res.items() if k != 'case'}
                if res.get('found'):
                    rep['concrete_input'] = res['case']
                    rep['replay_cmd'] = '%s %s %s --repo %s --replay <this file>.concrete_input' % (sys.executable, rtcheck.RUNNER, pid, REPO)
                    found = True
        except Exception as e:
            rep['rtcheck_error'] = str(e)
    if not found:
        rep['note'] = 'no-failing-input-found: the verifier gives no model; the obligation above passed on the unchanged tree and fails now'
    json.dump(rep, open(path, 'w'), indent=1)
    return path, found


def run_kani(pid, P, tier, bdir):
    out = os.path.join(bdir, 'kani.json')
    script = os.path.join(VERIF, 'kani', 'run_kani.py')
    cmd = [sys.executable, script, '--props', pid, '--tier', tier, '--out', out]
    if P.get('kani_jobs'):
        cmd += ['--jobs', str(P['kani_jobs'])]
    res = dict(cmd=' '.join(cmd), harnesses=[], error=None)
    if not os.path.exists(script):
        res['error'] = 'kani layer not built'
        return res
    try:
        p = subprocess.run(cmd, capture_output=True, text=True, timeout=P.get('kani_timeout', 7200), env=dict(os.environ, VERIF_REPO=REPO))
        if os.path.exists(out):
            data = json.load(open(out))
            res['harnesses'] = data.get('harnesses', []) if isinstance(data, dict) else data
            if isinstance(data, dict) and data.get('error'):
                res['error'] = data['error']
        else:
            res['error'] = 'run_kani.py produced no result (rc=%s): %s' % (p.returncode, (p.stderr or '')[-400:])
    except subprocess.TimeoutExpired:
        res['error'] = 'run_kani.py timed out'
    return res


def replay(path):
    rep = json.load(open(path))
    pid = rep['property']
    log('replaying %s: obligation "%s"' % (path, rep['obligation']))
    if rep.get('concrete_input'):
        try:
            import rtcheck
            ok = rtcheck.replay(rep)
            log('concrete replay of the recorded input against the real code of the current tree: %s' % ('violation reproduced' if ok else 'NOT reproduced'))
            if ok:
                log('VIOLATION property=%s replay=%s obligation="%s"' % (pid, path, rep['obligation']))
                return 1
        except Exception as e:
            log('concrete input recorded (replay runner failed: %s): %s' % (e, json.dumps(rep['concrete_input'])[:400]))
    rc = check_property(pid, 'quick', rep.get('seed', 0))
    ev = json.load(open(os.path.join(OUT, 'evidence', pid + '.json')))
    still = rep['obligation'] in ev['coverage'].get('failed_obligations', [])
    log('obligation %s on the current tree: %s' % (rep['obligation'], 'STILL FAILS' if still else 'no longer fails'))
    return 1 if still else rc


def main(argv):
    if not argv:
        print(__doc__)
        return 2
    if argv[0] == '--setup':
        import compileall
        compileall.compile_dir(os.path.join(VERIF, 'extract'), quiet=1)
        compileall.compile_dir(os.path.join(VERIF, 'driver'), quiet=1)
        # smoke run: the frost_core unit must extract and type-check
        cfg = load_unit_cfg('frost_core')
        try:
            EX.build_unit(cfg)
        except Exception as e:
            log('setup: extractor failed: %s' % e)
            return 1
        # pre-build the Kani workspace and the concrete-search binary (both cache under /verif/build), so that the first check is not slow
        for what, cmd in (('kani', [sys.executable, os.path.join(VERIF, 'kani', 'run_kani.py'), '--build-only']),
                          ('rt', [sys.executable, os.path.join(VERIF, 'rt', 'run_rt.py'), 'list', '--quiet'])):
            if os.path.exists(cmd[1]):
                try:
                    pr = subprocess.run(cmd, capture_output=True, text=True, timeout=3600, env=dict(os.environ, VERIF_REPO=REPO))
                    log('setup: %s pre-build rc=%s' % (what, pr.returncode))
                except Exception as e:
                    log('setup: %s pre-build failed: %s (checks will build on demand)' % (what, e))
        log('setup ok')
        return 0
    if argv[0] == '--manifest':
        PR.write_manifest(os.path.join(VERIF, 'MANIFEST.json'))
        return 0
    if argv[0] == 'replay':
        return replay(argv[1])
    pid = argv[0]
    tier = os.environ.get('VERIF_TIER', 'quick')
    if '--tier' in argv:
        tier = argv[argv.index('--tier') + 1]
    seed = int(os.environ.get('VERIF_SEED', '0') or 0)
    return check_property(pid, tier, seed, keep='--keep' in argv)
